#!/bin/bash
# Runs the repository's pinned test suite (guard off; there are no hooks) and
# prints the failing tests. Usage: baseline.sh [repo-root]
REPO=${1:-/repo}
export GOFLAGS=-mod=mod GOPROXY=off GOSUMDB=off GOTOOLCHAIN=local
unset GOWORK
rc=0
for m in proxy/src/libs/shared-model proxy/src/libs/toolkit-core proxy/src/services/aggregation-output-plugin proxy/src/services/async-service proxy/src/services/flows-validator proxy/src/services/lunar-engine; do
  (cd $REPO/$m && go test -vet=off -count=1 -timeout 25m ./... 2>&1 | grep -E '^(--- FAIL|FAIL|ok|panic)' | grep -v '^ok' | sed "s|^|$m: |")
done
(cd $REPO && git checkout -- proxy/src/services/lunar-engine/streams/validation/policies.yaml 2>/dev/null; true)
