#!/bin/bash
# self-test: every Go property's verdicts on a behaviour-preserving variant of /repo (every local renamed,
# then the sources reshaped: see checker/cmd/renamer) equal those on /repo
cd /verif
T=$(mktemp -d /tmp/lunar-neutral-XXXX)
trap 'rm -rf $T' EXIT
rsync -a --exclude=.git /repo/ $T/tree/
./bin/renamer -repo $T/tree proxy/src/services/lunar-engine proxy/src/services/aggregation-output-plugin
./bin/renamer -repo $T/tree -shape eq,else,msg,inc,ord,lit,and,log proxy/src/services/lunar-engine proxy/src/services/aggregation-output-plugin proxy/src/libs/toolkit-core proxy/src/libs/shared-model
mkdir -p $T/a $T/b; cp known_findings.json $T/a; cp known_findings.json $T/b
one() { p=$1; T=$2
  ./bin/lunarcheck -p $p -repo /repo -verif $T/a >/dev/null 2>&1
  ./bin/lunarcheck -p $p -repo $T/tree -verif $T/b >/dev/null 2>&1
  d=$(diff <(jq -r '.coverage.samples[]|"\(.key) \(.verdict)"' $T/a/evidence/$p.json | sort) <(jq -r '.coverage.samples[]|"\(.key) \(.verdict)"' $T/b/evidence/$p.json | sort) | head -6)
  if [ -z "$d" ]; then echo "$p silent"; else echo "$p DIFFERS"; echo "$d"; fi; }
export -f one
for p in C01 C02 C03 C04 C05 C06 C07 C08 C09 C10 C11 C12 C13 C14 C15 C16 C17 C18 C20; do echo $p; done | xargs -P ${JOBS:-4} -I{} bash -c "one {} $T" | sort
