#!/usr/bin/env python3
"""Refreshes the generated tables of DESIGN.md: the seeded-change table (from
seeded/RESULTS.md) and the per-property coverage table (from evidence/*.json)."""
import json, os, re, glob
V = os.path.dirname(os.path.dirname(os.path.abspath(__file__)))
d = open(os.path.join(V, "DESIGN.md")).read()
tbl = open(os.path.join(V, "seeded", "RESULTS.md")).read().rstrip("\n")
d = re.sub(r"<!-- SEEDED-TABLE-BEGIN -->\n.*?<!-- SEEDED-TABLE-END -->", lambda m: "<!-- SEEDED-TABLE-BEGIN -->\n" + tbl + "\n<!-- SEEDED-TABLE-END -->", d, flags=re.S)
rows = ["| id | obligations | instructions inspected | known findings |", "|---|---|---|---|"]
for f in sorted(glob.glob(os.path.join(V, "evidence", "C*.json"))):
    e = json.load(open(f)); c = e["coverage"]
    rows.append(f"| {e['property_id']} | {c['obligations']} | {c['evaluations']} | {c.get('known_findings', 0)} |")
d = re.sub(r"\| id \| obligations \| instructions inspected \| known findings \|\n(\|.*\n)+", "\n".join(rows) + "\n", d)
kf = json.load(open(os.path.join(V, "known_findings.json")))["findings"]
frows = ["| property | obligation key | triage | failing input / schedule / history |", "|---|---|---|---|"]
for k in kf:
    tri = "fixed by `%s`" % k["commit"] if k["status"] == "fixed" else "**known** (not repaired)"
    what = re.sub(r"^fixed: property=\S+ \S+ ", "", k["what"]).replace("|", "/")
    frows.append(f"| {k['property']} | `{k['key']}` | {tri} | {what} |")
d = re.sub(r"<!-- FINDINGS-TABLE-BEGIN -->\n.*?<!-- FINDINGS-TABLE-END -->", lambda m: "<!-- FINDINGS-TABLE-BEGIN -->\n" + "\n".join(frows) + "\n<!-- FINDINGS-TABLE-END -->", d, flags=re.S)
nf = os.path.join(V, "seeded", "NEUTRAL.json")
if os.path.exists(nf):
    nr = json.load(open(nf))
    res = {r["seed"]: r for r in json.load(open(os.path.join(V, "seeded", "RESULTS.json")))}
    silent = [r for r in nr if r["status"] == "SILENT"]
    alarm = [r for r in nr if r["status"] != "SILENT"]
    both = [r for r in silent if res.get(r["seed"], {}).get("status") == "DETECTED"]
    txt = (f"Last run: **{len(silent)} of {len(nr)} refactorings silent**; for {len(both)} of those {len(silent)} the paired slip is reported "
           f"(the measure that matters: silent on the refactoring *and* loud on the slip). Still alarming ({len(alarm)}): "
           + ", ".join(f"{r['seed']} (`{r['rules'][0].split('/', 1)[1] if r['rules'] else r['status']}`)" for r in alarm) + ".")
    d = re.sub(r"<!-- NEUTRAL-NUMBERS -->(\n.*?<!-- /NEUTRAL-NUMBERS -->)?", lambda m: "<!-- NEUTRAL-NUMBERS -->\n" + txt + "\n<!-- /NEUTRAL-NUMBERS -->", d, flags=re.S)
open(os.path.join(V, "DESIGN.md"), "w").write(d)
print("tables refreshed")
