#!/bin/bash
# Usage: try_mutant.sh <patch.diff> <property id> [more property ids]
# Applies the patch to /repo, runs the quick checks, reverts. Prints DETECTED/MISSED.
P=$1; shift
cd /repo || exit 2
D=$(dirname "$P")
if [ -f "$D/patch.rebased.diff" ]; then P="$D/patch.rebased.diff"; fi
if ! git apply --check "$P" 2>/dev/null; then
  if ! git apply --3way "$P" >/dev/null 2>&1; then echo "PATCH-DOES-NOT-APPLY $P"; git reset -q; git checkout HEAD -- . ; exit 3; fi
  git reset -q
else
  git apply "$P"
fi
cd /verif
for id in "$@"; do
  if [ "$id" = C19 ]; then out=$(python3 pycheck/c19.py --tier quick 2>&1); rc=$?; else out=$(./bin/lunarcheck -p $id -tier quick 2>&1); rc=$?; fi
  if [ $rc -ne 0 ]; then echo "DETECTED by $id: $P"; echo "$out" | grep -A1 '^VIOLATION' | grep -v '^--' | cut -c1-500 | head -8; else echo "MISSED by $id: $P"; fi
done
git -C /repo checkout -- .
# restore evidence for the unchanged tree
for id in "$@"; do if [ "$id" = C19 ]; then python3 pycheck/c19.py --tier quick >/dev/null 2>&1; else ./bin/lunarcheck -p $id -tier quick >/dev/null 2>&1; fi; done
