#!/usr/bin/env python3
"""Thorough tier of one property.

1. The verdict: every obligation of the property is evaluated on /repo's
   current working tree (same rules as the quick tier) - this alone decides the
   exit code and the VIOLATION / KNOWN-FINDING lines.
2. On top of it the tier explores how the rule set behaves on VARIANTS of the
   current tree, each analysed statically in a scratch copy or through a source
   overlay (nothing is executed, /repo is never modified):
     a. every confirmed seeded change of the property under /verif/seeded must be
        reported (a rule that went vacuous after a refactoring shows up here);
     a'. every behaviour-preserving refactoring kept next to a seeded change
        (neutral.diff) is analysed too; one that is not silent is listed as
        REFACTORING-SENSITIVE (a known limit, not a failure);
     b. a behaviour-preserving variant (every receiver, parameter and local
        renamed; comparisons, if/else, keyed literals and messages reshaped)
        must give exactly the verdicts of the unchanged tree;
     c. a seeded sample of first-order syntactic mutants of the functions the
        obligations are anchored in measures how much of that code the rules
        look at; survivors are listed, they are not failures.
   The results are merged into the evidence file under coverage.variants.

usage: thorough.py Cxx        (env: VERIF_SEED, VERIF_MUTANTS=<n>, VERIF_JOBS=<n>)
"""
import glob, json, os, random, shutil, subprocess, sys, tempfile, time
from concurrent.futures import ThreadPoolExecutor

sys.path.insert(0, os.path.dirname(os.path.abspath(__file__)))
import variants as V
import mutation as M


def main():
    prop = sys.argv[1]
    seed = int(os.environ.get("VERIF_SEED", "0") or 0)
    n_mut = int(os.environ.get("VERIF_MUTANTS", "24"))
    jobs = int(os.environ.get("VERIF_JOBS", "8"))
    t0 = time.time()
    # 1. the verdict on the current tree
    if prop == "C19":
        cmd = ["python3", os.path.join(V.VERIF, "pycheck", "c19.py"), "--tier", "thorough"]
    else:
        cmd = [os.path.join(V.VERIF, "bin", "lunarcheck"), "-p", prop, "-tier", "thorough", "-repo", V.REPO]
    p = subprocess.run(cmd, cwd=V.VERIF)
    rc_base = p.returncode
    evfile = os.path.join(V.VERIF, "evidence", prop + ".json")
    try:
        ev = json.load(open(evfile))
    except Exception as e:
        print(f"thorough: no evidence written by the base run ({e})")
        return rc_base or 1
    obs = ev["coverage"].get("samples", [])
    base = {o["key"]: o["verdict"] for o in obs}
    base_bad = V.failing(base)

    tmp = tempfile.mkdtemp(prefix="lunar-thorough-")
    out = {"seeded": [], "refactorings": [], "neutral": None, "mutants": None}
    try:
        # a. seeded changes
        def seeded(d):
            name = os.path.basename(d)
            tree = os.path.join(tmp, "t-" + name)
            V.scratch_copy(tree)
            ok, how = V.apply_patch(tree, V.seeded_patch(d))
            if not ok:
                shutil.rmtree(tree, ignore_errors=True)
                return {"seed": name, "status": "patch does not apply to the current tree"}
            rc, verd, _ = V.run_check(prop, tree, os.path.join(tmp, "v-" + name))
            shutil.rmtree(tree, ignore_errors=True)
            new = sorted(V.failing(verd) - base_bad)
            return {"seed": name, "status": "detected" if rc != 0 and new else "MISSED", "by": new[:4]}

        def refactored(d):
            """the behaviour-preserving refactoring kept next to a seeded change must be silent"""
            name = os.path.basename(d)
            tree = os.path.join(tmp, "r-" + name)
            V.scratch_copy(tree)
            ok, how = V.apply_patch(tree, os.path.join(d, "neutral.diff"))
            if not ok:
                shutil.rmtree(tree, ignore_errors=True)
                return {"refactoring": name, "status": "does not apply to the current tree"}
            rc, verd, _ = V.run_check(prop, tree, os.path.join(tmp, "rv-" + name))
            shutil.rmtree(tree, ignore_errors=True)
            new = sorted(V.failing(verd) - base_bad) if verd is not None else ["(no evidence)"]
            return {"refactoring": name, "status": "silent" if rc == 0 and not new else "ALARM", "by": new[:4]}

        def neutral(_):
            if prop == "C19":
                return {"status": "not applicable (Python sources; no renamer)"}
            tree = os.path.join(tmp, "t-neutral")
            V.scratch_copy(tree)
            ok, msg = V.rename_locals(tree)
            if not ok:
                return {"status": "renamer failed: " + msg}
            rc, verd, o = V.run_check(prop, tree, os.path.join(tmp, "v-neutral"))
            shutil.rmtree(tree, ignore_errors=True)
            if verd is None:
                return {"status": "no evidence from the variant run"}
            if any("/R0/load" in k for k in verd):
                return {"status": "renamed tree does not type-check (variant invalid)", "renamer": msg}
            diff = sorted(k for k in set(base) | set(verd) if base.get(k) != verd.get(k))
            return {"status": "silent" if not diff else "DIFFERS", "renamer": msg, "differing": diff[:6], "obligations_compared": len(verd)}

        dirs = sorted(glob.glob(os.path.join(V.VERIF, "seeded", prop + "-m*")))
        with ThreadPoolExecutor(max_workers=jobs) as ex:
            fut_n = ex.submit(neutral, None)
            out["seeded"] = list(ex.map(seeded, dirs))
            out["refactorings"] = list(ex.map(refactored, [d for d in dirs if os.path.exists(os.path.join(d, "neutral.diff"))]))
            out["neutral"] = fut_n.result()
        # c. syntactic mutants of the anchored functions
        if prop == "C19" and n_mut > 0:
            import pymut
            total, res = pymut.measure(n_mut, seed, jobs)
            cnt = {s: sum(1 for r in res if r["status"] == s) for s in ("killed", "survived", "invalid", "error")}
            out["mutants"] = {"generated_in_anchored_functions": total, "sampled": len(res), "seed": seed, **cnt,
                              "survivors": [f"{r['file']}:{r['line']} {r['desc']}" for r in res if r["status"] == "survived"],
                              "sample_killed": [{"mutant": f"{r['file']}:{r['line']} {r['desc']}", "by": r.get("by", [])[:2]} for r in res if r["status"] == "killed"][:8]}
        if prop != "C19" and n_mut > 0:
            total, res = M.measure(prop, V.REPO, base_bad, obs, tmp, n_mut, seed, jobs)
            cnt = {s: sum(1 for r in res if r["status"] == s) for s in ("killed", "survived", "invalid", "error")}
            out["mutants"] = {"generated_in_anchored_functions": total, "sampled": len(res), "seed": seed, **cnt,
                              "survivors": [f"{r['file']}:{r['line']} {r['func']} [{r['op']}] {r['desc']}" for r in res if r["status"] == "survived"],
                              "sample_killed": [{"mutant": f"{r['file']}:{r['line']} [{r['op']}] {r['desc']}", "by": r["by"][:2]} for r in res if r["status"] == "killed"][:8]}
    finally:
        shutil.rmtree(tmp, ignore_errors=True)

    nd = sum(1 for s in out["seeded"] if s["status"] == "detected")
    na = sum(1 for s in out["seeded"] if s["status"] in ("detected", "MISSED"))
    print(f"thorough: seeded changes detected {nd}/{na} (of {len(out['seeded'])} on file)")
    for s in out["seeded"]:
        if s["status"] != "detected":
            print(f"thorough: LIVENESS-GAP seeded change {s['seed']}: {s['status']}")
    print(f"thorough: behaviour-preserving variant (renamed and reshaped): {out['neutral']['status']}")
    rf = out.get("refactorings", [])
    if rf:
        print(f"thorough: behaviour-preserving refactorings on file: {sum(1 for x in rf if x['status'] == 'silent')}/{len(rf)} silent")
        for x in rf:
            if x["status"] != "silent":
                print(f"thorough: REFACTORING-SENSITIVE {x['refactoring']}: {x['status']} {x.get('by', [])[:2]} (known limit, DESIGN 11.7)")
    if out["neutral"]["status"] == "DIFFERS":
        print(f"thorough: SELFTEST rename variant changes verdicts of {out['neutral']['differing']}")
    if out["mutants"]:
        m = out["mutants"]
        print(f"thorough: syntactic mutants of anchored functions: {m['killed']} noticed, {m['survived']} not, {m['invalid']} do not compile (sample {m['sampled']} of {m['generated_in_anchored_functions']}, seed {seed})")
    ev["tier"] = "thorough"
    cov = ev["coverage"]
    cov["variants"] = out
    cov["variant_runs"] = len(out.get("refactorings", [])) + na + (1 if out["neutral"] and out["neutral"]["status"] in ("silent", "DIFFERS") else 0) + (out["mutants"]["sampled"] if out["mutants"] else 0)
    cov["rule"] = cov.get("rule", "") + " | thorough: the same obligations, plus static analysis of scratch variants (seeded changes must be reported, a renamed and reshaped variant must be silent, sampled syntactic mutants measure rule liveness); variants never change the verdict"
    ev["wall_s"] = time.time() - t0
    json.dump(ev, open(evfile, "w"), indent=1)
    return rc_base


if __name__ == "__main__":
    sys.exit(main())
