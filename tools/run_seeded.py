#!/usr/bin/env python3
"""Analyses every seeded change under /verif/seeded in a scratch copy of /repo's
working tree (patch applied there, never in /repo), runs the property's quick
check on the copy and records which obligations fire.  Writes
/verif/seeded/RESULTS.json and RESULTS.md.

usage: run_seeded.py [Cxx|Cxx-mk ...]   (env VERIF_JOBS)"""
import glob, json, os, shutil, sys, tempfile
from concurrent.futures import ThreadPoolExecutor
sys.path.insert(0, os.path.dirname(os.path.abspath(__file__)))
import variants as V

only = sys.argv[1:]
dirs = [d for d in sorted(glob.glob(os.path.join(V.VERIF, "seeded", "C*-m*")))
        if not only or any(os.path.basename(d).startswith(o) for o in only)]
tmp = tempfile.mkdtemp(prefix="lunar-seeded-")
base = {}


def base_of(prop):
    if prop not in base:
        rc, verd, _ = V.run_check(prop, V.REPO, os.path.join(tmp, "vb-" + prop))
        base[prop] = V.failing(verd)
    return base[prop]


def one(d):
    name = os.path.basename(d)
    prop = name.split("-")[0]
    meta = json.load(open(os.path.join(d, "meta.json")))
    tree = os.path.join(tmp, "t-" + name)
    V.scratch_copy(tree)
    ok, how = V.apply_patch(tree, V.seeded_patch(d))
    if not ok:
        shutil.rmtree(tree, ignore_errors=True)
        return {"seed": name, "property": prop, "status": "patch does not apply on the current tree", "rules": [], "summary": meta.get("summary", "")[:300]}
    rc, verd, out = V.run_check(prop, tree, os.path.join(tmp, "v-" + name))
    shutil.rmtree(tree, ignore_errors=True)
    new = sorted(V.failing(verd) - base[prop])
    row = {"seed": name, "property": prop, "status": "DETECTED" if rc != 0 and new else "MISSED", "how": how,
           "summary": meta.get("summary", "")[:300], "needs": meta.get("needs_to_manifest", "")[:300], "rules": new[:6]}
    print(name, row["status"], row["rules"][:2], flush=True)
    return row


try:
    for p in sorted({os.path.basename(d).split("-")[0] for d in dirs}):
        base_of(p)
    with ThreadPoolExecutor(max_workers=int(os.environ.get("VERIF_JOBS", "8"))) as ex:
        rows = list(ex.map(one, dirs))
finally:
    shutil.rmtree(tmp, ignore_errors=True)
if not only:
    json.dump(rows, open(os.path.join(V.VERIF, "seeded", "RESULTS.json"), "w"), indent=1)
    with open(os.path.join(V.VERIF, "seeded", "RESULTS.md"), "w") as f:
        f.write("| seeded change | what it does | detected by (obligation keys) |\n|---|---|---|\n")
        for r in rows:
            f.write(f"| {r['seed']} | {r.get('summary','').replace('|','/')} | {r['status']}: {', '.join(r['rules'])} |\n")
print("detected", sum(r["status"] == "DETECTED" for r in rows), "of", len(rows))
for r in rows:
    if r["status"] != "DETECTED":
        print("  ", r["seed"], r["status"], "-", r.get("summary", "")[:200])
