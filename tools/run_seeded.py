#!/usr/bin/env python3
"""Applies every seeded change under /verif/seeded to /repo (one at a time, reverted
afterwards), runs the quick check of its property and records which obligations fire.
Writes /verif/seeded/RESULTS.json and RESULTS.md. /repo must be clean."""
import json, os, re, subprocess, sys, glob
V = os.path.dirname(os.path.dirname(os.path.abspath(__file__)))
def sh(cmd, cwd=None):
    p = subprocess.run(cmd, shell=True, cwd=cwd, capture_output=True, text=True, errors="replace")
    return p.returncode, p.stdout + p.stderr
rc, out = sh("git status --porcelain --untracked-files=no", "/repo")
if out.strip():
    print("/repo is not clean:", out); sys.exit(2)
rows = []
only = sys.argv[1:]
for d in sorted(glob.glob(os.path.join(V, "seeded", "C*-m*"))):
    name = os.path.basename(d)
    if only and not any(name.startswith(o) for o in only):
        continue
    prop = name.split("-")[0]
    meta = json.load(open(os.path.join(d, "meta.json")))
    patch = os.path.join(d, "patch.rebased.diff")
    if not os.path.exists(patch):
        patch = os.path.join(d, "patch.diff")
    rc, out = sh(f"git apply --check {patch}", "/repo")
    how = "applied"
    if rc != 0:
        rc, out = sh(f"git apply --3way {patch}", "/repo")
        sh("git reset -q", "/repo")
        how = "applied (3-way merge onto the repaired tree)"
        if rc != 0:
            sh("git checkout HEAD -- .", "/repo")
            rows.append({"seed": name, "property": prop, "status": "patch does not apply on the repaired tree", "rules": []}); continue
    else:
        sh(f"git apply {patch}", "/repo")
    cmd = f"python3 pycheck/c19.py --tier quick" if prop == "C19" else f"./bin/lunarcheck -p {prop} -tier quick"
    rc, out = sh(cmd, V)
    sh("git checkout HEAD -- .", "/repo")
    keys = re.findall(r"rule=(\S+) key=(\S+)", out)
    rows.append({"seed": name, "property": prop, "status": "DETECTED" if rc != 0 else "MISSED", "how": how,
                 "summary": meta.get("summary", "")[:300], "needs": meta.get("needs_to_manifest", "")[:300],
                 "rules": sorted({k for _, k in keys})[:6]})
    print(name, rows[-1]["status"], rows[-1]["rules"][:2], flush=True)
    # restore evidence of the unchanged tree
    sh(cmd, V)
json.dump(rows, open(os.path.join(V, "seeded", "RESULTS.json"), "w"), indent=1)
with open(os.path.join(V, "seeded", "RESULTS.md"), "w") as f:
    f.write("| seeded change | what it does | detected by (obligation keys) |\n|---|---|---|\n")
    for r in rows:
        f.write(f"| {r['seed']} | {r.get('summary','').replace('|','/')} | {r['status']}: {', '.join(r['rules'])} |\n")
print("detected", sum(r["status"] == "DETECTED" for r in rows), "of", len(rows))
