#!/usr/bin/env python3
"""Second pass over a mutation.py result: for every mutant the checker did not
notice, run the unit tests of the mutated file's own package with the mutant
overlaid (go test -overlay).  A survivor that the package's tests kill is not a
realistic seeded change (it would not pass the existing suite); what remains is
the list worth reading.  Development aid only - no check depends on it.

usage: mut_tests.py /tmp/mut-Cxx.json [--jobs J]
"""
import json, os, re, subprocess, sys, tempfile, shutil
from concurrent.futures import ThreadPoolExecutor

VERIF = os.path.dirname(os.path.dirname(os.path.abspath(__file__)))
ENV = dict(os.environ, GOFLAGS="-mod=mod", GOPROXY="off", GOSUMDB="off", GOTOOLCHAIN="local")
ENV.pop("GOWORK", None)
REPO = "/repo"


def fails(out):
    s = set(re.findall(r"^--- FAIL: (\S+)", out, re.M))
    if re.search(r"^panic:|\[build failed\]|test timed out|cannot use|undefined:", out, re.M):
        s.add("<build/panic/timeout>")
    return s


def gotest(pkgdir, overlay=None):
    cmd = ["go", "test", "-vet=off", "-count=1", "-timeout", "90s"]
    if overlay:
        cmd += ["-overlay", overlay]
    cmd += ["."]
    p = subprocess.run(cmd, cwd=pkgdir, env=ENV, stdout=subprocess.PIPE, stderr=subprocess.STDOUT, text=True, errors="replace")
    return p.returncode, p.stdout


def main():
    path = sys.argv[1]
    jobs = int(sys.argv[sys.argv.index("--jobs") + 1]) if "--jobs" in sys.argv else 6
    d = json.load(open(path))
    surv = [r for r in d["results"] if r["status"] == "survived"]
    tmp = tempfile.mkdtemp(prefix="lunar-mt-")
    try:
        byfile = {}
        for r in surv:
            byfile.setdefault(r["file"], []).append(r)
        base = {}
        work = []
        for f, rs in byfile.items():
            full = os.path.join(REPO, f)
            od = os.path.join(tmp, "mg%d" % len(os.listdir(tmp)))
            os.makedirs(od)
            lines = ",".join(str(r["line"]) for r in rs)
            p = subprocess.run([os.path.join(VERIF, "bin", "mutgen"), "-file", full, "-lines", lines, "-out", od], stdout=subprocess.PIPE, text=True)
            muts = json.loads(p.stdout or "[]") or []
            idx = {(m["line"], m["op"], m["desc"]): m for m in muts}
            pkgdir = os.path.dirname(full)
            if pkgdir not in base:
                rc, out = gotest(pkgdir)
                base[pkgdir] = fails(out)
            for r in rs:
                m = idx.get((r["line"], r["op"], r["desc"]))
                if m:
                    work.append((r, full, m["file"], pkgdir))

        def one(t):
            r, full, mfile, pkgdir = t
            ov = mfile + ".overlay.json"
            json.dump({"Replace": {full: mfile}}, open(ov, "w"))
            rc, out = gotest(pkgdir, ov)
            f = fails(out)
            r["tests"] = "killed-by-tests" if (f - base[pkgdir]) else "survives-tests"
            return r

        with ThreadPoolExecutor(max_workers=jobs) as ex:
            list(ex.map(one, work))
    finally:
        shutil.rmtree(tmp, ignore_errors=True)
    json.dump(d, open(path, "w"), indent=1)
    n = sum(1 for r in surv if r.get("tests") == "survives-tests")
    print(f"{d['property']}: checker-survivors={len(surv)} of which also survive the package tests={n}")
    for r in surv:
        if r.get("tests") == "survives-tests":
            print(f"  GAP? {r['file']}:{r['line']} {r['func']} [{r['op']}] {r['desc']}")


if __name__ == "__main__":
    main()
