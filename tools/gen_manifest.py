#!/usr/bin/env python3
"""Regenerates /verif/MANIFEST.json from the table below (kept valid at all times)."""
import json, os, sys
V = os.path.dirname(os.path.dirname(os.path.abspath(__file__)))
ENV = "GOFLAGS=-mod=mod GOPROXY=off GOSUMDB=off GOTOOLCHAIN=local GOWORK=off"
NOTE = ("Trusted base: Go type checker, x/tools v0.29.0 SSA builder/call graphs, the hand-confirmed anchor tables compiled into the checker. "
        "Decides a structural necessary condition of the property on every path/call site/accessor of the anchored constructs of /repo's current working tree; "
        "does not decide the behaviour over all histories/schedules/inputs (see DESIGN.md section 4 and 6). Aliasing by access path within a function and type+field across functions; no pointer analysis.")
# id -> (technique, text, design_ref)
CLAIMED = json.load(open(os.path.join(V, "tools", "claims.json")))
props = [json.loads(l) for l in open(os.path.join(V, "properties.jsonl"))]
checks, na = [], []
for p in props:
    pid = p["id"]
    c = CLAIMED.get(pid)
    if not c or c.get("na"):
        na.append({"property_id": pid, "reason": (c or {}).get("na", "no static rule implemented yet for this property in this revision of /verif (see DESIGN.md section 4 for the planned structural rules)")})
        continue
    eng = c.get("engine", "lunarcheck")
    if eng == "lunarcheck":
        q = f"./bin/lunarcheck -p {pid} -tier quick"
        t = f"python3 tools/thorough.py {pid}"
        rp = "./bin/lunarcheck -explain {path}"
    else:
        q = f"python3 pycheck/c19.py --tier quick"
        t = f"python3 tools/thorough.py {pid}"
        rp = "python3 pycheck/c19.py --explain {path}"
    checks.append({
        "property_id": pid, "quick_cmd": q, "thorough_cmd": t,
        "evidence_file": f"/verif/evidence/{pid}.json", "replay_cmd_template": rp, "engine": eng,
        "level_claimed": {"category": "other", "text": c["text"], "design_ref": c.get("design_ref", "DESIGN.md section 4 " + pid)},
        "level_note": NOTE, "technique": c["technique"]})
m = {
 "version": 1,
 "setup_cmd": f"cd /verif/checker && {ENV} go build -o /verif/bin/ ./cmd/lunarcheck ./cmd/mutgen ./cmd/renamer",
 "hooks": {"guard": "verif", "enable": "none: the machinery is purely static and never builds lunar with instrumentation; no hook commits exist",
           "baseline_off_cmd": "/verif/tools/baseline.sh /repo", "source_commits": [], "add_only": True},
 "engines": [
   {"name": "lunarcheck", "path": "/verif/checker", "serves_properties": [c["property_id"] for c in checks if c["engine"] == "lunarcheck"],
    "kind_free_text": "repository-specific static analyser in Go over go/packages + go/types + go/ssa (edge dominance, must-locksets with caller-held fixpoint, comparison normal forms, value provenance, who-may-call/write, switch-table exhaustiveness)"},
   {"name": "pycheck", "path": "/verif/pycheck", "serves_properties": [c["property_id"] for c in checks if c["engine"] == "pycheck"],
    "kind_free_text": "Python ast rules for the interceptor (C19)"}],
 "checks": checks,
 "not_applicable": na,
 "notes": "All claims are level 'other': static decision of structural necessary conditions, stated per property in level_claimed.text; clause-level not-applicable parts are listed in DESIGN.md section 6. quick = every obligation of the property on /repo's current working tree; thorough = the same verdict plus static analysis of scratch variants of the current tree (confirmed seeded changes must be reported, a rename-only variant must be silent, sampled syntactic mutants of the anchored functions measure rule liveness - DESIGN.md section 11); variants never change the exit code. Genuine defects found are in /verif/known_findings.json (fixed: entries name the fix commit in /repo)."
}
json.dump(m, open(os.path.join(V, "MANIFEST.json"), "w"), indent=1)
print("claimed", len(checks), "n/a", len(na))
