#!/usr/bin/env python3
"""confirm_mutant.py <prop> <k>: independently confirm a sub-agent's mutant in the scratch worktree /tmp/wt-<prop>
(at the pinned commit): patch applies and compiles, the demo fails with it and passes without it, the engine suite
keeps its baseline result. On success stores it under /verif/seeded/<prop>-m<k>/."""
import json, os, shutil, subprocess, sys, glob
prop, k = sys.argv[1], sys.argv[2]
wt = f"/tmp/wt-{prop}"; out = f"/tmp/out-{prop}/m{k}"
env = dict(os.environ, GOFLAGS="-mod=mod", GOPROXY="off", GOSUMDB="off", GOTOOLCHAIN="local")
env.pop("GOWORK", None)
def sh(cmd, cwd=wt, timeout=1500):
    p = subprocess.run(cmd, shell=True, cwd=cwd, env=env, capture_output=True, text=True, timeout=timeout)
    return p.returncode, (p.stdout + p.stderr)
def reset():
    sh("git checkout -- . && git clean -fdq")
meta = json.load(open(f"{out}/meta.json"))
demo_rel = meta["demo_path_in_repo"]; demo_cmd = meta["demo_cmd"]
demo_src = [f for f in glob.glob(f"{out}/*") if os.path.basename(f) == os.path.basename(demo_rel)]
if not demo_src:
    cands = [f for f in glob.glob(f"{out}/*") if f.endswith("_test.go") or f.endswith(".py")]
    demo_src = cands[:1]
res = {"property": prop, "mutant": k}
reset()
rc, o = sh(f"git apply --check {out}/patch.diff"); res["applies"] = rc == 0
if rc != 0: print(json.dumps(res)); sys.exit(1)
def place_demo():
    dst = os.path.join(wt, demo_rel); os.makedirs(os.path.dirname(dst), exist_ok=True); shutil.copy(demo_src[0], dst)
def run_demo():
    cmd = demo_cmd.replace(f"/tmp/wt-{prop}", wt)
    cwd = wt
    return sh(cmd, cwd=cwd)
# without mutant
place_demo(); rc, o = run_demo(); res["demo_passes_without"] = rc == 0
if rc != 0: res["demo_without_tail"] = o[-600:]
# with mutant
sh(f"git apply {out}/patch.diff"); rc, o = run_demo(); res["demo_fails_with"] = rc != 0
res["demo_with_tail"] = o[-300:]
# suite with mutant (demo removed)
os.remove(os.path.join(wt, demo_rel))
mods = ["proxy/src/services/lunar-engine"]
files = " ".join(meta.get("files_changed", []))
if "toolkit-core" in files or "shared-model" in files or "aggregation" in files: mods.append("proxy/src/services/aggregation-output-plugin")
fails = []
if "interceptors/" in files:
    res["suite_note"] = "python interceptor: suite run by demo only"
else:
    for m in mods:
        rc, o = sh("go build ./... && go test -vet=off -count=1 ./... 2>&1 | grep -E '^(--- FAIL|FAIL|panic)'", cwd=os.path.join(wt, m))
        fails += [l for l in o.splitlines() if l.startswith("--- FAIL") or "build failed" in l or l.startswith("panic")]
res["suite_failures_with"] = fails
res["suite_ok"] = [f.split(" (")[0] for f in fails] in ([], ["--- FAIL: TestLLMTokensProcessor"])
reset()
# wave 5: a behaviour-preserving refactoring delivered next to the patch
neutral = f"{out}/neutral.diff"
if os.path.exists(neutral):
    rc, o = sh(f"git apply --check {neutral}"); res["neutral_applies"] = rc == 0
    if rc == 0:
        sh(f"git apply {neutral}"); place_demo(); rc, o = run_demo(); res["demo_passes_with_neutral"] = rc == 0
        if rc != 0: res["demo_neutral_tail"] = o[-400:]
        os.remove(os.path.join(wt, demo_rel))
        nf = []
        if "interceptors/" not in files:
            for m in mods:
                rc, o = sh("go build ./... && go test -vet=off -count=1 ./... 2>&1 | grep -E '^(--- FAIL|FAIL|panic)'", cwd=os.path.join(wt, m))
                nf += [l for l in o.splitlines() if l.startswith("--- FAIL") or "build failed" in l or l.startswith("panic")]
        res["suite_failures_neutral"] = nf
        res["neutral_ok"] = res["demo_passes_with_neutral"] and [f.split(" (")[0] for f in nf] in ([], ["--- FAIL: TestLLMTokensProcessor"])
    else:
        res["neutral_ok"] = False
    reset()
ok = res["applies"] and res["demo_passes_without"] and res["demo_fails_with"] and res["suite_ok"]
res["confirmed"] = ok
if ok:
    dst = f"/verif/seeded/{prop}-m{k}"; os.makedirs(dst, exist_ok=True)
    shutil.copy(f"{out}/patch.diff", dst); shutil.copy(demo_src[0], dst)
    if res.get("neutral_ok"):
        shutil.copy(neutral, dst)
    meta["confirmed_by_me"] = {"ran": ["git apply --check", "demo without mutant (pass)", "demo with mutant (fail)", "go build + go test ./... of affected modules with mutant == baseline (only TestLLMTokensProcessor fails)"], "base_commit": subprocess.run("git rev-parse --short HEAD", shell=True, cwd=wt, capture_output=True, text=True).stdout.strip()}
    json.dump(meta, open(f"{dst}/meta.json", "w"), indent=1)
print(json.dumps(res))
