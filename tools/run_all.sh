#!/bin/bash
# run every property's quick check in parallel (4 at a time), print one line each
cd /verif
ids=$(jq -r '.checks[].property_id' MANIFEST.json)
run() { id=$1; out=$(bash -c "$(jq -r --arg id $id '.checks[]|select(.property_id==$id)|.quick_cmd' MANIFEST.json)" 2>&1); rc=$?; echo "$id rc=$rc $(echo "$out" | grep -c '^KNOWN-FINDING') known $(echo "$out" | grep -c '^VIOLATION') viol"; [ $rc -ne 0 ] && echo "$out" | grep -v '^KNOWN' | head -${LINES_ON_FAIL:-12}; }
export -f run
echo $ids | tr ' ' '\n' | xargs -P ${JOBS:-4} -I{} bash -c 'run {}' | sort
