#!/usr/bin/env python3
"""First-order syntactic mutants of the Python interceptor sources the C19
obligations are anchored in (comparison/boolean operators, negated tests,
flipped boolean constants in returns, deleted effect statements).  Each mutant
is written into its own scratch copy of the interceptor package and analysed
with pycheck/c19.py (LUNAR_REPO=<scratch>); nothing is imported or executed.

usage: pymut.py [--max N] [--seed S] [--jobs J]      (prints a summary; used by thorough.py)
"""
import ast, copy, json, os, random, shutil, subprocess, sys, tempfile
from concurrent.futures import ThreadPoolExecutor

VERIF = os.path.dirname(os.path.dirname(os.path.abspath(__file__)))
REPO = os.environ.get("LUNAR_REPO", "/repo")
REL = "interceptors/lunar-py-interceptor/lunar_interceptor/src/lunar_interceptor"
FILES = ["interceptor/fail_safe.py", "interceptor/traffic_filter.py", "interceptor/configuration.py", "interceptor/hooks/requests.py"]

CMP = {ast.Lt: [ast.LtE, ast.GtE], ast.LtE: [ast.Lt, ast.Gt], ast.Gt: [ast.GtE, ast.LtE], ast.GtE: [ast.Gt, ast.Lt],
       ast.Eq: [ast.NotEq], ast.NotEq: [ast.Eq], ast.Is: [ast.IsNot], ast.IsNot: [ast.Is], ast.In: [ast.NotIn], ast.NotIn: [ast.In]}


def sites(tree):
    """yield (description, lineno, apply(tree_copy_nodes)) - implemented by index into ast.walk order"""
    out = []
    nodes = list(ast.walk(tree))
    for idx, n in enumerate(nodes):
        if isinstance(n, ast.Compare):
            for k, op in enumerate(n.ops):
                for alt in CMP.get(type(op), []):
                    out.append((f"{ast.unparse(n)}  :  {type(op).__name__} -> {alt.__name__}", n.lineno, ("cmp", idx, k, alt)))
        elif isinstance(n, ast.BoolOp):
            alt = ast.Or if isinstance(n.op, ast.And) else ast.And
            out.append((f"{ast.unparse(n)}  :  {type(n.op).__name__} -> {alt.__name__}", n.lineno, ("boolop", idx, alt)))
            for k in range(len(n.values)):
                if len(n.values) > 1:
                    out.append((f"{ast.unparse(n)}  :  drop operand {k}", n.lineno, ("dropop", idx, k)))
        elif isinstance(n, (ast.If, ast.While)):
            out.append((f"if {ast.unparse(n.test)}  :  negate", n.lineno, ("neg", idx)))
        elif isinstance(n, ast.Return) and isinstance(n.value, ast.Constant) and isinstance(n.value.value, bool):
            out.append((f"return {n.value.value} -> {not n.value.value}", n.lineno, ("retflip", idx)))
        elif isinstance(n, (ast.FunctionDef, ast.AsyncFunctionDef, ast.If, ast.With, ast.Try, ast.For, ast.While)):
            pass
        if hasattr(n, "body") and isinstance(getattr(n, "body"), list):
            for k, st in enumerate(n.body):
                if isinstance(st, (ast.Assign, ast.AugAssign)) or (isinstance(st, ast.Expr) and isinstance(st.value, ast.Call)):
                    txt = ast.unparse(st)
                    if "logger" in txt or "_logger" in txt or txt.startswith("log"):
                        continue
                    if len(n.body) > 1:
                        out.append((f"delete `{txt[:60]}`", st.lineno, ("del", idx, k)))
    return out


def apply(tree, m):
    t = copy.deepcopy(tree)
    nodes = list(ast.walk(t))
    kind = m[0]
    n = nodes[m[1]]
    if kind == "cmp":
        n.ops[m[2]] = m[3]()
    elif kind == "boolop":
        n.op = m[2]()
    elif kind == "dropop":
        del n.values[m[2]]
        if len(n.values) == 1:
            # replace BoolOp by its single operand in the parent: simplest is to keep a BoolOp of one value duplicated
            n.values.append(copy.deepcopy(n.values[0]))
    elif kind == "neg":
        n.test = ast.UnaryOp(op=ast.Not(), operand=n.test)
    elif kind == "retflip":
        n.value = ast.Constant(value=not n.value.value)
    elif kind == "del":
        n.body[m[2]] = ast.Pass()
    return ast.fix_missing_locations(t)


def run_c19(repo, out):
    env = dict(os.environ, LUNAR_REPO=repo, LUNAR_VERIF_OUT=out)
    p = subprocess.run([sys.executable, os.path.join(VERIF, "pycheck", "c19.py"), "--tier", "quick"], env=env, stdout=subprocess.PIPE, stderr=subprocess.STDOUT, text=True)
    try:
        ev = json.load(open(os.path.join(out, "evidence", "C19.json")))
        bad = {o["key"] for o in ev["coverage"]["samples"] if o["verdict"] in ("VIOLATION", "UNDECIDED")}
    except Exception:
        bad = None
    return p.returncode, bad


def measure(max_n=0, seed=0, jobs=8):
    tmp = tempfile.mkdtemp(prefix="lunar-pymut-")
    try:
        base_root = os.path.join(tmp, "base")
        shutil.copytree(os.path.join(REPO, REL), os.path.join(base_root, REL))
        rc, base_bad = run_c19(base_root, os.path.join(tmp, "vb"))
        base_bad = base_bad or set()
        muts = []
        for f in FILES:
            path = os.path.join(REPO, REL, f)
            try:
                tree = ast.parse(open(path).read())
            except Exception:
                continue
            for desc, line, m in sites(tree):
                muts.append((f, desc, line, m, tree))
        total = len(muts)
        if max_n and total > max_n:
            random.Random(seed).shuffle(muts)
            muts = muts[:max_n]

        def one(i_m):
            i, (f, desc, line, m, tree) = i_m
            root = os.path.join(tmp, f"m{i}")
            shutil.copytree(os.path.join(base_root, REL), os.path.join(root, REL))
            try:
                src = ast.unparse(apply(tree, m))
            except Exception as e:
                return dict(file=f, line=line, desc=desc, status="invalid")
            open(os.path.join(root, REL, f), "w").write(src)
            rc, bad = run_c19(root, os.path.join(tmp, f"v{i}"))
            shutil.rmtree(root, ignore_errors=True)
            if bad is None:
                return dict(file=f, line=line, desc=desc, status="error")
            new = sorted(bad - base_bad)
            return dict(file=f, line=line, desc=desc, status="killed" if rc != 0 and new else "survived", by=new[:2])

        with ThreadPoolExecutor(max_workers=jobs) as ex:
            res = list(ex.map(one, enumerate(muts)))
        return total, res
    finally:
        shutil.rmtree(tmp, ignore_errors=True)


if __name__ == "__main__":
    mx = int(sys.argv[sys.argv.index("--max") + 1]) if "--max" in sys.argv else 0
    sd = int(sys.argv[sys.argv.index("--seed") + 1]) if "--seed" in sys.argv else 0
    jb = int(sys.argv[sys.argv.index("--jobs") + 1]) if "--jobs" in sys.argv else 8
    total, res = measure(mx, sd, jb)
    cnt = {s: sum(1 for r in res if r["status"] == s) for s in ("killed", "survived", "invalid", "error")}
    print(f"C19: mutants generated={total} analysed={len(res)} {cnt}")
    for r in res:
        if r["status"] == "survived":
            print(f"  SURVIVED {r['file']}:{r['line']} {r['desc']}")
