#!/bin/bash
# try_scratch.sh <seed> [lunarcheck binary] [neutral.diff|patch.diff]: applies the diff of a seeded change in a scratch copy of /repo
# (never in /repo), runs the property's quick check on the copy, prints the violations, removes the copy.
s=$1; p=${s%%-*}; bin=${2:-/verif/bin/lunarcheck}; which=${3:-neutral.diff}
t=/tmp/sc-$s; rm -rf $t /tmp/scv-$s; mkdir -p $t /tmp/scv-$s
rsync -a --exclude=.git /repo/ $t/
(cd $t && git apply --whitespace=nowarn /verif/seeded/$s/$which) || { echo "apply failed"; exit 2; }
cp /verif/known_findings.json /tmp/scv-$s/
if [ $p = C19 ]; then out=$(LUNAR_REPO=$t LUNAR_VERIF_OUT=/tmp/scv-$s python3 /verif/pycheck/c19.py --tier quick 2>&1); rc=$?
else out=$(cd /verif && $bin -p $p -repo $t -verif /tmp/scv-$s 2>&1); rc=$?; fi
echo "$out" | grep -A1 '^VIOLATION' | cut -c1-900
echo "check exit code: $rc"
rm -rf $t /tmp/scv-$s
