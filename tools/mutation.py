#!/usr/bin/env python3
"""Rule-liveness measurement: first-order syntactic mutants of the functions a
property's obligations are anchored in, each analysed through `lunarcheck
-overlay` (the working tree is never modified).  A mutant is
  killed   - the check exits 1 with an obligation that did not fail on the base tree
  invalid  - the mutated tree does not type-check (load failure)
  survived - the check is silent
Survivors are either edits the property does not care about (logging, an
equivalent comparison, a clause declared not decided) or gaps in the rules; they
are listed for reading and never change a verdict.

usage: mutation.py Cxx [--max N] [--seed S] [--jobs J] [--json out.json] [--repo DIR]
"""
import argparse, json, os, random, re, shutil, subprocess, sys, tempfile
from concurrent.futures import ThreadPoolExecutor

VERIF = os.path.dirname(os.path.dirname(os.path.abspath(__file__)))


def sh(cmd, **kw):
    return subprocess.run(cmd, stdout=subprocess.PIPE, stderr=subprocess.STDOUT, text=True, errors="replace", **kw)


def failing_keys(evfile):
    try:
        ev = json.load(open(evfile))
    except Exception:
        return None, []
    obs = ev["coverage"].get("samples", [])
    bad = {o["key"] for o in obs if o.get("verdict") in ("VIOLATION", "UNDECIDED")}
    return bad, obs


def anchors(obs, repo):
    """(file -> sorted lines) of the Go source positions obligations point at"""
    out = {}
    for o in obs:
        m = re.match(r"(.+\.go):(\d+)", o.get("where") or "")
        if not m:
            continue
        f = os.path.join(repo, m.group(1))
        if os.path.exists(f) and not f.endswith("_test.go"):
            out.setdefault(f, set()).add(int(m.group(2)))
    return out


def run_variant(prop, repo, overlay, tmp, tag):
    vdir = os.path.join(tmp, "v-" + tag)
    os.makedirs(vdir, exist_ok=True)
    shutil.copy(os.path.join(VERIF, "known_findings.json"), vdir)
    cmd = [os.path.join(VERIF, "bin", "lunarcheck"), "-p", prop, "-repo", repo, "-verif", vdir]
    for o, r in overlay:
        cmd += ["-overlay", f"{o}={r}"]
    p = sh(cmd)
    bad, _ = failing_keys(os.path.join(vdir, "evidence", prop + ".json"))
    shutil.rmtree(vdir, ignore_errors=True)
    return p.returncode, bad, p.stdout


def measure(prop, repo, base_bad, obs, tmp, max_n=0, seed=0, jobs=10, quiet=False):
    muts = []
    for f, lines in sorted(anchors(obs, repo).items()):
        od = os.path.join(tmp, "mg-" + str(len(muts)))
        os.makedirs(od, exist_ok=True)
        p = subprocess.run([os.path.join(VERIF, "bin", "mutgen"), "-file", f, "-lines", ",".join(map(str, sorted(lines))), "-out", od],
                           stdout=subprocess.PIPE, text=True)
        if p.returncode != 0:
            continue
        for m in json.loads(p.stdout or "[]") or []:
            m["orig"] = f
            muts.append(m)
    total = len(muts)
    if max_n and total > max_n:
        random.Random(seed).shuffle(muts)
        muts = sorted(muts[:max_n], key=lambda m: (m["orig"], m["line"], m["id"]))

    def one(i_m):
        i, m = i_m
        rc, bad, out = run_variant(prop, repo, [(m["orig"], m["file"])], tmp, str(i))
        if bad is None:
            st = "error"
            new = []
        else:
            new = sorted(bad - base_bad)
            if any("/R0/load" in k for k in new):
                st = "invalid"
            elif rc != 0 and new:
                st = "killed"
            else:
                st = "survived"
        return dict(file=os.path.relpath(m["orig"], repo), line=m["line"], func=m["func"], op=m["op"], desc=m["desc"], status=st, by=new[:3])

    with ThreadPoolExecutor(max_workers=jobs) as ex:
        res = list(ex.map(one, enumerate(muts)))
    return total, res


def main():
    ap = argparse.ArgumentParser()
    ap.add_argument("prop")
    ap.add_argument("--max", type=int, default=0)
    ap.add_argument("--seed", type=int, default=0)
    ap.add_argument("--jobs", type=int, default=10)
    ap.add_argument("--json")
    ap.add_argument("--repo", default="/repo")
    a = ap.parse_args()
    tmp = tempfile.mkdtemp(prefix="lunar-mut-")
    try:
        rc, base_bad, out = run_variant(a.prop, a.repo, [], tmp, "base")
        vdir = os.path.join(tmp, "v-base2")
        os.makedirs(vdir)
        shutil.copy(os.path.join(VERIF, "known_findings.json"), vdir)
        sh([os.path.join(VERIF, "bin", "lunarcheck"), "-p", a.prop, "-repo", a.repo, "-verif", vdir])
        base_bad, obs = failing_keys(os.path.join(vdir, "evidence", a.prop + ".json"))
        total, res = measure(a.prop, a.repo, base_bad, obs, tmp, a.max, a.seed, a.jobs)
    finally:
        shutil.rmtree(tmp, ignore_errors=True)
    n = {s: sum(1 for r in res if r["status"] == s) for s in ("killed", "survived", "invalid", "error")}
    print(f"{a.prop}: mutants generated={total} analysed={len(res)} killed={n['killed']} survived={n['survived']} invalid={n['invalid']} error={n['error']}")
    for r in res:
        if r["status"] == "survived":
            print(f"  SURVIVED {r['file']}:{r['line']} {r['func']} [{r['op']}] {r['desc']}")
    if a.json:
        json.dump(dict(property=a.prop, generated=total, results=res), open(a.json, "w"), indent=1)


if __name__ == "__main__":
    main()
