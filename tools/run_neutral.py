#!/usr/bin/env python3
"""Analyses every behaviour-preserving refactoring kept next to a seeded change
(/verif/seeded/Cxx-mk/neutral.diff: the same restructuring as patch.diff without
the slip; confirmed to pass the repository's suite and the demonstration) in a
scratch copy of /repo's working tree and requires the property's quick check to
stay silent on it: exit code 0 and no obligation that fails there but holds on
the unchanged tree.  An ALARM here is a false alarm of the rule named.
Writes /verif/seeded/NEUTRAL.json and NEUTRAL.md on a full run.

usage: run_neutral.py [Cxx|Cxx-mk ...]   (env VERIF_JOBS)"""
import glob, json, os, shutil, sys, tempfile
from concurrent.futures import ThreadPoolExecutor
sys.path.insert(0, os.path.dirname(os.path.abspath(__file__)))
import variants as V

only = sys.argv[1:]
dirs = [d for d in sorted(glob.glob(os.path.join(V.VERIF, "seeded", "C*-m*")))
        if os.path.exists(os.path.join(d, "neutral.diff"))
        and (not only or any(os.path.basename(d).startswith(o) for o in only))]
tmp = tempfile.mkdtemp(prefix="lunar-neutral-")
base = {}


def one(d):
    name = os.path.basename(d)
    prop = name.split("-")[0]
    meta = json.load(open(os.path.join(d, "meta.json")))
    tree = os.path.join(tmp, "t-" + name)
    V.scratch_copy(tree)
    ok, how = V.apply_patch(tree, os.path.join(d, "neutral.diff"))
    if not ok:
        shutil.rmtree(tree, ignore_errors=True)
        return {"seed": name, "property": prop, "status": "refactoring does not apply on the current tree", "rules": [], "refactoring": meta.get("refactoring", "")[:300]}
    rc, verd, out = V.run_check(prop, tree, os.path.join(tmp, "v-" + name))
    shutil.rmtree(tree, ignore_errors=True)
    new = sorted(V.failing(verd) - base[prop]) if verd is not None else ["(no evidence written)"]
    row = {"seed": name, "property": prop, "status": "SILENT" if rc == 0 and not new else "ALARM", "refactoring": meta.get("refactoring", "")[:300], "rules": new[:8]}
    print(name, row["status"], row["rules"][:3], flush=True)
    return row


try:
    for p in sorted({os.path.basename(d).split("-")[0] for d in dirs}):
        rc, verd, _ = V.run_check(p, V.REPO, os.path.join(tmp, "vb-" + p))
        base[p] = V.failing(verd)
    with ThreadPoolExecutor(max_workers=int(os.environ.get("VERIF_JOBS", "8"))) as ex:
        rows = list(ex.map(one, dirs))
finally:
    shutil.rmtree(tmp, ignore_errors=True)
if not only:
    json.dump(rows, open(os.path.join(V.VERIF, "seeded", "NEUTRAL.json"), "w"), indent=1)
    with open(os.path.join(V.VERIF, "seeded", "NEUTRAL.md"), "w") as f:
        f.write("| refactoring (no slip) | what it restructures | verdicts |\n|---|---|---|\n")
        for r in rows:
            f.write(f"| {r['seed']} | {r.get('refactoring','').replace('|','/')} | {r['status']}{': ' + ', '.join(r['rules']) if r['rules'] else ''} |\n")
print("silent on", sum(r["status"] == "SILENT" for r in rows), "of", len(rows))
for r in rows:
    if r["status"] != "SILENT":
        print("  ", r["seed"], r["status"], r["rules"][:4])
sys.exit(0 if all(r["status"] == "SILENT" for r in rows) else 1)
