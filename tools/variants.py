"""Helpers shared by the thorough tier and the seeded-change runner: analyse
scratch variants of /repo's working tree without ever touching /repo.

A variant is a copy of the working tree (no .git) in a temp directory, with a
patch applied or identifiers renamed; the checker is pointed at it with -repo
and writes its evidence into a temp verif directory.  Everything lives under
one temp root that the caller removes."""
import json, os, shutil, subprocess

VERIF = os.path.dirname(os.path.dirname(os.path.abspath(__file__)))
REPO = os.environ.get("LUNAR_REPO", "/repo")
GOENV = dict(os.environ, GOFLAGS="-mod=mod", GOPROXY="off", GOSUMDB="off", GOTOOLCHAIN="local")
GOENV.pop("GOWORK", None)
GO_MODS = ["proxy/src/services/lunar-engine", "proxy/src/services/aggregation-output-plugin"]
SHAPE_EXTRA_MODS = ["proxy/src/libs/toolkit-core", "proxy/src/libs/shared-model"]


def sh(cmd, cwd=None, env=None, timeout=None):
    p = subprocess.run(cmd, cwd=cwd, env=env, stdout=subprocess.PIPE, stderr=subprocess.STDOUT, text=True, errors="replace", timeout=timeout)
    return p.returncode, p.stdout


def scratch_copy(dst, src=None):
    src = src or REPO
    os.makedirs(dst, exist_ok=True)
    rc, out = sh(["rsync", "-a", "--exclude=.git", src.rstrip("/") + "/", dst.rstrip("/") + "/"])
    if rc != 0:
        raise RuntimeError("rsync failed: " + out)
    return dst


def apply_patch(tree, patch):
    """git apply works outside a repository; fall back to patch(1) with fuzz."""
    rc, out = sh(["git", "apply", "--whitespace=nowarn", patch], cwd=tree)
    if rc == 0:
        return True, "git apply"
    rc2, out2 = sh(["patch", "-p1", "-s", "-N", "-i", patch], cwd=tree)
    if rc2 == 0:
        return True, "patch -p1"
    return False, (out + out2)[-400:]


def seeded_patch(d):
    p = os.path.join(d, "patch.rebased.diff")
    return p if os.path.exists(p) else os.path.join(d, "patch.diff")


def run_check(prop, repo, vdir, overlay=()):
    """Runs the property's checker on the given tree; returns (rc, {key: verdict}, stdout)."""
    os.makedirs(vdir, exist_ok=True)
    shutil.copy(os.path.join(VERIF, "known_findings.json"), vdir)
    if prop == "C19":
        env = dict(os.environ, LUNAR_REPO=repo, LUNAR_VERIF_OUT=vdir)
        rc, out = sh(["python3", os.path.join(VERIF, "pycheck", "c19.py"), "--tier", "quick"], cwd=VERIF, env=env)
    else:
        cmd = [os.environ.get("LUNARCHECK_BIN", os.path.join(VERIF, "bin", "lunarcheck")), "-p", prop, "-repo", repo, "-verif", vdir]
        for o, r in overlay:
            cmd += ["-overlay", f"{o}={r}"]
        rc, out = sh(cmd, cwd=VERIF)
    verdicts = None
    try:
        ev = json.load(open(os.path.join(vdir, "evidence", prop + ".json")))
        verdicts = {o["key"]: o["verdict"] for o in ev["coverage"].get("samples", [])}
    except Exception:
        pass
    return rc, verdicts, out


def failing(verdicts):
    return {k for k, v in (verdicts or {}).items() if v in ("VIOLATION", "UNDECIDED")}


def rename_locals(tree):
    """Behaviour-preserving variant: every receiver/parameter/local gets another name."""
    rc, out = sh([os.path.join(VERIF, "bin", "renamer"), "-repo", tree] + GO_MODS, env=GOENV)
    if rc != 0:
        return False, out.strip()[-300:]
    # ... and the sources are reshaped (operands of comparisons swapped, if/else flipped, messages
    # reworded, keyed literals reordered, x++ -> x += 1; checker/cmd/renamer/shape.go)
    rc2, out2 = sh([os.path.join(VERIF, "bin", "renamer"), "-repo", tree, "-shape", "eq,else,msg,inc,ord,lit,and,log"] + GO_MODS + SHAPE_EXTRA_MODS, env=GOENV)
    return rc2 == 0, (out.strip()[-200:] + "; " + out2.strip()[-200:])
