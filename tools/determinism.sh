#!/bin/bash
# self-test: every quick check run N times (default 4) on /repo gives the same obligations, verdicts and details.
# A rule whose verdict depends on map iteration order shows up here as more than one digest.
cd /verif
N=${N:-4}
T=$(mktemp -d /tmp/lunar-det-XXXX)
trap 'rm -rf $T' EXIT
det() { p=$1; T=$2; N=$3
  for i in $(seq 1 $N); do d=$T/v-$p-$i; mkdir -p $d; cp /verif/known_findings.json $d/
    if [ $p = C19 ]; then LUNAR_VERIF_OUT=$d python3 pycheck/c19.py --tier quick > $T/$p-$i.out 2>&1
    else ./bin/lunarcheck -p $p -verif $d > $T/$p-$i.out 2>&1; fi
    grep -E "^(ok|VIOLATION|KNOWN|UNDEC|      rule=)" $T/$p-$i.out | cut -c1-160 | sort | md5sum | cut -c1-8
  done | sort | uniq -c | awk -v p=$p '{n++; s=s" "$1"x"$2} END {print p, (n==1 ? "same" : "DIFFERS"), s}'; }
export -f det
jq -r '.checks[].property_id' MANIFEST.json | xargs -P ${JOBS:-6} -I{} bash -c "det {} $T $N" | sort
