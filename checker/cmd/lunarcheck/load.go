package main

import (
	"fmt"
	"go/token"
	"go/types"
	"os"
	"path/filepath"
	"sort"
	"strings"

	"golang.org/x/tools/go/packages"
	"golang.org/x/tools/go/ssa"
	"golang.org/x/tools/go/ssa/ssautil"
)

// Module directories below the repository root.
const (
	modEngine    = "proxy/src/services/lunar-engine"
	modAgg       = "proxy/src/services/aggregation-output-plugin"
	modValidator = "proxy/src/services/flows-validator"
)

// World is one loaded, type-checked, SSA-built set of modules.
type World struct {
	Repo     string
	Fset     *token.FileSet
	Pkgs     []*packages.Package // lunar/* packages only (sorted by path)
	AllPkgs  []*packages.Package
	ByPath   map[string]*packages.Package
	Prog     *ssa.Program
	SSAPkg   map[string]*ssa.Package
	allFuncs map[*ssa.Function]bool
	lunarFns []*ssa.Function // functions (incl. anonymous) whose package is lunar/*
	callIdx  map[string][]CallSite
}

func goEnv() []string {
	env := []string{}
	for _, e := range os.Environ() {
		if strings.HasPrefix(e, "GOFLAGS=") || strings.HasPrefix(e, "GOWORK=") ||
			strings.HasPrefix(e, "GOPROXY=") || strings.HasPrefix(e, "GOSUMDB=") ||
			strings.HasPrefix(e, "GOTOOLCHAIN=") {
			continue
		}
		env = append(env, e)
	}
	return append(env, "GOFLAGS=-mod=mod", "GOWORK=off", "GOPROXY=off", "GOSUMDB=off", "GOTOOLCHAIN=local")
}

// LoadWorld loads the given module directories (relative to repo) from the
// current working tree and builds SSA for everything reachable.
func LoadWorld(repo string, mods ...string) (*World, error) {
	w := &World{Repo: repo, Fset: token.NewFileSet(), ByPath: map[string]*packages.Package{}, SSAPkg: map[string]*ssa.Package{}}
	var roots []*packages.Package
	ov, err := overlayMap()
	if err != nil {
		return nil, err
	}
	for _, m := range mods {
		cfg := &packages.Config{
			Mode:    packages.LoadAllSyntax,
			Dir:     filepath.Join(repo, m),
			Fset:    w.Fset,
			Tests:   false,
			Env:     goEnv(),
			Overlay: ov,
		}
		pkgs, err := packages.Load(cfg, "./...")
		if err != nil {
			return nil, fmt.Errorf("load %s: %w", m, err)
		}
		if len(pkgs) == 0 {
			return nil, fmt.Errorf("load %s: zero packages", m)
		}
		roots = append(roots, pkgs...)
	}
	var errs []string
	packages.Visit(roots, nil, func(p *packages.Package) {
		for _, e := range p.Errors {
			errs = append(errs, fmt.Sprintf("%s: %s", p.PkgPath, e.Error()))
		}
		if _, dup := w.ByPath[p.PkgPath]; !dup {
			w.ByPath[p.PkgPath] = p
			w.AllPkgs = append(w.AllPkgs, p)
			if strings.HasPrefix(p.PkgPath, "lunar/") {
				w.Pkgs = append(w.Pkgs, p)
			}
		}
	})
	if len(errs) > 0 {
		sort.Strings(errs)
		if len(errs) > 8 {
			errs = errs[:8]
		}
		return nil, fmt.Errorf("type/load errors: %s", strings.Join(errs, "; "))
	}
	if len(w.Pkgs) == 0 {
		return nil, fmt.Errorf("no lunar/* packages loaded")
	}
	sort.Slice(w.Pkgs, func(i, j int) bool { return w.Pkgs[i].PkgPath < w.Pkgs[j].PkgPath })
	prog, _ := ssautil.AllPackages(roots, ssa.InstantiateGenerics)
	prog.Build()
	w.Prog = prog
	for _, p := range prog.AllPackages() {
		w.SSAPkg[p.Pkg.Path()] = p
	}
	w.allFuncs = ssautil.AllFunctions(prog)
	// generic origins are not in any method set: add declared functions and
	// methods of lunar/* packages explicitly
	var addFn func(f *ssa.Function)
	addFn = func(f *ssa.Function) {
		if f == nil || w.allFuncs[f] {
			return
		}
		w.allFuncs[f] = true
		for _, a := range f.AnonFuncs {
			addFn(a)
		}
	}
	for _, p := range w.Pkgs {
		sc := p.Types.Scope()
		for _, n := range sc.Names() {
			switch o := sc.Lookup(n).(type) {
			case *types.Func:
				addFn(prog.FuncValue(o))
			case *types.TypeName:
				if nt, ok := o.Type().(*types.Named); ok {
					for i := 0; i < nt.NumMethods(); i++ {
						addFn(prog.FuncValue(nt.Method(i)))
					}
				}
			}
		}
	}
	for f := range w.allFuncs {
		if strings.HasPrefix(fnPkgPath(f), "lunar/") && f.Blocks != nil {
			w.lunarFns = append(w.lunarFns, f)
		}
	}
	sort.Slice(w.lunarFns, func(i, j int) bool {
		a, b := w.lunarFns[i], w.lunarFns[j]
		if a.String() != b.String() {
			return a.String() < b.String()
		}
		return a.Pos() < b.Pos()
	})
	w.findRenames()
	w.findHelpers()
	w.findCalledClosures()
	for _, f := range w.lunarFns {
		canonicaliseComparisons(f)
	}
	return w, nil
}

// canonicaliseComparisons rewrites > and >= into < and <= and gives the operands
// of every == and != a fixed order
// that does not depend on how the source spells the comparison (`err != nil`
// and `nil != err`, `a.x == b.y` and `b.y == a.x` are the same test): a
// constant goes to the right, otherwise the operand with the smaller access
// path goes to the left. The rules then see one form only.
func canonicaliseComparisons(f *ssa.Function) {
	for _, b := range f.Blocks {
		for _, in := range b.Instrs {
			bo, ok := in.(*ssa.BinOp)
			if !ok {
				continue
			}
			// `a > b` is `b < a`, `a >= b` is `b <= a`: only < and <= remain
			switch bo.Op {
			case token.GTR:
				bo.X, bo.Y, bo.Op = bo.Y, bo.X, token.LSS
			case token.GEQ:
				bo.X, bo.Y, bo.Op = bo.Y, bo.X, token.LEQ
			}
			if bo.Op != token.EQL && bo.Op != token.NEQ {
				continue
			}
			_, xc := bo.X.(*ssa.Const)
			_, yc := bo.Y.(*ssa.Const)
			switch {
			case xc && !yc:
				bo.X, bo.Y = bo.Y, bo.X
			case !xc && !yc:
				if Path(bo.Y) < Path(bo.X) {
					bo.X, bo.Y = bo.Y, bo.X
				}
			}
		}
	}
}

func fnPkgPath(f *ssa.Function) string {
	for f.Parent() != nil {
		f = f.Parent()
	}
	if o := f.Origin(); o != nil {
		f = o
	}
	if f.Pkg != nil {
		return f.Pkg.Pkg.Path()
	}
	if f.Object() != nil && f.Object().Pkg() != nil {
		return f.Object().Pkg().Path()
	}
	return ""
}

// Pos renders a position relative to the repository root.
func (w *World) Pos(p token.Pos) string {
	if !p.IsValid() {
		return "-"
	}
	pp := w.Fset.Position(p)
	rel, err := filepath.Rel(w.Repo, pp.Filename)
	if err != nil {
		rel = pp.Filename
	}
	return fmt.Sprintf("%s:%d", rel, pp.Line)
}

// Named looks up a named type.
func (w *World) Named(pkg, name string) *types.Named {
	p := w.ByPath[pkg]
	if p == nil || p.Types == nil {
		return nil
	}
	o := p.Types.Scope().Lookup(name)
	if o == nil {
		return nil
	}
	n, _ := o.Type().(*types.Named)
	return n
}

// Fn finds a package-level function ("Name") or method ("Type.Method",
// pointer or value receiver alike). For generic types the origin (generic
// body) is returned.
func (w *World) Fn(pkg, name string) *ssa.Function {
	if f := w.fnByName(pkg, name); f != nil {
		return f
	}
	// a reviewed function that lives on under another name (adopt.go)
	for f, id := range renamedAs {
		if fnPkgPath(f) != pkg {
			continue
		}
		if i := strings.Index(name, "."); i >= 0 {
			if strings.HasSuffix(id, "."+name[:i]+")."+name[i+1:]) {
				return f
			}
		} else if id == pkg+"."+name {
			return f
		}
	}
	return nil
}

func (w *World) fnByName(pkg, name string) *ssa.Function {
	p := w.ByPath[pkg]
	if p == nil || p.Types == nil {
		return nil
	}
	if i := strings.Index(name, "."); i >= 0 {
		tn, mn := name[:i], name[i+1:]
		o := p.Types.Scope().Lookup(tn)
		if o == nil {
			return nil
		}
		n, ok := o.Type().(*types.Named)
		if !ok {
			return nil
		}
		for i := 0; i < n.NumMethods(); i++ {
			if m := n.Method(i); m.Name() == mn {
				return w.Prog.FuncValue(m)
			}
		}
		return nil
	}
	o, ok := p.Types.Scope().Lookup(name).(*types.Func)
	if !ok {
		return nil
	}
	return w.Prog.FuncValue(o)
}

// Anons returns fn and all anonymous functions nested in it.
func Anons(fn *ssa.Function) []*ssa.Function {
	out := []*ssa.Function{fn}
	for _, a := range fn.AnonFuncs {
		out = append(out, Anons(a)...)
	}
	// closures of the transparent helpers fn calls (adopt.go); the helpers' own
	// instructions are visited through Instrs(fn)
	if len(helpers) > 0 && fn.Parent() == nil {
		seen := map[*ssa.Function]bool{}
		var add func(f *ssa.Function)
		add = func(f *ssa.Function) {
			for _, b := range f.Blocks {
				for _, in := range b.Instrs {
					if h := helperCall(in); h != nil && !seen[h.fn] {
						seen[h.fn] = true
						for _, a := range h.fn.AnonFuncs {
							out = append(out, Anons(a)...)
						}
						add(h.fn)
					}
				}
			}
		}
		add(fn)
	}
	return out
}

// origin returns the generic origin of an instantiation, or f.
func origin(f *ssa.Function) *ssa.Function {
	if f == nil {
		return nil
	}
	if o := f.Origin(); o != nil {
		return o
	}
	return f
}
