package main

import (
	"go/token"
	"go/types"
	"strings"

	"golang.org/x/tools/go/ssa"
)

const (
	pkgDisc  = "lunar/aggregation-plugin/discovery"
	pkgSDisc = "lunar/shared-model/discovery"
)

func init() {
	register(&Property{
		ID:   "C15",
		Mods: []string{modAgg},
		Explanation: "Decides structural necessary conditions of batching independence and no lost traffic, not the algebraic laws themselves: " +
			"(R1) EndpointAgg.Combine sets every field, each from the same-named fields of BOTH operands with the field's operator (min, max, +, map combine, count-weighted mean from average*count totals); " +
			"(R2) the map combines keep every key of both operands and combine colliding values; Agg.Combine combines all three components; " +
			"(R3) re-keying after URL convergence stores every entry: first occurrence as is, later ones combined with what is already stored in the SAME target map; interceptors carried over; " +
			"(R4) per-batch extraction: Count = len(records), one status-code increment per record, min/max by opposite timestamp comparators over all records, averages = sum/count; " +
			"(R5) persistence converts every field of EndpointAgg to EndpointOutput and back, covers endpoints/consumers/interceptors, and joins/splits keys with the same delimiter; " +
			"(R6) pipeline: converge(old) -> extract(batch) -> combine(converged old, new); every non-internal record is aggregated; the combined value becomes the in-memory state unconditionally and is what is written. " +
			"NOT decided: the homomorphism itself, float rounding, timestamp string round trips.",
		RuleText: "obligation = (rule, anchored construct) on SSA of the current tree: struct-literal field inventory and per-field operand provenance, map-update inventory with guard conditions, comparator direction, call order and argument provenance of the pipeline",
		Run:      runC15,
	})
}

func runC15(w *World, r *Report) {
	hrDumpEndpointVerbatim(w, r, "R6")
	hrWildcardIsAWholePart(w, r, "R3")
	hrFreshDecodeTarget(w, r, "R6")
	hrResponseClosedOnlyWhenPresent(w, r, "R6")
	hrFlushDoesNotRedeliver(w, r, "R6")
	hrTimestampParsedAsUTC(w, r, "R5")
	hrHistogramKeptWhole(w, r, "R6")
	hrFreshMapPerIteration(w, r, "R6", pkgDisc, "ConvertToPersisted")
	hrTrimBothEnds(w, r, "R3")
	hrPersistedKeysAllRead(w, r, "R6")
	hrEveryRunResultParses(w, r, "R6")
	hrDecodeKeepsAccumulated(w, r, "R6")
	hrTreeRebuiltOnlyWhenNewer(w, r, "R3")
	hrConvergenceKeepsParametricChild(w, r, "R3")
	hrNormalisedPathSpelling(w, r, "R3")
	hrTimestampUTC(w, r, "R5")
	hrNormalizeTreeInsertsAll(w, r, "R3")
	// R1
	ec := w.Fn(pkgSDisc, "EndpointAgg.Combine")
	eaT := w.Named(pkgSDisc, "EndpointAgg")
	if ec == nil || eaT == nil {
		r.Undec("R1", "EndpointAgg.Combine", token.NoPos, "function/type not found")
	} else {
		st := eaT.Underlying().(*types.Struct)
		for _, alt := range ReturnAlts(ec, 0) {
			for i := 0; i < st.NumFields(); i++ {
				fn := st.Field(i).Name()
				v := litField(alt.Val, fn)
				if v == nil {
					r.Fail("R1", "EndpointAgg.Combine/"+fn, posOf(alt.Ret), "field %s is not set by Combine: it would be reset to zero on every batch", fn)
					continue
				}
				src := fn
				if fn == "AverageDuration" || fn == "AverageTotalDuration" {
					src = fn // totals come from average*count of both operands
				}
				fromA := Derives(v, func(x ssa.Value) bool { return np(x) == "param:agg."+src })
				fromB := Derives(v, func(x ssa.Value) bool { return np(x) == "param:aggB."+src })
				if fn == "AverageDuration" {
					fromA = Derives(v, func(x ssa.Value) bool {
						c, ok := peel(x).(*ssa.Call)
						return ok && isCallTo(c, "EndpointAgg).TotalDuration") && np(c.Call.Args[0]) == "param:agg"
					})
					fromB = Derives(v, func(x ssa.Value) bool {
						c, ok := peel(x).(*ssa.Call)
						return ok && isCallTo(c, "EndpointAgg).TotalDuration") && np(c.Call.Args[0]) == "param:aggB"
					})
				}
				if fn == "AverageTotalDuration" {
					fromA = Derives(v, func(x ssa.Value) bool {
						c, ok := peel(x).(*ssa.Call)
						return ok && isCallTo(c, "EndpointAgg).TotalSpoeAndProviderDuration") && np(c.Call.Args[0]) == "param:agg"
					})
					fromB = Derives(v, func(x ssa.Value) bool {
						c, ok := peel(x).(*ssa.Call)
						return ok && isCallTo(c, "EndpointAgg).TotalSpoeAndProviderDuration") && np(c.Call.Args[0]) == "param:aggB"
					})
				}
				okOp := false
				p := np(v)
				switch fn {
				case "MinTime":
					okOp = isCallTo0(v, "utils.Min")
				case "MaxTime":
					okOp = isCallTo0(v, "utils.Max")
				case "Count":
					b, isB := peel(v).(*ssa.BinOp)
					okOp = isB && b.Op == token.ADD
				case "StatusCodes":
					okOp = strings.Contains(p, "utils.Combine(")
				default:
					// phi(0, total/count) with total = a+b and count = a.Count+b.Count
					okOp = Derives(v, func(x ssa.Value) bool {
						b, ok := x.(*ssa.BinOp)
						return ok && b.Op == token.QUO && Derives(b.Y, func(y ssa.Value) bool { return np(y) == "param:agg.Count" }) && Derives(b.Y, func(y ssa.Value) bool { return np(y) == "param:aggB.Count" }) &&
							Derives(b.X, func(y ssa.Value) bool { bo, ok := y.(*ssa.BinOp); return ok && bo.Op == token.ADD })
					})
				}
				r.Check(fromA && fromB && okOp, "R1", "EndpointAgg.Combine/"+fn, posOf(alt.Ret), "%s combines the %s of both operands (a=%v b=%v) with its operator (ok=%v): %s", fn, src, fromA, fromB, okOp, trunc(p, 110))
			}
		}
		for _, tf := range []struct{ fn, avg string }{{"TotalDuration", "AverageDuration"}, {"TotalSpoeAndProviderDuration", "AverageTotalDuration"}} {
			f := w.Fn(pkgSDisc, "EndpointAgg."+tf.fn)
			ok := false
			if f != nil {
				for _, alt := range ReturnAlts(f, 0) {
					b, isB := alt.Val.(*ssa.BinOp)
					ok = isB && b.Op == token.MUL && np(b.X) == "param:agg."+tf.avg && np(b.Y) == "param:agg.Count"
				}
			}
			r.Check(ok, "R1", tf.fn+"/average-times-count", token.NoPos, "%s = %s * Count", tf.fn, tf.avg)
		}
	}
	// R2 map combines
	if mc := w.Fn(pkgSDisc, "EndpointMapping.Combine"); mc == nil {
		r.Undec("R2", "EndpointMapping.Combine", token.NoPos, "function not found")
	} else {
		var kinds []string
		Instrs(mc, func(in ssa.Instruction) {
			mu, ok := in.(*ssa.MapUpdate)
			if !ok {
				return
			}
			v := np(mu.Value)
			exists := func(pol bool) bool {
				return condsHave(CondsOf(mu.Block()), pol, func(x ssa.Value) bool { return strings.HasSuffix(np(x), "]#1") && strings.Contains(np(x), "makemap[") })
			}
			switch {
			case strings.Contains(v, "range(param:aggA)") && !exists(true) && !exists(false):
				kinds = append(kinds, "copy-a")
			case strings.Contains(v, "range(param:aggB)") && !strings.Contains(v, "Combine(") && exists(false):
				kinds = append(kinds, "new-b")
			case strings.Contains(v, "EndpointAgg).Combine(") && exists(true) && strings.Contains(v, "range(param:aggB)"):
				kinds = append(kinds, "combine")
			default:
				kinds = append(kinds, "other:"+trunc(v, 60))
			}
		})
		sortStrings(kinds)
		r.Check(strings.Join(kinds, ",") == "combine,copy-a,new-b", "R2", "EndpointMapping.Combine/keeps-all-keys-combines-collisions", mc.Pos(), "result stores every key of a, every new key of b, and a.Combine(b) for collisions (found %v)", kinds)
	}
	if ac := w.Fn(pkgDisc, "Agg.Combine"); ac == nil {
		r.Undec("R2", "Agg.Combine", token.NoPos, "function not found")
	} else {
		for _, alt := range ReturnAlts(ac, 0) {
			for _, fn := range []string{"Interceptors", "Endpoints", "Consumers"} {
				v := litField(alt.Val, fn)
				ok := v != nil && strings.Contains(np(v), "utils.Combine(") && Derives(v, func(x ssa.Value) bool { return np(x) == "param:aggA."+fn }) && Derives(v, func(x ssa.Value) bool { return np(x) == "param:aggB."+fn })
				r.Check(ok, "R2", "Agg.Combine/"+fn, posOf(alt.Ret), "%s = utils.Combine(aggA.%s, aggB.%s)", fn, fn, fn)
			}
		}
	}
	if uc := w.Fn("lunar/toolkit-core/utils", "Combine"); uc != nil {
		// generic map/combinable combine: keys of both, collisions combined
		ok := false
		Instrs(uc, func(in ssa.Instruction) {
			if c, isC := in.(ssa.CallInstruction); isC && strings.HasSuffix(calleeID(c), ").Combine") {
				ok = true
			}
		})
		r.Check(ok, "R2", "utils.Combine/delegates-to-Combine", uc.Pos(), "utils.Combine delegates to the operands' Combine")
	}
	c15Converge(w, r)
	c15Extract(w, r)
	c15Persist(w, r)
	c15Pipeline(w, r)
	r.Min("R1", 8)
	r.Min("R2", 4)
	r.Min("R3", 6)
	r.Min("R4", 5)
	r.Min("R5", 10)
	c15RunnerHelpers(w, r)
	r.Min("R6", 6)
}

func c15Converge(w *World, r *Report) {
	cv := w.Fn(pkgDisc, "ConvergeAggregation")
	if cv == nil {
		r.Undec("R3", "ConvergeAggregation", token.NoPos, "function not found")
		return
	}
	nFirst, nComb := 0, 0
	Instrs(cv, func(in ssa.Instruction) {
		mu, ok := in.(*ssa.MapUpdate)
		if !ok {
			return
		}
		tgt := mu.Map
		keyNorm := Derives(mu.Key, func(x ssa.Value) bool { return isCallTo0(x, "common.NormalizeURL") })
		if !keyNorm {
			// consumerAgg[consumer] = normMapping
			if _, isMM := mu.Value.(*ssa.MakeMap); isMM {
				okC := strings.HasPrefix(np(mu.Key), "next(range(param:aggregation.Consumers))")
				r.Check(okC, "R3", "Converge/consumer-mapping-stored", posOf(mu), "every consumer's re-keyed mapping is stored under the consumer's own key")
			}
			return
		}
		existsOn := func(pol bool) bool {
			return condsHave(CondsOf(mu.Block()), pol, func(x ssa.Value) bool {
				e, isE := x.(*ssa.Extract)
				if !isE || e.Index != 1 {
					return false
				}
				lk, isL := e.Tuple.(*ssa.Lookup)
				return isL && lk.X == tgt && samePathLit(lk.Index, mu.Key)
			})
		}
		v := np(mu.Value)
		if c, isC := peel(mu.Value).(*ssa.Call); isC && isCallTo(c, "EndpointAgg).Combine") {
			nComb++
			// receiver = what is already stored in the same target map under the same key; argument = the ranged agg
			recvOK := false
			recv := peel(c.Call.Args[0])
			if ex, isE := recv.(*ssa.Extract); isE && ex.Index == 0 {
				recv = ex.Tuple // the value half of a comma-ok lookup (its ok half is the exists edge checked below)
			}
			if lk, isL := recv.(*ssa.Lookup); isL {
				recvOK = lk.X == tgt && samePathLit(lk.Index, mu.Key)
			}
			argOK := strings.HasPrefix(np(c.Call.Args[1]), "next(range(") && strings.HasSuffix(np(c.Call.Args[1]), "#2")
			r.Check(recvOK && argOK && existsOn(true), "R3", "Converge/collision-combined-with-stored", posOf(mu), "a colliding normalised key stores target[key].Combine(agg), with `exists` looked up in that same target map (receiver ok=%v, exists-in-same-map=%v)", recvOK, existsOn(true))
		} else {
			nFirst++
			r.Check(existsOn(false) && strings.HasPrefix(v, "next(range(") && strings.HasSuffix(v, "#2"), "R3", "Converge/first-occurrence-stored", posOf(mu), "the first entry of a normalised key is stored as is, on the not-exists edge of a lookup in the same target map (%v)", existsOn(false))
		}
	})
	if nFirst != 2 || nComb != 2 {
		r.Undec("R3", "Converge/sites", cv.Pos(), "expected 2 first-occurrence and 2 collision stores (endpoints, per-consumer), found %d/%d", nFirst, nComb)
	}
	for _, alt := range ReturnAlts(cv, 0) {
		iv := litField(alt.Val, "Interceptors")
		if iv != nil {
			r.Check(np(iv) == "param:aggregation.Interceptors", "R3", "Converge/interceptors-carried-over", posOf(alt.Ret), "Interceptors are carried over unchanged")
		}
	}
}

func c15Extract(w *World, r *Report) {
	ex := w.Fn(pkgDisc, "extractEndpointAgg")
	if ex == nil {
		r.Undec("R4", "extractEndpointAgg", token.NoPos, "function not found")
		return
	}
	cmpDir := func(c ssa.CallInstruction) string {
		if mc, ok := c.Common().Args[1].(*ssa.MakeClosure); ok {
			f := mc.Fn.(*ssa.Function)
			for _, alt := range ReturnAlts(f, 0) {
				if rel, ok := normFacing(alt.Val, func(x ssa.Value) bool { return strings.HasSuffix(np(x), "a.Timestamp") }); ok && strings.HasSuffix(np(rel.L), "a.Timestamp") && strings.HasSuffix(np(rel.R), "b.Timestamp") {
					return rel.Op
				}
			}
		}
		if f, ok := c.Common().Args[1].(*ssa.Function); ok {
			for _, alt := range ReturnAlts(f, 0) {
				if rel, ok := normFacing(alt.Val, func(x ssa.Value) bool { return strings.HasSuffix(np(x), "a.Timestamp") }); ok && strings.HasSuffix(np(rel.L), "a.Timestamp") && strings.HasSuffix(np(rel.R), "b.Timestamp") {
					return rel.Op
				}
			}
		}
		return "?"
	}
	for _, alt := range ReturnAlts(ex, 0) {
		mn, mx := litField(alt.Val, "MinTime"), litField(alt.Val, "MaxTime")
		okMin, okMax := false, false
		Derives(mn, func(x ssa.Value) bool {
			if c, ok := x.(*ssa.Call); ok && isCallTo(c, "lo.MinBy") && np(c.Call.Args[0]) == "param:records" {
				okMin = cmpDir(c) == "<"
			}
			return false
		})
		Derives(mx, func(x ssa.Value) bool {
			if c, ok := x.(*ssa.Call); ok && isCallTo(c, "lo.MaxBy") && np(c.Call.Args[0]) == "param:records" {
				okMax = cmpDir(c) == ">"
			}
			return false
		})
		r.Check(okMin && strings.HasSuffix(np(mn), ".Timestamp"), "R4", "extract/MinTime", posOf(alt.Ret), "MinTime = lo.MinBy(records, a.Timestamp < b.Timestamp).Timestamp over ALL records of the batch")
		r.Check(okMax && strings.HasSuffix(np(mx), ".Timestamp"), "R4", "extract/MaxTime", posOf(alt.Ret), "MaxTime = lo.MaxBy(records, a.Timestamp > b.Timestamp).Timestamp over ALL records of the batch")
		cnt := litField(alt.Val, "Count")
		r.Check(cnt != nil && np(cnt) == "builtin.len(param:records)", "R4", "extract/Count", posOf(alt.Ret), "Count = len(records) (%s)", np(cnt))
		sc := litField(alt.Val, "StatusCodes")
		r.Check(sc != nil && isCallTo0(sc, "discovery.countStatusCodes") && strings.HasSuffix(np(sc), "(param:records)"), "R4", "extract/StatusCodes", posOf(alt.Ret), "StatusCodes = countStatusCodes(records)")
		for _, f := range []struct{ fld, src string }{{"AverageDuration", "Duration"}, {"AverageTotalDuration", "TotalDuration"}} {
			v := litField(alt.Val, f.fld)
			ok := v != nil && Derives(v, func(x ssa.Value) bool {
				b, isB := x.(*ssa.BinOp)
				if !isB || b.Op != token.QUO {
					return false
				}
				sum := false
				Derives(b.X, func(y ssa.Value) bool {
					if c, ok := y.(*ssa.Call); ok && isCallTo(c, "lo.SumBy") && np(c.Call.Args[0]) == "param:records" {
						if mc, ok := c.Call.Args[1].(*ssa.MakeClosure); ok {
							for _, a := range ReturnAlts(mc.Fn.(*ssa.Function), 0) {
								if strings.HasSuffix(np(a.Val), "accessLog."+f.src) {
									sum = true
								}
							}
						} else if fn, ok := c.Call.Args[1].(*ssa.Function); ok {
							for _, a := range ReturnAlts(fn, 0) {
								if strings.HasSuffix(np(a.Val), "accessLog."+f.src) {
									sum = true
								}
							}
						}
					}
					return false
				})
				return sum && Derives(b.Y, func(y ssa.Value) bool { return np(y) == "builtin.len(param:records)" })
			})
			r.Check(ok, "R4", "extract/"+f.fld, posOf(alt.Ret), "%s = sum(%s over records) / len(records)", f.fld, f.src)
		}
	}
	if cs := w.Fn(pkgDisc, "countStatusCodes"); cs != nil {
		ok := false
		Instrs(cs, func(in ssa.Instruction) {
			if mu, isMU := in.(*ssa.MapUpdate); isMU {
				b, isB := mu.Value.(*ssa.BinOp)
				ok = isB && b.Op == token.ADD && isIntConst(b.Y, 1) && strings.HasSuffix(np(mu.Key), ".StatusCode") && len(loopExits(loopHeaderOf(mu), false)) == 0
				extra := 0
				for _, cd := range CondsOf(mu.Block()) {
					if condSig(cd) != "" {
						extra++
					}
				}
				ok = ok && extra == 0
			}
		})
		r.Check(ok, "R4", "countStatusCodes/one-increment-per-record", cs.Pos(), "res[record.StatusCode]++ for every record, unconditionally")
	}
}

func c15Persist(w *World, r *Report) {
	eaT, eoT := w.Named(pkgSDisc, "EndpointAgg"), w.Named(pkgSDisc, "EndpointOutput")
	cp := w.Fn(pkgDisc, "convertEndpointToPersisted")
	cf := w.Fn(pkgSDisc, "ConvertEndpointFromPersisted")
	if eaT == nil || eoT == nil || cp == nil || cf == nil {
		r.Undec("R5", "persistence", token.NoPos, "types/functions not found")
		return
	}
	ea, eo := eaT.Underlying().(*types.Struct), eoT.Underlying().(*types.Struct)
	for _, alt := range ReturnAlts(cp, 0) {
		for i := 0; i < eo.NumFields(); i++ {
			fn := eo.Field(i).Name()
			v := litField(alt.Val, fn)
			ok := v != nil && Derives(v, func(x ssa.Value) bool { return np(x) == "param:agg."+fn })
			r.Check(ok, "R5", "toPersisted/"+fn, posOf(alt.Ret), "EndpointOutput.%s is written from EndpointAgg.%s", fn, fn)
		}
	}
	for _, alt := range ReturnAlts(cf, 0) {
		for i := 0; i < ea.NumFields(); i++ {
			fn := ea.Field(i).Name()
			v := litField(alt.Val, fn)
			src := "param:endpoint." + fn
			if fn == "MinTime" {
				src = "param:minTime"
			}
			if fn == "MaxTime" {
				src = "param:maxTime"
			}
			ok := v != nil && Derives(v, func(x ssa.Value) bool { return np(x) == src })
			r.Check(ok, "R5", "fromPersisted/"+fn, posOf(alt.Ret), "EndpointAgg.%s is read back from %s", fn, src)
		}
	}
	for _, fn := range []string{"ConvertEndpointsFromPersisted", "ConvertConsumersFromPersisted"} {
		f := w.Fn(pkgSDisc, fn)
		if f == nil {
			r.Undec("R5", fn, token.NoPos, "function not found")
			continue
		}
		c := CallsIn(f, false, "discovery.ConvertEndpointFromPersisted")
		ok := len(c) == 1
		if ok {
			a := c[0].Common().Args
			ok = Derives(a[0], func(x ssa.Value) bool { return strings.HasSuffix(np(x), ".MinTime") }) && Derives(a[1], func(x ssa.Value) bool { return strings.HasSuffix(np(x), ".MaxTime") })
		}
		sp := CallsIn(f, false, "strings.Split")
		okD := len(sp) == 1 && isConstVal(sp[0].Common().Args[1], w.constOf(pkgSDisc, "EndpointDelimiter"))
		r.Check(ok && okD, "R5", fn+"/min-max-and-delimiter", f.Pos(), "min/max timestamps are parsed from the persisted MinTime/MaxTime (not swapped) and the key is split with EndpointDelimiter")
	}
	if de := w.Fn(pkgDisc, "dumpEndpoint"); de != nil {
		j := CallsIn(de, false, "strings.Join")
		ok := len(j) == 1 && isConstVal(j[0].Common().Args[1], w.constOf(pkgSDisc, "EndpointDelimiter")) && Derives(j[0].Common().Args[0], func(x ssa.Value) bool { return np(x) == "param:endpoint.Method" }) && Derives(j[0].Common().Args[0], func(x ssa.Value) bool { return np(x) == "param:endpoint.URL" })
		r.Check(ok, "R5", "dumpEndpoint/method-delimiter-url", de.Pos(), "keys are written as Method + EndpointDelimiter + URL")
	}
	if tp := w.Fn(pkgDisc, "ConvertToPersisted"); tp != nil {
		seen := map[string]bool{}
		Instrs(tp, func(in ssa.Instruction) {
			if rg, ok := in.(*ssa.Range); ok {
				for _, f := range []string{"Endpoints", "Consumers", "Interceptors"} {
					if strings.HasSuffix(np(rg.X), "aggregations."+f) {
						seen[f] = true
					}
				}
			}
		})
		r.Check(len(seen) == 3 && len(CallsIn(tp, false, "discovery.convertEndpointToPersisted")) == 2, "R5", "ConvertToPersisted/all-components", tp.Pos(), "endpoints, consumers and interceptors are all written (%v)", keysOf(seen))
	}
	if fp := w.Fn(pkgDisc, "ConvertFromPersisted"); fp != nil {
		ok := len(CallsIn(fp, false, "discovery.ConvertEndpointsFromPersisted")) == 1 && len(CallsIn(fp, false, "discovery.ConvertConsumersFromPersisted")) == 1
		rg := false
		Instrs(fp, func(in ssa.Instruction) {
			if ia, isIA := in.(*ssa.IndexAddr); isIA && strings.HasSuffix(np(ia.X), "output.Interceptors") {
				rg = true
			}
		})
		r.Check(ok && rg, "R5", "ConvertFromPersisted/all-components", fp.Pos(), "endpoints, consumers and interceptors are all read back")
	}
}

func c15Pipeline(w *World, r *Report) {
	gu := w.Fn(pkgDisc, "GetUpdatedAggregations")
	if gu == nil {
		r.Undec("R6", "GetUpdatedAggregations", token.NoPos, "function not found")
	} else {
		cv := CallsIn(gu, false, "discovery.ConvergeAggregation")
		ex := CallsIn(gu, false, "discovery.ExtractAggs")
		cb := CallsIn(gu, false, "discovery.CombineAggregation", "Agg).Combine")
		ok := len(cv) == 1 && len(ex) == 1 && len(cb) == 1 && domInstr(cv[0], ex[0]) && domInstr(ex[0], cb[0]) && errReturned(gu, cv[0])
		if ok {
			a := cb[0].Common().Args
			ok = Derives(a[0], func(x ssa.Value) bool { return x == cv[0].Value() }) && a[1] == ex[0].Value() &&
				np(cv[0].Common().Args[0]) == "param:aggregation" && np(cv[0].Common().Args[1]) == "param:accessLogs" && np(ex[0].Common().Args[0]) == "param:accessLogs"
			for _, alt := range ReturnAlts(gu, 0) {
				if isNilConst(ReturnAltsErr(gu, alt)) && alt.Val != cb[0].Value() {
					ok = false
				}
			}
		}
		r.Check(ok, "R6", "GetUpdatedAggregations/converge-extract-combine", gu.Pos(), "combined = Combine(Converge(old, batch), Extract(batch)) in that order, and that value is returned")
	}
	if fl := w.Fn(pkgDisc, "filterOutInternalRecords"); fl != nil {
		aps := CallsIn(fl, false, "builtin.append")
		ok := len(aps) == 1
		if ok {
			extra := []string{}
			for _, cd := range CondsOf(aps[0].Block()) {
				sg := condSig(cd)
				if sg == "" || strings.HasSuffix(sg, "record.Internal") && strings.HasPrefix(sg, "!") {
					continue
				}
				extra = append(extra, sg)
			}
			ok = len(extra) == 0 && len(loopExits(loopHeaderOf(aps[0]), false)) == 0
		}
		r.Check(ok, "R6", "filterOutInternalRecords/every-external-record-kept", fl.Pos(), "every record that is not internal is kept for aggregation (no other dropping condition, no early exit)")
	}
	if rn := w.Fn(pkgDisc, "Run"); rn != nil {
		g := CallsIn(rn, false, "discovery.GetUpdatedAggregations")
		u := CallsIn(rn, false, "State).UpdateAggregation")
		ok := len(g) == 1 && len(u) == 1 && domInstr(g[0], u[0]) && errReturned(rn, g[0]) && errReturned(rn, u[0])
		if ok {
			ok = Derives(u[0].Common().Args[1], func(x ssa.Value) bool { return x == g[0].Value() }) && strings.HasSuffix(np(g[0].Common().Args[1]), ".AccessLogs") &&
				strings.Contains(np(g[0].Common().Args[0]), "state.aggregation")
		}
		r.Check(ok, "R6", "Run/persists-combined", rn.Pos(), "Run combines the current state with the filtered batch and persists exactly that value; both errors are returned")
	} else {
		r.Undec("R6", "Run", token.NoPos, "function not found")
	}
	if ua := w.Fn(pkgDisc, "State.UpdateAggregation"); ua != nil {
		st := fieldStores(ua, "aggregation")
		wr := CallsIn(ua, false, "os.WriteFile")
		ok := len(st) == 1 && len(wr) == 1 && np(st[0].Val) == "param:aggregation" && len(CondsOf(st[0].Block())) == 0 && domInstr(st[0], wr[0]) && errReturned(ua, wr[0])
		if ok {
			ok = Derives(wr[0].Common().Args[1], func(x ssa.Value) bool { return isCallTo0(x, "discovery.ConvertToPersisted") })
		}
		r.Check(ok, "R6", "UpdateAggregation/state-updated-unconditionally", ua.Pos(), "the in-memory aggregation is replaced unconditionally (a failing file write must not discard the batch) and the written bytes are ConvertToPersisted of it")
	}
}

// ReturnAltsErr returns the error result value of the return the alternative belongs to.
func ReturnAltsErr(fn *ssa.Function, a RetAlt) ssa.Value {
	n := fn.Signature.Results().Len()
	for _, e := range ReturnAlts(fn, n-1) {
		if e.Ret == a.Ret {
			return e.Val
		}
	}
	return nil
}

// np: access path with parameters that were spilled to locals (struct-typed
// value parameters) named like parameters.
func np(v ssa.Value) string { return strings.ReplaceAll(Path(v), "local:", "param:") }

// c15RunnerHelpers: (a) NormalizeURL always answers from the tree's lookup - a
// failed insert is logged, it does not short-circuit to the raw URL (the key
// would then depend on which insert failed in which batch); (b) Run keeps the
// combined aggregation in memory when writing the state file fails, so the
// next successful flush contains the batch.
func c15RunnerHelpers(w *World, r *Report) {
	const pkgAggCommon = "lunar/aggregation-plugin/common"
	if nu := w.Fn(pkgAggCommon, "NormalizeURL"); nu == nil {
		r.Undec("R6", "NormalizeURL", token.NoPos, "function not found")
	} else {
		lk := CallsIn(nu, false, "URLTreeI).Lookup", "SimpleURLTreeI).Lookup")
		if len(lk) == 0 {
			// delegation to the strict variant, which does the lookup itself
			if sn := w.Fn(pkgAggCommon, "StrictNormalizeURL"); sn != nil && len(CallsIn(sn, false, "URLTreeI).Lookup", "SimpleURLTreeI).Lookup")) == 1 {
				lk = CallsIn(nu, false, "common.StrictNormalizeURL")
			}
		}
		ok := len(lk) == 1
		if ok {
			for _, alt := range ReturnAlts(nu, 0) {
				if !domInstr(lk[0], alt.Ret) {
					ok = false
				}
			}
		}
		r.Check(ok, "R6", "NormalizeURL/every-answer-comes-after-the-lookup", nu.Pos(), "every return of NormalizeURL is preceded by the tree lookup (an insert error does not bypass normalisation)")
	}
	if run := w.Fn(pkgDisc, "Run"); run == nil {
		r.Undec("R6", "discovery.Run", token.NoPos, "function not found")
	} else {
		st := 0
		Instrs(run, func(in ssa.Instruction) {
			if s, ok := in.(*ssa.Store); ok {
				if fa, ok := s.Addr.(*ssa.FieldAddr); ok && fieldName(fa.X.Type(), fa.Field) == "aggregation" {
					if _, sn := namedOf(fa.X.Type()); sn == "State" {
						st++
					}
				}
			}
		})
		r.Check(st == 0, "R6", "Run/does-not-roll-back-the-in-memory-aggregation", run.Pos(), "Run never assigns state.aggregation itself (%d stores): UpdateAggregation keeps the combined value in memory even when the file write fails, and the next flush persists it", st)
	}
}

// normFacing: the comparison v as a relation with the operand satisfying l on the left.
func normFacing(v ssa.Value, l VP) (Rel, bool) {
	rel, ok := NormCond(Cond{V: v, Pol: true})
	if !ok {
		return rel, false
	}
	return rel.Facing(l)
}
