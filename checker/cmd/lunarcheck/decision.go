package main

import (
	"fmt"
	"go/token"
	"sort"
	"strings"

	"golang.org/x/tools/go/ssa"
)

// Decision tables compared as boolean functions.
//
// A reviewed table lists, per result value, the conjunctions of conditions
// under which the function returns it ("true <= a ; !b"). Comparing the
// alternatives as text would report every restructuring of the function (a
// ladder of ifs turned into `return a && b`, two exits merged, a test written
// the other way round) although it decides the same thing. So both the
// reviewed table and the current function are read as a disjunction of
// conjunctions over atoms - the canonical access paths of the conditions - and
// compared row by row of the truth table: the obligation fails only when some
// assignment of the atoms yields a value now that the reviewed table does not
// yield (or the other way round), and the report names that assignment.

// litOf renders a condition as (atom, polarity) with `!=` read as not `==`,
// `a <= b` as not `b < a` (after load.go only <, <=, ==, != occur).
func litOf(c Cond) (string, bool) {
	p := Path(c.V)
	pol := c.Pol
	if strings.Contains(p, "phi[") && strings.Contains(p, "builtin.len(") && strings.Contains(p, " < ") {
		return "", true // rangeindex loop condition
	}
	if strings.HasPrefix(p, "next(range(") && strings.HasSuffix(p, "#0") {
		return "", true // map range loop condition
	}
	v := c.V
	for {
		u, isNot := v.(*ssa.UnOp)
		if !isNot || u.Op != token.NOT {
			break
		}
		v = u.X
	}
	// slices.Contains(L, x) decides what a loop `for _, e := range L { if e == x {...} }` decides: it is
	// read as that loop is read - the found side under the atom (L[i] == x), the other side without a
	// condition of its own (the exit of an exhausted loop carries none either)
	if call, isCall := v.(*ssa.Call); isCall && isCallTo(call, "slices.Contains") && len(call.Call.Args) == 2 {
		if u, isNot := c.V.(*ssa.UnOp); isNot && u.Op == token.NOT {
			pol = !pol
		}
		if !pol {
			return "", true
		}
		l, r := Path(call.Call.Args[0])+"[i]", Path(call.Call.Args[1])
		if r < l {
			l, r = r, l
		}
		return "(" + l + " == " + r + ")", true
	}
	_, isCmp := v.(*ssa.BinOp)
	if call, isCall := v.(*ssa.Call); isCall && isCallTo(call, "time.Time).After", "time.Time).Before", "time.Time).Equal") {
		isCmp = true
	}
	if rel, ok := NormCond(c); ok && isCmp {
		l, r := Path(rel.L), Path(rel.R)
		switch rel.Op {
		case "==":
			return "(" + l + " == " + r + ")", true
		case "!=":
			return "(" + l + " == " + r + ")", false
		case "<":
			return "(" + l + " < " + r + ")", true
		case ">=":
			return "(" + l + " < " + r + ")", false
		case ">":
			return "(" + r + " < " + l + ")", true
		case "<=":
			return "(" + r + " < " + l + ")", false
		}
	}
	for strings.HasPrefix(p, "!") {
		p, pol = p[1:], !pol
	}
	return p, pol
}

type conj struct {
	val  string
	lits map[string]bool // atom -> polarity
	dead bool            // contradictory (a and !a): contributes nothing
}

func (c conj) String() string {
	var ls []string
	for a, pol := range c.lits {
		if pol {
			ls = append(ls, a)
		} else {
			ls = append(ls, "!"+a)
		}
	}
	sort.Strings(ls)
	return c.val + " <= " + strings.Join(ls, " ; ")
}

// decisionOf: the alternatives of result idx of fn as conjunctions; a boolean
// result that is itself a condition X becomes (true <= ..., X) and (false <= ..., !X).
func decisionOf(fn *ssa.Function, idx int) []conj {
	var out []conj
	var alts []RetAlt
	for _, alt := range ReturnAlts(fn, idx) {
		// a condition that is a stored `a && b` / `a || b` taken on the side that is a
		// disjunction (not (a && b)) is one alternative per way of getting there
		for _, cs := range condsDNF(alt.Conds, 3) {
			alts = append(alts, RetAlt{alt.Val, cs, alt.Block, alt.Ret})
		}
	}
	for _, alt := range alts {
		c := conj{lits: map[string]bool{}}
		add := func(a string, pol bool) {
			if a == "" {
				return
			}
			if old, ok := c.lits[a]; ok && old != pol {
				c.dead = true
			}
			c.lits[a] = pol
		}
		for _, cd := range alt.Conds {
			if ph, isPhi := cd.V.(*ssa.Phi); isPhi && isBool(cd.V.Type()) && mergePhi(ph) {
				continue // replaced by its operands (condsDNF / expandConds)
			}
			add(litOf(cd))
		}
		if c.dead {
			continue
		}
		if b, isC := constBool(alt.Val); isC {
			c.val = fmt.Sprint(b)
			out = append(out, c)
			continue
		}
		if isBool(alt.Val.Type()) {
			a, pol := litOf(Cond{V: alt.Val, Pol: true})
			a = normSig(a)
			t := conj{val: "true", lits: map[string]bool{}}
			f := conj{val: "false", lits: map[string]bool{}}
			for k, v := range c.lits {
				t.lits[k], f.lits[k] = v, v
			}
			if old, ok := c.lits[a]; !ok || old == pol {
				t.lits[a] = pol
				out = append(out, t)
			}
			if old, ok := c.lits[a]; !ok || old == !pol {
				f.lits[a] = !pol
				out = append(out, f)
			}
			continue
		}
		c.val = normSig(Path(alt.Val))
		out = append(out, c)
	}
	for i := range out {
		n := map[string]bool{}
		for a, p := range out[i].lits {
			n[normSig(a)] = p
		}
		out[i].lits = n
	}
	return out
}

func parseDecision(rows []string) []conj {
	var out []conj
	for _, s := range rows {
		c := conj{lits: map[string]bool{}}
		i := strings.Index(s, " <= ")
		if i < 0 {
			c.val = s
			out = append(out, c)
			continue
		}
		c.val = s[:i]
		for _, l := range strings.Split(s[i+4:], " ; ") {
			l = strings.TrimSpace(l)
			if l == "" {
				continue
			}
			pol := true
			for strings.HasPrefix(l, "!") {
				l, pol = l[1:], !pol
			}
			l, pol = normAtom(l, pol)
			c.lits[l] = pol
		}
		out = append(out, c)
	}
	return out
}

// normAtom brings a written comparison "(A op B)" to the == / < form of litOf.
func normAtom(a string, pol bool) (string, bool) {
	if len(a) < 2 || a[0] != '(' || a[len(a)-1] != ')' {
		return a, pol
	}
	depth := 0
	for i := 0; i < len(a); i++ {
		switch a[i] {
		case '(', '[':
			depth++
		case ')', ']':
			depth--
			if depth == 0 && i != len(a)-1 {
				return a, pol // "(x).f(y)": not one parenthesised comparison
			}
		case ' ':
			if depth != 1 {
				continue
			}
			for _, op := range []string{" != ", " >= ", " <= ", " > "} {
				if strings.HasPrefix(a[i:], op) {
					l, r := a[1:i], a[i+len(op):len(a)-1]
					switch op {
					case " != ":
						return "(" + l + " == " + r + ")", !pol
					case " >= ":
						return "(" + l + " < " + r + ")", !pol
					case " <= ":
						return "(" + r + " < " + l + ")", !pol
					case " > ":
						return "(" + r + " < " + l + ")", pol
					}
				}
			}
		}
	}
	return a, pol
}

// checkDecision compares the function's decision with the reviewed one, value by value.
func checkDecision(r *Report, rule, key string, fn *ssa.Function, idx int, want []string) {
	checkDecisionRows(r, rule, key, fn, decisionOf(fn, idx), parseDecision(want))
}

// checkDecisionFor compares the conditions of one result value only (the other values are
// whatever is left).
func checkDecisionFor(r *Report, rule, key string, fn *ssa.Function, idx int, val string, want []string) {
	only := func(cs []conj) []conj {
		var out []conj
		for _, c := range cs {
			if c.val == val {
				out = append(out, c)
			}
		}
		return out
	}
	cur := only(decisionOf(fn, idx))
	if len(cur) == 0 {
		r.Fail(rule, key+"/returns-"+val+"-exactly-when-reviewed", fn.Pos(), "no path returns %s", val)
		return
	}
	checkDecisionRows(r, rule, key, fn, cur, only(parseDecision(want)))
}

func checkDecisionRows(r *Report, rule, key string, fn *ssa.Function, cur, rev []conj) {
	// a guard moved between a function and the qualifiers it calls changes both tables and not what is
	// decided: when the tables differ as written, they are compared once more with the calls of reviewed
	// functions replaced by those functions' own decisions (decisionCallees)
	if len(decisionCallees) > 0 && !sameDecision(cur, rev) {
		ec, er := expandCalls(cur, 0), expandCalls(rev, 0)
		if sameDecision(ec, er) {
			cur, rev = ec, er
		}
	}
	atomSet := map[string]bool{}
	vals := map[string]bool{}
	for _, cs := range [][]conj{cur, rev} {
		for _, c := range cs {
			vals[c.val] = true
			for a := range c.lits {
				atomSet[a] = true
			}
		}
	}
	var atoms []string
	for a := range atomSet {
		atoms = append(atoms, a)
	}
	sort.Strings(atoms)
	if len(atoms) > 16 {
		r.Undec(rule, key+"/decision", fn.Pos(), "%d conditions: too many to compare as a truth table", len(atoms))
		return
	}
	var vs []string
	for v := range vals {
		vs = append(vs, v)
	}
	sort.Strings(vs)
	holds := func(cs []conj, v string, asg map[string]bool) bool {
		for _, c := range cs {
			if c.val != v {
				continue
			}
			ok := true
			for a, pol := range c.lits {
				if asg[a] != pol {
					ok = false
					break
				}
			}
			if ok {
				return true
			}
		}
		return false
	}
	for _, v := range vs {
		bad := ""
		for m := 0; m < 1<<len(atoms) && bad == ""; m++ {
			asg := map[string]bool{}
			for i, a := range atoms {
				asg[a] = m&(1<<i) != 0
			}
			hc, hr := holds(cur, v, asg), holds(rev, v, asg)
			if hc != hr {
				var ls []string
				for _, a := range atoms {
					if asg[a] {
						ls = append(ls, a)
					} else {
						ls = append(ls, "!"+a)
					}
				}
				what := "no longer returns"
				if hc {
					what = "now can return"
				}
				bad = fmt.Sprintf("%s %s under [%s]", what, v, trunc(strings.Join(ls, " ; "), 700))
			}
		}
		short := v
		if len(short) > 40 {
			h := uint32(2166136261)
			for i := 0; i < len(v); i++ {
				h = (h ^ uint32(v[i])) * 16777619
			}
			short = fmt.Sprintf("%s…%08x", v[:24], h)
		}
		k := key + "/returns-" + short + "-exactly-when-reviewed"
		if bad == "" {
			r.Hold(rule, k, fn.Pos(), 1, "returns %s under exactly the reviewed conditions (%d conditions, %d rows compared)", trunc(v, 60), len(atoms), 1<<len(atoms))
		} else {
			r.Fail(rule, k, fn.Pos(), "%s", bad)
		}
	}
}

// mergePhi: ph joins forward branches only (not a loop-carried flag), so each of its edges
// is one way of getting its value.
func mergePhi(ph *ssa.Phi) bool {
	for _, p := range ph.Block().Preds {
		if ph.Block().Dominates(p) {
			return false
		}
	}
	return len(ph.Edges) > 1
}

// condsDNF expands conditions on short-circuit values into the ways they can
// come about: the result is a list of condition lists (a disjunction of conjunctions).
func condsDNF(cs []Cond, depth int) [][]Cond {
	out := [][]Cond{{}}
	for _, c := range cs {
		alts := [][]Cond{{c}}
		if ph, isPhi := c.V.(*ssa.Phi); isPhi && isBool(ph.Type()) && depth > 0 && mergePhi(ph) {
			// a boolean assigned on several branches and tested after they join (`a && b`, `a || b`,
			// a flag set in the arms of a switch): one way per incoming edge - the edge was taken and
			// the value it carries is the one asked for
			alts = nil
			for j, e := range ph.Edges {
				via := CondsOfEdge(ph.Block().Preds[j], ph.Block())
				if k, isC := constBool(e); isC {
					if k != c.Pol {
						continue
					}
				} else {
					via = append(via, Cond{e, c.Pol, c.If})
				}
				for _, sub := range condsDNF(via, depth-1) {
					alts = append(alts, append([]Cond{c}, sub...))
				}
			}
		}
		var next [][]Cond
		for _, o := range out {
			for _, a := range alts {
				next = append(next, append(append([]Cond{}, o...), a...))
			}
		}
		out = next
		if len(out) > 64 {
			return [][]Cond{cs}
		}
	}
	return out
}

// decisionCallees: reviewed decision functions by the prefix their call atoms start with
// ("(*filter.FilterNode).isHeadersQualified"); set by the property that owns the tables.
var decisionCallees = map[string]*ssa.Function{}

var calleeDecisionCache = map[*ssa.Function][]conj{}

// sameDecision: the two lists of alternatives denote the same function of their atoms.
func sameDecision(cur, rev []conj) bool {
	atomSet := map[string]bool{}
	vals := map[string]bool{}
	for _, cs := range [][]conj{cur, rev} {
		for _, c := range cs {
			vals[c.val] = true
			for a := range c.lits {
				atomSet[a] = true
			}
		}
	}
	var atoms []string
	for a := range atomSet {
		atoms = append(atoms, a)
	}
	sort.Strings(atoms)
	if len(atoms) > 18 {
		return false
	}
	holds := func(cs []conj, v string, m int) bool {
		for _, c := range cs {
			if c.val != v {
				continue
			}
			ok := true
			for i, a := range atoms {
				if pol, has := c.lits[a]; has && pol != (m&(1<<i) != 0) {
					ok = false
					break
				}
			}
			if ok {
				return true
			}
		}
		return false
	}
	for v := range vals {
		for m := 0; m < 1<<len(atoms); m++ {
			if holds(cur, v, m) != holds(rev, v, m) {
				return false
			}
		}
	}
	return true
}

// splitArgs splits "a, f(b, c), d" at the top-level commas.
func splitArgs(s string) []string {
	var out []string
	depth, start := 0, 0
	for i := 0; i < len(s); i++ {
		switch s[i] {
		case '(', '[':
			depth++
		case ')', ']':
			depth--
		case ',':
			if depth == 0 {
				out = append(out, strings.TrimSpace(s[start:i]))
				start = i + 1
			}
		}
	}
	return append(out, strings.TrimSpace(s[start:]))
}

// expandCalls replaces every literal that is a call of a reviewed decision function by that
// function's own alternatives (its parameters replaced by the call's arguments).
func expandCalls(cs []conj, depth int) []conj {
	if depth > 6 {
		return cs
	}
	var out []conj
	changed := false
	for _, c := range cs {
		var atom, prefix string
		var keys []string
		for a := range c.lits {
			keys = append(keys, a)
		}
		sort.Strings(keys)
		for _, a := range keys {
			for p := range decisionCallees {
				if strings.HasPrefix(a, p+"(") && strings.HasSuffix(a, ")") && (atom == "" || a < atom) {
					atom, prefix = a, p
				}
			}
		}
		if atom == "" {
			out = append(out, c)
			continue
		}
		changed = true
		g := decisionCallees[prefix]
		rows, ok := calleeDecisionCache[g]
		if !ok {
			rows = decisionOf(g, 0)
			calleeDecisionCache[g] = rows
		}
		args := splitArgs(atom[len(prefix)+1 : len(atom)-1])
		subst := func(a string) string {
			for i, p := range g.Params {
				if i >= len(args) {
					break
				}
				name := "param:" + canonParam(p)
				var b strings.Builder
				for j := 0; j < len(a); {
					if strings.HasPrefix(a[j:], name) {
						end := j + len(name)
						if end == len(a) || !(a[end] == '_' || a[end] >= '0' && a[end] <= '9' || a[end] >= 'a' && a[end] <= 'z' || a[end] >= 'A' && a[end] <= 'Z') {
							b.WriteString("\x00" + args[i] + "\x00")
							j = end
							continue
						}
					}
					b.WriteByte(a[j])
					j++
				}
				a = b.String()
			}
			return strings.ReplaceAll(a, "\x00", "")
		}
		want := fmt.Sprint(c.lits[atom])
		for _, row := range rows {
			if row.val != want {
				continue
			}
			n := conj{val: c.val, lits: map[string]bool{}}
			for a, pol := range c.lits {
				if a != atom {
					n.lits[a] = pol
				}
			}
			dead := false
			for a, pol := range row.lits {
				sa := subst(a)
				if old, has := n.lits[sa]; has && old != pol {
					dead = true
				}
				n.lits[sa] = pol
			}
			if !dead {
				out = append(out, n)
			}
		}
	}
	if changed {
		return expandCalls(out, depth+1)
	}
	return out
}
