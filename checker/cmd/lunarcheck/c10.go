package main

import (
	"go/token"
	"strings"

	"golang.org/x/tools/go/ssa"
)

const pkgQueue = "lunar/engine/utils/queue"

func init() {
	register(&Property{
		ID:   "C10",
		Mods: []string{modEngine},
		Explanation: "Decides structural necessary conditions of the policy-mode delayed queue, not the hand-off interleaving itself: " +
			"(R1) queue/counter/window/requestCounts only under dpq.mutex; (R2) both increments of the window counter are on the counter<WindowQuota edge and add exactly 1, the window roll resets on gridEnd>storedEnd; " +
			"(R3) heap.Push is on the totalQueueCount()<maxQueueSize edge with no unlock between check and push; (R4) comparator = priority ascending then timestamp ascending; " +
			"(R5) after heap.Pop every path back to the loop head has signalled the popped request (close(doneCh)) or is the listed exception; (R6) waiter blocks on exactly doneCh and clock.After(ttl), both arms decrement requestCounts under the lock, results true/false; " +
			"(R7) constructor starts process(), whose loop is wait->Lock->ensureWindowIsUpdated->processQueueItems->Unlock; plugin maps canProceed to NoOp and refusal to the rejection action. " +
			"NOT decided: which goroutine parks first, timer precision, fairness over schedules.",
		RuleText: "obligation = (rule, anchored construct) on SSA of the current tree: edge-dominance of normalised comparisons, must-lockset, unsignalled-path search after heap.Pop, select-state inventory; distinct = obligation keys; non-trivial = inspected >= 1 instruction",
		Run:      runC10,
	})
}

func runC10(w *World, r *Report) {
	hrTotalCountsAllGroups(w, r, "R3")
	hrArrivalTimestampExact(w, r, "R4")
	hrParseHeaders(w, r, "R4")
	hrCfgAgentTimeout(w, r, "R6")
	hrDefaultTimeoutMatchesTheImage(w, r, "R6")
	hrQueueTTLAtLeastOneSecond(w, r, "R6")
	hrNoDedupBeforeUniqueness(w, r, "R8")
	hrTimeoutAboveTTL(w, r, "R6")
	hrCountsCopy(w, r, "R3")
	// arrival order inside one priority is the order of the (monotonic) clock readings (C11.R4)
	r.Borrow(w, c11ClockKeepsMonotonicReading, map[string]string{"R4": "R5"})
	hrQueuePriority(w, r, "R4")
	hrConstructorAlignsWindow(w, r, "R7")
	la := NewLockAn(w)
	checkGB(w, r, la, "R1", []GuardRow{
		{Pkg: pkgQueue, Struct: "DelayedPriorityQueue", Fields: []string{"queue", "currentWindowCounter", "currentWindowEndTime", "requestCounts"}, Mutex: "mutex", MinSites: 18},
		{Pkg: pkgRemedies, Struct: "StrategyBasedQueuePlugin", Fields: []string{"queues"}, Mutex: "queuesMutex", MinSites: 3},
	})
	isCnt := pathRe(`^param:dpq\.currentWindowCounter$`)
	isQuota := pathRe(`^param:dpq\.strategy\.WindowQuota$`)

	enq := w.Fn(pkgQueue, "DelayedPriorityQueue.Enqueue")
	pqi := w.Fn(pkgQueue, "DelayedPriorityQueue.processQueueItems")
	ens := w.Fn(pkgQueue, "DelayedPriorityQueue.ensureWindowIsUpdated")
	proc := w.Fn(pkgQueue, "DelayedPriorityQueue.process")
	for n, f := range map[string]*ssa.Function{"Enqueue": enq, "processQueueItems": pqi, "ensureWindowIsUpdated": ens, "process": proc} {
		if f == nil {
			r.Undec("R0", n, token.NoPos, "function DelayedPriorityQueue.%s not found", n)
		}
	}
	if enq == nil || pqi == nil || ens == nil || proc == nil {
		return
	}

	// R2 increments
	nInc := 0
	for _, f := range []*ssa.Function{enq, pqi} {
		for _, st := range fieldStores(f, "currentWindowCounter") {
			nInc++
			rels := Rels(st.Block())
			op, _ := FindRel(rels, isCnt, isQuota)
			r.Check(op == "<", "R2", f.Name()+"/increment-guard", posOf(st), "window counter incremented under counter %q WindowQuota (want <); relations %s", op, relsString(rels))
			b, ok := st.Val.(*ssa.BinOp)
			r.Check(ok && b.Op == token.ADD && isCnt(b.X) && isIntConst(b.Y, 1), "R2", f.Name()+"/increment-by-one", posOf(st), "stored %s (want counter + 1)", Path(st.Val))
		}
	}
	if nInc != 2 {
		r.Undec("R2", "increment-sites", token.NoPos, "expected the 2 confirmed increment sites (Enqueue, processQueueItems), found %d", nInc)
	}
	// writers of the counter
	for _, a := range w.fieldAccesses(pkgQueue, "DelayedPriorityQueue", []string{"currentWindowCounter"}) {
		if !a.Write || isFreshBase(a.Base) {
			continue
		}
		id := fnID(outermost(a.Fn))
		ok := idMatches(id, "DelayedPriorityQueue).Enqueue") || idMatches(id, "DelayedPriorityQueue).processQueueItems") || idMatches(id, "DelayedPriorityQueue).ensureWindowIsUpdated")
		r.Check(ok, "R2", "writers(currentWindowCounter)/"+shortFn(id), posOf(a.In), "writer %s", id)
	}
	// window roll
	{
		isStored := pathRe(`^param:dpq\.currentWindowEndTime$`)
		isGrid := func(v ssa.Value) bool {
			p := Path(v)
			return strings.Contains(p, "global:epochTime") && strings.Contains(p, "time.Time).Sub(") &&
				strings.Contains(p, " / param:dpq.strategy.WindowSize) * param:dpq.strategy.WindowSize)") && strings.HasSuffix(p, ", param:dpq.strategy.WindowSize)") &&
				Derives(v, func(x ssa.Value) bool { return isCallTo0(x, "clock.Clock).Now") })
		}
		cs, es := fieldStores(ens, "currentWindowCounter"), fieldStores(ens, "currentWindowEndTime")
		if len(cs) != 1 || len(es) != 1 {
			r.Undec("R2", "ensureWindowIsUpdated/reset", ens.Pos(), "expected one counter reset and one end update, found %d/%d", len(cs), len(es))
		} else {
			rels := Rels(cs[0].Block())
			op, _ := FindRel(rels, isGrid, isStored)
			r.Check(op == ">" && isIntConst(cs[0].Val, 0), "R2", "ensureWindowIsUpdated/reset-guard", posOf(cs[0]), "counter reset to %s under gridEnd %q storedEnd (want 0 under >); relations %s", Path(cs[0].Val), op, relsString(rels))
			r.Check(es[0].Block() == cs[0].Block() && isGrid(es[0].Val), "R2", "ensureWindowIsUpdated/end-update", posOf(es[0]), "stored end = %s (want the epoch-grid end, in the reset block)", Path(es[0].Val))
		}
	}

	// R3 bound
	pushes := CallsIn(enq, false, "container/heap.Push")
	if len(pushes) != 1 {
		r.Undec("R3", "Enqueue/push", enq.Pos(), "expected one heap.Push, found %d", len(pushes))
	} else {
		push := pushes[0]
		rels := Rels(push.Block())
		isTotal := func(v ssa.Value) bool { return isCallTo0(v, "DelayedPriorityQueue).totalQueueCount") }
		isMaxQ := pathRe(`^param:maxQueueSize$`)
		op, rel := FindRel(rels, isTotal, isMaxQ)
		r.Check(op == "<", "R3", "Enqueue/push-guard", posOf(push), "heap.Push executes under totalQueueCount() %q maxQueueSize (want <); relations %s", op, relsString(rels))
		if rel != nil {
			unl := unlockBetween(rel.Src.If.Block(), push)
			r.Check(!unl, "R3", "Enqueue/check-push-atomic", posOf(push), "no Unlock between the size check and the push (found=%v)", unl)
		}
		// also guarded by window counter being full (the other way is immediate admission)
		op2, _ := FindRel(rels, isCnt, isQuota)
		r.Check(op2 == ">=", "R3", "Enqueue/push-only-when-window-full", posOf(push), "push happens under counter %q quota (want >=)", op2)
		// requestCounts++ follows the push under the same lock
		okCnt := false
		Instrs(enq, func(in ssa.Instruction) {
			if mu, ok := in.(*ssa.MapUpdate); ok && strings.HasSuffix(Path(mu.Map), "dpq.requestCounts") && mu.Block() == push.Block() {
				if b, ok := mu.Value.(*ssa.BinOp); ok && b.Op == token.ADD && isIntConst(b.Y, 1) && strings.HasSuffix(Path(mu.Key), "req.priority") {
					okCnt = domInstr(push, mu) && !unlockBetweenInstr(push, mu)
				}
			}
		})
		r.Check(okCnt, "R3", "Enqueue/requestCounts-incremented-with-push", posOf(push), "requestCounts[req.priority]++ follows the push inside the same critical section")
		// pushed value is the request
		r.Check(Path(push.Common().Args[1]) == "param:req" && strings.HasSuffix(Path(push.Common().Args[0]), "param:dpq.queue"), "R3", "Enqueue/push-args", posOf(push), "heap.Push(%s, %s)", Path(push.Common().Args[0]), Path(push.Common().Args[1]))
	}
	if tq := w.Fn(pkgQueue, "DelayedPriorityQueue.totalQueueCount"); tq != nil {
		// sums every entry of requestCounts
		okSum := false
		Instrs(tq, func(in ssa.Instruction) {
			if rg, ok := in.(*ssa.Range); ok && strings.HasSuffix(Path(rg.X), "dpq.requestCounts") {
				okSum = true
			}
		})
		acc := false
		for _, alt := range ReturnAlts(tq, 0) {
			if b, ok := alt.Val.(*ssa.BinOp); ok && b.Op == token.ADD && Derives(b, func(x ssa.Value) bool { _, isNext := x.(*ssa.Next); return isNext }) {
				acc = true
			}
		}
		okSum = okSum && acc
		r.Check(okSum, "R3", "totalQueueCount/sums-requestCounts", tq.Pos(), "totalQueueCount ranges over requestCounts and returns the accumulated sum")
	} else {
		r.Undec("R3", "totalQueueCount", token.NoPos, "function not found")
	}

	// R4 comparator
	if less := w.Fn(pkgQueue, "PriorityQueue.Less"); less == nil {
		r.Undec("R4", "Less", token.NoPos, "function not found")
	} else {
		checkLessByOrderings(w, r, "R4", less, "priority", "timestamp")
		// heap protocol: Push appends, Pop removes the last element, Swap swaps
		if pop := w.Fn(pkgQueue, "PriorityQueue.Pop"); pop != nil {
			okPop := false
			for _, alt := range ReturnAlts(pop, 0) {
				okPop = strings.Contains(Path(alt.Val), "[(builtin.len(*param:pq) - 1)]")
			}
			r.Check(okPop, "R4", "Pop/returns-last", pop.Pos(), "heap Pop returns old[n-1]")
		}
	}

	// R5 no popped item dropped
	pops := CallsIn(pqi, false, "container/heap.Pop")
	if len(pops) != 1 {
		r.Undec("R5", "processQueueItems/pop", pqi.Pos(), "expected one heap.Pop, found %d", len(pops))
	} else {
		pop := pops[0].(*ssa.Call)
		isSignal := func(in ssa.Instruction) bool {
			if c, ok := in.(*ssa.Call); ok {
				if b, ok := c.Call.Value.(*ssa.Builtin); ok && b.Name() == "close" && strings.HasSuffix(Path(c.Call.Args[0]), ".doneCh") {
					return true
				}
				if isCallTo(c, "container/heap.Push") {
					return true
				}
			}
			if s, ok := in.(*ssa.Send); ok && strings.HasSuffix(Path(s.Chan), ".doneCh") {
				return true
			}
			return false
		}
		escapes := unsignalledEscapes(pop, isSignal)
		if len(escapes) == 0 {
			r.Hold("R5", "processQueueItems/all-paths-signal", posOf(pop), 1, "every path from heap.Pop back to the loop head signals the popped request")
		}
		for _, tr := range escapes {
			kind := "other"
			e := tr[len(tr)-1]
			for _, tb := range tr {
				for _, c := range CondsOf(tb) {
					p := Path(c.V)
					if strings.HasPrefix(p, "(select#0 == ") && !c.Pol && kind == "other" {
						kind = "select-default-not-signalled"
					}
					if strings.HasPrefix(p, "assert(") && strings.HasSuffix(p, "#1") && !c.Pol {
						kind = "not-a-request"
					}
				}
			}
			switch kind {
			case "not-a-request":
				r.Hold("R5", "processQueueItems/"+kind, posOf(e.Instrs[0]), 1, "table exception: an item that is not a *Request has no waiter to signal")
			default:
				r.Fail("R5", "processQueueItems/"+kind, posOf(e.Instrs[0]), "a request popped from the heap reaches the loop head again without close(doneCh)/re-push via block %d (%s): it stays parked until its TTL although its turn had come", e.Index, e.Comment)
			}
		}
		// the signal happens only on the send-succeeded edge and increments the counter there
		Instrs(pqi, func(in ssa.Instruction) {
			if isSignal(in) {
				ok := false
				for _, c := range CondsOf(in.Block()) {
					if strings.HasPrefix(Path(c.V), "(select#0 == 0") && c.Pol {
						ok = true
					}
				}
				inc := false
				for _, st := range fieldStores(pqi, "currentWindowCounter") {
					if st.Block() == in.Block() {
						inc = true
					}
				}
				r.Check(ok && inc, "R5", "processQueueItems/signal-and-count-together", posOf(in), "close(doneCh) on the send-succeeded edge=%v, counter incremented in the same block=%v", ok, inc)
			}
		})
		// loop condition: queue non-empty and quota left
		rels := Rels(pop.Block())
		opQ, _ := FindRel(rels, isCnt, isQuota)
		opL, _ := FindRel(rels, func(v ssa.Value) bool { return isCallTo0(v, "PriorityQueue).Len") }, func(v ssa.Value) bool { return isIntConst(v, 0) })
		r.Check(opQ == "<" && opL == ">", "R5", "processQueueItems/loop-guard", posOf(pop), "pop executes under Len() %q 0 and counter %q quota (want > and <)", opL, opQ)
	}

	// R6 waiter
	var sel *ssa.Select
	Instrs(enq, func(in ssa.Instruction) {
		if s, ok := in.(*ssa.Select); ok {
			sel = s
		}
	})
	if sel == nil {
		r.Undec("R6", "Enqueue/select", enq.Pos(), "waiter select not found")
	} else {
		okSel := sel.Blocking && len(sel.States) == 2
		var iDone, iTTL = -1, -1
		for i, st := range sel.States {
			if st.Dir != 2 /* types.RecvOnly */ {
				okSel = false
			}
			p := Path(st.Chan)
			if p == "param:req.doneCh" {
				iDone = i
			}
			if strings.HasSuffix(p, "clock.Clock).After(param:dpq.clock, param:ttl)") {
				iTTL = i
			}
		}
		r.Check(okSel && iDone >= 0 && iTTL >= 0, "R6", "Enqueue/waiter-select", posOf(sel), "waiter blocks on exactly req.doneCh and clock.After(ttl) (blocking=%v states=%d done=%d ttl=%d)", sel.Blocking, len(sel.States), iDone, iTTL)
		if len(pushes) == 1 {
			r.Check(domInstr(pushes[0], sel), "R6", "Enqueue/wait-after-push", posOf(sel), "the wait follows the push")
			held := la.HeldAt(sel)
			r.Check(len(held) == 0, "R6", "Enqueue/wait-without-lock", posOf(sel), "lockset at the blocking select is %s (want empty: waiting under dpq.mutex would deadlock the processor)", held)
		}
		// result per arm
		for _, alt := range ReturnAlts(enq, 0) {
			b, isC := constBool(alt.Val)
			if !isC {
				r.Fail("R6", "Enqueue/result-const", posOf(alt.Ret), "Enqueue result %s is not a constant verdict", Path(alt.Val))
				continue
			}
			arm := -2
			for _, c := range alt.Conds {
				p := Path(c.V)
				if strings.HasPrefix(p, "(select#0 == ") && c.Pol {
					if k, ok := constInt(c.V.(*ssa.BinOp).Y); ok {
						arm = int(k)
					}
				}
			}
			// the decrement is in the arm itself or in a common tail every arm runs through
			dec := false
			Instrs(enq, func(in ssa.Instruction) {
				if mu, ok := in.(*ssa.MapUpdate); ok && strings.HasSuffix(Path(mu.Map), "dpq.requestCounts") && (mu.Block() == alt.Block || domInstr(mu, alt.Ret) && domInstr(sel, mu)) {
					if bo, ok := mu.Value.(*ssa.BinOp); ok && bo.Op == token.SUB && isIntConst(bo.Y, 1) && strings.HasSuffix(Path(mu.Key), "req.priority") {
						if _, held := la.HeldAt(mu)["param:dpq.mutex"]; held {
							dec = true
						}
					}
				}
			})
			switch {
			case arm == iDone && iDone >= 0:
				r.Check(b && dec, "R6", "Enqueue/arm-done", posOf(alt.Ret), "doneCh arm returns %v and decrements requestCounts under the lock=%v (want true,true)", b, dec)
			case arm == iTTL && iTTL >= 0:
				r.Check(!b && dec, "R6", "Enqueue/arm-ttl", posOf(alt.Ret), "TTL arm returns %v and decrements requestCounts under the lock=%v (want false,true)", b, dec)
			default:
				// before the select: immediate admission or queue full
				rels := relsOfConds(alt.Conds)
				op, _ := FindRel(rels, isCnt, isQuota)
				if op == "<" {
					closed := false
					for _, in := range alt.Block.Instrs {
						if c, ok := in.(*ssa.Call); ok {
							if bi, ok := c.Call.Value.(*ssa.Builtin); ok && bi.Name() == "close" && Path(c.Call.Args[0]) == "param:req.doneCh" {
								closed = len(la.HeldAt(c)) == 0
							}
						}
					}
					r.Check(b && closed, "R6", "Enqueue/immediate-admission", posOf(alt.Ret), "immediate admission returns %v, closes doneCh after unlocking=%v", b, closed)
				} else {
					isTotal := func(v ssa.Value) bool { return isCallTo0(v, "DelayedPriorityQueue).totalQueueCount") }
					op3, _ := FindRel(rels, isTotal, pathRe(`^param:maxQueueSize$`))
					r.Check(!b && op3 == ">=", "R6", "Enqueue/queue-full", posOf(alt.Ret), "refusal before waiting returns %v under total %q max (want false under >=)", b, op3)
				}
			}
		}
	}

	// R7 rollover goroutine
	if ctor := w.Fn(pkgQueue, "NewInMemoryDelayedPriorityQueue"); ctor == nil {
		r.Undec("R7", "constructor", token.NoPos, "NewInMemoryDelayedPriorityQueue not found")
	} else {
		n := 0
		Instrs(ctor, func(in ssa.Instruction) {
			if g, ok := in.(*ssa.Go); ok && isCallTo(g, "DelayedPriorityQueue).process") {
				n++
			}
		})
		r.Check(n == 1, "R7", "constructor/starts-process", ctor.Pos(), "constructor starts exactly one process goroutine (found %d)", n)
	}
	{
		after := CallsIn(proc, false, "clock.Clock).After")
		lock := CallsIn(proc, false, "sync.RWMutex).Lock")
		ensC := CallsIn(proc, false, "DelayedPriorityQueue).ensureWindowIsUpdated")
		pq := CallsIn(proc, false, "DelayedPriorityQueue).processQueueItems")
		unl := CallsIn(proc, false, "sync.RWMutex).Unlock")
		ok := len(after) == 1 && len(lock) == 1 && len(ensC) == 1 && len(pq) == 1 && len(unl) == 1
		if ok {
			// the unlock follows the hand-out: an explicit Unlock after it, or a deferred Unlock of the
			// function that does the hand-out (the critical section extracted into a helper)
			unlockAfter := domInstr(pq[0], unl[0])
			if _, isDefer := unl[0].(*ssa.Defer); isDefer {
				unlockAfter = unl[0].Parent() == pq[0].Parent() && domInstr(lock[0], unl[0])
			}
			// the hand-out is unconditional once the lock is taken (no early way out between them)
			lockConds := map[string]bool{}
			for _, c := range CondsOf(lock[0].Block()) {
				lockConds[condsString([]Cond{c})] = true
			}
			for _, c := range CondsOf(pq[0].Block()) {
				if !lockConds[condsString([]Cond{c})] {
					unlockAfter = false
				}
			}
			ok = domInstr(after[0], lock[0]) && domInstr(lock[0], ensC[0]) && domInstr(ensC[0], pq[0]) && unlockAfter &&
				isCallTo0(after[0].Common().Args[0], "DelayedPriorityQueue).GetTimeTillWindowEnd")
			// it is a loop: the unlock's block (or the call of the helper it is in) reaches the wait again, and there is no return
			var last ssa.Instruction = unl[0]
			for i := 0; i < 3 && last.Parent() != proc; i++ {
				h := helperFor(last.Parent())
				if h == nil || len(h.sites) != 1 {
					break
				}
				last = h.sites[0]
			}
			ok = ok && last.Parent() == proc && reachableFrom(last.Block(), nil)[after[0].Block()]
			for _, b := range proc.Blocks {
				if _, isRet := b.Instrs[len(b.Instrs)-1].(*ssa.Return); isRet && b != proc.Recover {
					ok = false
				}
			}
		}
		r.Check(ok, "R7", "process/loop-shape", proc.Pos(), "process loops forever: wait(GetTimeTillWindowEnd) -> Lock -> ensureWindowIsUpdated -> processQueueItems -> Unlock")
	}
	if gt := w.Fn(pkgQueue, "DelayedPriorityQueue.GetTimeTillWindowEnd"); gt != nil {
		ok := false
		for _, alt := range ReturnAlts(gt, 0) {
			p := Path(alt.Val)
			ok = strings.HasPrefix(p, "(time.Time).Sub(param:dpq.currentWindowEndTime, ") && strings.Contains(p, "clock.Clock).Now(")
		}
		r.Check(ok, "R7", "GetTimeTillWindowEnd/end-minus-now", gt.Pos(), "returns currentWindowEndTime - now")
	}
	// plugin mapping
	if on := w.Fn(pkgRemedies, "StrategyBasedQueuePlugin.OnRequest"); on == nil {
		r.Undec("R7", "plugin.OnRequest", token.NoPos, "function not found")
	} else {
		calls := CallsIn(on, false, "DelayedPriorityQueueable).Enqueue")
		if len(calls) != 1 {
			r.Undec("R7", "plugin/Enqueue", on.Pos(), "expected one Enqueue call, found %d", len(calls))
		} else {
			c := calls[0]
			a := c.Common().Args
			okArgs := strings.Contains(Path(a[1]), "StrategyBasedQueue.TTLSeconds") && strings.HasSuffix(Path(a[1]), "* 1000000000)") && strings.HasSuffix(Path(a[2]), "StrategyBasedQueue.QueueSize")
			r.Check(okArgs, "R7", "plugin/enqueue-args", posOf(c), "Enqueue(_, %s, %s)", Path(a[1]), Path(a[2]))
			isCan := func(v ssa.Value) bool {
				p := Path(v)
				return strings.Contains(p, "DelayedPriorityQueueable).Enqueue(") && strings.HasSuffix(p, "#0")
			}
			nNo, nRej := 0, 0
			for _, alt := range ReturnAlts(on, 0) {
				if !domInstr(c, alt.Ret) {
					continue
				}
				can, cannot := condsHave(alt.Conds, true, isCan), condsHave(alt.Conds, false, isCan)
				rej := Derives(alt.Val, func(x ssa.Value) bool { return isCallTo0(x, "remedies.plainTextTooManyRequestsAction") })
				_, isAlloc := peel(alt.Val).(*ssa.Alloc)
				noop := isAlloc && structOf(peel(alt.Val).Type()) == "NoOpAction"
				switch {
				case rej:
					nRej++
					r.Check(cannot, "R7", "plugin/reject-only-when-refused", posOf(alt.Ret), "rejection returned only on !canProceed (known=%v)", cannot)
				case noop && (can || cannot):
					nNo++
					r.Check(can, "R7", "plugin/noop-only-when-admitted", posOf(alt.Ret), "NoOp returned on canProceed=%v", can)
				}
			}
			if nNo == 0 || nRej == 0 {
				r.Undec("R7", "plugin/verdict-count", on.Pos(), "expected NoOp and rejection returns after Enqueue, found %d/%d", nNo, nRej)
			}
			// queue key = remedy name + strategy(quota, window)
			Instrs(on, func(in ssa.Instruction) {
				if lk, ok := in.(*ssa.Lookup); ok && strings.HasSuffix(Path(lk.X), "plugin.queues") {
					k := lk.Index
					okKey := strings.HasSuffix(Path(litField(k, "RemedyName")), "scopedRemedy.Remedy.Name")
					st := litField(k, "Strategy")
					okKey = okKey && st != nil && strings.HasSuffix(Path(litField(st, "WindowQuota")), "StrategyBasedQueue.AllowedRequestCount") &&
						strings.Contains(Path(litField(st, "WindowSize")), "StrategyBasedQueue.WindowSizeInSeconds")
					r.Check(okKey, "R7", "plugin/queue-key", posOf(lk), "queue looked up by {RemedyName: remedy name, Strategy{AllowedRequestCount, WindowSizeInSeconds}}")
				}
			})
		}
	}
	// R8 one queue per key: insert-if-absent is one critical section
	if on := w.Fn(pkgRemedies, "StrategyBasedQueuePlugin.OnRequest"); on != nil {
		checkInsertIfAbsent(r, la, "R8", "plugin.OnRequest/queues", on, "plugin.queues", "param:plugin.queuesMutex")
	}
	r.Min("R8", 1)
	r.Min("R1", 8)
	r.Min("R2", 8)
	r.Min("R3", 5)
	checkHeapContract(w, r, "R4", pkgQueue, "PriorityQueue")
	c10HandOffChannelIsUnbuffered(w, r)
	r.Min("R4", 6)
	r.Min("R5", 3)
	r.Min("R6", 6)
	r.Min("R7", 6)
}

// unlockBetween: is there an Unlock/RUnlock call on some path from the end
// of block a (the branch) to instruction b?
func unlockBetween(a *ssa.BasicBlock, b ssa.Instruction) bool {
	return unlockOnPath(a.Instrs[len(a.Instrs)-1], b)
}

func isUnlockInstr(in ssa.Instruction) bool {
	if _, isDefer := in.(*ssa.Defer); isDefer {
		return false
	}
	op, _ := lockOp(in)
	return op == "Unlock" || op == "RUnlock"
}

// unlockOnPath: does some path from instruction a to instruction b execute an
// Unlock/RUnlock (non-deferred)?
func unlockOnPath(a, b ssa.Instruction) bool {
	ab, bb := a.Block(), b.Block()
	if ab == bb && instrIndex(a) < instrIndex(b) {
		for _, in := range ab.Instrs[instrIndex(a)+1 : instrIndex(b)] {
			if isUnlockInstr(in) {
				return true
			}
		}
		return false
	}
	for _, in := range ab.Instrs[instrIndex(a)+1:] {
		if isUnlockInstr(in) {
			return true
		}
	}
	for _, in := range bb.Instrs[:instrIndex(b)] {
		if isUnlockInstr(in) {
			return true
		}
	}
	fwd := reachableFrom(ab, nil)
	for blk := range fwd {
		if blk == ab || blk == bb || !canReach(blk, bb) {
			continue
		}
		for _, in := range blk.Instrs {
			if isUnlockInstr(in) {
				return true
			}
		}
	}
	return false
}

func unlockBetweenInstr(a, b ssa.Instruction) bool { return unlockOnPath(a, b) }

func canReach(a, b *ssa.BasicBlock) bool {
	if a == b {
		return true
	}
	return reachableFrom(a, nil)[b]
}

// unsignalledEscapes: starting after instruction `from`, find the blocks
// from which control returns to a loop header dominating from's block (or
// leaves the function) without having executed a signal instruction.
// Returns the last block of each such path (deduplicated).
func unsignalledEscapes(from ssa.Instruction, isSignal func(ssa.Instruction) bool) [][]*ssa.BasicBlock {
	start := from.Block()
	var out [][]*ssa.BasicBlock
	seenOut := map[*ssa.BasicBlock]bool{}
	visited := map[*ssa.BasicBlock]bool{}
	var trail []*ssa.BasicBlock
	var walk func(b *ssa.BasicBlock, idx int)
	walk = func(b *ssa.BasicBlock, idx int) {
		trail = append(trail, b)
		defer func() { trail = trail[:len(trail)-1] }()
		for i := idx; i < len(b.Instrs); i++ {
			if isSignal(b.Instrs[i]) {
				return
			}
		}
		last := b.Instrs[len(b.Instrs)-1]
		if _, isRet := last.(*ssa.Return); isRet {
			if !seenOut[b] {
				seenOut[b] = true
				out = append(out, append([]*ssa.BasicBlock{}, trail...))
			}
			return
		}
		for _, s := range b.Succs {
			// back to a header that dominates the pop block (or the pop block itself)
			if s == start || s.Dominates(start) {
				if !seenOut[b] {
					seenOut[b] = true
					out = append(out, append([]*ssa.BasicBlock{}, trail...))
				}
				continue
			}
			if visited[s] {
				continue
			}
			visited[s] = true
			walk(s, 0)
		}
	}
	walk(start, instrIndex(from)+1)
	return out
}

// checkInsertIfAbsent: every MapUpdate on the map field (path suffix) in fn is
// under the write lock, dominated by the not-found edge of a comma-ok lookup
// of the same map and key, with no Unlock between that lookup and the update
// (check-then-act atomicity: two first arrivals must not both insert).
func checkInsertIfAbsent(r *Report, la *LockAn, rule, key string, fn *ssa.Function, mapSuffix, lock string) {
	n := 0
	Instrs(fn, func(in ssa.Instruction) {
		mu, ok := in.(*ssa.MapUpdate)
		if !ok || !strings.HasSuffix(Path(mu.Map), mapSuffix) {
			return
		}
		n++
		mode, held := la.HeldAt(mu)[lock]
		// any lookup of the same key whose not-found edge leads here and that is in the same
		// critical section will do (a double-checked creation has an earlier one outside it)
		var lk *ssa.Lookup
		atomic := false
		for _, c := range CondsOf(mu.Block()) {
			if ex, ok := c.V.(*ssa.Extract); ok && ex.Index == 1 && !c.Pol {
				if l, ok := ex.Tuple.(*ssa.Lookup); ok && l.CommaOk && Path(l.X) == Path(mu.Map) && Path(l.Index) == Path(mu.Key) {
					lk = l
					if _, lkHeld := la.HeldAt(l)[lock]; lkHeld && !unlockBetweenInstr(l, mu) {
						atomic = true
					}
				}
			}
		}
		r.Check(held && mode == 'W' && atomic, rule, key+"/insert-if-absent-atomic", posOf(mu),
			"map insert under write lock=%v, on the not-found edge of a lookup of the same key=%v, lookup and insert in one critical section=%v", held && mode == 'W', lk != nil, atomic)
	})
	if n == 0 {
		r.Undec(rule, key+"/insert-site", fn.Pos(), "no insertion into %s found", mapSuffix)
	}
}

// checkHeapContract: the slice type implements container/heap's storage
// contract - Len is the length, Swap exchanges exactly elements i and j, Push
// appends the pushed item, Pop returns the last element and shrinks the slice
// by exactly that element. (Less is checked separately: it is the ordering.)
func checkHeapContract(w *World, r *Report, rule, pkg, typ string) {
	get := func(m string) *ssa.Function {
		f := w.Fn(pkg, typ+"."+m)
		if f == nil {
			r.Undec(rule, "heap/"+typ+"."+m, token.NoPos, "method not found")
		}
		return f
	}
	if f := get("Len"); f != nil {
		ok := true
		for _, alt := range ReturnAlts(f, 0) {
			c, isC := peel(alt.Val).(*ssa.Call)
			b, isB := (*ssa.Builtin)(nil), false
			if isC {
				b, isB = c.Call.Value.(*ssa.Builtin)
			}
			if !isC || !isB || b.Name() != "len" || !strings.HasSuffix(strings.TrimPrefix(Path(c.Call.Args[0]), "*"), canonRecv(f)) {
				ok = false
			}
		}
		r.Check(ok, rule, "heap/"+typ+".Len", f.Pos(), "Len returns len of the receiver")
	}
	if f := get("Swap"); f != nil && len(f.Params) == 3 {
		recv, i, j := "param:"+canonParam(f.Params[0]), "param:"+canonParam(f.Params[1]), "param:"+canonParam(f.Params[2])
		want := map[string]string{"&" + recv + "[" + i + "]": recv + "[" + j + "]", "&" + recv + "[" + j + "]": recv + "[" + i + "]"}
		n, ok := 0, true
		Instrs(f, func(in ssa.Instruction) {
			if st, isSt := in.(*ssa.Store); isSt {
				n++
				if want[Path(st.Addr)] != Path(st.Val) || !loadedBefore(st.Val, f) {
					ok = false
				}
			}
		})
		r.Check(ok && n == 2, rule, "heap/"+typ+".Swap", f.Pos(), "Swap stores the old element j at i and the old element i at j (both read before either store)")
	}
	if f := get("Push"); f != nil {
		n, ok := 0, true
		Instrs(f, func(in ssa.Instruction) {
			st, isSt := in.(*ssa.Store)
			if !isSt || Path(st.Addr) != "param:"+canonParam(f.Params[0]) {
				return
			}
			n++
			c, isC := peel(st.Val).(*ssa.Call)
			if !isC {
				ok = false
				return
			}
			b, isB := c.Call.Value.(*ssa.Builtin)
			if !isB || b.Name() != "append" || Path(c.Call.Args[0]) != "*param:"+canonParam(f.Params[0]) ||
				!Derives(c.Call.Args[1], func(x ssa.Value) bool { return x == ssa.Value(f.Params[1]) }) {
				ok = false
			}
		})
		r.Check(ok && n == 1, rule, "heap/"+typ+".Push", f.Pos(), "Push stores append(*receiver, the pushed item) back into the receiver")
	}
	if f := get("Pop"); f != nil {
		recv := "*param:" + canonParam(f.Params[0])
		lastIdx := func(v ssa.Value) bool {
			b, ok := peel(v).(*ssa.BinOp)
			return ok && b.Op == token.SUB && Path(b.X) == "builtin.len("+recv+")" && Path(b.Y) == "1"
		}
		n, ok := 0, true
		Instrs(f, func(in ssa.Instruction) {
			st, isSt := in.(*ssa.Store)
			if !isSt || Path(st.Addr) != "param:"+canonParam(f.Params[0]) {
				return
			}
			n++
			sl, isSl := peel(st.Val).(*ssa.Slice)
			if !isSl || Path(sl.X) != recv || sl.High == nil || !lastIdx(sl.High) {
				ok = false
				return
			}
			if sl.Low != nil {
				if k, isK := sl.Low.(*ssa.Const); !isK || k.Value == nil || k.Value.ExactString() != "0" {
					ok = false
				}
			}
		})
		okRet := true
		for _, alt := range ReturnAlts(f, 0) {
			u, isU := peel(alt.Val).(*ssa.UnOp)
			if !isU {
				okRet = false
				continue
			}
			ia, isIA := u.X.(*ssa.IndexAddr)
			if !isIA || Path(ia.X) != recv || !lastIdx(ia.Index) {
				okRet = false
			}
		}
		r.Check(ok && n == 1 && okRet, rule, "heap/"+typ+".Pop", f.Pos(), "Pop returns element len-1 and stores receiver[0:len-1] back (shrinks by exactly the returned element)")
	}
}

func canonRecv(f *ssa.Function) string { return "param:" + canonParam(f.Params[0]) }

// loadedBefore: v is a load that precedes every store of f (so a swap reads
// both elements before it overwrites either).
func loadedBefore(v ssa.Value, f *ssa.Function) bool {
	ld, ok := v.(*ssa.UnOp)
	if !ok {
		return false
	}
	okAll := true
	Instrs(f, func(in ssa.Instruction) {
		if st, isSt := in.(*ssa.Store); isSt && !domInstr(ld, st) {
			okAll = false
		}
	})
	return okAll
}

// c10HandOffChannelIsUnbuffered: processQueueItems recognises a waiter that
// already left (TTL) by the failure of a non-blocking send on its doneCh; that
// only works when the channel has no buffer (a buffered send to a dead entry
// succeeds and consumes the window's slot).
func c10HandOffChannelIsUnbuffered(w *World, r *Report) {
	f := w.Fn(pkgQueue, "NewRequest")
	if f == nil {
		r.Undec("R5", "queue.NewRequest", token.NoPos, "function not found")
		return
	}
	n, ok := 0, true
	Instrs(f, func(in ssa.Instruction) {
		mc, isMC := in.(*ssa.MakeChan)
		if !isMC {
			return
		}
		n++
		k, isK := mc.Size.(*ssa.Const)
		if !isK || k.Value == nil || k.Value.ExactString() != "0" {
			ok = false
		}
	})
	r.Check(ok && n == 1, "R5", "NewRequest/doneCh-is-unbuffered", f.Pos(), "the waiter's done channel is created without a buffer (the non-blocking hand-off must fail when nobody waits any more)")
}
