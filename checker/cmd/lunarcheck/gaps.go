package main

import (
	"bufio"
	"encoding/json"
	"fmt"
	"os"
	"path/filepath"
	"sort"
	"strings"

	"golang.org/x/tools/go/ssa"
)

// reportGaps (development aid, LC_GAPS=<depth>): lists the functions within <depth> calls of
// the functions defined in the property's anchor files that contain no obligation position.
// It only says where no rule looks yet; it is not part of any verdict.
func reportGaps(w *World, r *Report, verif string, depth int) {
	f, err := os.Open(filepath.Join(verif, "properties.jsonl"))
	if err != nil {
		fmt.Println("gaps:", err)
		return
	}
	defer f.Close()
	var files []string
	sc := bufio.NewScanner(f)
	sc.Buffer(make([]byte, 1<<22), 1<<22)
	for sc.Scan() {
		var p struct {
			ID      string `json:"id"`
			Anchors struct {
				Files []string `json:"files"`
			} `json:"anchors"`
		}
		if json.Unmarshal(sc.Bytes(), &p) == nil && p.ID == r.Prop {
			files = p.Anchors.Files
		}
	}
	inAnchor := func(fn *ssa.Function) bool {
		pos := w.Fset.Position(fn.Pos())
		for _, a := range files {
			if strings.HasSuffix(pos.Filename, a) {
				return true
			}
		}
		return false
	}
	cg := w.CallGraph()
	dist := map[*ssa.Function]int{}
	var frontier []*ssa.Function
	for _, fn := range w.lunarFns {
		if fn.Parent() == nil && fn.Pos().IsValid() && inAnchor(fn) && fn.Origin() == nil {
			dist[origin(fn)] = 0
			frontier = append(frontier, origin(fn))
		}
	}
	for d := 1; d <= depth; d++ {
		var next []*ssa.Function
		for _, fn := range frontier {
			for _, m := range []map[*ssa.Function]map[*ssa.Function]bool{cg.Static, cg.Dynamic} {
				for c := range m[fn] {
					if _, seen := dist[c]; !seen && c.Pos().IsValid() {
						dist[c] = d
						next = append(next, c)
					}
				}
			}
		}
		frontier = next
	}
	covered := map[*ssa.Function]int{}
	type span struct {
		fn       *ssa.Function
		file     string
		from, to int
	}
	var spans []span
	for fn := range dist {
		if fn.Syntax() == nil {
			continue
		}
		a, b := w.Fset.Position(fn.Syntax().Pos()), w.Fset.Position(fn.Syntax().End())
		spans = append(spans, span{fn, a.Filename, a.Line, b.Line})
	}
	for _, o := range r.Obs {
		if !o.pos.IsValid() {
			continue
		}
		p := w.Fset.Position(o.pos)
		for _, s := range spans {
			if s.file == p.Filename && s.from <= p.Line && p.Line <= s.to {
				covered[s.fn]++
			}
		}
	}
	var rows []string
	n := 0
	for fn, d := range dist {
		if covered[fn] > 0 || fn.Parent() != nil {
			continue
		}
		if strings.HasSuffix(w.Fset.Position(fn.Pos()).Filename, "_test.go") {
			continue
		}
		ni := 0
		for _, b := range fn.Blocks {
			ni += len(b.Instrs)
		}
		if ni < 4 {
			continue
		}
		n++
		rows = append(rows, fmt.Sprintf("d=%d  %4d instrs  %s  %s", d, ni, fnID(fn), w.Pos(fn.Pos())))
	}
	sort.Strings(rows)
	fmt.Printf("== gaps %s: %d functions within %d calls of the anchor files, %d without any obligation\n", r.Prop, len(dist), depth, n)
	for _, s := range rows {
		fmt.Println("  " + s)
	}
}
