package main

import (
	"go/token"
	"go/types"
	"sort"
	"strings"

	"golang.org/x/tools/go/ssa"
)

const pkgURLTree = "lunar/toolkit-core/urltree"

func init() {
	register(&Property{
		ID:   "C13",
		Mods: []string{modEngine},
		Explanation: "Decides structural necessary conditions of 'a policy applies only to requests matching its declared endpoint', not matching correctness over all declaration sets: " +
			"(R1) when the policy tree is built, a method is merged into an existing map only if the lookup returned exactly the declared URL (otherwise a less specific wildcard endpoint would acquire the specific endpoint's policy, depending on declaration order); every declared endpoint is inserted with its own URL/remedies/diagnoses under its own method; " +
			"(R2) the dispatcher selects by the request's method from the looked-up map, scopes plugins with the same lookup's normalised URL and path parameters, and appends globals unconditionally; " +
			"(R3) lookup precedence: per segment the literal child is tried before the parametric child before the wildcard fall-back; after the last segment the node's own value, then its wildcard child, then the inherited wildcard; the inherited wildcard is refreshed at every node that has one (innermost wins); " +
			"(R4) a path parameter is recorded under the declared name with the request's segment; a declaration whose parameter name conflicts with an existing one is rejected regardless of how it is inserted. " +
			"NOT decided: matching correctness and order independence over all declaration sets (runtime trie shapes).",
		RuleText: "obligation = (rule, anchored construct) on SSA of the current tree: lookup-then-merge guard, literal provenance, frozen return-alternative tables of the lookup, dominance order of the three child probes",
		Run:      runC13,
	})
}

func runC13(w *World, r *Report) {
	hrEndpointKeyHasMethod(w, r, "R4")
	hrParamNamePattern(w, r, "R3")
	hrPutErrorsReturned(w, r, "R4")
	hrWildcardConstant(w, r, "R3")
	hrParamSegmentNonEmpty(w, r, "R3")
	// an endpoint with an enabled plugin is registered with the proxy (C14.R4)
	r.Borrow(w, c14CoveragePolicies, map[string]string{"R4": "R4"})
	hrEarlyResponseMessage(w, r, "R4")
	hrAnyEnabledDiagnosis(w, r, "R4")
	hrFreshElementPerIteration(w, r, "R4", pkgRunner, "appendEndpointDiagnoses", "appendGlobalDiagnoses", "appendEndpointRemedies", "appendGlobalRemedies")
	hrDiagnosesSelectedByRequest(w, r, "R4")
	hrNormalisedPathSpelling(w, r, "R3")
	bt := w.Fn(pkgConfig, "BuildEndpointPolicyTree")
	if bt == nil {
		r.Undec("R1", "BuildEndpointPolicyTree", token.NoPos, "function not found")
	} else {
		checkLookupMergeGuard(w, r, "R1", "BuildEndpointPolicyTree", bt)
		ins := CallsIn(bt, false, "URLTree).InsertDeclaredURL")
		if len(ins) != 1 {
			r.Undec("R1", "BuildEndpointPolicyTree/insert", bt.Pos(), "expected one InsertDeclaredURL, found %d", len(ins))
		} else {
			c := ins[0]
			extra := []string{}
			for _, cd := range CondsOf(c.Block()) {
				if s := condSig(cd); s != "" && !(strings.Contains(s, "checkForDuplicates(") && strings.HasPrefix(s, "!")) {
					extra = append(extra, s)
				}
			}
			r.Check(len(extra) == 0 && strings.HasSuffix(Path(c.Common().Args[1]), "endpoint.URL"), "R1", "BuildEndpointPolicyTree/every-endpoint-inserted", posOf(c),
				"every declared endpoint is inserted under its own URL (conditions other than the duplicate check: %v)", extra)
		}
		// policy literals
		n := 0
		Instrs(bt, func(in ssa.Instruction) {
			mu, ok := in.(*ssa.MapUpdate)
			if !ok {
				return
			}
			n++
			v := mu.Value
			ok2 := strings.HasSuffix(Path(litField(v, "URL")), "endpoint.URL") && strings.HasSuffix(Path(litField(v, "Remedies")), "endpoint.Remedies") &&
				strings.HasSuffix(Path(litField(v, "Diagnosis")), "endpoint.Diagnosis") && strings.HasSuffix(Path(mu.Key), "endpoint.Method")
			r.Check(ok2, "R1", "BuildEndpointPolicyTree/policy-literal", posOf(mu), "map[Method(endpoint.Method)] = {URL, Remedies, Diagnosis of the same endpoint}")
		})
		if n != 2 {
			r.Undec("R1", "BuildEndpointPolicyTree/policy-sites", bt.Pos(), "expected 2 policy map stores (merge and fresh), found %d", n)
		}
	}

	// R2 dispatcher
	for _, name := range []string{"getRemedies", "getDiagnoses", "shouldDiagnose"} {
		f := w.Fn(pkgRunner, name)
		if f == nil {
			r.Undec("R2", name, token.NoPos, "function not found")
			continue
		}
		lks := CallsIn(f, false, "URLTree).Lookup")
		if len(lks) != 1 {
			r.Undec("R2", name+"/lookup", f.Pos(), "expected one Lookup, found %d", len(lks))
			continue
		}
		lk := lks[0].Value()
		okURL := Path(lks[0].Common().Args[1]) == "param:url"
		okIdx := false
		Instrs(f, func(in ssa.Instruction) {
			if l, ok := in.(*ssa.Lookup); ok && Derives(l.X, func(x ssa.Value) bool { return x == ssa.Value(lk) }) && strings.HasSuffix(Path(l.X), ".Value") {
				okIdx = Path(l.Index) == "param:methodStr"
			}
		})
		r.Check(okURL && okIdx, "R2", name+"/select-by-method", f.Pos(), "Lookup(url) and index the looked-up map by Method(methodStr) (url=%v method=%v)", okURL, okIdx)
		for _, c := range CallsIn(f, false, "runner.appendEndpointRemedies", "runner.appendEndpointDiagnoses") {
			a := c.Common().Args
			fromSame := func(v ssa.Value, field string) bool {
				return strings.HasSuffix(Path(v), "."+field) && Derives(v, func(x ssa.Value) bool { return x == ssa.Value(lk) })
			}
			okScope := Path(a[2]) == "param:methodStr" && fromSame(a[3], "NormalizedURL") && (len(a) < 5 || fromSame(a[4], "PathParams"))
			okFound := condsHave(CondsOf(c.Block()), true, func(v ssa.Value) bool { return strings.HasSuffix(Path(v), "[param:methodStr]#1") })
			r.Check(okScope && okFound, "R2", name+"/scoped-by-same-lookup", posOf(c), "endpoint plugins are scoped with methodStr and the same lookup's NormalizedURL/PathParams, only when the method is declared")
		}
		for _, c := range CallsIn(f, false, "runner.appendGlobalRemedies", "runner.appendGlobalDiagnoses") {
			r.Check(len(CondsOf(c.Block())) == 0, "R2", name+"/globals-unconditional", posOf(c), "global plugins are appended unconditionally")
		}
	}

	// R3 lookup precedence
	ln := w.Fn(pkgURLTree, "lookupNode")
	if ln == nil {
		r.Undec("R3", "lookupNode", token.NoPos, "function not found")
	} else {
		var constLk, paramLd, wildRet ssa.Instruction
		Instrs(ln, func(in ssa.Instruction) {
			switch x := in.(type) {
			case *ssa.Lookup:
				if strings.HasSuffix(Path(x.X), ".ConstantChildren") {
					constLk = x
				}
			case *ssa.UnOp:
				if x.Op == token.MUL && strings.HasSuffix(Path(x), ".ParametricChild.Child") && paramLd == nil {
					paramLd = x
				}
			}
		})
		// classified result table
		got := map[string]bool{}
		for _, c := range CallsIn(ln, false, "urltree.buildLookupNodeResult") {
			a := c.Common().Args
			m, _ := constBool(a[0])
			np := Path(a[1])
			kind := "current"
			switch {
			case strings.HasSuffix(np, ".WildcardChild") && !strings.HasPrefix(np, "phi[nil") && !strings.HasPrefix(np, "phi[phi[nil"):
				kind = "own-wildcard"
			case strings.Contains(np, ".WildcardChild"):
				kind = "inherited-wildcard"
			}
			tags := []string{}
			for _, cd := range CondsOf(c.Block()) {
				p := Path(cd.V)
				neg := map[bool]string{true: "", false: "!"}[cd.Pol]
				switch {
				case strings.Contains(p, "hasValue("):
					tags = append(tags, neg+"hasValue")
				case strings.Contains(p, "TryExtractPathParameter("):
					tags = append(tags, neg+"isTemplate")
				case strings.HasSuffix(p, ".WildcardChild != nil)") && !strings.HasPrefix(p, "(phi[nil") && !strings.HasPrefix(p, "(phi[phi[nil"):
					tags = append(tags, neg+"ownWildcard")
				case strings.HasSuffix(p, " != nil)") && strings.Contains(p, ".WildcardChild"):
					tags = append(tags, neg+"inheritedWildcard")
				}
			}
			sortStrings(tags)
			got[boolS(m)+"/"+kind+"/"+strings.Join(tags, ",")] = true
		}
		want := []string{
			"false/current/isTemplate",
			"true/inherited-wildcard/!isTemplate,inheritedWildcard",
			"false/current/!inheritedWildcard,!isTemplate",
			"true/current/hasValue",
			"true/own-wildcard/!hasValue,ownWildcard",
			"true/inherited-wildcard/!hasValue,!ownWildcard,inheritedWildcard",
			"false/current/!hasValue,!inheritedWildcard,!ownWildcard",
		}
		for _, wv := range want {
			r.Check(got[wv], "R3", "lookupNode/result/"+wv, ln.Pos(), "lookup result (match/node/conditions) %s present", wv)
			delete(got, wv)
		}
		for g := range got {
			r.Fail("R3", "lookupNode/result-unexpected/"+g, ln.Pos(), "lookup produces a result not in the reviewed precedence table: %s", g)
		}
		for _, c := range CallsIn(ln, false, "urltree.buildLookupNodeResult") {
			if b, ok := constBool(c.Common().Args[0]); ok && b && strings.Contains(Path(c.Common().Args[1]), "phi[") && wildRet == nil {
				if cd := CondsOf(c.Block()); len(cd) > 0 && paramLd != nil && domInstr(paramLd, c) {
					wildRet = c
				}
			}
		}
		ok := constLk != nil && paramLd != nil && wildRet != nil && domInstr(constLk, paramLd) && domInstr(paramLd, wildRet)
		r.Check(ok, "R3", "lookupNode/segment-precedence", ln.Pos(), "per segment: literal child probe dominates the parametric probe, which dominates the wildcard fall-back (literal=%v param=%v wildcard=%v)", constLk != nil, paramLd != nil, wildRet != nil)
		checkDescentLabelGuard(r, "R3", "lookupNode", ln)
		// inherited wildcard refreshed whenever the current node has one
		okW := false
		Instrs(ln, func(in ssa.Instruction) {
			ph, isPhi := in.(*ssa.Phi)
			if !isPhi || len(ph.Edges) != 2 {
				return
			}
			for i, e := range ph.Edges {
				if strings.HasSuffix(Path(e), ".WildcardChild") {
					cs := CondsOfEdge(ph.Block().Preds[i], ph.Block())
					n := 0
					has := false
					for _, cd := range cs {
						s := condSig(cd)
						if s == "" {
							continue
						}
						n++
						if strings.HasSuffix(s, ".WildcardChild != nil)") && !strings.HasPrefix(s, "!") {
							has = true
						}
					}
					if has && n == 1 {
						okW = true
					}
				}
			}
		})
		r.Check(okW, "R3", "lookupNode/innermost-wildcard-kept", ln.Pos(), "the remembered wildcard is replaced at every node that has a wildcard child (condition: only WildcardChild != nil)")
		// R4 params
		okP := false
		Instrs(ln, func(in ssa.Instruction) {
			if mu, isMU := in.(*ssa.MapUpdate); isMU {
				okP = strings.HasSuffix(Path(mu.Key), ".ParametricChild.Name") && strings.HasSuffix(Path(mu.Value), "urlPart.Value") &&
					condsHave(CondsOf(mu.Block()), false, func(v ssa.Value) bool { return strings.Contains(Path(v), "TryExtractPathParameter(") })
			}
		})
		r.Check(okP, "R4", "lookupNode/path-param-recorded", ln.Pos(), "params[declared parameter name] = the request's segment, on the parametric edge for a concrete (non-template) segment")
	}
	if lk := w.Fn(pkgURLTree, "URLTree.Lookup"); lk != nil {
		for _, alt := range ReturnAlts(lk, 0) {
			v := alt.Val
			if litField(v, "Match") == nil {
				continue
			}
			ok := strings.HasSuffix(Path(litField(v, "NormalizedURL")), ".existingURLPath") && strings.HasSuffix(Path(litField(v, "PathParams")), ".pathParams") && strings.HasSuffix(Path(litField(v, "Value")), ".node.Value")
			r.Check(ok, "R4", "Lookup/result-fields", posOf(alt.Ret), "LookupResult carries the matched node's value, its URL path and the extracted parameters")
		}
	}
	// name conflict rejected regardless of insertion mode
	if iw := w.Fn(pkgURLTree, "URLTree.insertWithConvergenceIndication"); iw == nil {
		r.Undec("R4", "insert", token.NoPos, "insertWithConvergenceIndication not found")
	} else {
		found := false
		for _, alt := range ReturnAlts(iw, 1) {
			if isNilConst(alt.Val) {
				continue
			}
			mismatch, mode := false, false
			for _, cd := range alt.Conds {
				p := Path(cd.V)
				if strings.Contains(p, " != ") && strings.Contains(p, ".ParametricChild.Name") && cd.Pol {
					mismatch = true
				}
				if strings.Contains(p, "param:declaredURL") {
					mode = true
				}
			}
			if mismatch {
				found = true
				r.Check(!mode, "R4", "insert/param-name-conflict-rejected", posOf(alt.Ret), "a declaration whose path-parameter name differs from the existing one at that position is rejected for every kind of insertion (depends on declaredURL=%v)", mode)
			}
		}
		if !found {
			r.Fail("R4", "insert/param-name-conflict-rejected", iw.Pos(), "no error return on a path-parameter name mismatch: two declarations with different names at one position would share a node and report a URL that was never declared")
		}
	}
	checkDeclaredTreesDoNotConverge(w, r, "R1")
	c13DiagnosisFreeCopyKeepsEndpoints(w, r)
	c13URLSplitting(w, r)
	r.Min("R1", 8)
	r.Min("R2", 7)
	r.Min("R3", 8)
	r.Min("R4", 3)
}

func sortStrings(s []string) { sort.Strings(s) }

// checkDeclaredTreesDoNotConverge: the engine's URL trees hold declared
// patterns; sibling convergence into an assumed path parameter (the discovery
// tree's behaviour) is never enabled for them. Decided by (a) who writes the
// enabling field and (b) the constant passed at every constructor call site of
// the loaded engine module.
func checkDeclaredTreesDoNotConverge(w *World, r *Report, rule string) {
	var writers []string
	for _, f := range w.lunarFns {
		if f.Origin() != nil {
			continue
		}
		Instrs(f, func(in ssa.Instruction) {
			st, ok := in.(*ssa.Store)
			if !ok {
				return
			}
			if fa, ok := st.Addr.(*ssa.FieldAddr); ok && fieldName(fa.X.Type(), fa.Field) == "assumedPathParamsEnabled" {
				if p, n := namedOf(fa.X.Type()); p == pkgURLTree && n == "URLTree" {
					id := shortFn(fnID(outermost(f)))
					if b, isC := constBool(st.Val); !(isC && !b) && id != "urltree.NewURLTree" {
						writers = append(writers, id+" at "+w.Pos(st.Pos()))
					}
				}
			}
		})
	}
	r.Check(len(writers) == 0, rule, "convergence-flag/only-the-constructor-sets-it", token.NoPos, "URLTree.assumedPathParamsEnabled is set only by NewURLTree from its argument (other writers: %v)", writers)
	n := 0
	for _, cs := range w.CallSites("urltree.NewURLTree") {
		n++
		b, isC := constBool(cs.In.Common().Args[0])
		r.Check(isC && !b, rule, "convergence-flag/"+shortFn(fnID(outermost(cs.Fn))), posOf(cs.In), "NewURLTree(assumedPathParamsEnabled=%s, ...) (want the constant false: declared patterns must stay distinct)", Path(cs.In.Common().Args[0]))
	}
	if n < 2 {
		r.Undec(rule, "convergence-flag/call-sites", token.NoPos, "expected at least two NewURLTree call sites in the engine, found %d", n)
	}
	if ne := w.Fn(pkgURLTree, "NewEndpointTree"); ne == nil {
		r.Undec(rule, "NewEndpointTree", token.NoPos, "function not found")
	} else {
		calls := CallsIn(ne, true, "urltree.NewURLTree")
		r.Check(len(calls) == 0 || func() bool {
			for _, c := range calls {
				if b, isC := constBool(c.Common().Args[0]); !isC || b {
					return false
				}
			}
			return true
		}(), rule, "convergence-flag/NewEndpointTree", ne.Pos(), "the endpoint (policy) tree is constructed without sibling convergence")
	}
}

// c13DiagnosisFreeCopyKeepsEndpoints: the diagnosis-free copy of the policies
// (the version the fail-safe switches to) clears diagnoses only: every endpoint
// stays declared, so a literal endpoint keeps shadowing a wildcard or
// parametric sibling for remedy selection.
func c13DiagnosisFreeCopyKeepsEndpoints(w *World, r *Report) {
	f := w.Fn(pkgConfig, "modifyIntoDiagnosisFreePoliciesConfig")
	if f == nil {
		r.Undec("R4", "modifyIntoDiagnosisFreePoliciesConfig", token.NoPos, "function not found")
		return
	}
	n := 0
	ok := true
	var why []string
	Instrs(f, func(in ssa.Instruction) {
		c, isC := in.(*ssa.Call)
		if !isC {
			return
		}
		b, isB := c.Call.Value.(*ssa.Builtin)
		if !isB || b.Name() != "append" || !strings.Contains(c.Type().String(), "EndpointConfig") {
			return
		}
		n++
		for _, cd := range CondsOf(c.Block()) {
			p := Path(cd.V)
			if rel, isRel := NormCond(cd); isRel && rel.Op == "<" && strings.Contains(Path(rel.R), "builtin.len(") {
				continue // range index in bounds
			}
			if strings.HasPrefix(p, "next(range(") && strings.HasSuffix(p, "#0") && cd.Pol {
				continue
			}
			ok = false
			why = append(why, "endpoint kept only under "+trunc(p, 60))
		}
	})
	var brk []string
	for _, h := range loopHeadersOf(f) {
		brk = append(brk, loopBreaks(h)...)
	}
	r.Check(n == 1 && ok && len(brk) == 0, "R4", "diagnosis-free-copy/keeps-every-endpoint", f.Pos(), "every endpoint of the loaded policies is appended to the diagnosis-free copy unconditionally (conditions %v, breaks %v)", why, brk)
}

// c13URLSplitting: the parts a URL is matched by come from the trimmed URL
// (any run of '.' and '/' at either end is ignored, for declared patterns and
// requests alike), and "the wildcard is only allowed at the end" compares
// POSITIONS (the whole part, host/path flag included), not just the text "*".
func c13URLSplitting(w *World, r *Report) {
	if sp := w.Fn(pkgURLTree, "splitURL"); sp == nil {
		r.Undec("R2", "splitURL", token.NoPos, "function not found")
	} else {
		ok := false
		for _, c := range CallsIn(sp, false, "strings.Split") {
			if Derives(c.Common().Args[0], func(x ssa.Value) bool {
				cc, isC := x.(*ssa.Call)
				return isC && isCallTo(cc, "urltree.trimURL") && cc.Call.Args[0] == ssa.Value(sp.Params[0])
			}) {
				ok = true
			}
		}
		own := len(CallsIn(sp, false, "strings.TrimPrefix", "strings.TrimSuffix", "strings.TrimLeft", "strings.TrimRight")) > 0
		r.Check(ok && !own, "R2", "splitURL/splits-the-trimmed-url", sp.Pos(), "splitURL splits trimURL(url) (and does no trimming of its own)")
	}
	if vu := w.Fn(pkgURLTree, "validateURL"); vu == nil {
		r.Undec("R2", "validateURL", token.NoPos, "function not found")
	} else {
		// the error "wildcard only at the end" is returned under: part.Value == "*" and
		// the POSITION of the part differs from len(parts)-1.  Comparing the part itself
		// with the last part is not enough: in a.com/*/b/* the middle wildcard equals the
		// trailing one (found as a genuine defect, see known_findings.json).
		okPos := false
		for _, alt := range ReturnAlts(vu, 0) {
			c, isC := peel(alt.Val).(*ssa.Call)
			if !isC || !isCallTo(c, "fmt.Errorf") {
				continue
			}
			// the rejection of a wildcard part: the error returned under part.Value == "*"
			// (identified by that condition, not by the wording of the message)
			isWild := false
			for _, cd := range expandConds(alt.Conds) {
				if rel, isRel := NormCond(cd); isRel && rel.Op == "==" {
					for _, side := range [][2]ssa.Value{{rel.L, rel.R}, {rel.R, rel.L}} {
						if cv, isS := constString(side[1]); isS && cv == "*" && strings.HasSuffix(Path(side[0]), ".Value") {
							isWild = true
						}
					}
				}
			}
			if !isWild {
				continue
			}
			for _, cd := range expandConds(alt.Conds) {
				b, isB := cd.V.(*ssa.BinOp)
				if !isB {
					continue
				}
				bt, isBasic := b.X.Type().Underlying().(*types.Basic)
				if !isBasic || bt.Info()&types.IsInteger == 0 {
					continue
				}
				// (the loop bound i < len(parts) is an ordering, not this comparison)
				differs := b.Op == token.NEQ && cd.Pol || b.Op == token.EQL && !cd.Pol || b.Op == token.LSS && cd.Pol || b.Op == token.GEQ && !cd.Pol
				lastIdx := func(v ssa.Value) bool {
					sub, isSub := v.(*ssa.BinOp)
					if !isSub || sub.Op != token.SUB {
						return false
					}
					one, isOne := constInt(sub.Y)
					l, isLen := sub.X.(*ssa.Call)
					return isOne && one == 1 && isLen && isCallTo(l, "builtin.len")
				}
				if differs && (lastIdx(b.X) || lastIdx(b.Y)) {
					okPos = true
				}
			}
		}
		r.Check(okPos, "R2", "validateURL/wildcard-must-be-the-last-part", vu.Pos(), "a wildcard part is rejected unless its position is len(parts)-1 (position compared, not the text or the part)")
	}
}
