package main

import (
	"go/token"
	"go/types"
	"strings"

	"golang.org/x/tools/go/ssa"
)

const (
	pkgFilter = "lunar/engine/streams/filter"
	pkgSCfg   = "lunar/engine/streams/config"
)

func init() {
	register(&Property{
		ID:   "C03",
		Mods: []string{modEngine},
		Explanation: "Decides structural necessary conditions of 'a flow runs exactly when its OWN filter accepts', not trie matching over all pattern sets: " +
			"(R1) nothing in the call tree that decides a flow's validity reads state of the URL-tree node (which is populated from whichever flow was inserted first): the verdict depends only on the flow and the transaction, hence not on load order; " +
			"(R2) validate() is the conjunction of the four qualifiers (frozen return table); (R3) every constraint field of the filter configuration has an accessor that the selection code calls; " +
			"(R4) each qualifier returns true/false under exactly the reviewed conditions, comparing the flow's own accessor with the transaction's accessor (method==GetMethod, status==GetStatus, DoesHeaderValueMatch, DoesQueryParamExist/ValueMatch; empty constraint => true); " +
			"(R5) a transaction that matches no flow returns nil before any action is produced; (R6) a new flow is merged into an existing tree node only when the lookup returned that very URL; (R9) selecting the flows of a transaction never writes into the node's shared flow lists (no store, no append into their backing arrays). " +
			"NOT decided: trie traversal (wildcard accumulation, parameter vs literal precedence) over all pattern sets and URLs.",
		RuleText: "obligation = (rule, anchored construct) on SSA of the current tree: receiver-field read inventory over the decision call tree, frozen return-alternative tables (value <= conditions), accessor coverage of struct fields, lookup-then-merge guard",
		Run:      runC03,
	})
}

var c03Sigs = map[string][]string{
	"isHeadersQualified": {
		"false <= !(*filter.FilterNode).isHeaderValueValid(param:node, next(range(makemap))#1, next(range(makemap))#2, param:APIStream) ; !(builtin.len((public-types.FilterI).GetAllowedHeaders((internal-types.FlowI).GetFilter(param:flow))) == 0) ; !(public-types.StreamType).IsResponseType((public-types.APIStreamI).GetType(param:APIStream))",
		"true <= !(builtin.len((public-types.FilterI).GetAllowedHeaders((internal-types.FlowI).GetFilter(param:flow))) == 0) ; !(public-types.StreamType).IsResponseType((public-types.APIStreamI).GetType(param:APIStream))",
		"true <= !(public-types.StreamType).IsResponseType((public-types.APIStreamI).GetType(param:APIStream)) ; (builtin.len((public-types.FilterI).GetAllowedHeaders((internal-types.FlowI).GetFilter(param:flow))) == 0)",
		"true <= (public-types.StreamType).IsResponseType((public-types.APIStreamI).GetType(param:APIStream))",
	},
	"isStatusCodeQualified": { // reviewed again after fix 129ad79: an absent response does not qualify
		"false <= !(builtin.len((public-types.FilterI).GetAllowedStatusCodes((internal-types.FlowI).GetFilter(param:flow))) == 0) ; !(public-types.StreamType).IsRequestType((public-types.APIStreamI).GetType(param:APIStream)) ; !utils.IsInterfaceNil((public-types.APIStreamI).GetResponse(param:APIStream))",
		"false <= !(builtin.len((public-types.FilterI).GetAllowedStatusCodes((internal-types.FlowI).GetFilter(param:flow))) == 0) ; !(public-types.StreamType).IsRequestType((public-types.APIStreamI).GetType(param:APIStream)) ; utils.IsInterfaceNil((public-types.APIStreamI).GetResponse(param:APIStream))",
		"true <= !(builtin.len((public-types.FilterI).GetAllowedStatusCodes((internal-types.FlowI).GetFilter(param:flow))) == 0) ; !(public-types.StreamType).IsRequestType((public-types.APIStreamI).GetType(param:APIStream)) ; !utils.IsInterfaceNil((public-types.APIStreamI).GetResponse(param:APIStream)) ; ((public-types.FilterI).GetAllowedStatusCodes((internal-types.FlowI).GetFilter(param:flow))[i] == (public-types.TransactionI).GetStatus((public-types.APIStreamI).GetResponse(param:APIStream)))",
		"true <= !(public-types.StreamType).IsRequestType((public-types.APIStreamI).GetType(param:APIStream)) ; (builtin.len((public-types.FilterI).GetAllowedStatusCodes((internal-types.FlowI).GetFilter(param:flow))) == 0)",
		"true <= (public-types.StreamType).IsRequestType((public-types.APIStreamI).GetType(param:APIStream))",
	},
	"isMethodQualified": {
		"false <= ",
		"true <= ((public-types.APIStreamI).GetMethod(param:APIStream) == (public-types.FilterI).GetSupportedMethods((internal-types.FlowI).GetFilter(param:flow))[i])", // operands in canonical order (load.go)
		"true <= (builtin.len((public-types.FilterI).GetAllowedMethods((internal-types.FlowI).GetFilter(param:flow))) == 0) ; (internal-types.FlowI).IsUserFlow(param:flow)",
	},
	"isQueryParamsQualified": {
		"false <= !((*public-types.KeyValue).GetParamValue(local:data) == nil) ; !(public-types.StreamType).IsResponseType((public-types.APIStreamI).GetType(param:APIStream)) ; !(public-types.TransactionI).DoesQueryParamValueMatch((public-types.APIStreamI).GetRequest(param:APIStream), local:data.Key, (*public-types.ParamValue).GetString((*public-types.KeyValue).GetParamValue(local:data))) ; (public-types.TransactionI).DoesQueryParamExist((public-types.APIStreamI).GetRequest(param:APIStream), local:data.Key)",
		"false <= !(public-types.StreamType).IsResponseType((public-types.APIStreamI).GetType(param:APIStream)) ; !(public-types.TransactionI).DoesQueryParamExist((public-types.APIStreamI).GetRequest(param:APIStream), local:data.Key)",
		"true <= !(public-types.StreamType).IsResponseType((public-types.APIStreamI).GetType(param:APIStream))",
		"true <= (public-types.StreamType).IsResponseType((public-types.APIStreamI).GetType(param:APIStream))",
	},
	"isHeaderValueValid": {
		"false <= ",
		"true <= (public-types.APIStreamI).DoesHeaderValueMatch(param:APIStream, param:headerKey, param:headerValues[i])",
	},
	"validate": {
		"false <= !(*filter.FilterNode).isHeadersQualified(param:node, param:flow, param:apiStream)",
		"false <= !(*filter.FilterNode).isMethodQualified(param:node, param:flow, param:apiStream) ; (*filter.FilterNode).isHeadersQualified(param:node, param:flow, param:apiStream) ; (*filter.FilterNode).isStatusCodeQualified(param:node, param:flow, param:apiStream)",
		"false <= !(*filter.FilterNode).isQueryParamsQualified(param:node, param:flow, param:apiStream) ; (*filter.FilterNode).isHeadersQualified(param:node, param:flow, param:apiStream) ; (*filter.FilterNode).isMethodQualified(param:node, param:flow, param:apiStream) ; (*filter.FilterNode).isStatusCodeQualified(param:node, param:flow, param:apiStream)",
		"false <= !(*filter.FilterNode).isStatusCodeQualified(param:node, param:flow, param:apiStream) ; (*filter.FilterNode).isHeadersQualified(param:node, param:flow, param:apiStream)",
		"true <= (*filter.FilterNode).isHeadersQualified(param:node, param:flow, param:apiStream) ; (*filter.FilterNode).isMethodQualified(param:node, param:flow, param:apiStream) ; (*filter.FilterNode).isQueryParamsQualified(param:node, param:flow, param:apiStream) ; (*filter.FilterNode).isStatusCodeQualified(param:node, param:flow, param:apiStream)",
	},
	"isFlowValid": { // a returned condition X is read as: true when X, false when !X (decision.go)
		"false <= !(*filter.FilterNode).validate(param:node, param:flow, param:apiStream) ; !(public-types.FilterI).IsExpressionFilter((internal-types.FlowI).GetFilter(param:flow)) ; (public-types.FilterI).ShouldAllowSample((internal-types.FlowI).GetFilter(param:flow))",
		"false <= !(*filter.FilterNode).validateExpr(param:node, param:flow, param:apiStream) ; (public-types.FilterI).IsExpressionFilter((internal-types.FlowI).GetFilter(param:flow)) ; (public-types.FilterI).ShouldAllowSample((internal-types.FlowI).GetFilter(param:flow))",
		"false <= !(public-types.FilterI).ShouldAllowSample((internal-types.FlowI).GetFilter(param:flow))",
		"true <= !(public-types.FilterI).IsExpressionFilter((internal-types.FlowI).GetFilter(param:flow)) ; (*filter.FilterNode).validate(param:node, param:flow, param:apiStream) ; (public-types.FilterI).ShouldAllowSample((internal-types.FlowI).GetFilter(param:flow))",
		"true <= (*filter.FilterNode).validateExpr(param:node, param:flow, param:apiStream) ; (public-types.FilterI).IsExpressionFilter((internal-types.FlowI).GetFilter(param:flow)) ; (public-types.FilterI).ShouldAllowSample((internal-types.FlowI).GetFilter(param:flow))",
	},
	"validateExpr": {
		"false <= !((public-types.APIStreamI).JSONPathQuery(param:apiStream, phi[(public-types.FilterI).GetReqExpressions((internal-types.FlowI).GetFilter(param:flow)) | (public-types.FilterI).GetResExpressions((internal-types.FlowI).GetFilter(param:flow))][i])#1 != nil) ; (builtin.len((public-types.APIStreamI).JSONPathQuery(param:apiStream, phi[(public-types.FilterI).GetReqExpressions((internal-types.FlowI).GetFilter(param:flow)) | (public-types.FilterI).GetResExpressions((internal-types.FlowI).GetFilter(param:flow))][i])#0) == 0)",
		"false <= !(public-types.StreamType).IsRequestType((public-types.APIStreamI).GetType(param:apiStream)) ; !(public-types.StreamType).IsResponseType((public-types.APIStreamI).GetType(param:apiStream))",
		"true <= ",
	},
}

// c03Tables: the reviewed decision tables of the qualifier functions (R2/R4), compared as boolean functions.
func c03Tables(w *World, r *Report) {
	for _, n := range []string{"isHeadersQualified", "isStatusCodeQualified", "isMethodQualified", "isQueryParamsQualified"} {
		if g := w.Fn(pkgFilter, "FilterNode."+n); g != nil {
			decisionCallees["(*filter.FilterNode)."+n] = g
		}
	}
	for _, n := range []string{"isFlowValid", "validate", "validateExpr", "isHeadersQualified", "isStatusCodeQualified", "isMethodQualified", "isQueryParamsQualified", "isHeaderValueValid"} {
		f := w.Fn(pkgFilter, "FilterNode."+n)
		if f == nil {
			continue // reported by R1
		}
		rule := "R4"
		if n == "validate" || n == "isFlowValid" {
			rule = "R2"
		}
		checkDecision(r, rule, n, f, 0, c03Sigs[n])
	}
}

func runC03(w *World, r *Report) {
	hrDefaultMethods(w, r, "R4")
	hrParamSegmentNonEmpty(w, r, "R8")
	hrStatusArgIsInt64(w, r, "R4")
	hrInternalLimitFilter(w, r, "R9")
	hrFilterExtendDedupAgainstItself(w, r, "R9")
	hrWildcardConstant(w, r, "R8")
	// the spellings of "any URL" (C14.R4)
	r.Borrow(w, c14CatchAllSpellings, map[string]string{"R4": "R8"})
	hrResumeNodeIsPerFlow(w, r, "R9")
	hrHeaderValueMatch(w, r, "R4")
	hrSplitURLKeepsEmptyParts(w, r, "R7")
	hrParseHeaders(w, r, "R4")
	hrFilterResultGetters(w, r, "R9")
	hrGetHeader(w, r, "R4") // header constraints of a filter are looked up case-insensitively
	names := []string{"isFlowValid", "validate", "validateExpr", "isHeadersQualified", "isStatusCodeQualified", "isMethodQualified", "isQueryParamsQualified", "isHeaderValueValid"}
	fns := map[string]*ssa.Function{}
	for _, n := range names {
		f := w.Fn(pkgFilter, "FilterNode."+n)
		if f == nil {
			r.Undec("R1", n, token.NoPos, "FilterNode.%s not found", n)
			continue
		}
		fns[n] = f
	}
	// R1 decision tree closed under calls within the package, no receiver-state reads
	seen := map[*ssa.Function]bool{}
	var work []*ssa.Function
	if f := fns["isFlowValid"]; f != nil {
		work = append(work, f)
	}
	for len(work) > 0 {
		f := work[len(work)-1]
		work = work[:len(work)-1]
		if seen[f] {
			continue
		}
		seen[f] = true
		reads := []string{}
		for _, af := range Anons(f) {
			Instrs(af, func(in ssa.Instruction) {
				switch x := in.(type) {
				case *ssa.FieldAddr:
					if p, n := namedOf(x.X.Type()); p == pkgFilter && (n == "FilterNode" || n == "nodeFilterRequirements") {
						reads = append(reads, n+"."+fieldName(x.X.Type(), x.Field)+" at "+w.Pos(posOf(x)))
					}
				case *ssa.Field:
					if p, n := namedOf(x.X.Type()); p == pkgFilter && (n == "FilterNode" || n == "nodeFilterRequirements") {
						reads = append(reads, n+"."+fieldName(x.X.Type(), x.Field)+" at "+w.Pos(posOf(x)))
					}
				case ssa.CallInstruction:
					if callee := x.Common().StaticCallee(); callee != nil && fnPkgPath(callee) == pkgFilter && callee.Blocks != nil {
						work = append(work, origin(callee))
					}
				}
			})
		}
		r.Check(len(reads) == 0, "R1", "own-filter-only/"+shortFn(fnID(f)), f.Pos(), "no read of URL-tree node state in the decision (found %v): the node's requirements come from the first flow inserted on the URL, so using them makes a flow's selection depend on another flow and on load order", reads)
	}
	if len(seen) < 8 {
		r.Undec("R1", "own-filter-only/tree-size", token.NoPos, "decision call tree has %d functions, hand-confirmed minimum 8", len(seen))
	}
	c03Tables(w, r)
	// header map construction feeds isHeaderValueValid with key -> values of the flow's own headers
	if f := fns["isHeadersQualified"]; f != nil {
		ok := false
		Instrs(f, func(in ssa.Instruction) {
			if mu, isMU := in.(*ssa.MapUpdate); isMU {
				k, v := Path(mu.Key), Path(mu.Value)
				ok = strings.HasSuffix(k, "data.Key") && strings.HasPrefix(v, "builtin.append(") &&
					Derives(mu.Value, func(x ssa.Value) bool { return isCallTo0(x, "ParamValue).GetString") }) &&
					Derives(mu.Key, func(x ssa.Value) bool { return isCallTo0(x, "FilterI).GetAllowedHeaders") })
			}
		})
		r.Check(ok, "R4", "isHeadersQualified/header-map-from-own-filter", f.Pos(), "the required header values are collected per key from flow.GetFilter().GetAllowedHeaders()")
	}

	// R3 field coverage
	if ft := w.Named(pkgSCfg, "Filter"); ft == nil {
		r.Undec("R3", "Filter", token.NoPos, "streamconfig.Filter not found")
	} else {
		st := ft.Underlying().(*types.Struct)
		// accessor -> fields read
		reads := map[string]map[string]bool{}
		for i := 0; i < ft.NumMethods(); i++ {
			m := w.Prog.FuncValue(ft.Method(i))
			if m == nil || m.Blocks == nil {
				continue
			}
			fs := map[string]bool{}
			Instrs(m, func(in ssa.Instruction) {
				switch x := in.(type) {
				case *ssa.FieldAddr:
					if _, n := namedOf(x.X.Type()); n == "Filter" {
						fs[fieldName(x.X.Type(), x.Field)] = true
					}
				case *ssa.Field:
					if _, n := namedOf(x.X.Type()); n == "Filter" {
						fs[fieldName(x.X.Type(), x.Field)] = true
					}
				}
			})
			reads[m.Name()] = fs
		}
		// accessors called by the selection code (decision tree + AddFlow/GetFlow + endpoints registration)
		called := map[string]bool{}
		sel := []*ssa.Function{}
		for f := range seen {
			sel = append(sel, f)
		}
		for _, n := range []string{"FilterTree.AddFlow", "FilterTree.GetFlow"} {
			if f := w.Fn(pkgFilter, n); f != nil {
				sel = append(sel, f)
			}
		}
		for _, f := range sel {
			Instrs(f, func(in ssa.Instruction) {
				if c, ok := in.(ssa.CallInstruction); ok && c.Common().IsInvoke() && strings.HasSuffix(calleeID(c), "FilterI)."+c.Common().Method.Name()) {
					called[c.Common().Method.Name()] = true
				}
			})
		}
		// transitive: an accessor may call another accessor of Filter (e.g. IsExpressionFilter)
		for i := 0; i < st.NumFields(); i++ {
			fld := st.Field(i).Name()
			if fld == "Name" || !st.Field(i).Exported() {
				continue
			}
			covered := []string{}
			for acc, fs := range reads {
				if fs[fld] && called[acc] {
					covered = append(covered, acc)
				}
			}
			r.Check(len(covered) > 0, "R3", "filter-field-consumed/"+fld, ft.Obj().Pos(), "constraint field Filter.%s is read by accessor(s) %v that the selection code calls (a constraint nobody evaluates would be silently ignored)", fld, covered)
		}
	}

	// R5 no match => no action
	if ef := w.Fn(pkgStreams, "Stream.ExecuteFlow"); ef == nil {
		r.Undec("R5", "streams.ExecuteFlow", token.NoPos, "function not found")
	} else {
		gf := CallsIn(ef, false, "FilterTree).GetFlow", "FilterTreeI).GetFlow")
		ok := len(gf) == 1
		if ok {
			isFound := func(v ssa.Value) bool {
				e, isE := v.(*ssa.Extract)
				return isE && e.Tuple == gf[0].Value() && e.Index == 1
			}
			nf := 0
			for _, alt := range ReturnAlts(ef, 0) {
				if condsHave(alt.Conds, false, isFound) {
					nf++
					if !isNilConst(alt.Val) {
						ok = false
					}
				}
			}
			ok = ok && nf == 1
			// everything that executes flows is on the found edge
			for _, c := range CallsIn(ef, false, "Stream).executeReq", "Stream).executeRes") {
				if !condsHave(CondsOf(c.Block()), true, isFound) {
					ok = false
				}
				if c.Common().Args[1] != ssa.Value(extractOf(gf[0].Value(), 0)) && !strings.Contains(Path(c.Common().Args[1]), "GetFlow(") {
					ok = false
				}
			}
		}
		r.Check(ok, "R5", "ExecuteFlow/no-match-no-action", ef.Pos(), "when the filter tree finds no flow, ExecuteFlow returns nil and neither direction is executed; otherwise exactly the found flows are executed")
	}
	// R6 merge guard
	if af := w.Fn(pkgFilter, "FilterTree.AddFlow"); af == nil {
		r.Undec("R6", "AddFlow", token.NoPos, "function not found")
	} else {
		checkLookupMergeGuard(w, r, "R6", "AddFlow", af)
		ins := CallsIn(af, false, "URLTree).InsertDeclaredURL")
		ok := len(ins) == 1 && strings.HasSuffix(Path(ins[0].Common().Args[1]), "GetURL((internal-types.FlowI).GetFilter(param:flow))")
		r.Check(ok, "R6", "AddFlow/insert-declared-url", af.Pos(), "a flow on a new URL is inserted as a declared URL under its own filter URL")
	}
	// R7/R8 structural conditions of the flow traversal
	if lf := w.Fn(pkgURLTree, "lookupFlow"); lf == nil {
		r.Undec("R7", "lookupFlow", token.NoPos, "function not found")
	} else {
		checkDescentLabelGuard(r, "R8", "lookupFlow", lf)
		// exact-match collection only after the whole URL was consumed
		n := 0
		for _, c := range CallsIn(lf, false, "builtin.append") {
			el := c.Common().Args[1]
			inLoop := false
			for _, cd := range CondsOf(c.Block()) {
				if b, isB := cd.V.(*ssa.BinOp); isB && b.Op == token.LSS && cd.Pol && isCallTo0(b.Y, "builtin.len") {
					inLoop = true
				}
			}
			if inLoop || !Derives(el, func(x ssa.Value) bool { return isFieldLoad(x, "Value") }) {
				continue
			}
			n++
			ok := false
			for _, cd := range CondsOf(c.Block()) {
				ph, isPhi := cd.V.(*ssa.Phi)
				if !isPhi || !cd.Pol || !isBool(ph.Type()) {
					continue
				}
				good := len(ph.Edges) >= 2
				for i, e := range ph.Edges {
					b, isC := constBool(e)
					pred := ph.Block().Preds[i]
					fromHeader := false // rangeindex loop header: ends in `idx < len(slice)`
					if bi := blockIf(pred); bi != nil {
						if b, isB := bi.Cond.(*ssa.BinOp); isB && b.Op == token.LSS && isCallTo0(b.Y, "builtin.len") {
							fromHeader = true
						}
					}
					if !isC || b != fromHeader {
						good = false
					}
				}
				if good {
					ok = true
				}
			}
			r.Check(ok, "R7", "lookupFlow/exact-match-needs-full-consumption", posOf(c), "flows of the node reached after the loop are collected only under a flag that is true exactly on the loop-exhausted edge and false on every break edge (a break on the last part is not a match)")
		}
		if n < 2 {
			r.Undec("R7", "lookupFlow/post-loop-appends", lf.Pos(), "expected 2 post-loop collection sites, found %d", n)
		}
	}
	c03ReadOnlySelection(w, r)
	// every matched node of the URL tree contributes: the loop over them is not left early
	if gf := w.Fn(pkgFilter, "FilterTree.GetFlow"); gf == nil {
		r.Undec("R9", "FilterTree.GetFlow", token.NoPos, "function not found")
	} else {
		var brk []string
		for _, h := range loopHeadersOf(gf) {
			brk = append(brk, loopBreaks(h)...)
			brk = append(brk, loopExits(h, false)...)
		}
		r.Check(len(brk) == 0, "R9", "GetFlow/every-matched-node-consulted", gf.Pos(), "the loop over the matched nodes is never left early (a node whose flows do not qualify is skipped, it does not hide the others): %v", brk)
	}
	// the comparable form of a filter (the key under which quota resources share a system
	// flow) is built field by field from the filter's own fields of the same name
	if tc := w.Fn(pkgSCfg, "Filter.ToComparable"); tc == nil {
		r.Undec("R3", "Filter.ToComparable", token.NoPos, "function not found")
	} else {
		var lit *ssa.Alloc
		Instrs(tc, func(in ssa.Instruction) {
			if a, ok := in.(*ssa.Alloc); ok && structOf(a.Type()) == "ComparableFilter" {
				lit = a
			}
		})
		if lit == nil {
			r.Undec("R3", "Filter.ToComparable/literal", tc.Pos(), "ComparableFilter literal not found")
		} else {
			mm, n := sameNameCopyMismatches(lit)
			r.Check(len(mm) == 0 && n >= 5, "R3", "Filter.ToComparable/fields-from-same-named-fields", lit.Pos(), "each of the %d fields of the comparable key comes from the filter field of the same name; mismatches: %v", n, mm)
		}
	}
	// a transaction answered early is re-selected as a response before its response side runs
	r.Borrow(w, runC04, map[string]string{"R4": "R10"})
	// every constraint of a list is examined: the qualifier loops end only by exhaustion or by returning a verdict
	for _, q := range []string{"isHeadersQualified", "isStatusCodeQualified", "isMethodQualified", "isQueryParamsQualified", "isHeaderValueValid"} {
		f := w.Fn(pkgFilter, "FilterNode."+q)
		if f == nil {
			continue // reported by the signature rule
		}
		hs := loopHeadersOf(f)
		var br []string
		for _, h := range hs {
			br = append(br, loopBreaks(h)...)
		}
		if len(hs) == 0 {
			continue
		}
		r.Check(len(br) == 0, "R4", q+"/loops-examine-every-constraint", f.Pos(), "%d loop(s) over the filter's constraints; none is left by break (a skipped constraint would accept a transaction the filter excludes): %v", len(hs), br)
	}
	checkDeclaredTreesDoNotConverge(w, r, "R6")
	c03Accessors(w, r)
	c03ExtendKeepsKinds(w, r)
	r.Min("R9", 5)
	r.Min("R7", 2)
	r.Min("R8", 2)
	r.Min("R1", 8)
	r.Min("R2", 4)
	r.Min("R3", 6)
	r.Min("R4", 18)
	r.Min("R5", 1)
	r.Min("R6", 2)
}

func extractOf(tuple ssa.Value, idx int) ssa.Value {
	if tuple.Referrers() == nil {
		return nil
	}
	for _, rr := range *tuple.Referrers() {
		if e, ok := rr.(*ssa.Extract); ok && e.Index == idx {
			return e
		}
	}
	return nil
}

// checkLookupMergeGuard: in fn, anything that mutates or extends the value
// found by tree.Lookup(u) (map update through the looked-up pointer, or a
// method call on the looked-up node) must execute on an edge where the
// lookup's NormalizedURL was compared equal to u. Otherwise a lookup that
// merely MATCHED a less specific declaration (wildcard) gets the new entry.
func checkLookupMergeGuard(w *World, r *Report, rule, key string, fn *ssa.Function) {
	// merging into a node that Lookup (matching semantics) returned is never safe: on a
	// wildcard/parametric fallback the result's NormalizedURL is synthesised from the
	// looked-up URL itself, so comparing it with that URL proves nothing
	for _, c := range CallsIn(fn, false, "URLTree).Lookup") {
		lk := c.(*ssa.Call)
		fromLk := func(v ssa.Value) bool { return Derives(v, func(x ssa.Value) bool { return x == ssa.Value(lk) }) }
		Instrs(fn, func(in ssa.Instruction) {
			switch x := in.(type) {
			case *ssa.MapUpdate:
				if fromLk(x.Map) {
					r.Fail(rule, key+"/merge-into-matching-lookup", posOf(x), "a declared pattern is merged into the value that Lookup(%s) returned: Lookup matches, so for `a/*`, `a/x/y`, then `a/x` it returns the wildcard node (NormalizedURL is built from the looked-up URL and equals it), and the new entry lands in - and runs for - the less specific pattern", trunc(Path(lk.Call.Args[1]), 60))
				}
			case *ssa.Call:
				if callee := x.Call.StaticCallee(); callee != nil && callee.Signature.Recv() != nil && len(x.Call.Args) > 0 && x != lk && fromLk(x.Call.Args[0]) && strings.HasSuffix(Path(x.Call.Args[0]), ".Value") {
					r.Fail(rule, key+"/merge-into-matching-lookup/"+callee.Name(), posOf(x), "%s is applied to the node that Lookup(%s) returned: Lookup matches, so for `a/*`, `a/x/y`, then `a/x` it returns the wildcard node (NormalizedURL is built from the looked-up URL and equals it), and the flow is attached to - and runs for - the less specific pattern", callee.Name(), trunc(Path(lk.Call.Args[1]), 60))
				}
			}
		})
	}
	lks := CallsIn(fn, false, "URLTree).LookupDeclaredURL")
	if len(lks) != 1 {
		r.Undec(rule, key+"/lookup", fn.Pos(), "expected one exact-pattern lookup (LookupDeclaredURL), found %d", len(lks))
		return
	}
	lk := lks[0].(*ssa.Call)
	u := lk.Call.Args[1]
	fromLookup := func(v ssa.Value) bool {
		return Derives(v, func(x ssa.Value) bool { return x == ssa.Value(lk) })
	}
	guarded := func(b *ssa.BasicBlock) bool {
		return condsHave(expandConds(CondsOf(b)), true, func(v ssa.Value) bool {
			e, ok := v.(*ssa.Extract)
			return ok && e.Index == 1 && e.Tuple == ssa.Value(lk)
		})
	}
	n := 0
	Instrs(fn, func(in ssa.Instruction) {
		switch x := in.(type) {
		case *ssa.MapUpdate:
			if fromLookup(x.Map) {
				n++
				r.Check(guarded(x.Block()), rule, key+"/merge-into-looked-up-map", posOf(x), "the map found by LookupDeclaredURL(%s) is extended only on its found edge", trunc(Path(u), 60))
			}
		case *ssa.Call:
			if callee := x.Call.StaticCallee(); callee != nil && callee.Signature.Recv() != nil && len(x.Call.Args) > 0 && fromLookup(x.Call.Args[0]) && x != lk && origin(callee).Pkg != nil && strings.HasPrefix(origin(callee).Pkg.Pkg.Path(), "lunar/") {
				n++
				r.Check(guarded(x.Block()), rule, key+"/merge-into-looked-up-node/"+callee.Name(), posOf(x), "%s on the node found by LookupDeclaredURL executes only on its found edge", callee.Name())
			}
		}
	})
	if n == 0 {
		r.Undec(rule, key+"/merge-sites", fn.Pos(), "no merge into the looked-up value found")
	}
	checkExactLookup(w, r, rule)
	c03TreeNodesRecordTheirPosition(w, r, rule)
}

// checkExactLookup: LookupDeclaredURL descends by the KIND of each pattern part
// only (wildcard part -> wildcard child, {param} part -> parametric child,
// anything else -> constant child of that name), refuses on a missing child or
// a host/path mismatch, and reports found only for a node that has a value.
func checkExactLookup(w *World, r *Report, rule string) {
	f := w.Fn(pkgURLTree, "URLTree.LookupDeclaredURL")
	if f == nil {
		r.Undec(rule, "LookupDeclaredURL", token.NoPos, "function not found")
		return
	}
	isWild := func(v ssa.Value) bool {
		rel, ok := NormCond(Cond{V: v, Pol: true})
		if !ok || rel.Op != "==" {
			return false
		}
		return (strings.HasSuffix(Path(rel.L), ".Value") && (Path(rel.R) == `"*"` || strings.Contains(Path(rel.R), "wildcard"))) ||
			(strings.HasSuffix(Path(rel.R), ".Value") && (Path(rel.L) == `"*"` || strings.Contains(Path(rel.L), "wildcard")))
	}
	isParam := func(v ssa.Value) bool {
		e, ok := v.(*ssa.Extract)
		return ok && e.Index == 1 && isCallTo0(e.Tuple, "urltree.TryExtractPathParameter")
	}
	ok := true
	var why []string
	seen := map[string]bool{}
	Instrs(f, func(in ssa.Instruction) {
		fa, isFA := in.(*ssa.FieldAddr)
		if !isFA {
			return
		}
		if _, sn := namedOf(fa.X.Type()); sn != "Node" {
			return
		}
		cs := expandConds(CondsOf(fa.Block()))
		switch fld := fieldName(fa.X.Type(), fa.Field); fld {
		case "WildcardChild":
			seen[fld] = true
			if !condsHave(cs, true, isWild) {
				ok = false
				why = append(why, "WildcardChild followed for a part that is not the wildcard")
			}
		case "ParametricChild":
			seen[fld] = true
			if !condsHave(cs, true, isParam) || !condsHave(cs, false, isWild) {
				ok = false
				why = append(why, "ParametricChild followed for a part that is not a {param}")
			}
		case "ConstantChildren":
			seen[fld] = true
			if !condsHave(cs, false, isParam) || !condsHave(cs, false, isWild) {
				ok = false
				why = append(why, "ConstantChildren consulted for a wildcard or {param} part")
			}
		}
	})
	for _, k := range []string{"WildcardChild", "ParametricChild", "ConstantChildren"} {
		if !seen[k] {
			ok = false
			why = append(why, k+" never followed")
		}
	}
	for _, alt := range ReturnAlts(f, 1) {
		b, isC := constBool(alt.Val)
		if !isC {
			ok = false
			continue
		}
		if b {
			hv := condsHave(expandConds(alt.Conds), true, func(v ssa.Value) bool { return isCallTo0(v, "Node).hasValue") })
			if !hv {
				ok = false
				why = append(why, "found reported for a node without a value")
			}
		}
	}
	r.Check(ok, rule, "LookupDeclaredURL/descends-by-part-kind-only", f.Pos(), "the exact-pattern lookup follows wildcard/parametric/constant children only for parts of the same kind and reports found only for a node with a value %v", why)
}

// checkDescentLabelGuard: every edge on which the trie cursor descends into a
// literal or parametric child is guarded by child.IsPartOfHost == part.IsPartOfHost
// (a host label must never be matched by a path node and vice versa).
func checkDescentLabelGuard(r *Report, rule, key string, fn *ssa.Function) {
	n := 0
	Instrs(fn, func(in ssa.Instruction) {
		ph, ok := in.(*ssa.Phi)
		if !ok {
			return
		}
		type edgeAlt struct {
			v     ssa.Value
			conds []Cond
		}
		var eas []edgeAlt
		for i, e := range ph.Edges {
			// (a descent extracted into a helper that returns the child: its returns, adopt.go)
			for _, a := range expandAlt(e, CondsOfEdge(ph.Block().Preds[i], ph.Block()), ph.Block().Preds[i], nil, 3) {
				eas = append(eas, edgeAlt{a.Val, a.Conds})
			}
		}
		for _, ea := range eas {
			e := ea.v
			kind := ""
			if ex, isEx := e.(*ssa.Extract); isEx && ex.Index == 0 {
				if lk, isLk := ex.Tuple.(*ssa.Lookup); isLk && isFieldLoad(lk.X, "ConstantChildren") {
					kind = "literal"
				}
			}
			if u, isU := e.(*ssa.UnOp); isU && u.Op == token.MUL {
				if fa, isFA := u.X.(*ssa.FieldAddr); isFA && fieldName(fa.X.Type(), fa.Field) == "Child" {
					if fa2, isFA2 := fa.X.(*ssa.FieldAddr); isFA2 && fieldName(fa2.X.Type(), fa2.Field) == "ParametricChild" {
						kind = "parametric"
					}
				}
			}
			if kind == "" {
				continue
			}
			n++
			okG := false
			isLabelOf := func(v, of ssa.Value) bool {
				u, ok := v.(*ssa.UnOp)
				if !ok {
					return false
				}
				fa, ok := u.X.(*ssa.FieldAddr)
				return ok && fieldName(fa.X.Type(), fa.Field) == "IsPartOfHost" && (of == nil || fa.X == of)
			}
			for _, rel := range relsOfConds(ea.conds) {
				if rel.Op == "==" && (isLabelOf(rel.L, e) && isLabelOf(rel.R, nil) && !isLabelOf(rel.R, e) || isLabelOf(rel.R, e) && isLabelOf(rel.L, nil) && !isLabelOf(rel.L, e)) {
					okG = true
				}
			}
			r.Check(okG, rule, key+"/descent-"+kind+"-same-label-kind", posOf(ph), "the cursor descends into the %s child only when child.IsPartOfHost == part.IsPartOfHost", kind)
		}
	})
	if n < 2 {
		r.Undec(rule, key+"/descent-edges", fn.Pos(), "expected literal and parametric descent edges, found %d", n)
	}
}

// isFieldLoad: v is a load of a struct field with the given name.
func isFieldLoad(v ssa.Value, field string) bool {
	u, ok := v.(*ssa.UnOp)
	if !ok || u.Op != token.MUL {
		return false
	}
	fa, ok := u.X.(*ssa.FieldAddr)
	return ok && fieldName(fa.X.Type(), fa.Field) == field
}

// sliceRoots follows a slice value back through append destinations, phis and
// re-slicing to the values that own its backing array.
func sliceRoots(v ssa.Value) []ssa.Value {
	seen := map[ssa.Value]bool{}
	var roots []ssa.Value
	var rec func(v ssa.Value)
	rec = func(v ssa.Value) {
		v = peel(v)
		if v == nil || seen[v] {
			return
		}
		seen[v] = true
		switch x := v.(type) {
		case *ssa.Phi:
			for _, e := range x.Edges {
				rec(e)
			}
		case *ssa.Slice:
			rec(x.X)
		case *ssa.Call:
			if b, ok := x.Call.Value.(*ssa.Builtin); ok && b.Name() == "append" {
				rec(x.Call.Args[0])
				return
			}
			roots = append(roots, v)
		case *ssa.UnOp:
			if a, ok := x.X.(*ssa.Alloc); ok && x.Op == token.MUL {
				for _, st := range storesTo(a) {
					rec(st.Val)
				}
				return
			}
			roots = append(roots, v)
		default:
			roots = append(roots, v)
		}
	}
	rec(v)
	return roots
}

// c03ReadOnlySelection: choosing the flows of a transaction never writes into
// the node's own flow lists (they are shared by every transaction on that URL).
func c03ReadOnlySelection(w *World, r *Report) {
	n := 0
	for _, name := range []string{"FilterNode.getFlow", "FilterNode.getUserFlow", "FilterNode.getSystemFlow", "FilterNode.isFlowValid", "FilterTree.GetFlow"} {
		f := w.Fn(pkgFilter, name)
		if f == nil {
			r.Undec("R9", name, token.NoPos, "function not found")
			continue
		}
		var bad []string
		Instrs(f, func(in ssa.Instruction) {
			switch x := in.(type) {
			case *ssa.Call:
				if b, ok := x.Call.Value.(*ssa.Builtin); ok && b.Name() == "append" {
					for _, root := range sliceRoots(x.Call.Args[0]) {
						if u, ok := root.(*ssa.UnOp); ok && u.Op == token.MUL {
							if fa, ok := u.X.(*ssa.FieldAddr); ok {
								if _, sn := namedOf(fa.X.Type()); sn == "FilterNode" || sn == "FilterTree" {
									bad = append(bad, "append at "+w.Pos(x.Pos())+" writes into the backing array of "+Path(u))
								}
							}
						}
					}
				}
			case *ssa.Store:
				if fa, ok := x.Addr.(*ssa.FieldAddr); ok {
					if _, sn := namedOf(fa.X.Type()); (sn == "FilterNode" || sn == "FilterTree") && !isFreshBase(fa.X) {
						bad = append(bad, "store to "+Path(fa)+" at "+w.Pos(x.Pos()))
					}
				}
				if ia, ok := x.Addr.(*ssa.IndexAddr); ok {
					for _, root := range sliceRoots(ia.X) {
						if u, ok := root.(*ssa.UnOp); ok && u.Op == token.MUL {
							if fa, ok := u.X.(*ssa.FieldAddr); ok {
								if _, sn := namedOf(fa.X.Type()); sn == "FilterNode" || sn == "FilterTree" {
									bad = append(bad, "element store into "+Path(u)+" at "+w.Pos(x.Pos()))
								}
							}
						}
					}
				}
			}
		})
		if name == "FilterNode.getUserFlow" || name == "FilterNode.getSystemFlow" {
			for _, alt := range ReturnAlts(f, 0) {
				for _, root := range sliceRoots(alt.Val) {
					if u, ok := root.(*ssa.UnOp); ok && u.Op == token.MUL {
						if fa, ok := u.X.(*ssa.FieldAddr); ok {
							if _, sn := namedOf(fa.X.Type()); sn == "FilterNode" {
								bad = append(bad, "returns the node's own list "+Path(u)+" at "+w.Pos(posOf(alt.Ret))+" (callers extend the result in place)")
							}
						}
					}
				}
			}
		}
		n++
		r.Check(len(bad) == 0, "R9", "selection-read-only/"+name, f.Pos(), "selecting flows for a transaction does not write the node's shared flow lists: %v", bad)
	}
}

// c03Accessors: the transaction-side accessors the qualifiers rely on decide
// presence by key membership (an empty value is still present) and value
// equality on the same key.
func c03Accessors(w *World, r *Report) {
	const pkgSTypes = "lunar/engine/streams/types"
	if f := w.Fn(pkgSTypes, "OnRequest.DoesQueryParamExist"); f == nil {
		r.Undec("R4", "OnRequest.DoesQueryParamExist", token.NoPos, "function not found")
	} else {
		n := 0
		for _, alt := range ReturnAlts(f, 0) {
			if b, isC := constBool(alt.Val); isC {
				r.Check(!b, "R4", "DoesQueryParamExist/constant", posOf(alt.Ret), "constant result %v (only false, on an unparsable request)", b)
				continue
			}
			n++
			e, isE := peel(alt.Val).(*ssa.Extract)
			ok := false
			if isE && e.Index == 1 {
				if l, isL := e.Tuple.(*ssa.Lookup); isL && l.CommaOk {
					ok = Path(l.Index) == "param:paramName" && Derives(l.X, func(x ssa.Value) bool { return Path(x) == "param:req" })
				}
			}
			r.Check(ok, "R4", "DoesQueryParamExist/key-membership", posOf(alt.Ret), "presence is decided by key membership in the request's parsed query (a parameter with an empty value exists): %s", trunc(Path(alt.Val), 90))
		}
		if n != 1 {
			r.Undec("R4", "DoesQueryParamExist/returns", f.Pos(), "expected one non-constant return, found %d", n)
		}
	}
	if f := w.Fn(pkgSTypes, "OnRequest.DoesQueryParamValueMatch"); f == nil {
		r.Undec("R4", "OnRequest.DoesQueryParamValueMatch", token.NoPos, "function not found")
	} else {
		n := 0
		for _, alt := range ReturnAlts(f, 0) {
			exists := func(v ssa.Value) bool { return isCallTo0(v, "OnRequest).DoesQueryParamExist") }
			if condsHave(alt.Conds, true, exists) {
				n++
				rel, ok := NormCond(Cond{V: alt.Val, Pol: true})
				good := ok && rel.Op == "=="
				if good {
					l, rr := rel.L, rel.R
					if Path(l) == "param:paramValue" {
						l, rr = rr, l
					}
					good = Path(rr) == "param:paramValue" && isCallTo0(l, "net/url.Values).Get") && Path(peel(l).(*ssa.Call).Call.Args[1]) == "param:paramName" &&
						Derives(l, func(x ssa.Value) bool { return Path(x) == "param:req" })
				}
				r.Check(good, "R4", "DoesQueryParamValueMatch/same-key-equality", posOf(alt.Ret), "for a present parameter the result is query.Get(paramName) == paramValue: %s", trunc(Path(alt.Val), 100))
			} else {
				b, isC := constBool(alt.Val)
				r.Check((isC && !b) || exists(alt.Val) && condsHave(alt.Conds, false, exists), "R4", "DoesQueryParamValueMatch/absent-is-false", posOf(alt.Ret), "an absent parameter never matches")
			}
		}
		if n != 1 {
			r.Undec("R4", "DoesQueryParamValueMatch/returns", f.Pos(), "expected one return on the present edge, found %d", n)
		}
	}
}

// c03ExtendKeepsKinds: merging the results of several matched nodes keeps each
// kind of flow list in its own slot (user / system-start / system-end).
func c03ExtendKeepsKinds(w *World, r *Report) {
	f := w.Fn(pkgFilter, "FilterResult.Extend")
	if f == nil {
		r.Undec("R9", "FilterResult.Extend", token.NoPos, "function not found")
		return
	}
	getter := map[string]string{"UserFlow": "GetUserFlow", "SystemFlowStart": "GetSystemFlowStart", "SystemFlowEnd": "GetSystemFlowEnd"}
	n := 0
	ok := true
	var why []string
	Instrs(f, func(in ssa.Instruction) {
		st, isSt := in.(*ssa.Store)
		if !isSt {
			return
		}
		inner, ok1 := st.Addr.(*ssa.FieldAddr)
		if !ok1 || fieldName(inner.X.Type(), inner.Field) != "Flow" {
			return
		}
		outer, ok2 := inner.X.(*ssa.FieldAddr)
		if !ok2 {
			return
		}
		slot := fieldName(outer.X.Type(), outer.Field)
		g, known := getter[slot]
		if !known {
			return
		}
		n++
		fromOwnGetter := Derives(st.Val, func(x ssa.Value) bool {
			c, isC := x.(*ssa.Call)
			return isC && strings.HasSuffix(calleeID(c), ")."+g)
		})
		wrongGetter := false
		for s2, g2 := range getter {
			if s2 != slot && Derives(st.Val, func(x ssa.Value) bool {
				c, isC := x.(*ssa.Call)
				return isC && strings.HasSuffix(calleeID(c), ")."+g2)
			}) {
				wrongGetter = true
			}
		}
		wrongBase := false
		if c, isApp := peel(st.Val).(*ssa.Call); isApp {
			if b, isB := c.Call.Value.(*ssa.Builtin); isB && b.Name() == "append" {
				if !strings.HasSuffix(Path(c.Call.Args[0]), "."+slot+".Flow") {
					wrongBase = true
				}
			}
		}
		if !fromOwnGetter || wrongGetter || wrongBase {
			ok = false
			why = append(why, slot+" <- "+trunc(Path(st.Val), 70))
		}
	})
	r.Check(ok && n == 6, "R9", "FilterResult.Extend/each-kind-stays-in-its-slot", f.Pos(), "each of the %d stores into a result slot takes the other result's list of the same kind and, when appending, appends to the slot's own list %v", n, why)
}

// c03TreeNodesRecordTheirPosition: every node the insert creates records
// whether it stands for a host label or a path segment; descent (matching and
// exact lookup alike) compares that flag with the part being matched.
func c03TreeNodesRecordTheirPosition(w *World, r *Report, rule string) {
	ins := w.Fn(pkgURLTree, "URLTree.insertWithConvergenceIndication")
	if ins == nil {
		r.Undec(rule, "insert/node-literals", token.NoPos, "insert not found")
		return
	}
	n, bad := 0, 0
	Instrs(ins, func(in ssa.Instruction) {
		a, ok := in.(*ssa.Alloc)
		if !ok || !a.Heap || structOf(a.Type()) != "Node" {
			return
		}
		n++
		v := litField(a, "IsPartOfHost")
		if v == nil || !strings.HasSuffix(Path(v), ".IsPartOfHost") || !strings.Contains(Path(v), "urlPart") && !strings.Contains(Path(v), "splitURL") {
			bad++
		}
	})
	r.Check(n >= 3 && bad == 0, rule, "insert/every-new-node-records-host-or-path", ins.Pos(), "%d node literals created by insert, %d without IsPartOfHost taken from the part being inserted", n, bad)
}
