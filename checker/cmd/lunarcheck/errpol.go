package main

import (
	"go/token"
	"go/types"

	"golang.org/x/tools/go/ssa"
)

// ErrMisuse is a use of an error value on the edge where it was just found to
// be nil (it is reported, returned or wrapped there), or a use of the
// companion results of a call on the edge where its error is non-nil. Both are
// "belief" contradictions in the sense of Engler et al.: the code treats the
// value as an error (or as a valid result) where the dominating test says the
// opposite. A flipped `if err != nil` produces exactly these shapes.
type ErrMisuse struct {
	At   ssa.Instruction
	Kind string
	Err  ssa.Value
}

var errorType = types.Universe.Lookup("error").Type()

func isErrorTyped(v ssa.Value) bool { return v != nil && types.Identical(v.Type(), errorType) }

// errPolarity scans fn for uses that contradict a dominating nil test of an
// error value.
func errPolarity(fn *ssa.Function) []ErrMisuse {
	var out []ErrMisuse
	for _, b := range fn.Blocks {
		i := blockIf(b)
		if i == nil || b.Succs[0] == b.Succs[1] {
			continue
		}
		bo, ok := i.Cond.(*ssa.BinOp)
		if !ok || (bo.Op != token.NEQ && bo.Op != token.EQL) {
			continue
		}
		var e ssa.Value
		switch {
		case isErrorTyped(bo.X) && isNilConst(bo.Y):
			e = bo.X
		case isErrorTyped(bo.Y) && isNilConst(bo.X):
			e = bo.Y
		default:
			continue
		}
		if _, isConst := e.(*ssa.Const); isConst {
			continue
		}
		nilSucc, errSucc := b.Succs[0], b.Succs[1]
		if bo.Op == token.NEQ {
			nilSucc, errSucc = b.Succs[1], b.Succs[0]
		}
		// blocks entered only through the respective edge
		only := func(s *ssa.BasicBlock) func(*ssa.BasicBlock) bool {
			if len(s.Preds) != 1 {
				return func(*ssa.BasicBlock) bool { return false }
			}
			return func(x *ssa.BasicBlock) bool { return s.Dominates(x) }
		}
		inNil, inErr := only(nilSucc), only(errSucc)
		// companions: other results of the call that produced e
		var tuple ssa.Value
		var tuples []ssa.Value // every fallible call whose error reaches this test
		errOf := map[ssa.Value]bool{e: true}
		if ex, isE := e.(*ssa.Extract); isE {
			tuple = ex.Tuple
			tuples = append(tuples, ex.Tuple)
		} else if ph, isPhi := e.(*ssa.Phi); isPhi {
			for _, ed := range ph.Edges {
				if ex, isE := ed.(*ssa.Extract); isE && isErrorTyped(ex) {
					tuples = append(tuples, ex.Tuple)
					errOf[ex] = true
				}
			}
		}
		// use-before-check: a method is called (or deferred) on a companion result - possibly
		// through an interface conversion or type assertion - at a point from which the error
		// test is still ahead: on failure the companion is nil or a typed nil
		if len(tuples) > 0 {
			derived := map[ssa.Value]bool{}
			var grow func(v ssa.Value, d int)
			grow = func(v ssa.Value, d int) {
				if derived[v] || d == 0 || v.Referrers() == nil {
					return
				}
				derived[v] = true
				for _, u := range *v.Referrers() {
					switch y := u.(type) {
					case *ssa.Phi, *ssa.MakeInterface, *ssa.ChangeInterface, *ssa.ChangeType, *ssa.TypeAssert:
						grow(y.(ssa.Value), d-1)
					case *ssa.Extract:
						if y.Index == 0 {
							grow(y, d-1)
						}
					}
				}
			}
			for _, tup := range tuples {
				if tup.Referrers() == nil {
					continue
				}
				for _, u := range *tup.Referrers() {
					if ex, isE := u.(*ssa.Extract); isE && !errOf[ex] {
						grow(ex, 6)
					}
				}
			}
			singlePred := len(nilSucc.Preds) == 1
			for _, blk := range fn.Blocks {
				if singlePred && nilSucc.Dominates(blk) || !reachableFrom(blk, nil)[b] && blk != b {
					continue
				}
				for _, in := range blk.Instrs {
					if blk == b && !domInstr(in, i) {
						continue
					}
					// when the success edge joins other paths, only a use that certainly
					// precedes the test (dominates it) is reported
					if !singlePred && !domInstr(in, i) {
						continue
					}
					c, isCall := in.(ssa.CallInstruction)
					if !isCall {
						continue
					}
					var recv ssa.Value
					if c.Common().IsInvoke() {
						recv = c.Common().Value
					} else if callee := c.Common().StaticCallee(); callee != nil && callee.Signature.Recv() != nil && len(c.Common().Args) > 0 {
						recv = c.Common().Args[0]
					}
					if recv != nil && derived[recv] {
						out = append(out, ErrMisuse{in, "method called or deferred on the result of a fallible call before its error is checked", e})
					}
				}
			}
		}
		for _, blk := range fn.Blocks {
			for _, in := range blk.Instrs {
				if inNil(blk) {
					for _, op := range in.Operands(nil) {
						if *op != e {
							continue
						}
						switch x := in.(type) {
						case *ssa.BinOp:
							_ = x // re-testing is harmless
						case *ssa.Phi:
						case *ssa.DebugRef:
						case *ssa.Return:
							// `return value, err` at the end of the success path hands the (nil) error
							// back next to a computed value; a flipped check returns constants instead
							computed := false
							for _, res := range x.Results {
								if res == e {
									continue
								}
								if _, isK := res.(*ssa.Const); !isK {
									computed = true
								}
							}
							if !computed {
								out = append(out, ErrMisuse{in, "error value returned, with no computed result, where it is known to be nil", e})
							}
						default:
							out = append(out, ErrMisuse{in, "error value used where it is known to be nil", e})
						}
					}
				}
				if inErr(blk) && tuple != nil {
					if ex, isE := in.(*ssa.Extract); isE && ex.Tuple == tuple {
						continue
					}
					// handing the companion back next to the (possibly wrapped) error is the
					// ordinary `return x, err` form, not a use of x
					if ret, isRet := in.(*ssa.Return); isRet {
						withErr := false
						for _, res := range ret.Results {
							if isErrorTyped(res) && Derives(res, func(x ssa.Value) bool { return x == e }) {
								withErr = true
							}
						}
						if withErr {
							continue
						}
					}
					for _, op := range in.Operands(nil) {
						ex, isE := (*op).(*ssa.Extract)
						if !isE || ex.Tuple != tuple || ex == e {
							continue
						}
						if _, isPhi := in.(*ssa.Phi); isPhi {
							continue
						}
						if _, isDbg := in.(*ssa.DebugRef); isDbg {
							continue
						}
						out = append(out, ErrMisuse{in, "result of a failed call used where its error is known to be non-nil", e})
					}
				}
			}
		}
	}
	return out
}

// acceptedErrIdioms: reviewed uses that match the contradiction shape but are
// intended (function id -> number of accepted sites, reason).
var acceptedErrIdioms = map[string]struct {
	n   int
	why string
}{
	"(*lunar/engine/streams.Stream).getFlows":                                {1, "GetFlows returns the flows that did load together with the joined errors of those that did not; outside validation mode the partial result is used on purpose"},
	"(*lunar/engine/streams/processors/queue.queueProcessor).checkIfAllowed": {1, "`return false, err` under allowedErr != nil returns the (nil) error of the earlier GetQuota call: the failure of quota.Allowed is swallowed and the request is re-enqueued until its TTL. A wrong-variable defect, but the verdict still obeys C06 (not allowed, rejected at TTL); recorded in DESIGN.md 9.3 as an observation, not a finding"},
	"lunar/engine/failsafe.getHAProxyStats":                                  {1, "errors.Join(err, ...) with a nil err only drops the nil operand"},
}

// checkErrorPolarity applies the contradiction rule to every function an
// obligation of this property is anchored in (the function enclosing the
// obligation's position) and to their closures.
func checkErrorPolarity(w *World, r *Report) {
	if r.Prop == "" || len(r.Obs) == 0 {
		return
	}
	anch := map[*ssa.Function]bool{}
	for _, o := range r.Obs {
		if !o.pos.IsValid() {
			continue
		}
		for _, f := range w.lunarFns {
			if f.Origin() != nil || f.Parent() != nil || f.Syntax() == nil {
				continue
			}
			if f.Syntax().Pos() <= o.pos && o.pos < f.Syntax().End() {
				anch[f] = true
			}
		}
	}
	var fns []*ssa.Function
	for f := range anch {
		fns = append(fns, f)
	}
	sortFns(fns)
	bad := 0
	for _, f := range fns {
		id := fnID(f)
		var ms []ErrMisuse
		for _, g := range Anons(f) {
			ms = append(ms, errPolarity(g)...)
		}
		acc := acceptedErrIdioms[id]
		if len(ms) <= acc.n {
			continue
		}
		for i, m := range ms {
			bad++
			r.Fail("RE", "error-polarity/"+shortFn(id)+"#"+itoa(i+1), m.At.Pos(), "%s: %s (of %d such uses in this function %d are reviewed idioms)", m.Kind, trunc(Path(m.Err), 70), len(ms), acc.n)
		}
	}
	if bad == 0 {
		r.Hold("RE", "error-polarity/anchored-functions", token.NoPos, len(fns), "in the %d functions this property's obligations are anchored in, no error value is reported/returned on the edge where it was found nil and no companion result is used on the edge where the error is non-nil (beyond the reviewed idioms)", len(fns))
	}
}
