package main

import (
	"encoding/json"
	"fmt"
	"go/token"
	"os"
	"path/filepath"
	"sort"
	"strings"
	"time"
)

type Verdict string

const (
	Holds     Verdict = "HOLDS"
	Violation Verdict = "VIOLATION"
	Known     Verdict = "KNOWN-FINDING"
	Undecided Verdict = "UNDECIDED"
)

// Ob is one obligation instance: rule + anchored construct + verdict.
type Ob struct {
	Key     string  `json:"key"`
	Rule    string  `json:"rule"`
	Verdict Verdict `json:"verdict"`
	Where   string  `json:"where,omitempty"`
	Detail  string  `json:"detail"`
	Insts   int     `json:"inspected"`
	pos     token.Pos
}

type KnownFinding struct {
	Property string `json:"property"`
	Rule     string `json:"rule"`
	Key      string `json:"key"`
	Status   string `json:"status"` // "known" | "fixed"
	Commit   string `json:"commit,omitempty"`
	What     string `json:"what"`
}

type Report struct {
	Prop        string
	Tier        string
	Seed        int64
	W           *World
	Obs         []*Ob
	keys        map[string]bool
	Known       []KnownFinding
	Explanation string
	RuleText    string
	Assumptions []string
	start       time.Time
	Extra       map[string]any
	minCounts   map[string]int // rule -> confirmed minimum instance count
	ruleSeen    map[string]int
	Info        []string
	// ruleAlias, when set, renames (or with "-" drops) the rules recorded by a
	// borrowed sub-check of another property.
	ruleAlias map[string]string
}

func NewReport(prop, tier string, seed int64) *Report {
	return &Report{Prop: prop, Tier: tier, Seed: seed, keys: map[string]bool{}, start: time.Now(),
		Extra: map[string]any{}, minCounts: map[string]int{}, ruleSeen: map[string]int{}}
}

func (r *Report) add(rule, key string, v Verdict, pos token.Pos, insts int, format string, a ...any) *Ob {
	if r.ruleAlias != nil {
		to, ok := r.ruleAlias[rule]
		if !ok || to == "-" {
			return &Ob{}
		}
		rule = to
	}
	full := r.Prop + "/" + rule + "/" + key
	if r.keys[full] {
		// keep keys unique but stable: suffix with ordinal
		for i := 2; ; i++ {
			k := fmt.Sprintf("%s#%d", full, i)
			if !r.keys[k] {
				full = k
				break
			}
		}
	}
	r.keys[full] = true
	where := ""
	if r.W != nil && pos.IsValid() {
		where = r.W.Pos(pos)
	}
	o := &Ob{Key: full, Rule: r.Prop + "." + rule, Verdict: v, Where: where, Detail: fmt.Sprintf(format, a...), Insts: insts, pos: pos}
	r.Obs = append(r.Obs, o)
	r.ruleSeen[rule]++
	return o
}

// Hold records a discharged obligation.
func (r *Report) Hold(rule, key string, pos token.Pos, insts int, format string, a ...any) {
	r.add(rule, key, Holds, pos, insts, format, a...)
}

// Fail records a violated obligation.
func (r *Report) Fail(rule, key string, pos token.Pos, format string, a ...any) {
	r.add(rule, key, Violation, pos, 1, format, a...)
}

// Undec records an obligation the checker could not decide (anchor missing,
// unrecognised idiom). It fails the check.
func (r *Report) Undec(rule, key string, pos token.Pos, format string, a ...any) {
	r.add(rule, key, Undecided, pos, 0, format, a...)
}

// Check records Hold if ok, else Fail with the same text.
func (r *Report) Check(ok bool, rule, key string, pos token.Pos, format string, a ...any) bool {
	if ok {
		r.Hold(rule, key, pos, 1, format, a...)
	} else {
		r.Fail(rule, key, pos, format, a...)
	}
	return ok
}

// Min declares the hand-confirmed minimum number of obligation instances of a rule.
func (r *Report) Min(rule string, n int) {
	if r.ruleAlias != nil {
		return
	}
	r.minCounts[rule] = n
}

// Borrow runs another property's checker, keeping only the listed rules
// (renamed as given).
func (r *Report) Borrow(w *World, run func(*World, *Report), alias map[string]string) {
	prev := r.ruleAlias
	if prev != nil {
		// nested borrow: the inner rules are renamed by alias first, then by the enclosing one
		composed := map[string]string{}
		for from, to := range alias {
			if out, ok := prev[to]; ok {
				composed[from] = out
			}
		}
		alias = composed
	}
	r.ruleAlias = alias
	defer func() { r.ruleAlias = prev }()
	run(w, r)
}

func (r *Report) Infof(format string, a ...any) { r.Info = append(r.Info, fmt.Sprintf(format, a...)) }

func loadKnown(path string) ([]KnownFinding, error) {
	b, err := os.ReadFile(path)
	if err != nil {
		if os.IsNotExist(err) {
			return nil, nil
		}
		return nil, err
	}
	var f struct {
		Findings []KnownFinding `json:"findings"`
	}
	if err := json.Unmarshal(b, &f); err != nil {
		return nil, err
	}
	return f.Findings, nil
}

// Finish applies known findings, instance-count floors, writes evidence and
// replay files, prints the report and returns the exit code.
func (r *Report) Finish(verifDir string) int {
	// instance-count floors
	rules := []string{}
	for rule := range r.minCounts {
		rules = append(rules, rule)
	}
	sort.Strings(rules)
	for _, rule := range rules {
		if r.ruleSeen[rule] < r.minCounts[rule] {
			r.add(rule, "instance-count", Undecided, token.NoPos, 0,
				"rule matched %d instances, hand-confirmed minimum is %d (anchor moved or rule went vacuous)", r.ruleSeen[rule], r.minCounts[rule])
		}
	}
	known := map[string]KnownFinding{}
	for _, k := range r.Known {
		if k.Property == r.Prop && k.Status == "known" {
			known[k.Key] = k
		}
	}
	nViol, nUndec, nKnown, nHold := 0, 0, 0, 0
	insts := 0
	distinct := 0
	for _, o := range r.Obs {
		if o.Verdict == Violation {
			if k, ok := known[o.Key]; ok {
				o.Verdict = Known
				o.Detail = k.What + " || " + o.Detail
			}
		}
		switch o.Verdict {
		case Holds:
			nHold++
		case Violation:
			nViol++
		case Undecided:
			nUndec++
		case Known:
			nKnown++
		}
		insts += o.Insts
		if o.Insts > 0 {
			distinct++
		}
	}
	sort.SliceStable(r.Obs, func(i, j int) bool { return r.Obs[i].Key < r.Obs[j].Key })

	fmt.Printf("== lunarcheck property=%s tier=%s obligations=%d holds=%d known=%d violations=%d undecided=%d\n",
		r.Prop, r.Tier, len(r.Obs), nHold, nKnown, nViol, nUndec)
	for _, s := range r.Info {
		fmt.Printf("info: %s\n", s)
	}
	replayDir := filepath.Join(verifDir, "evidence", "replay")
	_ = os.MkdirAll(replayDir, 0o755)
	// remove stale replay files of this property
	if old, _ := filepath.Glob(filepath.Join(replayDir, r.Prop+"-*.json")); old != nil {
		for _, f := range old {
			_ = os.Remove(f)
		}
	}
	n := 0
	for _, o := range r.Obs {
		switch o.Verdict {
		case Holds:
			fmt.Printf("ok    %s  [%s] %s\n", o.Key, o.Where, o.Detail)
		case Known:
			fmt.Printf("KNOWN-FINDING: property=%s %s [%s] %s\n", r.Prop, o.Key, o.Where, o.Detail)
		case Violation, Undecided:
			n++
			path := filepath.Join(replayDir, fmt.Sprintf("%s-%d.json", r.Prop, n))
			kind := "violation"
			if o.Verdict == Undecided {
				kind = "undecided"
				fmt.Printf("UNDECIDED property=%s %s [%s] %s\n", r.Prop, o.Key, o.Where, o.Detail)
			}
			b, _ := json.MarshalIndent(map[string]any{"property": r.Prop, "kind": kind, "obligation": o}, "", " ")
			_ = os.WriteFile(path, b, 0o644)
			fmt.Printf("VIOLATION property=%s replay=%s\n", r.Prop, path)
			fmt.Printf("      rule=%s key=%s at %s: %s\n", o.Rule, o.Key, o.Where, o.Detail)
		}
	}

	// evidence
	samples := []any{}
	for _, o := range r.Obs { // everything that does not hold first: the sample is capped
		if o.Verdict != Holds {
			samples = append(samples, o)
		}
	}
	for _, o := range r.Obs {
		if o.Verdict == Holds && len(samples) < 400 {
			samples = append(samples, o)
		}
	}
	cov := map[string]any{
		"explanation":         r.Explanation,
		"rule":                r.RuleText,
		"obligations":         len(r.Obs),
		"discharged":          nHold + nKnown,
		"evaluations":         insts,
		"distinct_nontrivial": distinct,
		"samples":             samples,
		"exhaustive":          true,
		"known_findings":      nKnown,
		"undecided":           nUndec,
		"checker_cmd":         strings.Join(os.Args, " "),
		"trusted_base": []string{"go/types type checker", "golang.org/x/tools v0.29.0 go/packages, go/ssa (InstantiateGenerics), callgraph/cha, callgraph/vta",
			"hand-confirmed anchor tables compiled into lunarcheck", "no reflect/unsafe/cgo on analysed paths"},
	}
	if r.W != nil {
		cov["packages"] = len(r.W.Pkgs)
		cov["functions_analysed"] = len(r.W.lunarFns)
	}
	for k, v := range r.Extra {
		cov[k] = v
	}
	ev := map[string]any{
		"property_id": r.Prop,
		"tier":        r.Tier,
		"seed":        r.Seed,
		"level":       "other",
		"coverage":    cov,
		"assumptions": r.Assumptions,
		"wall_s":      time.Since(r.start).Seconds(),
		"violations":  nViol + nUndec,
	}
	b, _ := json.MarshalIndent(ev, "", " ")
	_ = os.MkdirAll(filepath.Join(verifDir, "evidence"), 0o755)
	if err := os.WriteFile(filepath.Join(verifDir, "evidence", r.Prop+".json"), b, 0o644); err != nil {
		fmt.Printf("cannot write evidence: %v\n", err)
		return 1
	}
	if nViol+nUndec > 0 {
		return 1
	}
	return 0
}
