package main

import (
	"fmt"
	"go/ast"
	"go/constant"
	"go/token"
	"go/types"
	"sort"
	"strings"

	"golang.org/x/tools/go/ssa"
)

const (
	pkgActions    = "lunar/engine/actions"
	pkgSharedActs = "lunar/shared-model/actions"
	pkgRunner     = "lunar/engine/runner"
)

func init() {
	register(&Property{
		ID:   "C07",
		Mods: []string{modEngine},
		Explanation: "The combination rule is a finite table; decided cell by cell on the typed AST/SSA of the current tree: " +
			"(R1) every {Req,Resp}Prioritize that switches on the other action's run result covers every constant of the result type (explicitly or by default) and assigns a result in every case; the type->result-constant map is injective and only EarlyResponseAction yields ReqObtainedResponse; " +
			"(R2) dominance cells: case ObtainedResponse returns the other action, EarlyResponseAction returns itself unconditionally, NoOp returns the other, case NoOp returns the receiver; " +
			"(R3) every remaining same-direction cell merges with utils.MergeHeaders(receiver.HeadersToSet, other.(*T).HeadersToSet) with T the type that yields the case constant, and the merged map becomes the result's HeadersToSet; " +
			"(R4) MergeHeaders builds a fresh map in which every key of the second argument is stored unconditionally after/over the first argument's keys (second wins); " +
			"(R5) the four fold sites are left folds from &NoOpAction{} over the slice in index order, acc = acc.Prioritize(element), with no exit from the loop other than the end of the slice or an error return, and the folded value is what is encoded/returned; " +
			"(R6) each encoder sets its flag and carries status/body/headers from the fields of the same name. The induction over the fold (first early response wins unchanged, no-op is the identity, last edit wins) is the argument; the cells are what is checked. NOT decided: the SPOE library's byte encoding, EnsureRequestIsUpdated side effects.",
		RuleText: "obligation = one table cell / fold site / encoder variable; AST switch-case inventory resolved through go/types, SSA for the merge helper, folds and encoders; exhaustive over the 5x5+3x3 table",
		Run:      runC07,
	})
}

type c07Method struct {
	recv  string
	decl  *ast.FuncDecl
	info  *types.Info
	isReq bool
}

func runC07(w *World, r *Report) {
	hrResponseHeadersCopied(w, r, "R4")
	hrHeadersAliasing(w, r, "R4")
	hrDeepCopyAlwaysCopies(w, r, "R4")
	hrOneScopePerEncoder(w, r, "R6")
	hrTokenLookupAsWritten(w, r, "R4")
	hrResponseActionAvailable(w, r, "R5")
	hrSetResponseSwitchesBothTypes(w, r, "R5")
	hrRebuiltEarlyResponse(w, r, "R4")
	hrCollectedActionsOnlyGrow(w, r, "R5")
	hrEnsureCopies(w, r, "R4")
	hrActionAvailable(w, r, "R5")
	hrParseHeaders(w, r, "R5")
	hrDumpHeaders(w, r, "R6")
	pa := w.ByPath[pkgActions]
	ps := w.ByPath[pkgSharedActs]
	if pa == nil || ps == nil {
		r.Undec("R1", "packages", token.NoPos, "actions packages not loaded")
		return
	}
	// constants of the two result types
	constsOf := func(typeName string) map[string]constant.Value {
		out := map[string]constant.Value{}
		sc := ps.Types.Scope()
		for _, n := range sc.Names() {
			if c, ok := sc.Lookup(n).(*types.Const); ok {
				if nt, ok := c.Type().(*types.Named); ok && nt.Obj().Name() == typeName {
					out[n] = c.Val()
				}
			}
		}
		return out
	}
	reqConsts, respConsts := constsOf("RemedyReqRunResult"), constsOf("RemedyRespRunResult")
	if len(reqConsts) != 5 || len(respConsts) != 3 {
		r.Undec("R1", "result-constants", token.NoPos, "expected 5 request and 3 response run-result constants, found %d/%d (table dimensions changed: review the rule table)", len(reqConsts), len(respConsts))
	}
	// type -> run result constant (from the RunResult methods, SSA)
	typeResult := map[string]map[string]string{"Req": {}, "Resp": {}}
	for _, dir := range []string{"Req", "Resp"} {
		seen := map[string]string{}
		for _, tn := range []string{"NoOpAction", "EarlyResponseAction", "ModifyRequestAction", "ModifyHeadersAction", "GenerateRequestAction", "ModifyResponseAction", "RetryRequestAction"} {
			f := w.Fn(pkgActions, tn+"."+dir+"RunResult")
			if f == nil {
				continue
			}
			for _, alt := range ReturnAlts(f, 0) {
				k, ok := peel(alt.Val).(*ssa.Const)
				if !ok {
					r.Fail("R1", dir+"RunResult/"+tn, posOf(alt.Ret), "run result is not a constant")
					continue
				}
				name := ""
				cs := reqConsts
				if dir == "Resp" {
					cs = respConsts
				}
				for n, v := range cs {
					if constant.Compare(k.Value, token.EQL, v) {
						name = n
					}
				}
				typeResult[dir][tn] = name
				if prev, dup := seen[name]; dup {
					r.Fail("R1", dir+"RunResult/injective/"+name, posOf(alt.Ret), "both %s and %s report %s: the table column is ambiguous", prev, tn, name)
				}
				seen[name] = tn
			}
		}
		want := map[string]int{"Req": 5, "Resp": 3}[dir]
		r.Check(len(typeResult[dir]) == want, "R1", dir+"RunResult/implementations", token.NoPos, "%d action types implement %sRunResult (table has %d rows): %v", len(typeResult[dir]), dir, want, typeResult[dir])
	}
	r.Check(typeResult["Req"]["EarlyResponseAction"] == "ReqObtainedResponse", "R2", "only-early-response-obtains", token.NoPos, "EarlyResponseAction (and only it, by injectivity) reports ReqObtainedResponse")
	resultType := func(dir, cname string) string {
		for t, c := range typeResult[dir] {
			if c == cname {
				return t
			}
		}
		return ""
	}

	// collect Prioritize methods
	var methods []c07Method
	for _, f := range pa.Syntax {
		for _, d := range f.Decls {
			fd, ok := d.(*ast.FuncDecl)
			if !ok || fd.Recv == nil || fd.Body == nil {
				continue
			}
			if fd.Name.Name != "ReqPrioritize" && fd.Name.Name != "RespPrioritize" {
				continue
			}
			rt := pa.TypesInfo.TypeOf(fd.Recv.List[0].Type)
			methods = append(methods, c07Method{recv: structOf(rt), decl: fd, info: pa.TypesInfo, isReq: fd.Name.Name == "ReqPrioritize"})
		}
	}
	sort.Slice(methods, func(i, j int) bool {
		return methods[i].recv+methods[i].decl.Name.Name < methods[j].recv+methods[j].decl.Name.Name
	})
	nReq, nResp := 0, 0
	for _, m := range methods {
		if m.isReq {
			nReq++
		} else {
			nResp++
		}
		fn := w.Fn(pkgActions, m.recv+"."+m.decl.Name.Name)
		if fn == nil {
			r.Undec("R1", m.recv+"."+m.decl.Name.Name, m.decl.Pos(), "method not found in SSA")
			continue
		}
		cs := respConsts
		if m.isReq {
			cs = reqConsts
		}
		c07TableSSA(w, r, fn, m.recv, m.isReq, cs, resultType)
	}
	r.Check(nReq == 5 && nResp == 3, "R1", "prioritize-implementations", token.NoPos, "found %d ReqPrioritize and %d RespPrioritize implementations (table rows 5 and 3)", nReq, nResp)

	c07Merge(w, r)
	c07Folds(w, r)
	c07Encoders(w, r)
	r.Min("R1", 12)
	r.Min("R2", 12)
	r.Min("R3", 11)
	r.Min("R4", 3)
	c07FrameLocalActions(w, r)
	c07EncoderGuards(w, r)
	r.Min("R5", 13)
	r.Min("R6", 18)
}

func exprString(e ast.Expr) string {
	return types.ExprString(e)
}

func c07Merge(w *World, r *Report) {
	mh := w.Fn(pkgUtils, "MergeHeaders")
	if mh == nil {
		r.Undec("R4", "MergeHeaders", token.NoPos, "function not found")
		return
	}
	var mm *ssa.MakeMap
	nMM := 0
	Instrs(mh, func(in ssa.Instruction) {
		if m, ok := in.(*ssa.MakeMap); ok {
			mm = m
			nMM++
		}
	})
	okRet := nMM == 1
	for _, alt := range ReturnAlts(mh, 0) {
		if mm == nil || alt.Val != ssa.Value(mm) {
			okRet = false
		}
	}
	r.Check(okRet, "R4", "MergeHeaders/fresh-result", mh.Pos(), "MergeHeaders returns one freshly made map (arguments are not modified or returned)")
	srcOf := func(v ssa.Value) string {
		src := ""
		Derives(v, func(x ssa.Value) bool {
			if rg, ok := x.(*ssa.Range); ok {
				src = Path(rg.X)
				return true
			}
			return false
		})
		return src
	}
	var firstUps, secondUps []*ssa.MapUpdate
	Instrs(mh, func(in ssa.Instruction) {
		mu, ok := in.(*ssa.MapUpdate)
		if !ok {
			return
		}
		if mm == nil || mu.Map != ssa.Value(mm) {
			r.Fail("R4", "MergeHeaders/foreign-store", posOf(mu), "store into %s (not the result map)", Path(mu.Map))
			return
		}
		ks, vs := srcOf(mu.Key), srcOf(mu.Value)
		switch {
		case ks == "param:firstHeaders" && vs == "param:firstHeaders":
			firstUps = append(firstUps, mu)
		case ks == "param:secondHeaders" && vs == "param:secondHeaders":
			secondUps = append(secondUps, mu)
		default:
			r.Fail("R4", "MergeHeaders/unknown-source", posOf(mu), "stored key/value come from %q/%q, not from one argument's iteration (precedence would depend on something other than argument order)", ks, vs)
		}
	})
	okSecond := len(secondUps) == 1
	if okSecond {
		for _, c := range CondsOf(secondUps[0].Block()) {
			p := Path(c.V)
			if !(strings.HasPrefix(p, "next(range(param:") && strings.HasSuffix(p, "#0")) {
				okSecond = false
			}
		}
	}
	r.Check(okSecond, "R4", "MergeHeaders/second-stored-unconditionally", mh.Pos(), "every key of secondHeaders is stored unconditionally")
	okFirst := len(firstUps) >= 1 && okSecond
	for _, fu := range firstUps {
		guarded := condsHave(CondsOf(fu.Block()), false, func(v ssa.Value) bool {
			return strings.HasPrefix(Path(v), "param:secondHeaders[") && strings.HasSuffix(Path(v), "#1")
		})
		before := okSecond && !canReach(secondUps[0].Block(), fu.Block())
		if !guarded && !before {
			okFirst = false
		}
	}
	r.Check(okFirst, "R4", "MergeHeaders/first-never-overrides-second", mh.Pos(), "a key of firstHeaders is stored only if absent from secondHeaders or before the second pass overwrites it (second wins)")
	// union: every key of firstHeaders that secondHeaders lacks reaches the result, and both passes run to exhaustion
	okUnion := len(firstUps) >= 1
	for _, fu := range firstUps {
		for _, c := range CondsOf(fu.Block()) {
			p := Path(c.V)
			if strings.HasPrefix(p, "next(range(param:") && strings.HasSuffix(p, "#0") && c.Pol {
				continue
			}
			if strings.HasPrefix(p, "param:secondHeaders[") && strings.HasSuffix(p, "#1") && !c.Pol {
				continue
			}
			okUnion = false
		}
	}
	var brk []string
	for _, h := range loopHeadersOf(mh) {
		brk = append(brk, loopBreaks(h)...)
	}
	r.Check(okUnion && len(brk) == 0, "R4", "MergeHeaders/union-is-complete", mh.Pos(), "a key of firstHeaders is skipped only when secondHeaders has it (=%v) and neither pass is left by break %v", okUnion, brk)
}

// natural loop body of header h: blocks dominated by h that can reach h.
func loopBody(h *ssa.BasicBlock) map[*ssa.BasicBlock]bool {
	body := map[*ssa.BasicBlock]bool{h: true}
	for _, b := range h.Parent().Blocks {
		if b != h && h.Dominates(b) && canReach(b, h) {
			body[b] = true
		}
	}
	return body
}

func c07Folds(w *World, r *Report) {
	sites := []struct{ pkg, fn, method, dir string }{
		{pkgRouting, "getSPOEReqActions", "ReqLunarAction).ReqPrioritize", "Req"},
		{pkgRouting, "getSPOERespActions", "RespLunarAction).RespPrioritize", "Resp"},
		{pkgRunner, "runOnRequest", "ReqLunarAction).ReqPrioritize", "Req"},
		{pkgRunner, "runOnResponse", "RespLunarAction).RespPrioritize", "Resp"},
	}
	for _, s := range sites {
		f := w.Fn(s.pkg, s.fn)
		if f == nil {
			r.Undec("R5", s.fn, token.NoPos, "fold site not found")
			continue
		}
		calls := CallsIn(f, false, s.method)
		if len(calls) != 1 {
			r.Undec("R5", s.fn+"/call", f.Pos(), "expected one %s call, found %d", s.method, len(calls))
			continue
		}
		c := calls[0]
		acc, isPhi := c.Common().Value.(*ssa.Phi)
		okAcc := isPhi && len(acc.Edges) == 2
		if okAcc {
			var init, back ssa.Value
			for i, e := range acc.Edges {
				if acc.Block().Dominates(acc.Block().Preds[i]) {
					back = e
				} else {
					init = e
				}
			}
			a, isAlloc := peel(init).(*ssa.Alloc)
			okAcc = isAlloc && structOf(a.Type()) == "NoOpAction" && back == c.Value()
		}
		r.Check(okAcc, "R5", s.fn+"/accumulator", posOf(c), "accumulator = phi(&NoOpAction{} on entry, acc.%sPrioritize(x) on the back edge)", s.dir)
		if !isPhi {
			continue
		}
		// element: the ranged slice's element at the loop index, in index order
		arg := c.Common().Args[0]
		elemOK := false
		desc := Path(arg)
		Derives(arg, func(x ssa.Value) bool {
			if ia, ok := x.(*ssa.IndexAddr); ok {
				if _, isParam := ia.X.(*ssa.Parameter); isParam {
					if ph, ok := ia.Index.(*ssa.Phi); ok && ph.Block() == acc.Block() {
						// idx = phi(-1, idx+1)
						for _, e := range ph.Edges {
							if b, ok := e.(*ssa.BinOp); ok && b.Op == token.ADD && b.X == ssa.Value(ph) && isIntConst(b.Y, 1) {
								elemOK = true
							}
						}
					} else if b, ok := ia.Index.(*ssa.BinOp); ok && b.Op == token.ADD && isIntConst(b.Y, 1) {
						if ph, ok := b.X.(*ssa.Phi); ok && ph.Block() == acc.Block() {
							elemOK = true
						}
					}
				}
			}
			return false
		})
		r.Check(elemOK, "R5", s.fn+"/element-in-index-order", posOf(c), "the folded operand derives from slice[idx] with idx increasing by one per iteration (%s)", trunc(desc, 90))
		// loop exits
		body := loopBody(acc.Block())
		badExit := ""
		for b := range body {
			for _, su := range b.Succs {
				if body[su] {
					continue
				}
				if b == acc.Block() {
					continue // loop condition
				}
				// allowed: a block that returns a non-nil error
				okErr := false
				if ret, ok := su.Instrs[len(su.Instrs)-1].(*ssa.Return); ok && len(ret.Results) > 0 {
					last := ret.Results[len(ret.Results)-1]
					if types.Identical(last.Type(), types.Universe.Lookup("error").Type()) && !isNilConst(last) {
						okErr = true
					}
				}
				if !okErr {
					badExit = fmt.Sprintf("block %d (%s) -> block %d (%s)", b.Index, b.Comment, su.Index, su.Comment)
				}
			}
		}
		r.Check(badExit == "", "R5", s.fn+"/no-early-exit", posOf(c), "the fold visits every element: no exit from the loop other than the end of the slice or an error return (found: %q)", badExit)
		// call is unconditional within an iteration (apart from error returns)
		extra := []string{}
		for _, cd := range CondsOf(c.Block()) {
			p := Path(cd.V)
			if cd.If.Block() == acc.Block() {
				continue
			}
			if strings.HasSuffix(p, "#1 != nil)") && !cd.Pol {
				continue
			}
			extra = append(extra, p)
		}
		r.Check(len(extra) == 0, "R5", s.fn+"/every-element-folded", posOf(c), "Prioritize is applied to every element (extra conditions: %v)", extra)
		// result used
		used := false
		switch s.fn {
		case "getSPOEReqActions", "getSPOERespActions":
			for _, e := range CallsIn(f, false, s.dir+"LunarAction)."+s.dir+"ToSpoeActions") {
				if e.Common().Value == ssa.Value(acc) {
					for _, alt := range ReturnAlts(f, 0) {
						if alt.Val == e.Value() {
							used = true
						}
					}
				}
			}
		default:
			for _, alt := range ReturnAlts(f, 0) {
				if v := litField(alt.Val, "action"); v != nil && v == ssa.Value(acc) {
					used = true
				}
			}
		}
		r.Check(used, "R5", s.fn+"/folded-value-is-the-output", posOf(c), "the folded action is what is encoded / returned")
	}
}

func c07Encoders(w *World, r *Report) {
	type enc struct {
		typ, method, flag string
		vars              map[string]string // NAME constant identifier -> field
	}
	encs := []enc{
		{"EarlyResponseAction", "ReqToSpoeActions", "ReturnEarlyResponseActionName", map[string]string{"StatusCodeActionName": "Status", "ResponseBodyActionName": "Body", "ResponseHeadersActionName": "Headers"}},
		{"ModifyRequestAction", "ReqToSpoeActions", "ModifyRequestActionName", map[string]string{"RequestHeadersActionName": "HeadersToSet", "RequestPathActionName": "Path", "RequestQueryParamsActionName": "QueryParams", "RequestHostActionName": "Host", "RequestBodyActionName": "Body"}},
		{"ModifyHeadersAction", "ReqToSpoeActions", "", map[string]string{"RequestHeadersActionName": "HeadersToSet"}},
		{"GenerateRequestAction", "ReqToSpoeActions", "GenerateRequestActionName", map[string]string{"RequestHeadersActionName": "HeadersToSet", "RequestBodyActionName": "Body"}},
		{"ModifyResponseAction", "RespToSpoeActions", "ModifyResponseActionName", map[string]string{"ResponseHeadersActionName": "HeadersToSet", "ResponseBodyActionName": "Body", "StatusCodeActionName": "Status"}},
		{"RetryRequestAction", "RespToSpoeActions", "RetryRequestActionName", map[string]string{"RetryHeadersActionName": "HeadersToSet"}},
	}
	for _, e := range encs {
		f := w.Fn(pkgActions, e.typ+"."+e.method)
		if f == nil {
			r.Undec("R6", e.typ+"."+e.method, token.NoPos, "encoder not found")
			continue
		}
		recv := "param:" + canonParam(f.Params[0])
		seen := map[string]bool{}
		for _, c := range CallsIn(f, false, "action.Actions).SetVar") {
			a := c.Common().Args
			name, _ := constString(a[2])
			val := a[3]
			cid := ""
			for id := range e.vars {
				if v := w.constOf(pkgActions, id); v != nil && constant.StringVal(v) == name {
					cid = id
				}
			}
			if e.flag != "" {
				if v := w.constOf(pkgActions, e.flag); v != nil && constant.StringVal(v) == name {
					b, isC := constBool(val)
					r.Check(isC && b && len(CondsOf(c.Block())) == 0, "R6", e.typ+"/flag/"+name, posOf(c), "%s sets %s = true unconditionally", e.typ, name)
					seen[e.flag] = true
					continue
				}
			}
			if cid == "" {
				// other variables (e.g. headers-to-remove) are outside the property's three fields
				continue
			}
			seen[cid] = true
			field := e.vars[cid]
			ok := Derives(val, func(x ssa.Value) bool { return Path(x) == recv+"."+field })
			if field == "Headers" || field == "HeadersToSet" {
				ok = ok && isCallTo0(val, "utils.DumpHeaders")
			}
			// a field of a different name must not feed this variable
			Derives(val, func(x ssa.Value) bool {
				p := Path(x)
				if strings.HasPrefix(p, recv+".") && p != recv+"."+field {
					ok = false
				}
				return false
			})
			r.Check(ok, "R6", e.typ+"/"+name, posOf(c), "%s <- %s (want the receiver's %s)", name, trunc(Path(val), 90), field)
		}
		for id := range e.vars {
			if !seen[id] {
				r.Fail("R6", e.typ+"/missing/"+id, f.Pos(), "encoder does not set %s", id)
			}
		}
		if e.flag != "" && !seen[e.flag] {
			r.Fail("R6", e.typ+"/missing-flag", f.Pos(), "encoder does not set its flag %s", e.flag)
		}
	}
}

// c07FrameLocalActions: the encoded actions a handler invocation stores into
// its frame are its own: the variable is local to the per-frame closure, not
// shared between the concurrently running handler goroutines.
func c07FrameLocalActions(w *World, r *Report) {
	h := w.Fn(pkgRouting, "Handler")
	if h == nil {
		r.Undec("R5", "routing.Handler", token.NoPos, "function not found")
		return
	}
	n := 0
	for _, cl := range Anons(h) {
		if cl == h {
			continue
		}
		Instrs(cl, func(in ssa.Instruction) {
			st, ok := in.(*ssa.Store)
			if !ok {
				return
			}
			fa, ok := st.Addr.(*ssa.FieldAddr)
			if !ok || fieldName(fa.X.Type(), fa.Field) != "Actions" {
				return
			}
			n++
			shared := Derives(st.Val, func(x ssa.Value) bool {
				if _, isFV := x.(*ssa.FreeVar); isFV {
					return isActionsTyped(x)
				}
				if _, isG := x.(*ssa.Global); isG {
					return true
				}
				return false
			})
			r.Check(!shared, "R5", "Handler/frame-actions-are-closure-local", posOf(st), "req.Actions is assigned from a variable declared inside the per-frame closure (not captured from Handler's scope or a global)")
		})
	}
	if n != 1 {
		r.Undec("R5", "Handler/frame-actions", h.Pos(), "expected one store to req.Actions in the handler closure, found %d", n)
	}
}

func isActionsTyped(v ssa.Value) bool {
	t := v.Type()
	if p, ok := t.(*types.Pointer); ok {
		t = p.Elem()
	}
	return strings.HasSuffix(t.String(), "action.Actions")
}

// c07EncoderGuards: what the fold produced is what the proxy gets: the
// response encoders set status, body and headers unconditionally (an empty body
// is a body), each optional request variable is guarded by its OWN field being
// non-empty, and the request action is encoded after the early-response
// remedies have edited it, never from a value computed before.
func c07EncoderGuards(w *World, r *Report) {
	for _, e := range []struct{ typ, method string }{{"ModifyResponseAction", "RespToSpoeActions"}, {"EarlyResponseAction", "ReqToSpoeActions"}, {"RetryRequestAction", "RespToSpoeActions"}} {
		f := w.Fn(pkgActions, e.typ+"."+e.method)
		if f == nil {
			continue
		}
		n, cond := 0, 0
		for _, c := range CallsIn(f, false, "action.Actions).SetVar") {
			n++
			if len(CondsOf(c.Block())) != 0 {
				cond++
			}
		}
		r.Check(n >= 2 && cond == 0, "R6", e.typ+"/every-variable-set-unconditionally", f.Pos(), "%d SetVar calls, %d of them conditional (an empty body or header set must still replace the provider's)", n, cond)
	}
	if f := w.Fn(pkgActions, "ModifyRequestAction.ReqToSpoeActions"); f != nil {
		recv := "param:" + canonParam(f.Params[0])
		ok, n := true, 0
		var why []string
		for _, c := range CallsIn(f, false, "action.Actions).SetVar") {
			cs := CondsOf(c.Block())
			if len(cs) == 0 {
				continue
			}
			n++
			// the carried field
			var carried string
			Derives(c.Common().Args[3], func(x ssa.Value) bool {
				p := Path(x)
				if strings.HasPrefix(p, recv+".") && !strings.Contains(p[len(recv)+1:], ".") {
					carried = p[len(recv)+1:]
				}
				return false
			})
			for _, cd := range cs {
				rel, isRel := NormCond(cd)
				if !isRel || rel.Op != "!=" || Path(rel.L) != recv+"."+carried {
					ok = false
					why = append(why, carried+" guarded by "+trunc(Path(cd.V), 50))
				}
			}
		}
		r.Check(ok && n == 4, "R6", "ModifyRequestAction/optional-variable-guarded-by-its-own-field", f.Pos(), "each of the %d optional request variables is set exactly when the field it carries is non-empty %v", n, why)
	}
	if d := w.Fn(pkgRunner, "DispatchOnRequest"); d != nil {
		enc := CallsIn(d, false, "ReqLunarAction).ReqToSpoeActions")
		mod := CallsIn(d, false, "runner.obtainModifiedEarlyResponse")
		ok := len(enc) == 1 && len(mod) == 1
		if ok {
			ok = !(enc[0].Block() == mod[0].Block() && domInstr(enc[0], mod[0])) && (enc[0].Block() == mod[0].Block() || !reachableFrom(enc[0].Block(), nil)[mod[0].Block()])
		}
		r.Check(ok, "R5", "DispatchOnRequest/request-action-encoded-after-early-response-remedies", d.Pos(), "ReqToSpoeActions is evaluated after obtainModifiedEarlyResponse (which edits the early response in place), not before it")
	}
}
