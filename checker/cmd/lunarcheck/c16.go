package main

import (
	"fmt"
	"go/constant"
	"go/token"
	"go/types"
	"strings"

	"golang.org/x/tools/go/ssa"
)

const (
	pkgObf  = "lunar/engine/utils/obfuscation"
	pkgHar  = "lunar/engine/streams/processors/har-collector"
	pkgDiag = "lunar/engine/services/diagnoses"
)

func init() {
	register(&Property{
		ID:   "C16",
		Mods: []string{modEngine},
		Explanation: "Decides structural necessary conditions of 'every non-excluded value is hashed, an exclusion never exposes another path', not hash strength or JSONPath semantics: " +
			"(R1) the exclusion predicate compares the cursor as a WHOLE path (equality / slices.Contains); no prefix/suffix/substring test on the cursor anywhere in the walker; the input value is returned unchanged only on the excluded edge; " +
			"(R2) the walker's type switch covers every fastjson type, every primitive case yields arena.NewString(Hasher.HashBytes(..)) and nothing else reaches the result; " +
			"(R3) arrays keep index and length (item i stored at index i, cursor+\"[]\" built per item from the unmodified cursor), objects keep keys (Set(key, ..) with cursor+\".\"+key), recursion passes the exclusions and the inherited flag; " +
			"(R4) request bodies use the $.request.body exclusions and response bodies the $.response.body ones, computed per call with no state kept on the obfuscator, prefix stripped so that whole-path comparison applies; on a JSON error the fallback is the hashed body, the raw body is returned only when obfuscation is disabled (or the body is empty). " +
			"NOT decided: hash strength; JSONPath semantics beyond the two supported notations.",
		RuleText: "obligation = (rule, anchored construct) on SSA of the current tree: return-alternative inventory, compared-constant exhaustiveness against the fastjson type constants, forbidden-callee inventory, call-argument provenance",
		Run:      runC16,
	})
}

func runC16(w *World, r *Report) {
	hrGzipWholeBody(w, r, "R2")
	hrObfuscationFlagAlwaysRead(w, r, "R3")
	hrQueryParamKey(w, r, "R3")
	hrObfuscationLookups(w, r, "R3")
	hrObfuscateStringHashes(w, r, "R2")
	hrHeaderKeyOnlyFromBracketForm(w, r, "R3")
	hrHeaderExclusionLists(w, r, "R3")
	hrDecompressFallsBackToRaw(w, r, "R2")
	hrHARPluginHasher(w, r, "R1")
	hrContentEncodingFallback(w, r, "R2")
	hrConstructorKeepsExclusions(w, r, "R3")
	hrYAMLTagsMatchFields(w, r, "R3", "lunar/shared-model/config", "ObfuscationExclusions")
	hrObfuscationHelpers(w, r, "R2")
	ic := w.Fn(pkgObf, "isCursorInExcludedPath")
	oj := w.Fn(pkgObf, "Obfuscator.obfuscateJSON")
	if ic == nil || oj == nil {
		r.Undec("R1", "walker", token.NoPos, "isCursorInExcludedPath / obfuscateJSON not found")
		return
	}
	// R1 whole-path predicate
	n := 0
	for _, alt := range ReturnAlts(ic, 0) {
		n++
		if b, isC := constBool(alt.Val); isC {
			if !b {
				r.Hold("R1", "isCursorInExcludedPath/false", posOf(alt.Ret), 1, "returns false")
				continue
			}
			eq := false
			for _, rel := range relsOfConds(alt.Conds) {
				if rel.Op == "==" && (Path(rel.L) == "param:cursor" || Path(rel.R) == "param:cursor") {
					eq = true
				}
			}
			// the same equality spelled as "same length, and the cursor up to that length equals the exclusion"
			for _, rel := range relsOfConds(alt.Conds) {
				if rel.Op != "==" {
					continue
				}
				for _, side := range [][2]ssa.Value{{rel.L, rel.R}, {rel.R, rel.L}} {
					sl, isS := peel(side[0]).(*ssa.Slice)
					if !isS || Path(sl.X) != "param:cursor" || sl.Low != nil || sl.High == nil {
						continue
					}
					lenOf := func(v ssa.Value) ssa.Value {
						if c, isC := peel(v).(*ssa.Call); isC {
							if b, isB := c.Call.Value.(*ssa.Builtin); isB && b.Name() == "len" {
								return c.Call.Args[0]
							}
						}
						return nil
					}
					isCursor := func(v ssa.Value) bool { return v != nil && Path(v) == "param:cursor" }
					isOther := func(v ssa.Value) bool { return v != nil && sameVal(v, side[1]) }
					if h := lenOf(sl.High); !isCursor(h) && !isOther(h) {
						continue
					}
					for _, r2 := range relsOfConds(alt.Conds) {
						a, b := lenOf(r2.L), lenOf(r2.R)
						if r2.Op == "==" && (isCursor(a) && isOther(b) || isCursor(b) && isOther(a)) {
							eq = true
						}
					}
				}
			}
			for _, c := range alt.Conds {
				if cc, ok := peel(c.V).(*ssa.Call); ok && c.Pol && isCallTo(cc, "slices.Contains") && Path(cc.Call.Args[0]) == "param:excludedPaths" && Path(cc.Call.Args[1]) == "param:cursor" {
					eq = true
				}
			}
			r.Check(eq, "R1", "isCursorInExcludedPath/true-only-on-equality", posOf(alt.Ret), "true is returned only on an equality of the whole cursor with an exclusion (conditions %s)", trunc(condsString(alt.Conds), 200))
			continue
		}
		c, isCall := peel(alt.Val).(*ssa.Call)
		ok := isCall && isCallTo(c, "slices.Contains") && Path(c.Call.Args[0]) == "param:excludedPaths" && Path(c.Call.Args[1]) == "param:cursor"
		r.Check(ok, "R1", "isCursorInExcludedPath/whole-path-membership", posOf(alt.Ret), "result is %s (want slices.Contains(excludedPaths, cursor): the cursor is compared as a whole path)", trunc(Path(alt.Val), 100))
	}
	if n == 0 {
		r.Undec("R1", "isCursorInExcludedPath/returns", ic.Pos(), "no return found")
	}
	forbidden := []string{"strings.HasSuffix", "strings.HasPrefix", "strings.Contains", "strings.Index", "strings.LastIndex", "strings.EqualFold", "strings.TrimSuffix", "strings.TrimPrefix", "regexp.Regexp).MatchString", "strings.ContainsAny", "path.Match"}
	for _, f := range []*ssa.Function{ic, oj} {
		bad := CallsIn(f, true, forbidden...)
		desc := []string{}
		for _, b := range bad {
			desc = append(desc, calleeShort(calleeID(b))+" at "+w.Pos(posOf(b)))
		}
		r.Check(len(bad) == 0, "R1", shortFn(fnID(f))+"/no-partial-match", f.Pos(), "no prefix/suffix/substring test in the exclusion decision (found %v): an exclusion for one path must not match a different path", desc)
	}
	// excluded edge
	isFlag := func(v ssa.Value) bool {
		// onExcludedPath || isCursorInExcludedPath(..): phi(true on the inherited-flag edge, the predicate otherwise)
		ph, ok := v.(*ssa.Phi)
		if !ok || len(ph.Edges) != 2 {
			return false
		}
		okT, okC := false, false
		for i, e := range ph.Edges {
			if b, isC := constBool(e); isC && b {
				okT = condsHave(CondsOfEdge(ph.Block().Preds[i], ph.Block()), true, func(x ssa.Value) bool { return Path(x) == "param:onExcludedPath" })
			} else if isCallTo0(e, "obfuscation.isCursorInExcludedPath") {
				okC = true
			}
		}
		return okT && okC
	}
	var flag ssa.Value
	for _, c := range CallsIn(oj, false, "obfuscation.isCursorInExcludedPath") {
		a := c.Common().Args
		r.Check(Path(a[0]) == "param:cursor" && Path(a[1]) == "param:excludedPaths", "R1", "obfuscateJSON/predicate-args", posOf(c), "isCursorInExcludedPath(%s, %s)", Path(a[0]), Path(a[1]))
	}
	fjTypes := map[string]constant.Value{}
	if fp := w.ByPath["github.com/valyala/fastjson"]; fp != nil {
		sc := fp.Types.Scope()
		for _, nm := range sc.Names() {
			if c, ok := sc.Lookup(nm).(*types.Const); ok {
				if nt, ok := c.Type().(*types.Named); ok && nt.Obj().Name() == "Type" && c.Exported() {
					fjTypes[nm] = c.Val()
				}
			}
		}
	}
	if len(fjTypes) != 7 {
		r.Undec("R2", "fastjson-types", token.NoPos, "expected 7 fastjson.Type constants, found %d", len(fjTypes))
	}
	nUnchanged, nHashed, nStruct := 0, 0, 0
	for _, alt := range ReturnAlts(oj, 0) {
		v := peel(alt.Val)
		switch {
		case isNilConst(v):
			// error return, or uncovered type
			errAlt := false
			for _, e := range ReturnAlts(oj, 1) {
				if e.Ret == alt.Ret && !isNilConst(e.Val) {
					errAlt = true
				}
			}
			negs := 0
			for _, rel := range relsOfConds(alt.Conds) {
				if rel.Op == "!=" && isCallTo0(rel.L, "fastjson.Value).Type") {
					negs++
				}
			}
			if !errAlt && negs == len(fjTypes) && negs > 0 {
				r.Hold("R2", "obfuscateJSON/nil-fallthrough-infeasible", posOf(alt.Ret), 1, "the nil fall-through of the switch is reachable only if Type() equals none of the %d exported fastjson types", negs)
				continue
			}
			r.Check(errAlt, "R2", "obfuscateJSON/nil-only-with-error", posOf(alt.Ret), "a nil value is returned only together with an error (a type without a case would yield nil,nil)")
		case isAllocOfParam(v, "raw"):
			nUnchanged++
			on := false
			for _, c := range alt.Conds {
				if c.Pol && isFlag(c.V) {
					on = true
					flag = c.V
				}
			}
			r.Check(on && len(alt.Conds) == 1, "R1", "obfuscateJSON/unchanged-only-when-excluded", posOf(alt.Ret), "the input value is returned unchanged only on the edge onExcludedPath || isCursorInExcludedPath(cursor) (conditions %s)", trunc(condsString(alt.Conds), 160))
		case isCallTo0(v, "fastjson.Arena).NewString"):
			nHashed++
			c := v.(*ssa.Call)
			okH := isCallTo0(c.Call.Args[1], "Hasher).HashBytes", "MD5Hasher).HashBytes") || strings.Contains(Path(c.Call.Args[1]), "HashBytes(")
			// which type case
			tcase := ""
			for _, rel := range relsOfConds(alt.Conds) {
				if rel.Op == "==" && isCallTo0(rel.L, "fastjson.Value).Type") {
					for nm, cv := range fjTypes {
						if isConstVal(rel.R, cv) {
							tcase = nm
						}
					}
				}
			}
			r.Check(okH && tcase != "", "R2", "obfuscateJSON/primitive-hashed/"+tcase, posOf(alt.Ret), "case %s yields arena.NewString(Hasher.HashBytes(..)): %s", tcase, trunc(Path(v), 100))
		case isCallTo0(v, "fastjson.Arena).NewArray"), isCallTo0(v, "fastjson.Arena).NewObject"):
			nStruct++
		default:
			r.Fail("R2", "obfuscateJSON/unhashed-result", posOf(alt.Ret), "a value reaches the result that is neither a hash, a rebuilt array/object nor the excluded input: %s", trunc(Path(v), 120))
		}
	}
	r.Check(nUnchanged == 1 && nHashed == 5 && nStruct == 2, "R2", "obfuscateJSON/result-inventory", oj.Pos(), "results: %d unchanged (want 1), %d hashed primitives (want 5: number,string,true,false,null), %d rebuilt containers (want 2)", nUnchanged, nHashed, nStruct)
	// exhaustiveness of the switch
	covered := map[string]bool{}
	Instrs(oj, func(in ssa.Instruction) {
		if b, ok := in.(*ssa.BinOp); ok && b.Op == token.EQL && isCallTo0(b.X, "fastjson.Value).Type") {
			for nm, cv := range fjTypes {
				if isConstVal(b.Y, cv) {
					covered[nm] = true
				}
			}
		}
	})
	missing := []string{}
	for nm := range fjTypes {
		if !covered[nm] {
			missing = append(missing, nm)
		}
	}
	r.Check(len(missing) == 0, "R2", "obfuscateJSON/type-switch-exhaustive", oj.Pos(), "type switch covers every fastjson.Type (missing %v)", missing)

	// R3 structure
	recs := CallsIn(oj, false, "Obfuscator).obfuscateJSON")
	if len(recs) != 2 {
		r.Undec("R3", "obfuscateJSON/recursion", oj.Pos(), "expected 2 recursive calls (array item, object member), found %d", len(recs))
	}
	for _, c := range recs {
		a := c.Common().Args
		cur := a[3]
		kind := ""
		okCur := false
		if sp, ok := peel(cur).(*ssa.Call); ok && isCallTo(sp, "fmt.Sprintf") {
			fm, _ := constString(sp.Call.Args[0])
			switch fm {
			case "%s[]":
				kind = "array-item"
				okCur = Derives(sp.Call.Args[1], func(x ssa.Value) bool { return Path(x) == "param:cursor" }) && len(CondsOf(sp.Block())) == len(CondsOf(c.Block()))
				okCur = okCur && varargsAre(sp.Call.Args[1], []string{"param:cursor"})
			case "%s.%s":
				kind = "object-member"
				okCur = varargsAre(sp.Call.Args[1], []string{"param:cursor", "*"})
			}
		}
		okRest := Path(a[2]) == "param:arena" && Path(a[4]) == "param:excludedPaths" && flag != nil && a[5] == flag
		if flag == nil {
			okRest = Path(a[2]) == "param:arena" && Path(a[4]) == "param:excludedPaths" && isFlag(a[5])
		}
		r.Check(okCur && kind != "" && okRest, "R3", "obfuscateJSON/recursion/"+kind, posOf(c), "recursive call for %s passes cursor %s, the same exclusions and the inherited flag=%v", kind, trunc(Path(cur), 80), okRest)
		if kind == "array-item" {
			sets := CallsIn(oj, false, "fastjson.Value).SetArrayItem")
			ok := len(sets) == 1
			if ok {
				sa := sets[0].Common().Args
				idx := sa[1]
				// index is the range index of the input array, value is this recursive result
				ok = Derives(sa[2], func(x ssa.Value) bool { return x == c.Value() }) && isRangeIndexOf(idx, a[1]) && isCallTo0(sa[0], "fastjson.Arena).NewArray")
			}
			r.Check(ok, "R3", "obfuscateJSON/array-shape", posOf(c), "item i of the input array is stored at index i of the rebuilt array")
		}
		if kind == "object-member" {
			sets := CallsIn(oj, false, "fastjson.Object).Set", "fastjson.Value).Set")
			ok := len(sets) == 1
			if ok {
				sa := sets[0].Common().Args
				sp := peel(cur).(*ssa.Call)
				ok = Derives(sa[2], func(x ssa.Value) bool { return x == c.Value() }) && Derives(sp.Call.Args[1], func(x ssa.Value) bool { return x == resolve(sa[1]) || Path(x) == Path(sa[1]) }) && isCallTo0(sa[0], "fastjson.Arena).NewObject")
				// the member value processed is Get(key) of the same key
				ok = ok && Derives(a[1], func(x ssa.Value) bool {
					g, isG := x.(*ssa.Call)
					return isG && isCallTo(g, "fastjson.Object).Get") && Path(g.Call.Args[1]) == Path(sa[1])
				})
			}
			r.Check(ok, "R3", "obfuscateJSON/object-shape", posOf(c), "member `key` of the input object is processed with cursor+\".\"+key and stored under the same key")
		}
	}

	// R4 HAR collector
	ob := w.Fn(pkgHar, "apiStreamObfuscator.obfuscateBody")
	fb := w.Fn(pkgHar, "apiStreamObfuscator.filterBodyExclusions")
	if ob == nil || fb == nil {
		r.Undec("R4", "har-collector", token.NoPos, "obfuscateBody / filterBodyExclusions not found")
		return
	}
	want := map[string]string{"ObfuscateRequestBody": "$.request.body", "ObfuscateResponseBody": "$.response.body"}
	seen := map[string]bool{}
	for _, cs := range w.CallSites("apiStreamObfuscator).obfuscateBody") {
		name := outermost(cs.Fn).Name()
		pre, _ := constString(cs.In.Common().Args[2])
		seen[name] = true
		r.Check(want[name] != "" && pre == want[name] && Path(cs.In.Common().Args[1]) == "param:body", "R4", "prefix/"+name, posOf(cs.In), "%s uses exclusion prefix %q (want %q)", name, pre, want[name])
	}
	if !seen["ObfuscateRequestBody"] || !seen["ObfuscateResponseBody"] {
		r.Undec("R4", "prefix/callers", ob.Pos(), "request/response body entry points not found")
	}
	// filterBodyExclusions: pure, prefix-selected, prefix-stripped
	pure := true
	Instrs(fb, func(in ssa.Instruction) {
		if st, ok := in.(*ssa.Store); ok {
			if fa, ok := st.Addr.(*ssa.FieldAddr); ok && Path(fa.X) == "param:o" {
				pure = false
			}
		}
	})
	for _, f := range Anons(ob) {
		Instrs(f, func(in ssa.Instruction) {
			if st, ok := in.(*ssa.Store); ok {
				if fa, ok := st.Addr.(*ssa.FieldAddr); ok && Path(fa.X) == "param:o" {
					pure = false
				}
			}
		})
	}
	r.Check(pure, "R4", "filterBodyExclusions/stateless", fb.Pos(), "the body exclusions are computed per call; nothing is cached on the obfuscator (a cache not keyed by the prefix would leak request exclusions into responses)")
	aps := CallsIn(fb, false, "builtin.append")
	okF := len(aps) == 1
	if okF {
		el := aps[0].Common().Args[1]
		okF = condsHave(CondsOf(aps[0].Block()), true, func(v ssa.Value) bool {
			return isCallTo0(v, "strings.HasPrefix") && strings.HasSuffix(Path(v), ", param:exclusionPrefix)")
		}) && Derives(el, func(x ssa.Value) bool {
			return isCallTo0(x, "strings.TrimPrefix") && strings.HasSuffix(Path(x), ", param:exclusionPrefix)")
		}) && Derives(el, func(x ssa.Value) bool { return strings.Contains(Path(x), "param:o.obfuscateExclusions") })
	}
	r.Check(okF, "R4", "filterBodyExclusions/select-and-strip-prefix", fb.Pos(), "an exclusion is kept iff it has the body prefix, and is handed on with the prefix stripped (whole-path comparison then applies to the body-relative cursor)")
	fcs := CallsIn(ob, false, "apiStreamObfuscator).filterBodyExclusions")
	ojs := CallsIn(ob, false, "Obfuscator).ObfuscateJSON")
	okCall := len(fcs) == 1 && len(ojs) == 1 && Path(fcs[0].Common().Args[1]) == "param:bodyExclusionsPrefix" && margs(ojs[0])[1] == fcs[0].Value() && Path(margs(ojs[0])[0]) == "param:body"
	r.Check(okCall, "R4", "obfuscateBody/uses-filtered-exclusions", ob.Pos(), "ObfuscateJSON(body, filterBodyExclusions(prefix))")
	for _, fn := range []*ssa.Function{ob, w.Fn(pkgDiag, "HARGeneratorPlugin.extractBody")} {
		if fn == nil {
			r.Undec("R4", "fallback", token.NoPos, "extractBody not found")
			continue
		}
		key := shortFn(fnID(fn))
		for _, alt := range ReturnAlts(fn, 0) {
			p := Path(alt.Val)
			switch {
			case strings.Contains(p, "ObfuscateJSON(") && strings.HasSuffix(p, "#0"):
				op, _ := FindRel(relsOfConds(alt.Conds), func(v ssa.Value) bool {
					return strings.Contains(Path(v), "ObfuscateJSON(") && strings.HasSuffix(Path(v), "#1")
				}, isNilConst)
				r.Check(op == "==", "R4", key+"/obfuscated-result", posOf(alt.Ret), "the obfuscated JSON is returned when there was no error")
			case strings.Contains(p, "ObfuscateString("):
				r.Hold("R4", key+"/fallback-hashed", posOf(alt.Ret), 1, "on a JSON error the whole body is returned hashed")
			default:
				// raw body: only when disabled / empty
				okRaw := false
				conds := alt.Conds
				if len(conds) == 0 {
					// disjunctive guard: every predecessor edge must carry an allowed condition
					all := len(alt.Block.Preds) > 0
					for _, pb := range alt.Block.Preds {
						if !rawAllowed(CondsOfEdge(pb, alt.Block)) {
							all = false
						}
					}
					okRaw = all
				}
				for _, c := range conds {
					cp := Path(c.V)
					if (strings.HasSuffix(cp, "obfuscateEnabled") || strings.HasSuffix(cp, "obfuscationEnabled")) && !c.Pol {
						okRaw = true
					}
				}
				for _, rel := range relsOfConds(alt.Conds) {
					if s, ok := constString(rel.R); ok && s == "" && rel.Op == "==" && Path(rel.L) == "param:body" {
						okRaw = true
					}
				}
				r.Check(okRaw, "R4", key+"/raw-only-when-disabled", posOf(alt.Ret), "an un-obfuscated body (%s) is returned only when obfuscation is disabled or the body is empty (conditions %s)", trunc(p, 60), trunc(condsString(alt.Conds), 160))
			}
		}
	}
	r.Min("R1", 5)
	r.Min("R2", 8)
	r.Min("R3", 4)
	c16ExtraExportPaths(w, r)
	c16MoreExportPaths(w, r)
	c16PooledObjectsDoNotOutliveRelease(w, r)
	r.Min("R4", 9)
}

func isAllocOfParam(v ssa.Value, param string) bool {
	a, ok := v.(*ssa.Alloc)
	if !ok {
		return false
	}
	sv := singleStore(a)
	return sv != nil && Path(sv) == "param:"+param
}

// varargsAre: v is the varargs slice of a Sprintf call whose elements have the given paths ("*" = any).
func varargsAre(v ssa.Value, want []string) bool {
	sl, ok := v.(*ssa.Slice)
	if !ok {
		return false
	}
	a, ok := sl.X.(*ssa.Alloc)
	if !ok {
		return false
	}
	got := map[int64]string{}
	for _, rr := range *a.Referrers() {
		if ia, ok := rr.(*ssa.IndexAddr); ok {
			idx, _ := constInt(ia.Index)
			for _, u := range *ia.Referrers() {
				if st, ok := u.(*ssa.Store); ok && st.Addr == ssa.Value(ia) {
					got[idx] = Path(st.Val)
				}
			}
		}
	}
	if len(got) != len(want) {
		return false
	}
	for i, wv := range want {
		if wv != "*" && got[int64(i)] != wv {
			return false
		}
	}
	return true
}

// isRangeIndexOf: idx is the index variable of a range over the slice from which elem is loaded.
func isRangeIndexOf(idx, elem ssa.Value) bool {
	ok := false
	Derives(elem, func(x ssa.Value) bool {
		if ia, isIA := x.(*ssa.IndexAddr); isIA && ia.Index == idx {
			ok = true
		}
		return false
	})
	return ok
}

func rawAllowed(cs []Cond) bool {
	for _, c := range cs {
		cp := Path(c.V)
		if (strings.HasSuffix(cp, "obfuscateEnabled") || strings.HasSuffix(cp, "obfuscationEnabled")) && !c.Pol {
			return true
		}
	}
	for _, rel := range relsOfConds(cs) {
		if s, ok := constString(rel.R); ok && s == "" && rel.Op == "==" && Path(rel.L) == "param:body" {
			return true
		}
	}
	return false
}

// c16ExtraExportPaths: (a) every body the HAR collector exports went through
// the obfuscation function it was handed - no exit of buildHARBody returns
// anything else; (b) the HAR generator takes its obfuscation settings from the
// configuration of THIS call: it keeps no copy of them on the long-lived
// plugin object and never writes the plugin's fields on the transaction path.
func c16ExtraExportPaths(w *World, r *Report) {
	if bh := w.Fn(pkgHar, "buildHARBody"); bh == nil {
		r.Undec("R4", "buildHARBody", token.NoPos, "function not found")
	} else {
		var fnParam *ssa.Parameter
		for _, p := range bh.Params {
			if _, isSig := p.Type().Underlying().(*types.Signature); isSig {
				fnParam = p
			}
		}
		ok := fnParam != nil
		n := 0
		for _, alt := range ReturnAlts(bh, 0) {
			n++
			c, isC := peel(alt.Val).(*ssa.Call)
			if !isC || c.Call.Value != ssa.Value(fnParam) {
				ok = false
			}
		}
		r.Check(ok && n >= 1, "R4", "buildHARBody/every-exit-is-obfuscated", bh.Pos(), "each of the %d returns of buildHARBody is the result of the obfuscation function (an undecodable body is obfuscated as it is, never exported raw)", n)
	}
	gh := w.Fn(pkgDiag, "HARGeneratorPlugin.GenerateHAR")
	if gh == nil {
		r.Undec("R4", "HARGeneratorPlugin.GenerateHAR", token.NoPos, "function not found")
		return
	}
	var writes []string
	for _, name := range []string{"HARGeneratorPlugin.GenerateHAR", "HARGeneratorPlugin.OnTransaction"} {
		f := w.Fn(pkgDiag, name)
		if f == nil {
			continue
		}
		for _, g := range Anons(f) {
			Instrs(g, func(in ssa.Instruction) {
				if st, ok := in.(*ssa.Store); ok {
					if fa, ok := st.Addr.(*ssa.FieldAddr); ok {
						if _, sn := namedOf(fa.X.Type()); sn == "HARGeneratorPlugin" {
							writes = append(writes, fieldName(fa.X.Type(), fa.Field)+" at "+w.Pos(st.Pos()))
						}
					}
				}
			})
		}
	}
	nCfg, okCfg := 0, true
	for _, c := range CallsIn(gh, true, "config.ShouldObfuscate", "config.ShouldObfuscateRequestHeader", "config.ShouldObfuscateResponseHeader", "config.GetObfuscationExclusions") {
		nCfg++
		_ = c
	}
	Instrs(gh, func(in ssa.Instruction) {
		c, ok := in.(*ssa.Call)
		if !ok || !strings.HasPrefix(calleeID(c), "lunar/engine/config.") || len(c.Call.Args) == 0 {
			return
		}
		if !strings.Contains(c.Call.Args[0].Type().String(), "Obfuscate") {
			return
		}
		nCfg++
		fromCall := Derives(c.Call.Args[0], func(x ssa.Value) bool {
			return strings.HasSuffix(Path(x), "param:diagnosisConfig.Obfuscate") || Path(x) == "param:diagnosisConfig.Obfuscate"
		})
		fromPlugin := Derives(c.Call.Args[0], func(x ssa.Value) bool {
			fa, isFA := x.(*ssa.FieldAddr)
			if !isFA {
				return false
			}
			_, sn := namedOf(fa.X.Type())
			return sn == "HARGeneratorPlugin"
		})
		if !fromCall || fromPlugin {
			okCfg = false
		}
	})
	r.Check(len(writes) == 0 && okCfg && nCfg >= 2, "R4", "GenerateHAR/settings-of-this-call", gh.Pos(), "the obfuscation settings consulted (%d uses) are those of the diagnosis configuration passed to this call, and the plugin object is not written on the transaction path (writes: %v)", nCfg, writes)
}

// c16MoreExportPaths: (a) each direction's body is decoded with the content
// encoding of its OWN message (a gzip response to a plain request must be
// decompressed before its JSON is walked); (b) the production hasher digests
// every input - there is no input it returns unhashed.
func c16MoreExportPaths(w *World, r *Report) {
	if gh := w.Fn(pkgHar, "harCollectorProcessor.generateHAR"); gh == nil {
		r.Undec("R4", "generateHAR", token.NoPos, "function not found")
	} else {
		n, ok := 0, true
		var why []string
		for _, c := range CallsIn(gh, false, "har-collector.buildHARBody") {
			n++
			a := c.Common().Args
			src := func(v ssa.Value) string {
				s := ""
				Derives(v, func(x ssa.Value) bool {
					if cc, isC := x.(*ssa.Call); isC {
						id := calleeID(cc)
						if strings.HasSuffix(id, ").GetRequest") {
							s = "request"
						}
						if strings.HasSuffix(id, ").GetResponse") {
							s = "response"
						}
					}
					return false
				})
				return s
			}
			b, e := src(a[0]), src(a[1])
			if b == "" || b != e {
				ok = false
				why = append(why, "body of "+b+" decoded with the encoding header of "+e)
			}
		}
		r.Check(ok && n == 2, "R4", "generateHAR/body-decoded-with-its-own-encoding", gh.Pos(), "each buildHARBody call takes body and content-encoding from the same message %v", why)
	}
	if hb := w.Fn(pkgObf, "MD5Hasher.HashBytes"); hb == nil {
		r.Undec("R2", "MD5Hasher.HashBytes", token.NoPos, "function not found")
	} else {
		n, ok := 0, true
		for _, alt := range ReturnAlts(hb, 0) {
			n++
			if !Derives(alt.Val, func(x ssa.Value) bool { return isCallTo0(x, "crypto/md5.Sum") }) || len(alt.Conds) != 0 {
				ok = false
			}
		}
		r.Check(ok && n == 1, "R2", "MD5Hasher.HashBytes/every-input-is-digested", hb.Pos(), "the hasher has one return, the hex digest of its input, for every input (an empty value is exported as the digest of the empty string, not in clear)")
	}
}

// c16PooledObjectsDoNotOutliveRelease: the JSON parser and arena come from
// pools (`p := pool.Get(); defer pool.Put(p)`); everything parsed with p lives
// in p's buffers and is overwritten by the next user of p. So a function that
// releases a pooled object with a deferred Put must not hand back a pointer,
// slice or map that derives from it: a concurrent obfuscation would rewrite the
// document under the walk and values of one document would surface in another.
func c16PooledObjectsDoNotOutliveRelease(w *World, r *Report) {
	n := 0
	for _, f := range w.lunarFns {
		if f.Origin() != nil || !strings.HasPrefix(fnPkgPath(f), "lunar/engine/utils/obfuscation") {
			continue
		}
		for _, b := range f.Blocks {
			for _, in := range b.Instrs {
				d, ok := in.(*ssa.Defer)
				if !ok || !isCallTo(d, "ParserPool).Put", "ArenaPool).Put", "sync.Pool).Put") || len(d.Call.Args) < 2 {
					continue
				}
				n++
				pooled := d.Call.Args[1]
				var escapes []string
				for i := 0; i < f.Signature.Results().Len(); i++ {
					t := f.Signature.Results().At(i).Type()
					switch t.Underlying().(type) {
					case *types.Pointer, *types.Slice, *types.Map:
					default:
						continue
					}
					for _, alt := range ReturnAlts(f, i) {
						if Derives(alt.Val, func(x ssa.Value) bool { return x == pooled }) {
							escapes = append(escapes, fmt.Sprintf("result #%d at %s", i, w.Pos(posOf(alt.Ret))))
						}
					}
				}
				r.Check(len(escapes) == 0, "R2", "pooled-object-released-after-last-use/"+shortFn(fnID(f))+"/"+Path(d.Call.Args[0]), posOf(d), "nothing that lives in the pooled object's buffers is returned from the function that releases it with a deferred Put (%v)", escapes)
			}
		}
	}
	if n < 2 {
		r.Undec("R2", "pooled-object-released-after-last-use", token.NoPos, "expected the parser and arena pool releases, found %d", n)
	}
}
