package main

import (
	"fmt"
	"go/constant"
	"go/token"
	"go/types"
	"strings"
	"unicode/utf8"

	"golang.org/x/tools/go/ssa"
)

const (
	pkgLctx    = "lunar/engine/streams/lunar-context"
	pkgQuota   = "lunar/engine/streams/resources/quota"
	pkgLimiter = "lunar/engine/streams/processors/limiter"
	pkgQInc    = "lunar/engine/streams/processors/quota-processor-inc"
	pkgQDec    = "lunar/engine/streams/processors/quota-processor-dec"
)

func init() {
	register(&Property{
		ID:   "C01",
		Mods: []string{modEngine},
		Explanation: "Decides structural necessary conditions of the fixed-window bound, not the bound over histories: " +
			"(R1) window counter state, the per-request verdict memo and the group map are only touched under their mutexes; " +
			"(R2) in AtomicIncWindow the counter store is on the edge newCount <= maxAllowedInWindow with newCount the value compared, the refusing edge returns an error and stores nothing; " +
			"(R3) newCount = base + incrBy where base is 0 exactly on the window-roll edge (now-windowStart >= windowSize) and the stored counter otherwise, the stored window start is now on the roll edge and the old start otherwise; " +
			"(R4) only the Atomic* methods write counter keys, AtomicWindowReset is called only by quota.Reset, fixed-window code never calls AtomicDecr/AtomicIncr; " +
			"(R5) the verdict memo is set true only on the spill-over edge or when AtomicIncWindow returned no error, Allowed answers false for an unknown request and consumes the memo, the memo is cleared on window restart; " +
			"(R6) a child increment propagates to the parent exactly when it was increased, Allowed is the conjunction up the hierarchy; (R7) limiter = Inc then Allowed with below/above mapping and all errors returned; " +
			"(R8) group key derives from the configured header and quota id, one quota object per key (atomic insert-if-absent); (R9) limit/window reach AtomicIncWindow unmodified from the configuration; (R10) child strategies are created with the node found by ParentID. " +
			"NOT decided: arithmetic over wall-clock values (second truncation), fairness, the pro (Redis) state, exactness over whole histories.",
		RuleText: "obligation = (rule, anchored construct) on SSA of the current tree; edge-dominance of normalised comparisons, phi-edge values per branch, must-lockset with caller-held fixpoint, who-calls inventory, value provenance by access path",
		Run:      runC01,
	})
}

// phiEdgeWhere returns the phi edges whose incoming edge satisfies want(conds).
func phiEdgesWhere(ph *ssa.Phi, want func([]Cond) bool) (yes, no []ssa.Value) {
	for i, e := range ph.Edges {
		if want(CondsOfEdge(ph.Block().Preds[i], ph.Block())) {
			yes = append(yes, e)
		} else {
			no = append(no, e)
		}
	}
	return
}

func runC01(w *World, r *Report) {
	hrConcurrentAllowed(w, r, "R10")
	hrProcessorCallsOnlyItsOperation(w, r, "R10")
	hrSetInt64Stores(w, r, "R10")
	hrMemoryStateOwnStore(w, r, "R10")
	hrEveryMatchingEdgeFollowed(w, r, "R10")
	hrCounterParsedAsDecimal(w, r, "R10")
	r.Borrow(w, c11ClockKeepsMonotonicReading, map[string]string{"R4": "R10"})
	hrChildStrategyKeepsParent(w, r, "R10")
	// the limiter's verdict reaches the proxy through the merge of the request actions (C07.R2)
	r.Borrow(w, runC07, map[string]string{"R2": "R10"})
	hrQuotaTrie(w, r, "R10")
	hrGetCountFromContext(w, r, "R9")
	hrGetQuotaByID(w, r, "R8")
	hrGetHeader(w, r, "R9") // group_by_header names are looked up case-insensitively
	la := NewLockAn(w)
	atomicOnly := func(id string) bool {
		for _, m := range []string{"AtomicWindowReset", "AtomicIncr", "AtomicDecr", "AtomicSAddWithMaxValuesAllowed", "SCard", "SMembers", "SRem", "AtomicWindowResetIn", "AtomicIncWindow", "atomicGetWindow", "setInt64"} {
			if idMatches(id, "memoryState)."+m) {
				return true
			}
		}
		return false
	}
	checkGB(w, r, la, "R1", []GuardRow{
		{Pkg: pkgLctx, Struct: "memoryState", Fields: []string{"contextMemory"}, Mutex: "mutex", MinSites: 12, Only: atomicOnly},
		{Pkg: pkgQuota, Struct: "quota", Fields: []string{"allowedByReqID", "windowStart"}, Mutex: "mutex", MinSites: 9},
		{Pkg: pkgQuota, Struct: "fixedWindow", Fields: []string{"quotaGroups"}, Mutex: "getQuotaLock", MinSites: 5},
	})

	aiw := w.Fn(pkgLctx, "memoryState.AtomicIncWindow")
	if aiw == nil {
		r.Undec("R2", "AtomicIncWindow", token.NoPos, "function not found")
	} else {
		isMaxP := pathRe(`^param:maxAllowedInWindow$`)
		isKey := func(v ssa.Value, suffix string) bool {
			return isCallTo0(v, "memoryState).buildKey") && strings.HasSuffix(Path(v), `param:key, "`+suffix+`")`)
		}
		var counterSets, startSets []*ssa.Call
		Instrs(aiw, func(in ssa.Instruction) {
			c, ok := in.(*ssa.Call)
			if !ok || !isCallTo(c, "memoryState).setInt64", "ContextI).Set", "memoryState).Set") {
				return
			}
			args := c.Call.Args
			k := args[len(args)-2]
			switch {
			case isKey(k, "_counter"):
				counterSets = append(counterSets, c)
			case isKey(k, "_window_start"):
				startSets = append(startSets, c)
			default:
				r.Fail("R2", "AtomicIncWindow/unknown-store", posOf(c), "store under an unrecognised key %s", Path(k))
			}
		})
		if len(counterSets) != 1 || len(startSets) != 1 {
			r.Undec("R2", "AtomicIncWindow/stores", aiw.Pos(), "expected one counter store and one window-start store, found %d/%d", len(counterSets), len(startSets))
		}
		var newCount ssa.Value
		for _, c := range counterSets {
			v := c.Call.Args[len(c.Call.Args)-1]
			newCount = v
			rels := Rels(c.Block())
			op, _ := FindRel(rels, func(x ssa.Value) bool { return x == v }, isMaxP)
			r.Check(op == "<=", "R2", "AtomicIncWindow/store-guard", posOf(c), "counter store executes under newCount %q maxAllowedInWindow (want <=, with newCount the very value stored); relations %s", op, relsString(rels))
			// R3 newCount = base + incrBy
			b, ok := v.(*ssa.BinOp)
			okSum := ok && b.Op == token.ADD && (Path(b.Y) == "param:incrBy" || Path(b.X) == "param:incrBy")
			r.Check(okSum, "R3", "AtomicIncWindow/new-count-is-base-plus-incrBy", posOf(c), "newCount = %s", Path(v))
			if okSum {
				base := b.X
				if Path(b.X) == "param:incrBy" {
					base = b.Y
				}
				ph, isPhi := base.(*ssa.Phi)
				if !isPhi {
					r.Fail("R3", "AtomicIncWindow/base-phi", posOf(c), "base counter %s is not selected by the window-roll branch", Path(base))
				} else {
					isRoll := func(cs []Cond) bool {
						for _, rel := range relsOfConds(cs) {
							rel, _ = rel.Facing(func(x ssa.Value) bool { return isCallTo0(x, "time.Time).Sub") })
							if rel.Op == ">=" && isCallTo0(rel.L, "time.Time).Sub") && Path(rel.R) == "param:windowSize" {
								sub := peel(rel.L).(*ssa.Call)
								if isCallTo0(sub.Call.Args[1], "memoryState).atomicGetWindow") && Derives(sub.Call.Args[0], func(x ssa.Value) bool { return isCallTo0(x, "clock.Clock).Now") }) {
									return true
								}
							}
						}
						return false
					}
					roll, stay := phiEdgesWhere(ph, isRoll)
					okRoll := len(roll) == 1 && isIntConst(roll[0], 0)
					okStay := len(stay) == 1 && Derives(stay[0], func(x ssa.Value) bool {
						return isCallTo0(x, "memoryState).Get", "ContextI).Get") && strings.Contains(Path(x), `"_counter")`)
					})
					r.Check(okRoll, "R3", "AtomicIncWindow/base-zero-on-roll", posOf(ph), "on the edge now - windowStart >= windowSize the base is %v (want exactly the constant 0, and only there)", pathsOf(roll))
					r.Check(okStay, "R3", "AtomicIncWindow/base-loaded-otherwise", posOf(ph), "inside the window the base is %v (want the stored counter)", pathsOf(stay))
					// window start stored
					for _, sc := range startSets {
						sv := sc.Call.Args[len(sc.Call.Args)-1]
						okWS := false
						if u, ok := peel(sv).(*ssa.Call); ok && isCallTo(u, "time.Time).Unix") {
							if wph, ok := u.Call.Args[0].(*ssa.Phi); ok {
								ry, rn := phiEdgesWhere(wph, isRoll)
								okWS = len(ry) == 1 && len(rn) == 1 && strings.HasPrefix(Path(ry[0]), "(time.Time).UTC((clock.Clock).Now(") && isCallTo0(rn[0], "memoryState).atomicGetWindow")
							}
						}
						r.Check(okWS, "R3", "AtomicIncWindow/window-start-stored", posOf(sc), "stored window start = %s (want now on the roll edge, the previous start otherwise)", Path(sv))
						r.Check(sc.Block().Dominates(c.Block()) || sc.Block() == c.Block(), "R3", "AtomicIncWindow/start-stored-with-count", posOf(sc), "window start is stored on the admitted path before the counter")
					}
					// restarted flag
					nFlag := 0
					Instrs(aiw, func(in ssa.Instruction) {
						fph, ok := in.(*ssa.Phi)
						if !ok || !isBool(fph.Type()) {
							return
						}
						nFlag++
						ry, rn := phiEdgesWhere(fph, isRoll)
						t, ok1 := constBool(first(ry))
						f, ok2 := constBool(first(rn))
						used := false
						for _, alt := range ReturnAlts(aiw, 1) {
							if isNilConst(ReturnAlts(aiw, 2)[0].Val) || true {
								_ = alt
							}
						}
						for _, b := range aiw.Blocks {
							if ret, ok := b.Instrs[len(b.Instrs)-1].(*ssa.Return); ok && b != aiw.Recover {
								for _, in2 := range b.Instrs {
									if st, ok := in2.(*ssa.Store); ok && st.Val == ssa.Value(fph) {
										used = true
									}
								}
								_ = ret
							}
						}
						r.Check(len(ry) == 1 && len(rn) == 1 && ok1 && ok2 && t && !f && used, "R3", "AtomicIncWindow/restarted-flag", posOf(fph), "windowRestarted = %s (want true exactly on the roll edge, and returned)", Path(fph))
					})
					if nFlag != 1 {
						r.Undec("R3", "AtomicIncWindow/restarted-flag-count", aiw.Pos(), "expected one boolean restart flag, found %d", nFlag)
					}
				}
			}
		}
		// refusing edge: error, no store
		nRef := 0
		for _, alt := range ReturnAlts(aiw, 2) {
			rels := relsOfConds(alt.Conds)
			op, _ := FindRel(rels, func(x ssa.Value) bool { return x == newCount }, isMaxP)
			if op == ">" {
				nRef++
				stored := false
				for _, c := range append(counterSets, startSets...) {
					if domInstr(c, alt.Ret) {
						stored = true
					}
				}
				r.Check(!isNilConst(alt.Val) && !stored, "R2", "AtomicIncWindow/refuse-edge", posOf(alt.Ret), "over-limit edge returns error=%s, store before it=%v (want non-nil error, no store)", Path(alt.Val), stored)
			}
			if isNilConst(alt.Val) {
				cnt := ReturnAlts(aiw, 0)
				okV := false
				for _, a := range cnt {
					if a.Ret == alt.Ret && a.Val == newCount {
						okV = true
					}
				}
				r.Check(op == "<=" && okV, "R2", "AtomicIncWindow/success-edge", posOf(alt.Ret), "nil error returned under newCount %q max with the stored count as result=%v", op, okV)
			}
		}
		if nRef != 1 {
			r.Undec("R2", "AtomicIncWindow/refuse-edge-count", aiw.Pos(), "expected one refusing return, found %d", nRef)
		}
	}

	// R4 writers / callers
	for _, cs := range w.CallSites("ContextI).Set") {
		id := fnID(outermost(cs.Fn))
		if !strings.Contains(id, "lunar-context.memoryState") {
			continue
		}
		k := cs.In.Common().Args[0]
		if Derives(k, func(x ssa.Value) bool {
			s, ok := constString(x)
			return ok && (s == "_counter" || s == "_window_start")
		}) {
			ok := idMatches(id, "memoryState).AtomicWindowReset")
			r.Check(ok, "R4", "counter-key-writers/"+shortFn(id), posOf(cs.In), "direct Set on a counter/window key in %s", id)
		}
	}
	for _, cs := range w.CallSites("memoryState).setInt64") {
		id := fnID(outermost(cs.Fn))
		ok := idMatches(id, "memoryState).AtomicIncWindow") || idMatches(id, "memoryState).AtomicIncr") || idMatches(id, "memoryState).AtomicDecr")
		r.Check(ok, "R4", "setInt64-callers/"+shortFn(id), posOf(cs.In), "setInt64 called from %s", id)
	}
	for _, cs := range w.CallSites("SharedStateI).AtomicWindowReset", "memoryState).AtomicWindowReset") {
		id := fnID(outermost(cs.Fn))
		r.Check(idMatches(id, "quota).Reset"), "R4", "callers(AtomicWindowReset)/"+shortFn(id), posOf(cs.In), "AtomicWindowReset called from %s (allowed: quota.Reset)", id)
	}
	for _, cs := range w.CallSites("SharedStateI).AtomicDecr", "SharedStateI).AtomicIncr") {
		id := fnID(outermost(cs.Fn))
		bad := strings.Contains(id, "quota.quota)") || strings.Contains(id, "quota.fixedWindow)")
		r.Check(!bad, "R4", "callers(AtomicDecr/Incr)/"+shortFn(id), posOf(cs.In), "window counter changed outside AtomicIncWindow by %s", id)
	}
	if len(w.CallSites("SharedStateI).AtomicIncWindow")) == 0 {
		r.Undec("R4", "callers(AtomicIncWindow)", token.NoPos, "no caller of AtomicIncWindow found")
	}
	for _, cs := range w.CallSites("SharedStateI).AtomicIncWindow") {
		id := fnID(outermost(cs.Fn))
		r.Check(idMatches(id, "quota).Inc"), "R4", "callers(AtomicIncWindow)/"+shortFn(id), posOf(cs.In), "AtomicIncWindow called from %s", id)
		// R9 provenance of limit and window
		a := cs.In.Common().Args
		ok := len(a) == 4 && Path(a[0]) == "param:q.currentCountKey" && Path(a[2]) == "param:q.window" && Path(a[3]) == "param:q.maxCount"
		r.Check(ok, "R9", "quota.Inc/AtomicIncWindow-args", posOf(cs.In), "AtomicIncWindow(%s, _, %s, %s) (want q.currentCountKey, q.window, q.maxCount unmodified)", Path(a[0]), Path(a[2]), Path(a[3]))
		// the amount added is the request's own cost: extractCountF(APIStream), 0 only when that failed
		if len(a) == 4 {
			isExtract := func(x ssa.Value) bool {
				c, isC := x.(*ssa.Call)
				return isC && Path(c.Call.Value) == "param:q.extractCountF" && len(c.Call.Args) == 1 && Path(c.Call.Args[0]) == "param:APIStream"
			}
			okAmt := false
			switch x := peel(a[1]).(type) {
			case *ssa.Phi:
				nExt, nZero := 0, 0
				for i, e := range x.Edges {
					if ex, isE := e.(*ssa.Extract); isE && ex.Index == 0 && isExtract(ex.Tuple) {
						nExt++
						continue
					}
					if k, isK := e.(*ssa.Const); isK && k.Value != nil && k.Value.ExactString() == "0" {
						// only on the error edge of extractCountF
						op, _ := FindRel(relsOfConds(CondsOfEdge(x.Block().Preds[i], x.Block())), func(v ssa.Value) bool {
							ex, isE := v.(*ssa.Extract)
							return isE && ex.Index == 1 && isExtract(ex.Tuple)
						}, isNilConst)
						if op == "!=" {
							nZero++
							continue
						}
					}
					nExt = -100
				}
				okAmt = nExt == 1 && nZero <= 1
			case *ssa.Extract:
				okAmt = x.Index == 0 && isExtract(x.Tuple)
			}
			r.Check(okAmt, "R9", "quota.Inc/amount-is-the-request-cost", posOf(cs.In), "AtomicIncWindow adds extractCountF(APIStream) (0 only when extraction failed): %s", trunc(Path(a[1]), 100))
		}
	}

	// the critical section of each Atomic* method covers every read that feeds its decision:
	// no call on the receiver's own state (Get/Set/atomicGetWindow/setInt64/contextMemory.*)
	// happens before the mutex is taken or after it is released
	for _, m := range []string{"AtomicIncWindow", "AtomicWindowReset", "AtomicWindowResetIn", "AtomicIncr", "AtomicDecr", "AtomicSAddWithMaxValuesAllowed", "SRem", "SCard", "SMembers"} {
		f := w.Fn(pkgLctx, "memoryState."+m)
		if f == nil {
			continue
		}
		recv := "param:" + canonParam(f.Params[0])
		var bad []string
		n := 0
		Instrs(f, func(in ssa.Instruction) {
			c, ok := in.(ssa.CallInstruction)
			if !ok {
				return
			}
			if _, isDefer := in.(*ssa.Defer); isDefer {
				return
			}
			id := calleeID(c)
			onState := false
			switch {
			case idMatches(id, "memoryState).Get"), idMatches(id, "memoryState).Set"), idMatches(id, "memoryState).atomicGetWindow"), idMatches(id, "memoryState).setInt64"),
				idMatches(id, "memoryState).Exists"), idMatches(id, "memoryState).Pop"):
				onState = len(c.Common().Args) > 0 && Path(c.Common().Args[0]) == recv
			case strings.HasPrefix(id, "(lunar/engine/streams/public-types.ContextI)."):
				onState = Path(c.Common().Value) == recv+".contextMemory"
			}
			if !onState {
				return
			}
			n++
			if _, h := la.HeldAt(in)[recv+".mutex"]; !h {
				bad = append(bad, calleeShort(id)+" at "+w.Pos(in.Pos()))
			}
		})
		if n == 0 {
			continue
		}
		r.Check(len(bad) == 0, "R1", "critical-section-covers-state-reads/"+m, f.Pos(), "all %d accesses of the shared state in %s are made with the mutex held (outside: %v)", n, m, bad)
	}
	c01Quota(w, r)
	c01Hierarchy(w, r, la)
	c01ChildAllocationUsesACopy(w, r)
	r.Min("R1", 8)
	r.Min("R2", 3)
	r.Min("R3", 6)
	r.Min("R4", 5)
	r.Min("R5", 7)
	r.Min("R6", 5)
	r.Min("R7", 4)
	r.Min("R8", 4)
	r.Min("R9", 5)
	r.Min("R10", 2)
}

func first(v []ssa.Value) ssa.Value {
	if len(v) == 0 {
		return nil
	}
	return v[0]
}

func pathsOf(v []ssa.Value) []string {
	var s []string
	for _, x := range v {
		s = append(s, Path(x))
	}
	return s
}

func c01Quota(w *World, r *Report) {
	inc := w.Fn(pkgQuota, "quota.Inc")
	if inc == nil {
		r.Undec("R5", "quota.Inc", token.NoPos, "function not found")
		return
	}
	isMemo := func(v ssa.Value) bool { return Path(v) == "param:q.allowedByReqID" }
	isErr := func(v ssa.Value) bool {
		p := Path(v)
		return strings.Contains(p, "SharedStateI).AtomicIncWindow(") && strings.HasSuffix(p, "#2")
	}
	nTrue := 0
	Instrs(inc, func(in ssa.Instruction) {
		mu, ok := in.(*ssa.MapUpdate)
		if !ok || !isMemo(mu.Map) {
			return
		}
		b, isC := constBool(mu.Value)
		if !isC {
			r.Fail("R5", "quota.Inc/memo-value", posOf(mu), "memo set to non-constant %s", Path(mu.Value))
			return
		}
		rels := Rels(mu.Block())
		if b {
			nTrue++
			opErr, _ := FindRel(rels, isErr, isNilConst)
			opSp, _ := FindRel(rels, func(v ssa.Value) bool {
				return strings.Contains(Path(v), "getCountFromContext(param:q, param:q.spilloverCountKey)")
			}, func(v ssa.Value) bool { return isIntConst(v, 0) })
			r.Check(opErr == "==" || opSp == ">", "R5", "quota.Inc/memo-true-only-when-admitted", posOf(mu), "memo[reqID]=true under err %q nil / spillover %q 0 (want err == nil of AtomicIncWindow, or spillover > 0)", opErr, opSp)
		} else {
			found := false
			for _, c := range CondsOf(mu.Block()) {
				if strings.HasSuffix(Path(c.V), "q.allowedByReqID[(public-types.APIStreamI).GetID(param:APIStream)]#1") && !c.Pol {
					found = true
				}
			}
			r.Check(found, "R5", "quota.Inc/memo-init-only-when-new", posOf(mu), "memo[reqID]=false only on the first Inc of the request (not found edge)")
		}
		r.Check(strings.HasSuffix(Path(mu.Key), "APIStreamI).GetID(param:APIStream)"), "R5", "quota.Inc/memo-key", posOf(mu), "memo keyed by %s (want the request id)", Path(mu.Key))
	})
	if nTrue != 2 {
		r.Undec("R5", "quota.Inc/memo-true-sites", inc.Pos(), "expected the 2 confirmed admit sites, found %d", nTrue)
	}
	// result mapping
	incC, blkC, alrC := w.constOf(pkgQuota, "increased"), w.constOf(pkgQuota, "blocked"), w.constOf(pkgQuota, "alreadyIncreased")
	for _, alt := range ReturnAlts(inc, 0) {
		memoTrue := func(pol bool) bool {
			return condsHave(alt.Conds, pol, func(v ssa.Value) bool {
				return strings.HasPrefix(Path(v), "param:q.allowedByReqID[") && !strings.HasSuffix(Path(v), "#1")
			})
		}
		switch {
		case isConstVal(alt.Val, incC):
			r.Check(memoTrue(true), "R5", "quota.Inc/returns-increased", posOf(alt.Ret), "increased returned only when memo[reqID] is true")
		case isConstVal(alt.Val, blkC):
			r.Check(memoTrue(false), "R5", "quota.Inc/returns-blocked", posOf(alt.Ret), "blocked returned only when memo[reqID] is false")
		case isConstVal(alt.Val, alrC):
			ok := condsHave(alt.Conds, true, func(v ssa.Value) bool {
				return strings.HasSuffix(Path(v), "]#1") && strings.Contains(Path(v), "q.allowedByReqID[")
			})
			r.Check(ok, "R5", "quota.Inc/returns-alreadyIncreased", posOf(alt.Ret), "alreadyIncreased returned only when the request id is already in the memo")
		default:
			r.Fail("R5", "quota.Inc/result", posOf(alt.Ret), "unexpected result %s", Path(alt.Val))
		}
	}
	// window restart clears the memo
	okRestart := false
	for _, c := range CallsIn(inc, false, "quota).onWindowRestart") {
		okRestart = condsHave(CondsOf(c.Block()), true, func(v ssa.Value) bool {
			p := Path(v)
			return strings.Contains(p, "AtomicIncWindow(") && strings.HasSuffix(p, "#1")
		})
	}
	r.Check(okRestart, "R5", "quota.Inc/restart-clears-memo", inc.Pos(), "onWindowRestart is called exactly on the windowRestarted edge")
	if owr := w.Fn(pkgQuota, "quota.onWindowRestart"); owr != nil {
		st := fieldStores(owr, "allowedByReqID")
		ok := len(st) == 1
		if ok {
			_, ok = st[0].Val.(*ssa.MakeMap)
		}
		r.Check(ok, "R5", "onWindowRestart/fresh-memo", owr.Pos(), "onWindowRestart replaces the memo by a fresh map")
	}
	// Allowed
	if al := w.Fn(pkgQuota, "quota.Allowed"); al == nil {
		r.Undec("R5", "quota.Allowed", token.NoPos, "function not found")
	} else {
		n := 0
		for _, alt := range ReturnAlts(al, 0) {
			n++
			found := func(pol bool) bool {
				return condsHave(alt.Conds, pol, func(v ssa.Value) bool {
					return strings.HasSuffix(Path(v), "]#1") && strings.Contains(Path(v), "q.allowedByReqID[")
				})
			}
			if b, isC := constBool(alt.Val); isC {
				r.Check(!b && found(false), "R5", "quota.Allowed/unknown-request", posOf(alt.Ret), "constant %v returned on not-found=%v (want false for a request without a memo entry)", b, found(false))
			} else {
				isVal := strings.HasSuffix(Path(alt.Val), "]#0") && strings.Contains(Path(alt.Val), "q.allowedByReqID[")
				del := false
				Instrs(al, func(in ssa.Instruction) {
					if c, ok := in.(*ssa.Call); ok {
						if bi, ok := c.Call.Value.(*ssa.Builtin); ok && bi.Name() == "delete" && isMemo(c.Call.Args[0]) && domInstr(c, alt.Ret) {
							del = true
						}
					}
				})
				r.Check(isVal && found(true) && del, "R5", "quota.Allowed/memo-consumed", posOf(alt.Ret), "returns the memo value=%v on found=%v and deletes the entry=%v", isVal, found(true), del)
			}
		}
		if n != 2 {
			r.Undec("R5", "quota.Allowed/shape", al.Pos(), "expected 2 return alternatives, found %d", n)
		}
	}
}

func c01Hierarchy(w *World, r *Report, la *LockAn) {
	isParentNil := func(v ssa.Value) bool { return Path(v) == "param:fw.parent" }
	parentCall := func(fn *ssa.Function, method string) []ssa.CallInstruction {
		var out []ssa.CallInstruction
		for _, c := range CallsIn(fn, false, "QuotaResourceI)."+method, "ResourceAdmI)."+method) {
			if strings.Contains(Path(c.Common().Value), "GetQuota(param:fw.parent)") {
				out = append(out, c)
			}
		}
		return out
	}
	// R6 Inc
	if inc := w.Fn(pkgQuota, "fixedWindow.Inc"); inc == nil {
		r.Undec("R6", "fixedWindow.Inc", token.NoPos, "function not found")
	} else {
		pcs := parentCall(inc, "Inc")
		if len(pcs) != 1 {
			r.Undec("R6", "fixedWindow.Inc/parent-call", inc.Pos(), "expected one parent.Inc call, found %d", len(pcs))
		} else {
			pc := pcs[0]
			rels := Rels(pc.Block())
			opP, _ := FindRel(rels, isParentNil, isNilConst)
			incC := w.constOf(pkgQuota, "increased")
			opI, _ := FindRel(rels, func(v ssa.Value) bool { return isCallTo0(v, "quota).Inc") }, func(v ssa.Value) bool { return isConstVal(v, incC) })
			r.Check(opP == "!=" && opI == "==", "R6", "fixedWindow.Inc/parent-iff-increased", posOf(pc), "parent.Inc executes under child result %q increased and parent %q nil (want ==, !=)", opI, opP)
			// no further condition on the propagation
			extra := []string{}
			for _, rel := range rels {
				lp, rp := Path(rel.L), Path(rel.R)
				switch {
				case isParentNil(rel.L) || isParentNil(rel.R):
				case isCallTo0(rel.L, "quota).Inc") || isCallTo0(rel.R, "quota).Inc"):
				case strings.Contains(lp, "getQuota(") && rp == "nil" && rel.Op == "==":
				default:
					extra = append(extra, lp+" "+rel.Op+" "+rp)
				}
			}
			r.Check(len(extra) == 0, "R6", "fixedWindow.Inc/no-extra-condition", posOf(pc), "propagation to the parent depends on nothing else (extra conditions: %v)", extra)
			okRet := false
			for _, alt := range ReturnAlts(inc, 0) {
				if alt.Val == pc.Value() {
					okRet = true
				}
			}
			r.Check(okRet, "R6", "fixedWindow.Inc/parent-error-returned", posOf(pc), "the parent's Inc error is returned")
			// child quota is the group quota of this request
			chs := CallsIn(inc, false, "quota).Inc")
			okCh := len(chs) == 1 && strings.HasPrefix(Path(chs[0].Common().Args[0]), "(*quota.fixedWindow).getQuota(param:fw, param:APIStream)#0") && Path(chs[0].Common().Args[1]) == "param:APIStream"
			r.Check(okCh, "R6", "fixedWindow.Inc/child-is-group-quota", inc.Pos(), "child Inc runs on getQuota(APIStream) with the same stream")
		}
	}
	// R6 Allowed
	if al := w.Fn(pkgQuota, "fixedWindow.Allowed"); al == nil {
		r.Undec("R6", "fixedWindow.Allowed", token.NoPos, "function not found")
	} else {
		isChild := func(v ssa.Value) bool { return isCallTo0(v, "quota).Allowed") }
		pcs := parentCall(al, "Allowed")
		for _, alt := range ReturnAlts(al, 0) {
			rl := relsOfConds(alt.Conds)
			ch := ""
			if condsHave(alt.Conds, true, isChild) {
				ch = "true"
			} else if condsHave(alt.Conds, false, isChild) {
				ch = "false"
			}
			pn, _ := FindRel(rl, isParentNil, isNilConst)
			if b, isC := constBool(alt.Val); isC {
				if b {
					r.Check(ch == "true" && pn == "==", "R6", "fixedWindow.Allowed/true-only-at-allowed-root", posOf(alt.Ret), "true returned under child allowed=%q parent %q nil (want true, ==)", ch, pn)
				} else {
					errRet := false
					for _, e := range ReturnAlts(al, 1) {
						if e.Ret == alt.Ret && !isNilConst(e.Val) {
							errRet = true
						}
					}
					r.Check(ch == "false" || errRet, "R6", "fixedWindow.Allowed/false-when-child-blocked", posOf(alt.Ret), "false returned under child allowed=%q or with an error=%v", ch, errRet)
				}
			} else {
				okP := len(pcs) == 1 && Derives(alt.Val, func(x ssa.Value) bool { return x == pcs[0].Value() })
				r.Check(okP && ch == "true" && pn == "!=", "R6", "fixedWindow.Allowed/delegates-to-parent", posOf(alt.Ret), "returns the parent's verdict=%v under child allowed=%q parent %q nil", okP, ch, pn)
			}
		}
		if len(pcs) != 1 {
			r.Undec("R6", "fixedWindow.Allowed/parent-call", al.Pos(), "expected one parent.Allowed call, found %d", len(pcs))
		}
	}
	// R7 limiter
	if ex := w.Fn(pkgLimiter, "limiterProcessor.Execute"); ex == nil {
		r.Undec("R7", "limiter.Execute", token.NoPos, "function not found")
	} else {
		incs := CallsIn(ex, false, "QuotaResourceI).Inc")
		als := CallsIn(ex, false, "QuotaResourceI).Allowed")
		gq := CallsIn(ex, false, "ResourceManagementI).GetQuota", "ResourceManagement).GetQuota")
		if len(incs) != 1 || len(als) != 1 || len(gq) != 1 {
			r.Undec("R7", "limiter.Execute/calls", ex.Pos(), "expected one GetQuota/Inc/Allowed, found %d/%d/%d", len(gq), len(incs), len(als))
		} else {
			same := Path(incs[0].Common().Value) == Path(als[0].Common().Value) && strings.HasPrefix(Path(incs[0].Common().Value), Path(gq[0].Value())[:10])
			r.Check(domInstr(incs[0], als[0]) && same, "R7", "limiter.Execute/inc-then-allowed", posOf(incs[0]), "Inc dominates Allowed on the same quota object")
			r.Check(Path(gq[0].Common().Args[0]) == "param:p.quotaID" && strings.HasSuffix(Path(gq[0].Common().Args[1]), "GetID(param:apiStream)"), "R7", "limiter.Execute/quota-lookup", posOf(gq[0]), "GetQuota(%s, %s)", Path(gq[0].Common().Args[0]), Path(gq[0].Common().Args[1]))
			// each error is returned
			for i, c := range []ssa.CallInstruction{gq[0], incs[0], als[0]} {
				name := []string{"GetQuota", "Inc", "Allowed"}[i]
				r.Check(errReturned(ex, c), "R7", "limiter.Execute/error-returned/"+name, posOf(c), "a non-nil error of %s is returned to the caller", name)
			}
			// condition name
			below, above := w.constOf(pkgLimiter, "belowQuotaConditionName"), w.constOf(pkgLimiter, "aboveQuotaConditionName")
			okName := false
			for _, alt := range ReturnAlts(ex, 0) {
				nm := litField(alt.Val, "Name")
				if ph, ok := nm.(*ssa.Phi); ok {
					isAl := func(cs []Cond) bool {
						return condsHave(cs, true, func(v ssa.Value) bool {
							return strings.Contains(Path(v), "QuotaResourceI).Allowed(") && strings.HasSuffix(Path(v), "#0")
						})
					}
					y, n := phiEdgesWhere(ph, isAl)
					okName = len(y) == 1 && len(n) == 1 && isConstVal(y[0], below) && isConstVal(n[0], above)
				}
			}
			r.Check(okName, "R7", "limiter.Execute/condition-mapping", ex.Pos(), "ProcessorIO.Name is below_limit exactly on the isAllowed edge and above_limit otherwise")
		}
	}
	if ex := w.Fn(pkgQInc, "quotaProcessorInc.Execute"); ex != nil {
		incs := CallsIn(ex, false, "QuotaResourceI).Inc")
		ok := len(incs) == 1 && errReturned(ex, incs[0]) && condsHave(CondsOf(incs[0].Block()), true, func(v ssa.Value) bool { return Path(v) == "param:p.applyLogic" })
		r.Check(ok, "R7", "quotaProcessorInc.Execute/inc-on-applyLogic", ex.Pos(), "system-flow Inc runs on the applyLogic edge and its error is returned")
	} else {
		r.Undec("R7", "quotaProcessorInc.Execute", token.NoPos, "function not found")
	}

	// R8 group key
	if ck := w.Fn(pkgQuota, "fixedWindow.calculateContextKey"); ck == nil {
		r.Undec("R8", "calculateContextKey", token.NoPos, "function not found")
	} else {
		for _, alt := range ReturnAlts(ck, 0) {
			hdr := Derives(alt.Val, func(x ssa.Value) bool {
				return isCallTo0(x, "APIStreamI).GetHeader") && strings.HasSuffix(Path(x), "param:fw.groupByKey)")
			})
			qid := Derives(alt.Val, func(x ssa.Value) bool { return Path(x) == "param:fw.quotaID" })
			r.Check(hdr && qid, "R8", "calculateContextKey/derives-from-header-and-id", posOf(alt.Ret), "group key derives from GetHeader(fw.groupByKey)=%v and fw.quotaID=%v", hdr, qid)
		}
		// the group part is the header's value exactly when a group header is configured and
		// present, the default group otherwise
		isDefault := func(v ssa.Value) bool {
			if dg := w.constOf(pkgQuota, "DefaultGroup"); dg != nil && isConstVal(v, dg) {
				return true
			}
			return Path(v) == "*global:DefaultGroup"
		}
		var gphi *ssa.Phi
		Instrs(ck, func(in ssa.Instruction) {
			if p, ok := in.(*ssa.Phi); ok && types.Identical(p.Type().Underlying(), types.Typ[types.String]) {
				for _, e := range p.Edges {
					if ex, isE := e.(*ssa.Extract); isE && ex.Index == 0 && isCallTo0(ex.Tuple, "APIStreamI).GetHeader") {
						gphi = p
					}
				}
			}
		})
		if gphi == nil {
			r.Undec("R8", "calculateContextKey/group-value", ck.Pos(), "group value merge point not found")
		} else {
			okG := true
			var why []string
			nHdr := 0
			for i, e := range gphi.Edges {
				cs := CondsOfEdge(gphi.Block().Preds[i], gphi.Block())
				if ex, isE := e.(*ssa.Extract); isE && ex.Index == 0 && isCallTo0(ex.Tuple, "APIStreamI).GetHeader") {
					nHdr++
					found := condsHave(cs, true, func(v ssa.Value) bool { x, ok := v.(*ssa.Extract); return ok && x.Index == 1 && x.Tuple == ex.Tuple })
					op, _ := FindRel(relsOfConds(cs), pathRe(`^param:fw\.groupByKey$`), isDefault)
					if !found || op != "!=" {
						okG = false
						why = append(why, fmt.Sprintf("header value used with found=%v, groupByKey %q DefaultGroup", found, op))
					}
					continue
				}
				if pe, isP := e.(*ssa.Phi); isP && pe == gphi {
					continue
				}
				if !isDefault(e) {
					okG = false
					why = append(why, "other value "+trunc(Path(e), 40))
				}
			}
			r.Check(okG && nHdr == 1, "R8", "calculateContextKey/header-value-iff-configured-and-present", gphi.Pos(), "group = header value only when a group header is configured and found, DefaultGroup otherwise %v", why)
		}
	}
	if gq := w.Fn(pkgQuota, "fixedWindow.getQuota"); gq == nil {
		r.Undec("R8", "getQuota", token.NoPos, "function not found")
	} else {
		checkInsertIfAbsent(r, la, "R8", "getQuota/quotaGroups", gq, "fw.quotaGroups", "param:fw.getQuotaLock")
		okKey := false
		Instrs(gq, func(in ssa.Instruction) {
			if lk, ok := in.(*ssa.Lookup); ok && strings.HasSuffix(Path(lk.X), "fw.quotaGroups") {
				okKey = isCallTo0(lk.Index, "fixedWindow).calculateContextKey") && strings.HasSuffix(Path(lk.Index), "(param:fw, param:APIStream)")
			}
		})
		r.Check(okKey, "R8", "getQuota/indexed-by-context-key", gq.Pos(), "quotaGroups is indexed by calculateContextKey(APIStream)")
		// found => returns the stored object; else the fresh one that was inserted
		for _, alt := range ReturnAlts(gq, 0) {
			p := Path(alt.Val)
			ok := strings.HasSuffix(p, "]#0") && strings.Contains(p, "fw.quotaGroups[") || isCallTo0(alt.Val, "quota.newQuota")
			r.Check(ok, "R8", "getQuota/returns-group-quota", posOf(alt.Ret), "returns %s", trunc(p, 120))
		}
		// R9 newQuota args
		for _, c := range CallsIn(gq, false, "quota.newQuota") {
			a := c.Common().Args
			ok := Path(a[0]) == "param:fw.window" && Path(a[3]) == "param:fw.max" && isCallTo0(a[1], "fixedWindow).calculateContextKey") && Path(a[7]) == "param:fw.context"
			r.Check(ok, "R9", "getQuota/newQuota-args", posOf(c), "newQuota(window=%s, key=%s, max=%s, context=%s)", Path(a[0]), trunc(Path(a[1]), 60), Path(a[3]), Path(a[7]))
		}
	}
	if nq := w.Fn(pkgQuota, "newQuota"); nq != nil {
		for _, alt := range ReturnAlts(nq, 0) {
			wv, mv := litField(alt.Val, "window"), litField(alt.Val, "maxCount")
			ck := litField(alt.Val, "currentCountKey")
			ok := Path(wv) == "param:window" && Path(mv) == "param:maxCount" && ck != nil && Derives(ck, func(x ssa.Value) bool { return Path(x) == "param:key" })
			r.Check(ok, "R9", "newQuota/fields", posOf(alt.Ret), "quota{window: %s, maxCount: %s, currentCountKey derives from key}", Path(wv), Path(mv))
		}
	} else {
		r.Undec("R9", "newQuota", token.NoPos, "function not found")
	}
	for _, c := range []struct{ fn, cfg string }{{"newTransactionalFixedWindow", "FixedWindow"}, {"newCustomCounterFixedWindow", "FixedWindowCustomCounter"}} {
		f := w.Fn(pkgQuota, c.fn)
		if f == nil {
			r.Undec("R9", c.fn, token.NoPos, "function not found")
			continue
		}
		for _, alt := range ReturnAlts(f, 0) {
			mx, wn, gb := litField(alt.Val, "max"), litField(alt.Val, "window"), litField(alt.Val, "groupByKey")
			ok := mx != nil && strings.HasSuffix(Path(mx), ".Max") && strings.Contains(Path(mx), "providerCfg.Strategy."+c.cfg+".") && wn != nil && strings.Contains(Path(wn), "ParseWindow(") && strings.Contains(Path(wn), "Strategy."+c.cfg) &&
				gb != nil && strings.Contains(Path(gb), "GetGroup(") && Path(litField(alt.Val, "parent")) == "param:parent" && strings.HasSuffix(Path(litField(alt.Val, "quotaID")), "providerCfg.ID")
			r.Check(ok, "R9", c.fn+"/fields", posOf(alt.Ret), "fixedWindow{max: %s, window: %s, groupByKey: %s}", Path(mx), trunc(Path(wn), 80), trunc(Path(gb), 80))
			if c.fn == "newTransactionalFixedWindow" {
				// a transaction costs exactly one unit
				okOne := false
				var cf *ssa.Function
				switch x := peel(litField(alt.Val, "extractCountF")).(type) {
				case *ssa.MakeClosure:
					cf, _ = x.Fn.(*ssa.Function)
				case *ssa.Function:
					cf = x
				}
				if cf != nil {
					okOne = true
					for _, a0 := range ReturnAlts(cf, 0) {
						k, isK := peel(a0.Val).(*ssa.Const)
						if !isK || k.Value == nil || k.Value.ExactString() != "1" {
							okOne = false
						}
					}
					for _, a1 := range ReturnAlts(cf, 1) {
						if !isNilConst(a1.Val) {
							okOne = false
						}
					}
				}
				r.Check(okOne, "R9", c.fn+"/cost-of-a-transaction-is-one", posOf(alt.Ret), "the transactional window counts every request as 1 (extractCountF returns the constant 1 and no error)")
			}
		}
	}
	// R9 the configured interval/unit pair becomes the window length: every unit branch of
	// ParseWindow returns Interval x (length of that unit), evaluated from the expression
	if pw := w.Fn(pkgQuota, "QuotaLimit.ParseWindow"); pw == nil {
		r.Undec("R9", "ParseWindow", token.NoPos, "function not found")
	} else {
		unitNs := map[string]int64{"second": 1e9, "minute": 60e9, "hour": 3600e9, "day": 24 * 3600e9, "month": 30 * 24 * 3600e9}
		seen := map[string]bool{}
		for _, alt := range ReturnAlts(pw, 0) {
			unit := ""
			for _, c := range alt.Conds {
				if rel, ok := NormCond(c); ok && rel.Op == "==" {
					for _, side := range [][2]ssa.Value{{rel.L, rel.R}, {rel.R, rel.L}} {
						if s, isS := constString(side[1]); isS && strings.Contains(Path(side[0]), "GetIntervalType(") {
							unit = s
						}
					}
				}
			}
			nIv, factor, okShape := productOf(alt.Val, func(v ssa.Value) bool { return Path(v) == "param:ql.Interval" })
			want, known := unitNs[unit]
			seen[unit] = true
			r.Check(known && okShape && nIv == 1 && factor == want, "R9", "ParseWindow/"+unit, posOf(alt.Ret),
				"unit %q: window = Interval^%d x %d ns (want Interval x %d ns)", unit, nIv, factor, want)
		}
		for u := range unitNs {
			if !seen[u] {
				r.Undec("R9", "ParseWindow/"+u, pw.Pos(), "no return for unit %q", u)
			}
		}
	}
	// R10 hierarchy construction
	if in := w.Fn(pkgQuota, "quotaResource.init"); in == nil {
		r.Undec("R10", "quotaResource.init", token.NoPos, "function not found")
	} else {
		isParentNode := func(v ssa.Value) bool {
			return isCallTo0(v, "QuotaTrie).GetNode") && strings.HasSuffix(Path(v), ".ParentID)") && strings.Contains(Path(v), "param:q.quotaTrie")
		}
		n := 0
		for _, c := range CallsIn(in, false, "QuotaStrategy).CreateChildStrategy", "CreateChildStrategy") {
			n++
			a := c.Common().Args
			r.Check(isParentNode(a[len(a)-1]), "R10", "init/child-created-under-declared-parent", posOf(c), "CreateChildStrategy(_, %s) (want the node found by internalLimit.ParentID)", trunc(Path(a[len(a)-1]), 100))
		}
		for _, c := range CallsIn(in, false, "QuotaNode).AddNode") {
			n++
			r.Check(isParentNode(c.Common().Args[0]), "R10", "init/node-added-under-declared-parent", posOf(c), "AddNode on %s", trunc(Path(c.Common().Args[0]), 100))
		}
		if n < 2 {
			r.Undec("R10", "init/sites", in.Pos(), "expected CreateChildStrategy and AddNode sites, found %d", n)
		}
	}
}

func trunc(s string, n int) string {
	if len(s) > n {
		for n > 0 && !utf8.RuneStart(s[n]) {
			n--
		}
		return s[:n] + "…"
	}
	return s
}

// errReturned: the error result of call c (last tuple element or the sole
// result) is, when non-nil, returned as the function's last result on the
// edge taken.
func errReturned(fn *ssa.Function, c ssa.CallInstruction) bool {
	v := c.Value()
	if v == nil {
		return false
	}
	isErrOf := func(x ssa.Value) bool {
		x = peel(x)
		if x == ssa.Value(v) {
			return true
		}
		if ex, ok := x.(*ssa.Extract); ok && ex.Tuple == ssa.Value(v) {
			if tup, ok := v.Type().(*types.Tuple); ok && ex.Index == tup.Len()-1 {
				return true
			}
		}
		return false
	}
	nres := fn.Signature.Results().Len()
	for _, alt := range ReturnAlts(fn, nres-1) {
		if isErrOf(alt.Val) {
			return true
		}
		// wrapped: fmt.Errorf("...%w", err) / errors.Join(.., err) on the err != nil edge
		if isNilConst(alt.Val) {
			continue
		}
		onErrEdge := false
		for _, rel := range relsOfConds(alt.Conds) {
			if isErrOf(rel.L) && isNilConst(rel.R) && rel.Op == "!=" {
				onErrEdge = true
			}
		}
		if onErrEdge && Derives(alt.Val, isErrOf) {
			return true
		}
	}
	return false
}

// productOf evaluates v as a product of integer constants and leaves
// satisfying isVar: returns the number of variable leaves, the constant factor,
// and whether v has that shape.
func productOf(v ssa.Value, isVar VP) (int, int64, bool) {
	v = peel(unhelp(peel(v)))
	if isVar(v) {
		return 1, 1, true
	}
	if c, ok := v.(*ssa.Const); ok && c.Value != nil {
		if n, exact := constant.Int64Val(constant.ToInt(c.Value)); exact {
			return 0, n, true
		}
		return 0, 0, false
	}
	if b, ok := v.(*ssa.BinOp); ok && b.Op == token.MUL {
		n1, f1, ok1 := productOf(b.X, isVar)
		n2, f2, ok2 := productOf(b.Y, isVar)
		return n1 + n2, f1 * f2, ok1 && ok2
	}
	return 0, 0, false
}

// c01ChildAllocationUsesACopy: a child's percentage allocation is computed on
// a deep copy of the parent's strategy configuration; the child never holds
// (and then rewrites the maximum of) the parent's own configuration object.
func c01ChildAllocationUsesACopy(w *World, r *Report) {
	f := w.Fn(pkgQuota, "AssignQuotaLimitForPercentageAllocation")
	if f == nil {
		r.Undec("R10", "AssignQuotaLimitForPercentageAllocation", token.NoPos, "function not found")
		return
	}
	copies := CallsIn(f, false, "configuration.YAMLBasedDeepCopy")
	n := 0
	ok := len(copies) == 1 && len(f.Params) == 2
	var why []string
	Instrs(f, func(in ssa.Instruction) {
		st, isSt := in.(*ssa.Store)
		if !isSt {
			return
		}
		fa, isFA := st.Addr.(*ssa.FieldAddr)
		if !isFA || fa.X != ssa.Value(f.Params[0]) {
			return
		}
		fld := fieldName(fa.X.Type(), fa.Field)
		if fld != "FixedWindow" && fld != "FixedWindowCustomCounter" {
			return
		}
		n++
		fromCopy := len(copies) == 1 && Derives(st.Val, func(x ssa.Value) bool { return x == copies[0].Value() })
		fromParent := Derives(st.Val, func(x ssa.Value) bool { return x == ssa.Value(f.Params[1]) }) && !fromCopy
		sameField := strings.HasSuffix(Path(st.Val), "."+fld)
		if !fromCopy || fromParent || !sameField {
			ok = false
			why = append(why, fld+" <- "+trunc(Path(st.Val), 60))
		}
	})
	r.Check(ok && n == 2, "R10", "AssignQuotaLimitForPercentageAllocation/child-gets-a-copy", f.Pos(), "the child's window configuration is taken from the deep copy of the parent's (same strategy field), so scaling the child's maximum leaves the parent's limit untouched %v", why)
}
