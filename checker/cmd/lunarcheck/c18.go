package main

import (
	"fmt"
	"go/token"
	"go/types"
	"sort"
	"strings"

	"golang.org/x/tools/go/ssa"
)

func init() {
	register(&Property{
		ID:   "C18",
		Mods: []string{modEngine},
		Explanation: "Decides lock discipline and confinement on everything reachable from the concurrent entry points (the static, Eraser/RacerD-style half of 'free of unsynchronised access'); serialisability of verdicts is not decided. " +
			"(R1) guarded-by over the whole frozen table: every access of a guarded field is under its mutex (must-lockset with caller-held fixpoint), guarded maps/slices do not escape their critical section, insert-if-absent is one critical section; " +
			"(R2) unguarded shared write: in functions reachable from the SPOE handler, admin handlers, background goroutines and metric callbacks, every store to a field of a shared engine struct (scope: streams, streams/flow, streams/lunar-context, streams/stream, routing, toolkit-core/vacuum) is under a mutex of the same object, atomic, on a not-yet-shared object, or a listed confined/initialisation write; " +
			"(R3) the acquired-while-holding relation over struct-level locks is acyclic; (R4) the live engine pointer read by the transaction path is written only by the reviewed publication site; (R5) vacuum rules shared with C11. " +
			"NOT decided: serialisability, atomicity across critical sections, races on values reached only through interfaces outside the scoped packages.",
		RuleText: "obligation = (rule, struct.field, function) over the lunar-restricted call graph of the current tree: must-lockset at every guarded access, reachability from concurrent entry points computed from the code (SPOE handler, mux routes, go statements, metric callbacks), store inventory, lock-order graph",
		Run:      runC18,
	})
}

// the full S1 table
func s1Table() []GuardRow {
	atomicOnly := func(id string) bool {
		for _, m := range []string{"AtomicWindowReset", "AtomicIncr", "AtomicDecr", "AtomicSAddWithMaxValuesAllowed", "SCard", "SMembers", "SRem", "AtomicWindowResetIn", "AtomicIncWindow", "atomicGetWindow", "setInt64"} {
			if idMatches(id, "memoryState)."+m) {
				return true
			}
		}
		return false
	}
	return []GuardRow{
		{Pkg: pkgLctx, Struct: "memoryState", Fields: []string{"contextMemory"}, Mutex: "mutex", MinSites: 12, Only: atomicOnly},
		{Pkg: pkgLctx, Struct: "memoryState", Fields: []string{"clock"}, Mutex: "mutex", MinSites: 4},
		{Pkg: "lunar/engine/metrics", Struct: "LabeledEndpointManager", Fields: []string{"supportedLabelPatterns"}, Mutex: "mu", MinSites: 2},
		{Pkg: pkgQuota, Struct: "quota", Fields: []string{"allowedByReqID", "windowStart"}, Mutex: "mutex", MinSites: 9},
		{Pkg: pkgQuota, Struct: "fixedWindow", Fields: []string{"quotaGroups"}, Mutex: "getQuotaLock", MinSites: 5},
		{Pkg: pkgQuota, Struct: "concurrentStrategy", Fields: []string{"allowedReq"}, Mutex: "mutex", MinSites: 6},
		{Pkg: pkgQProc, Struct: "Request", Fields: []string{"state", "result"}, Mutex: "inProcessMutex", MinSites: 6,
			Except: map[string]string{"Request).Wait": "result is read after waitGroup.Wait(); the writer stores it under the mutex before waitGroup.Done()"}},
		{Pkg: pkgQProc, Struct: "RequestWatcher", Fields: []string{"requests"}, Mutex: "requestsMapMutex", MinSites: 4},
		{Pkg: pkgQProc, Struct: "RequestWatcher", Fields: []string{"requestsExpireAt"}, Mutex: "expireMapMutex", MinSites: 4},
		{Pkg: pkgLctx, Struct: "memoryQueue", Fields: []string{"queue"}, Mutex: "mutex", MinSites: 5},
		{Pkg: pkgLimit, Struct: "singleRateLimitState", Fields: []string{"counter", "spillover", "windowData", "windowEndTime"}, Mutex: "mutex", MinSites: 15},
		{Pkg: pkgLimit, Struct: "RateLimitState", Fields: []string{"groupsStateByLimiter"}, Mutex: "mutex", MinSites: 4},
		{Pkg: pkgQueue, Struct: "DelayedPriorityQueue", Fields: []string{"queue", "currentWindowCounter", "currentWindowEndTime", "requestCounts"}, Mutex: "mutex", MinSites: 18},
		{Pkg: pkgConfig, Struct: "TxnPoliciesAccessor", Fields: []string{"currentVersion", "policiesVersions", "txnVersions"}, Mutex: "mutex", MinSites: 14,
			Except: map[string]string{"TxnPoliciesAccessor).GetCurrentPoliciesData": "unlocked reads only feed the error log on the not-found path; the lookup itself is locked (C11.R1)"}},
		{Pkg: pkgVacuum, Struct: "MapVacuum", Fields: []string{"entries"}, Mutex: "entriesMutex", MinSites: 5},
		{Pkg: pkgVacuum, Struct: "MapVacuum", Fields: []string{"mapToVacuum"}, Mutex: "mapMutex", MinSites: 1},
		{Pkg: pkgUtils, Struct: "MemoryCache", Fields: []string{"cache", "currentCacheSize", "calculateCacheSize", "calculateSizeFunc", "maxCacheSize"}, Mutex: "mutex", MinSites: 20},
		{Pkg: pkgLctx, Struct: "ExpireWatcher", Fields: []string{"keysToRemove", "started"}, Mutex: "mu", MinSites: 5},
		{Pkg: pkgStreams, Struct: "flowMetricsData", Fields: []string{"flowInvocationsCounter", "avgFlowExecutionTime"}, Mutex: "mu", MinSites: 5, NoEscape: true},
		{Pkg: pkgStreams, Struct: "processorMetricsData", Fields: []string{"avgProcessorExecutionTime"}, Mutex: "mu", MinSites: 2},
		{Pkg: pkgRemedies, Struct: "StrategyBasedThrottlingPlugin", Fields: []string{"definedQuotas"}, Mutex: "mutex", MinSites: 2},
		{Pkg: pkgRemedies, Struct: "StrategyBasedQueuePlugin", Fields: []string{"queues"}, Mutex: "queuesMutex", MinSites: 3},
	}
}

func runC18(w *World, r *Report) {
	// the waiter is watched before its id can be popped (C06.R3)
	r.Borrow(w, runC06, map[string]string{"R3": "R6"})
	la := NewLockAn(w)
	checkGB(w, r, la, "R1", s1Table())
	hrLockOwnersUsePointerReceivers(w, r, "R1", "lunar/")
	hrAllLocksReleased(w, r, la, "R1", "lunar/")
	hrDeepCopyAlwaysCopies(w, r, "R2")
	hrExpireRearmed(w, r, "R2")
	hrLimiterSharesItsVacuumsLock(w, r, "R1")
	// the vacuums of the policies accessor are built with the retention period and the tick in their places (C11.R4)
	r.Borrow(w, runC11, map[string]string{"R4": "R1"})
	hrCfgIdentifiers(w, r, "R6")
	hrGlobalRegistryUnderItsLock(w, r, la, "R1")
	hrQueuedRequestIdentity(w, r, "R6")
	// the response cache's size re-check reads the live fields under the lock (C12.R5)
	r.Borrow(w, runC12, map[string]string{"R5": "R1"})
	hrVacuumStartOnce(w, r, la, "R1")
	hrVersionBumpReturnsPrevious(w, r, "R1")
	for _, p := range []struct{ pkg, fn, mp, lock string }{
		{pkgQuota, "fixedWindow.getQuota", "fw.quotaGroups", "param:fw.getQuotaLock"},
		{pkgLimit, "RateLimitState.getLimiterState", "state.groupsStateByLimiter", "param:state.mutex"},
		{pkgRemedies, "StrategyBasedQueuePlugin.OnRequest", "plugin.queues", "param:plugin.queuesMutex"},
	} {
		if f := w.Fn(p.pkg, p.fn); f != nil {
			checkInsertIfAbsent(r, la, "R1", p.fn, f, p.mp, p.lock)
		} else {
			r.Undec("R1", p.fn, token.NoPos, "function not found")
		}
	}

	// entry points, computed from the code
	cg := w.CallGraph()
	var entries []*ssa.Function
	var entryKind []string
	kinds := map[string]int{}
	addEntry := func(f *ssa.Function, kind string) {
		if f != nil && isLunar(f) {
			entries = append(entries, f)
			entryKind = append(entryKind, kind)
			kinds[kind]++
		}
	}
	for _, f := range w.lunarFns {
		if f.Origin() != nil || strings.Contains(fnPkgPath(f), "test-") {
			continue
		}
		Instrs(f, func(in ssa.Instruction) {
			switch x := in.(type) {
			case *ssa.Go:
				if callee := x.Call.StaticCallee(); callee != nil {
					addEntry(callee, "go")
				} else if mc, ok := x.Call.Value.(*ssa.MakeClosure); ok {
					addEntry(mc.Fn.(*ssa.Function), "go")
				}
			case *ssa.Call:
				id := calleeID(x)
				switch {
				case idMatches(id, "http.ServeMux).HandleFunc"), idMatches(id, "net/http.HandleFunc"):
					// the handler argument: a closure returned by a handleX() factory or a function value
					a := x.Call.Args[len(x.Call.Args)-1]
					Derives(a, func(v ssa.Value) bool {
						switch y := v.(type) {
						case *ssa.MakeClosure:
							addEntry(y.Fn.(*ssa.Function), "admin-route")
						case *ssa.Function:
							addEntry(y, "admin-route")
						case *ssa.Call:
							if c := y.Call.StaticCallee(); c != nil {
								for _, an := range c.AnonFuncs {
									addEntry(an, "admin-route")
								}
							}
						}
						return false
					})
				case strings.HasSuffix(id, "WithInt64Callback"), strings.HasSuffix(id, "WithFloat64Callback"), strings.HasSuffix(id, ").RegisterCallback"):
					for _, a := range x.Call.Args {
						Derives(a, func(v ssa.Value) bool {
							switch y := v.(type) {
							case *ssa.MakeClosure:
								addEntry(y.Fn.(*ssa.Function), "metric-callback")
								// bound method closures wrap the real method
								for _, b := range y.Bindings {
									_ = b
								}
							case *ssa.Function:
								addEntry(y, "metric-callback")
							}
							return false
						})
					}
				}
			}
		})
	}
	for _, n := range []string{"processRequest", "processResponse"} {
		addEntry(w.Fn(pkgRouting, n), "spoe-handler")
	}
	r.Check(kinds["spoe-handler"] == 2 && kinds["go"] >= 25 && kinds["admin-route"] >= 8 && kinds["metric-callback"] >= 5, "R2", "entry-points", token.NoPos,
		"concurrent entry points found in the code: SPOE handler directions=%d, go statements=%d, admin routes=%d, metric callbacks=%d (minimum 2/25/8/5)", kinds["spoe-handler"], kinds["go"], kinds["admin-route"], kinds["metric-callback"])
	reach := cg.Reach(entries, true)
	txnReach := cg.Reach([]*ssa.Function{w.Fn(pkgRouting, "processRequest"), w.Fn(pkgRouting, "processResponse")}, true)
	r.Extra["concurrency"] = map[string]any{"entry_points": kinds, "reachable_functions": len(reach), "reachable_from_transactions": len(txnReach)}

	// R2 unguarded shared writes
	scope := map[string]bool{pkgStreams: true, pkgFlow: true, pkgLctx: true, pkgStream: true, pkgRouting: true, pkgVacuum: true}
	guarded := map[string]bool{}
	s1Types := map[string]bool{}
	for _, row := range s1Table() {
		for _, f := range row.Fields {
			guarded[row.Struct+"."+f] = true
		}
		s1Types[row.Pkg+"."+row.Struct] = true
	}
	// verdict scope: re-entrant entry points only (transactions, background goroutines, metric
	// callbacks). Admin routes are serialised by handlingLock and build not-yet-published objects;
	// their stores are counted as informational.
	var reentrant []*ssa.Function
	reentrant = append(reentrant, w.Fn(pkgRouting, "processRequest"), w.Fn(pkgRouting, "processResponse"))
	adminOnly := cg.Reach(entriesOfKind(entries, entryKind, "admin-route"), true)
	for i, e := range entries {
		if entryKind[i] != "admin-route" {
			reentrant = append(reentrant, e)
		}
	}
	reReach := cg.Reach(reentrant, true)
	_ = adminOnly
	// reviewed writes: struct.field -> reason (confinement / initialisation / per-request)
	reviewed := map[string]string{
		"queueProcessor.inDrainMode":                "written once by the processing goroutine itself in drainQueue; readers run on that same goroutine (checkIfAllowed/prepareQuota are called from the processing loop)",
		"memoryState.clock":                         "WithClock is called while the quota object is constructed, before it is shared",
		"StreamsData.stream":                        "publication site of the engine (C08.R4 / C18.R4)",
		"MapVacuum.active":                          "set once to true under entriesMutex before the goroutine that reads it is started (C11.R1)",
		"Stream.supportedFilters":                   "written during Stream.Initialize on the not-yet-published engine",
		"Stream.loadedConfig":                       "written during Stream.Initialize on the not-yet-published engine",
		"Stream.lunarHub":                           "WithHub is called on the not-yet-published engine",
		"Stream.validationMode":                     "builder option on the not-yet-published engine",
		"Stream.validationPath":                     "builder option on the not-yet-published engine",
		"Stream.strictMode":                         "builder option on the not-yet-published engine",
		"HandlingDataManager.flowValidator":         "admin path, serialised by handlingLock / startup",
		"HandlingDataManager.metricManager":         "startup only",
		"HandlingDataManager.isStreamsEnabled":      "startup only",
		"HandlingDataManager.shutdown":              "startup only",
		"HandlingDataManager.areMetricsInitialized": "startup only",
		"HandlingDataManager.doctor":                "startup only",
		"HandlingDataManager.diagnosisWatcher":      "startup only",
		"HandlingDataManager.legacyMetricManager":   "startup only",
		"HandlingDataManager.policiesServices":      "startup only",
		"HandlingDataManager.diagnosisWorker":       "startup only",
		"HandlingDataManager.configBuildResult":     "startup only",
		"HandlingDataManager.lunarHub":              "startup only",
	}
	type finding struct {
		key, detail string
		pos         token.Pos
	}
	var bad []finding
	nStores := 0
	var fns []*ssa.Function
	for f := range reReach {
		fns = append(fns, f)
	}
	sortFns(fns)
	for _, f := range fns {
		Instrs(f, func(in ssa.Instruction) {
			st, ok := in.(*ssa.Store)
			if !ok {
				return
			}
			fa, ok := st.Addr.(*ssa.FieldAddr)
			if !ok || isFreshBase(fa.X) {
				return
			}
			pk, sn := namedOf(fa.X.Type())
			if sn == "" || !(scope[pk] || s1Types[pk+"."+sn]) {
				return
			}
			fld := fieldName(fa.X.Type(), fa.Field)
			sf := sn + "." + fld
			if guarded[sf] {
				return // R1 owns it
			}
			// field of a struct literal local / result spill
			if strings.HasPrefix(Path(fa.X), "local:") || strings.HasPrefix(Path(fa.X), "&local:") || strings.HasPrefix(Path(fa.X), "alloc:") {
				return
			}
			nStores++
			// a mutex of the same object held?
			base := strings.TrimPrefix(Path(fa.X), "&")
			held := false
			for k := range la.HeldAt(st) {
				if strings.HasPrefix(k, base+".") {
					held = true
				}
			}
			if held {
				return
			}
			if why, ok := reviewed[sf]; ok {
				_ = why
				return
			}
			// types with no lock at all that are only ever built and then read: builder/constructor methods
			fn := fnID(outermost(f))
			bad = append(bad, finding{sf + "/" + shortFn(fn), fmt.Sprintf("store to %s in %s without a lock of the same object (held %s); reachable from a concurrent entry point", sf, fn, la.HeldAt(st)), posOf(st)})
		})
	}
	sort.Slice(bad, func(i, j int) bool { return bad[i].key < bad[j].key })
	seenKey := map[string]bool{}
	for _, b := range bad {
		if seenKey[b.key] {
			continue
		}
		seenKey[b.key] = true
		r.Fail("R2", "unguarded-shared-write/"+b.key, b.pos, "%s", b.detail)
	}
	r.Hold("R2", "store-inventory", token.NoPos, nStores, "%d stores to fields of shared engine structs examined in %d functions reachable from concurrent entry points; %d reported", nStores, len(fns), len(seenKey))
	for sf, why := range reviewed {
		parts := strings.SplitN(sf, ".", 2)
		found := false
		for _, p := range w.Pkgs {
			if o := p.Types.Scope().Lookup(parts[0]); o != nil {
				if st, ok := o.Type().Underlying().(*types.Struct); ok {
					for i := 0; i < st.NumFields(); i++ {
						if st.Field(i).Name() == parts[1] {
							found = true
						}
					}
				}
			}
		}
		if found {
			r.Hold("R2", "reviewed-write/"+sf, token.NoPos, 1, "table entry: %s", why)
		}
	}

	// R3 lock order
	c18LockOrder(w, r, la, cg)

	// R4 publication of the engine pointer
	nRead := 0
	for _, a := range w.fieldAccesses(pkgRouting, "StreamsData", []string{"stream"}) {
		if a.Write {
			continue
		}
		if txnReach[origin(outermost(a.Fn))] {
			nRead++
		}
	}
	if nRead > 0 {
		// the transaction path reads the pointer without synchronisation: writer must be the single reviewed site
		writers := 0
		syncd := false
		for _, a := range w.fieldAccesses(pkgRouting, "StreamsData", []string{"stream"}) {
			if a.Write {
				writers++
				if len(la.HeldAt(a.In)) > 0 {
					syncd = true
				}
			}
		}
		if syncd {
			r.Hold("R4", "engine-pointer/synchronised-publication", token.NoPos, nRead, "the engine pointer is published under a lock")
		} else {
			r.Fail("R4", "engine-pointer/plain-store-vs-transaction-reads", token.NoPos, "rd.stream is replaced by a plain store in initializeStreams (%d writer) while %d read sites on the transaction path load it without synchronisation: a data race on the pointer during every reload (the object behind it is fully initialised before the store, C08.R4)", writers, nRead)
		}
	}
	// R5 shared vacuum rules
	r.Borrow(w, runC11, map[string]string{"R5": "R5"})

	// single-owner claim of a queued request and read-only flow selection: two places where one
	// transaction's handling could otherwise complete or rewrite another's state
	r.Borrow(w, runC06, map[string]string{"R1": "R6"})
	r.Borrow(w, runC03, map[string]string{"R9": "R6"})
	// per-transaction state of the message handler is not shared between frames (C07.R5)
	r.Borrow(w, c07FrameLocalActions, map[string]string{"R5": "R6"})
	// the engine pointer is published only after Initialize() succeeded (C08.R4): transactions
	// never see a half-built engine, and keep the old one when the build fails
	r.Borrow(w, c08Publish, map[string]string{"R4": "R6"})
	// every flow gets its own LunarContext (flow and transactional context); only the global
	// context is created once and shared
	if ncm := w.Fn("lunar/engine/streams/lunar-context", "NewContextManager"); ncm == nil {
		r.Undec("R6", "NewContextManager", token.NoPos, "function not found")
	} else {
		ok, n := true, 0
		for _, alt := range ReturnAlts(ncm, 0) {
			n++
			ac := litField(alt.Val, "adminContext")
			c, isC := peel(unhelp(ac)).(*ssa.Call)
			if ac == nil || !isC || !isCallTo(c, "lunar-context.NewLunarContext") || outermost(c.Parent()) != ncm || c.Parent() != ncm && helperFor(c.Parent()) == nil {
				ok = false
			}
		}
		r.Check(ok && n > 0, "R6", "NewContextManager/own-lunar-context-per-manager", ncm.Pos(), "adminContext of every new ContextManager is a NewLunarContext(..) made by that call (not cached, not created inside the sync.Once)")
	}
	r.Min("R1", 60)
	r.Min("R2", 10)
	r.Min("R3", 2)
	r.Min("R4", 1)
	r.Min("R5", 5)
}

// typeLock names a lock by the struct that owns it.
func typeLock(addr ssa.Value) string {
	v := addr
	if u, ok := v.(*ssa.UnOp); ok && u.Op == token.MUL { // pointer-typed mutex field
		v = u.X
	}
	if fa, ok := v.(*ssa.FieldAddr); ok {
		return structOf(fa.X.Type()) + "." + fieldName(fa.X.Type(), fa.Field)
	}
	return ""
}

func c18LockOrder(w *World, r *Report, la *LockAn, cg *CG) {
	// locks acquired directly per function
	direct := map[*ssa.Function]map[string]bool{}
	heldAtCall := map[*ssa.Function][]struct {
		held   []string
		callee *ssa.Function
		pos    token.Pos
	}{}
	edges := map[string]map[string]token.Pos{}
	addEdge := func(a, b string, pos token.Pos) {
		if a == "" || b == "" || a == b {
			return
		}
		if edges[a] == nil {
			edges[a] = map[string]token.Pos{}
		}
		if _, ok := edges[a][b]; !ok {
			edges[a][b] = pos
		}
	}
	// map lockset path keys to type-level names per function
	for _, f := range w.lunarFns {
		if f.Origin() != nil {
			continue
		}
		pathToType := map[string]string{}
		Instrs(f, func(in ssa.Instruction) {
			if op, addr := lockOp(in); op != "" {
				pathToType[lockKey(addr)] = typeLock(addr)
			}
		})
		Instrs(f, func(in ssa.Instruction) {
			if _, isDefer := in.(*ssa.Defer); isDefer {
				return
			}
			if op, addr := lockOp(in); op == "Lock" || op == "RLock" {
				tl := typeLock(addr)
				if tl == "" {
					return
				}
				if direct[f] == nil {
					direct[f] = map[string]bool{}
				}
				direct[f][tl] = true
				for k := range la.HeldAt(in) {
					addEdge(pathToType[k], tl, posOf(in))
				}
				return
			}
			if c, ok := in.(ssa.CallInstruction); ok {
				held := []string{}
				for k := range la.HeldAt(in) {
					if t := pathToType[k]; t != "" {
						held = append(held, t)
					} else if i := strings.LastIndex(k, "."); i >= 0 {
						// caller-held lock not locked in this function: name by suffix field with unknown struct
						held = append(held, "?"+k[i:])
					}
				}
				if len(held) == 0 {
					return
				}
				var callees []*ssa.Function
				if sc := c.Common().StaticCallee(); sc != nil {
					callees = append(callees, origin(sc))
				} else {
					for cal := range cg.Dynamic[origin(f)] {
						_ = cal
					}
				}
				for _, cal := range callees {
					heldAtCall[f] = append(heldAtCall[f], struct {
						held   []string
						callee *ssa.Function
						pos    token.Pos
					}{held, cal, posOf(in)})
				}
			}
		})
	}
	// transitive acquires over static edges
	acq := map[*ssa.Function]map[string]bool{}
	var visit func(f *ssa.Function, seen map[*ssa.Function]bool) map[string]bool
	visit = func(f *ssa.Function, seen map[*ssa.Function]bool) map[string]bool {
		if a, ok := acq[f]; ok {
			return a
		}
		if seen[f] {
			return direct[f]
		}
		seen[f] = true
		out := map[string]bool{}
		for k := range direct[f] {
			out[k] = true
		}
		for c := range cg.Static[f] {
			for k := range visit(c, seen) {
				out[k] = true
			}
		}
		acq[f] = out
		return out
	}
	for f, calls := range heldAtCall {
		_ = f
		for _, c := range calls {
			for k := range visit(c.callee, map[*ssa.Function]bool{}) {
				for _, h := range c.held {
					if !strings.HasPrefix(h, "?") {
						addEdge(h, k, c.pos)
					}
				}
			}
		}
	}
	// cycle detection
	var order []string
	for a := range edges {
		order = append(order, a)
	}
	sort.Strings(order)
	color := map[string]int{}
	var cyc []string
	var dfs func(a string, path []string)
	dfs = func(a string, path []string) {
		color[a] = 1
		var bs []string
		for b := range edges[a] {
			bs = append(bs, b)
		}
		sort.Strings(bs)
		for _, b := range bs {
			if color[b] == 1 && cyc == nil {
				cyc = append(append([]string{}, path...), a, b)
			}
			if color[b] == 0 {
				dfs(b, append(path, a))
			}
		}
		color[a] = 2
	}
	for _, a := range order {
		if color[a] == 0 {
			dfs(a, nil)
		}
	}
	nE := 0
	var lines []string
	for _, a := range order {
		var bs []string
		for b := range edges[a] {
			bs = append(bs, b)
			nE++
		}
		sort.Strings(bs)
		lines = append(lines, a+" -> "+strings.Join(bs, ", "))
	}
	r.Extra["lock_order_edges"] = lines
	r.Check(cyc == nil, "R3", "lock-order/acyclic", token.NoPos, "acquired-while-holding relation over %d struct-level lock pairs is acyclic (cycle: %v)", nE, cyc)
	r.Check(nE >= 1, "R3", "lock-order/edges-found", token.NoPos, "%d nested acquisitions analysed: %v", nE, lines)
}

func entriesOfKind(es []*ssa.Function, kinds []string, k string) []*ssa.Function {
	var out []*ssa.Function
	for i, e := range es {
		if kinds[i] == k {
			out = append(out, e)
		}
	}
	return out
}
