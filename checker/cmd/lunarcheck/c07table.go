package main

import (
	"fmt"
	"go/constant"
	"go/token"
	"sort"
	"strings"

	"golang.org/x/tools/go/ssa"
)

// c07TableSSA evaluates one row of the prioritisation matrix (one
// XPrioritize method) on the SSA form: for every way the method returns, which
// run-result constant of `other` selects it (from the conditions of the return,
// so a switch, an if-ladder and early returns read the same) and what is
// returned - `other`, the receiver, or a new action whose HeadersToSet is
// MergeHeaders(receiver's, other's). Same obligations and keys as the first,
// syntax-based version, which read the cells from the `switch` statement and
// reported every restructuring of a method.
func c07TableSSA(w *World, r *Report, fn *ssa.Function, recv string, isReq bool, consts map[string]constant.Value, resultType func(dir, c string) string) {
	dir, noop, obtained := "Resp", "RespNoOp", ""
	if isReq {
		dir, noop, obtained = "Req", "ReqNoOp", "ReqObtainedResponse"
	}
	key := recv + "." + dir + "Prioritize"
	pos := fn.Pos()
	if len(fn.Params) != 2 {
		r.Undec("R1", key, pos, "expected receiver and one parameter")
		return
	}
	recvP, otherP := fn.Params[0], fn.Params[1]
	isRunResult := func(v ssa.Value) bool {
		c, ok := peel(v).(*ssa.Call)
		return ok && c.Call.IsInvoke() && c.Call.Method.Name() == dir+"RunResult" && unhelp(c.Call.Value) == ssa.Value(otherP)
	}
	constName := func(v ssa.Value) string {
		k, ok := peel(v).(*ssa.Const)
		if !ok || k.Value == nil {
			return ""
		}
		for n, cv := range consts {
			if constant.Compare(k.Value, token.EQL, cv) {
				return n
			}
		}
		return ""
	}
	type cell struct {
		k    string // constant name, or "" for the fall-through
		what string // other | receiver | nil | new:<Type> | ?
		alt  RetAlt
	}
	var cells []cell
	usesResult := false
	for _, alt := range ReturnAlts(fn, 0) {
		c := cell{alt: alt}
		for _, rel := range relsOfConds(expandConds(alt.Conds)) {
			for _, side := range [][2]ssa.Value{{rel.L, rel.R}, {rel.R, rel.L}} {
				if isRunResult(side[0]) {
					usesResult = true
					if n := constName(side[1]); n != "" && rel.Op == "==" {
						c.k = n
					}
				}
			}
		}
		pv := unhelp(peel(alt.Val))
		switch x := pv.(type) {
		case *ssa.Parameter:
			if x == otherP {
				c.what = "other"
			} else if x == recvP {
				c.what = "receiver"
			}
		case *ssa.Alloc:
			c.what = "new:" + structOf(x.Type())
		case *ssa.Const:
			if x.Value == nil {
				c.what = "nil"
			}
		}
		if c.what == "" {
			c.what = "?"
		}
		cells = append(cells, c)
	}
	if !usesResult {
		// no table row: the method returns a single fixed operand
		what := ""
		ok := len(cells) >= 1
		for _, c := range cells {
			if what == "" {
				what = c.what
			} else if what != c.what {
				ok = false
			}
		}
		want := map[string]string{"NoOpAction": "other", "EarlyResponseAction": "receiver"}[recv]
		r.Check(ok && what == want && want != "", "R2", key+"/constant-row", pos, "%s.%sPrioritize returns %q on all paths (want %q: no-op is the identity, an early response absorbs everything)", recv, dir, what, want)
		return
	}
	byK := map[string][]cell{}
	for _, c := range cells {
		byK[c.k] = append(byK[c.k], c)
	}
	// a fall-through that returns something (a `default:`) covers the constants without a case
	var deflt *cell
	for i, c := range byK[""] {
		if c.what != "nil" {
			deflt = &byK[""][i]
		}
	}
	covered := 0
	var names []string
	for n := range consts {
		names = append(names, n)
	}
	sort.Strings(names)
	for _, n := range names {
		if len(byK[n]) > 0 {
			covered++
			continue
		}
		if deflt != nil {
			byK[n] = []cell{*deflt}
		} else {
			r.Fail("R1", key+"/missing-case/"+n, pos, "no case for %s and no default: the fold would return a nil action", n)
		}
	}
	r.Check(covered == len(consts) || deflt != nil, "R1", key+"/exhaustive", pos, "the method decides %d of %d run-result constants (default=%v)", covered, len(consts), deflt != nil)
	okKinds := true
	for _, n := range names {
		cs := byK[n]
		if len(cs) == 0 {
			continue
		}
		ckey := key + "/" + n
		c := cs[0]
		same := true
		for _, o := range cs[1:] {
			if o.what != c.what {
				same = false
			}
		}
		if !same || c.what == "?" {
			okKinds = false
		}
		if c.what == "nil" {
			r.Fail("R1", ckey+"/assigns-result", posOf(c.alt.Ret), "case %s does not produce a result: a nil action would be returned", n)
			continue
		}
		switch n {
		case obtained:
			r.Check(same && c.what == "other", "R2", ckey, posOf(c.alt.Ret), "an obtained response wins: the cell returns the other action unchanged")
		case noop:
			r.Check(same && c.what == "receiver", "R2", ckey, posOf(c.alt.Ret), "a no-op never displaces: the cell returns the receiver")
		default:
			ot := resultType(dir, n)
			sameKind := ot == recv
			if !isReq && !sameKind {
				r.Check(same && c.what == "other", "R3", ckey, posOf(c.alt.Ret), "different kinds on the response side: the later action replaces the earlier one")
				continue
			}
			// merge cell: the result's HeadersToSet is MergeHeaders(receiver.HeadersToSet, other.(*ot).HeadersToSet)
			var merged ssa.Value
			switch {
			case strings.HasPrefix(c.what, "new:"):
				merged = litField(unhelp(peel(c.alt.Val)), "HeadersToSet")
			case c.what == "receiver":
				for _, st := range fieldStores(fn, "HeadersToSet") {
					if fa, ok := st.Addr.(*ssa.FieldAddr); ok && unhelp(fa.X) == ssa.Value(recvP) && (st.Block() == c.alt.Block || domInstr(st, c.alt.Ret)) {
						merged = st.Val
					}
				}
			}
			okMerge, detail := false, ""
			if mc, isC := peel(unhelp(merged)).(*ssa.Call); merged != nil && isC && isCallTo(mc, "utils.MergeHeaders") && len(mc.Call.Args) == 2 {
				a0, a1 := mc.Call.Args[0], mc.Call.Args[1]
				detail = fmt.Sprintf("MergeHeaders(%s, %s)", Path(a0), Path(a1))
				base := func(v ssa.Value) (ssa.Value, bool) {
					u, ok := unhelp(v).(*ssa.UnOp)
					if !ok || u.Op != token.MUL {
						return nil, false
					}
					fa, ok := u.X.(*ssa.FieldAddr)
					if !ok || fieldName(fa.X.Type(), fa.Field) != "HeadersToSet" {
						return nil, false
					}
					return unhelp(fa.X), true
				}
				b0, ok0 := base(a0)
				b1, ok1 := base(a1)
				if ok0 && ok1 && b0 == ssa.Value(recvP) {
					if ta, isTA := b1.(*ssa.TypeAssert); isTA && unhelp(ta.X) == ssa.Value(otherP) && structOf(ta.AssertedType) == ot {
						okMerge = true
					}
				}
			}
			r.Check(same && okMerge, "R3", ckey, posOf(c.alt.Ret), "merge cell: the result carries %s as HeadersToSet with the receiver's edits first and other.(*%s)'s second (ok=%v)", detail, ot, okMerge)
		}
	}
	r.Check(okKinds, "R1", key+"/returns-cell-result", pos, "every way of returning hands back `other`, the receiver or a newly built action selected by the run result of `other`")
}
