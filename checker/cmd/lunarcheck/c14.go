package main

import (
	"go/constant"
	"go/token"
	"go/types"
	"os"
	"path/filepath"
	"regexp"
	"regexp/syntax"
	"sort"
	"strconv"
	"strings"

	"golang.org/x/tools/go/ssa"
)

func init() {
	register(&Property{
		ID:   "C14",
		Mods: []string{modEngine},
		Explanation: "Decides structural necessary conditions of 'what the engine would match is registered as managed', not regex == trie on all URLs: " +
			"(R1) every regular-expression metacharacter that can occur literally in a configured URL is escaped before the pattern syntax ({param}, trailing /*) is translated, and the translation inserts only package constants; " +
			"(R2) the expression is anchored with '$' exactly when there is no trailing wildcard, which becomes (/.*)?; " +
			"(R3) the registration's notion of a path parameter (the constant regexp) accepts every {..} segment the engine's URL tree treats as a parameter; " +
			"(R4) one expression per supported method of every filter group with that group's URL, manage-all for catch-all filters; one expression per enabled remedy/diagnosis endpoint and manage-all for any enabled global plugin; the default method list covers the methods the engine accepts for an unconstrained filter; " +
			"(R5) new endpoints are registered (errors returned) before old ones are scheduled for removal, and only the difference is removed; " +
			"(R8) the proxy's half of the protocol, read from the directives of haproxy.cfg: each management backend writes the state it stands for (registering lifts skip_all), the endpoints frontend routes method+path to those backends, is_managed is manage-all OR the regex map looked up under METHOD:::url, every SPOE group is sent for managed traffic unless skip_all (the full group exactly when the body is required). " +
			"NOT decided: HAProxy's own evaluation of those directives; equivalence of the registered regular expression and the trie on all URLs.",
		RuleText: "obligation = (rule, anchored construct) on SSA + constants of the current tree: sanitiser inventory on the URL's value chain, constant-regexp evaluation with regexp/syntax, loop-coverage conditions, dominance of manage before unmanage",
		Run:      runC14,
	})
}

func runC14(w *World, r *Report) {
	hrCfgManagedProtocol(w, r, "R8")
	hrWildcardConstant(w, r, "R2")
	hrManageSendsEverything(w, r, "R5")
	hrRestoreBeforeFallbackReload(w, r, "R5")
	hrParamSegmentNonEmpty(w, r, "R3")
	hrRevertUnmanageFlags(w, r, "R5")
	hrLookupDeclaredWalksEveryPart(w, r, "R3")
	// what the engine matches must be what was registered: the engine-side matchers of C03 (flows) and C13 (policies)
	r.Borrow(w, runC03, map[string]string{"R4": "R3", "R6": "R3", "R7": "R3", "R8": "R3"})
	r.Borrow(w, runC13, map[string]string{"R1": "R3", "R3": "R3"})
	hf := w.Fn(pkgConfig, "HaproxyEndpointFormat")
	if hf == nil {
		r.Undec("R1", "HaproxyEndpointFormat", token.NoPos, "function not found")
		return
	}
	// R1 sanitiser inventory: ReplaceAll(x, lit, `\`+lit) / regexp.QuoteMeta on the chain from param:url
	escaped := map[string]bool{}
	var escCalls []ssa.CallInstruction
	for _, c := range CallsIn(hf, false, "strings.ReplaceAll", "regexp.QuoteMeta") {
		if isCallTo(c, "regexp.QuoteMeta") {
			if Derives(c.Common().Args[0], func(x ssa.Value) bool { return Path(x) == "param:url" }) {
				for _, m := range strings.Split(`\ . + * ? ( ) | [ ] { } ^ $`, " ") {
					escaped[m] = true
				}
				escCalls = append(escCalls, c)
			}
			continue
		}
		a := c.Common().Args
		old, ok1 := constString(a[1])
		nw, ok2 := constString(a[2])
		if ok1 && ok2 && len(old) == 1 && nw == `\`+old && Derives(a[0], func(x ssa.Value) bool { return Path(x) == "param:url" }) {
			escaped[old] = true
			escCalls = append(escCalls, c)
		}
	}
	// strings.NewReplacer(pairs...).Replace(url) with a package-level replacer
	for _, c := range CallsIn(hf, false, "strings.Replacer).Replace") {
		if !Derives(c.Common().Args[1], func(x ssa.Value) bool { return Path(x) == "param:url" }) {
			continue
		}
		gname := strings.TrimPrefix(Path(c.Common().Args[0]), "*global:")
		if init := w.SSAPkg[pkgConfig].Func("init"); init != nil {
			Instrs(init, func(in ssa.Instruction) {
				st, ok := in.(*ssa.Store)
				if !ok || !strings.HasSuffix(Path(st.Addr), "global:"+gname) {
					return
				}
				nr, ok := peel(st.Val).(*ssa.Call)
				if !ok || !isCallTo(nr, "strings.NewReplacer") {
					return
				}
				pairs := varargsConsts(nr.Call.Args[0])
				for i := 0; i+1 < len(pairs); i += 2 {
					if len(pairs[i]) == 1 && pairs[i+1] == `\`+pairs[i] {
						escaped[pairs[i]] = true
					}
				}
				escCalls = append(escCalls, c)
			})
		}
	}
	required := strings.Split(`\ . + ? ( ) | [ ] ^ $`, " ") // * { } carry pattern meaning in configured URLs
	var missing []string
	for _, m := range required {
		if !escaped[m] {
			missing = append(missing, m)
		}
	}
	sort.Strings(missing)
	if len(missing) == 0 {
		r.Hold("R1", "HaproxyEndpointFormat/metacharacters-escaped", hf.Pos(), len(escCalls), "every regexp metacharacter that can occur literally in a URL is escaped")
	} else {
		r.Fail("R1", "HaproxyEndpointFormat/metacharacters-unescaped:"+strings.Join(missing, ""), hf.Pos(), "the configured URL is spliced into a regular expression with %v unescaped (escaped: %v): a literal such as 'a+b' or 'v1(beta)' registers an expression that does not match the literal URL the engine's tree matches", missing, keysOf(escaped))
	}
	// escaping precedes the pattern translation; translation inserts constants only
	repl := CallsIn(hf, false, "regexp.Regexp).ReplaceAllString")
	okOrder := len(repl) == 1 && len(escCalls) > 0
	for _, e := range escCalls {
		if len(repl) == 1 && !domInstr(e, repl[0]) {
			okOrder = false
		}
	}
	okConst := false
	if len(repl) == 1 {
		rp, isC := constString(repl[0].Common().Args[2])
		pc := w.constOf(pkgConfig, "RegexToReplacePathParameters")
		okConst = isC && pc != nil && rp == constant.StringVal(pc) && strings.HasSuffix(Path(repl[0].Common().Args[0]), "global:regexToFindPathParameters")
	}
	r.Check(okOrder && okConst, "R1", "HaproxyEndpointFormat/escape-before-translate", hf.Pos(), "literal escaping dominates the {param} translation, which inserts the constant RegexToReplacePathParameters")

	// R2 anchoring
	isWild := func(v ssa.Value) bool {
		c, ok := peel(v).(*ssa.Call)
		if !ok || !isCallTo(c, "strings.HasSuffix") {
			return false
		}
		s, _ := constString(c.Call.Args[1])
		return s == "/*"
	}
	okDollar, okWild := false, false
	Instrs(hf, func(in ssa.Instruction) {
		b, ok := in.(*ssa.BinOp)
		if !ok || b.Op != token.ADD {
			return
		}
		if s, isC := constString(b.Y); isC {
			switch s {
			case "$":
				okDollar = condsHaveStrict(CondsOf(b.Block()), false, isWild)
			default:
				wc := w.constOf(pkgConfig, "RegexToReplaceWildcard")
				if wc != nil && s == constant.StringVal(wc) {
					okWild = condsHaveStrict(CondsOf(b.Block()), true, isWild) && isCallTo0(b.X, "strings.TrimSuffix")
				}
			}
		}
	})
	r.Check(okDollar, "R2", "HaproxyEndpointFormat/anchored-unless-wildcard", hf.Pos(), "'$' is appended exactly when the URL has no trailing /*")
	r.Check(okWild, "R2", "HaproxyEndpointFormat/wildcard-translation", hf.Pos(), "a trailing /* is trimmed and replaced by the constant RegexToReplaceWildcard")
	for _, alt := range ReturnAlts(hf, 0) {
		ep := litField(alt.Val, "Endpoint")
		ok := ep != nil && Derives(ep, func(x ssa.Value) bool { return Path(x) == "param:method" }) && Derives(ep, func(x ssa.Value) bool { return Path(x) == "param:url" }) &&
			Derives(ep, func(x ssa.Value) bool { s, isC := constString(x); return isC && s == ":::" })
		r.Check(ok, "R2", "HaproxyEndpointFormat/method-delimiter-url", posOf(alt.Ret), "Endpoint = method + ':::' + translated URL")
	}

	// R3 recogniser agreement
	if g := w.ByPath[pkgConfig].Types.Scope().Lookup("regexToFindPathParameters"); g == nil {
		r.Undec("R3", "regexToFindPathParameters", token.NoPos, "variable not found")
	} else {
		pat := ""
		if init := w.SSAPkg[pkgConfig].Func("init"); init != nil {
			Instrs(init, func(in ssa.Instruction) {
				if st, ok := in.(*ssa.Store); ok && strings.HasSuffix(Path(st.Addr), "global:regexToFindPathParameters") {
					if c, ok := peel(st.Val).(*ssa.Call); ok && isCallTo(c, "regexp.MustCompile") {
						pat, _ = constString(c.Call.Args[0])
					}
				}
			})
		}
		narrow := "pattern not found"
		if pat != "" {
			narrow = paramClassNarrowerThanTrie(pat)
		}
		if narrow == "" {
			r.Hold("R3", "path-parameter-recognisers-agree", g.Pos(), 1, "the registration regexp %q accepts every {..} segment the URL tree treats as a parameter", pat)
		} else {
			r.Fail("R3", "path-parameter-recognisers-disagree:"+pat, g.Pos(), "urltree.TryExtractPathParameter treats any segment '{...}' as a parameter, the registration regexp %q does not (%s): e.g. /{user.id} matches any segment in the engine but is registered as the literal text", pat, narrow)
		}
	}

	c14Coverage(w, r)
	c14CatchAllSpellings(w, r)
	c14UnmanageSet(w, r)
	c14DelayedUnmanage(w, r)
	c14NormalisationAgreement(w, r)
	c14ProxyProtocolAgreement(w, r)
	// flows are grouped for registration by their comparable filter: it must tell apart
	// everything the registration depends on (URL and method list among them)
	if tc := w.Fn(pkgSCfg, "Filter.ToComparable"); tc == nil {
		r.Undec("R4", "Filter.ToComparable", token.NoPos, "function not found")
	} else {
		var lit *ssa.Alloc
		Instrs(tc, func(in ssa.Instruction) {
			if a, ok := in.(*ssa.Alloc); ok && structOf(a.Type()) == "ComparableFilter" {
				lit = a
			}
		})
		okKey := lit != nil
		if okKey {
			mm, _ := sameNameCopyMismatches(lit)
			okKey = len(mm) == 0
			for _, f := range []string{"URL", "Method"} {
				v := litField(lit, f)
				if v == nil || !Derives(v, func(x ssa.Value) bool { return strings.HasSuffix(Path(x), "f."+f) }) {
					okKey = false
				}
			}
		}
		r.Check(okKey, "R4", "Filter.ToComparable/key-has-url-and-methods", tc.Pos(), "the grouping key of supported filters carries the filter's URL and its method list (two flows on one URL with different methods are registered separately)")
	}
	r.Min("R5", 3)
	r.Min("R1", 2)
	r.Min("R2", 3)
	r.Min("R3", 1)
	r.Min("R4", 6)
	r.Min("R5", 5)
}

// condsHaveStrict: the condition is present with that polarity.
func condsHaveStrict(cs []Cond, pol bool, p VP) bool { return condsHave(cs, pol, p) }

// paramClassNarrowerThanTrie: does the regexp `/\{CLASS+\}` accept every
// non-empty run of characters other than '/' and '}' between the braces?
// Returns "" if so, else a description.
func paramClassNarrowerThanTrie(pat string) string {
	re, err := syntax.Parse(pat, syntax.Perl)
	if err != nil {
		return "unparsable: " + err.Error()
	}
	var class *syntax.Regexp
	var walk func(x *syntax.Regexp)
	walk = func(x *syntax.Regexp) {
		if x.Op == syntax.OpCharClass || x.Op == syntax.OpAnyCharNotNL || x.Op == syntax.OpAnyChar {
			class = x
		}
		for _, s := range x.Sub {
			walk(s)
		}
	}
	walk(re)
	if class == nil {
		return "no character class between the braces"
	}
	if class.Op != syntax.OpCharClass {
		return ""
	}
	in := func(c rune) bool {
		for i := 0; i+1 < len(class.Rune); i += 2 {
			if class.Rune[i] <= c && c <= class.Rune[i+1] {
				return true
			}
		}
		return false
	}
	var miss []string
	for _, c := range ".~:@!$&'()*+,;=%_-aZ09" {
		if !in(c) {
			miss = append(miss, string(c))
		}
	}
	if len(miss) == 0 {
		return ""
	}
	return "characters not accepted inside {..}: " + strings.Join(miss, " ")
}

func c14Coverage(w *World, r *Report) {
	bf := w.Fn(pkgRouting, "HandlingDataManager.buildHAProxyFlowsEndpointsRequest")
	if bf == nil {
		r.Undec("R4", "buildHAProxyFlowsEndpointsRequest", token.NoPos, "function not found")
	} else {
		hcs := CallsIn(bf, false, "config.HaproxyEndpointFormat")
		if len(hcs) != 1 {
			r.Undec("R4", "flows/format-call", bf.Pos(), "expected one HaproxyEndpointFormat call, found %d", len(hcs))
		} else {
			c := hcs[0]
			a := c.Common().Args
			okM := Derives(a[0], func(x ssa.Value) bool { return isCallTo0(x, "FilterI).GetSupportedMethods") })
			okU := isCallTo0(a[1], "FilterI).GetURL")
			extra := []string{}
			for _, cd := range CondsOf(c.Block()) {
				sg := condSig(cd)
				if sg == "" || strings.Contains(sg, "isStreamsEnabled") {
					continue
				}
				if strings.HasPrefix(sg, "!(builtin.len(") && strings.HasSuffix(sg, " == 0)") {
					continue // empty group skipped
				}
				extra = append(extra, sg)
			}
			r.Check(okM && okU && len(extra) == 0, "R4", "flows/one-expression-per-method-of-every-group", posOf(c), "every non-empty filter group registers one expression per GetSupportedMethods() entry with the group's URL (skipping conditions: %v)", extra)
		}
		okAll := false
		Instrs(bf, func(in ssa.Instruction) {
			if c, ok := in.(ssa.CallInstruction); ok && isCallTo(c, "FilterI).IsAnyURLAccepted") {
				extra := 0
				for _, cd := range CondsOf(c.Block()) {
					if sg := condSig(cd); sg != "" && !strings.Contains(sg, "isStreamsEnabled") && !strings.HasPrefix(sg, "!(builtin.len(") && !strings.HasPrefix(sg, "!phi[") && !strings.Contains(sg, "phi[") {
						extra++
					}
				}
				okAll = extra == 0
			}
		})
		for _, alt := range ReturnAlts(bf, 0) {
			if ma := litField(alt.Val, "ManageAll"); ma != nil {
				if _, isC := constBool(ma); !isC {
					okAll = okAll && Derives(ma, func(x ssa.Value) bool { return isCallTo0(x, "FilterI).IsAnyURLAccepted") })
				}
			}
		}
		r.Check(okAll, "R4", "flows/manage-all-for-catch-all", bf.Pos(), "ManageAll is or-ed with IsAnyURLAccepted() of every filter")
	}
	c14CoveragePolicies(w, r)
	c14CoverageMethods(w, r)
}

// c14CoveragePolicies: every policy endpoint with an enabled plugin is registered (also evaluated by C13).
func c14CoveragePolicies(w *World, r *Report) {
	bp := w.Fn(pkgConfig, "BuildHAProxyEndpointsRequest")
	if bp == nil {
		r.Undec("R4", "BuildHAProxyEndpointsRequest", token.NoPos, "function not found")
	} else {
		n := 0
		for _, c := range CallsIn(bp, false, "config.HaproxyEndpointFormat") {
			n++
			a := c.Common().Args
			okA := strings.HasSuffix(Path(a[0]), "endpoint.Method") && strings.HasSuffix(Path(a[1]), "endpoint.URL")
			en := 0
			extra := []string{}
			for _, cd := range CondsOf(c.Block()) {
				sg := condSig(cd)
				if sg == "" {
					continue
				}
				if strings.HasSuffix(sg, ".Enabled") && !strings.HasPrefix(sg, "!") {
					en++
					continue
				}
				extra = append(extra, sg)
			}
			r.Check(okA && en == 1 && len(extra) == 0, "R4", "policies/endpoint-registered-when-a-plugin-is-enabled", posOf(c), "an endpoint with an enabled remedy/diagnosis registers (endpoint.Method, endpoint.URL) (other conditions: %v)", extra)
		}
		if n != 2 {
			r.Undec("R4", "policies/format-calls", bp.Pos(), "expected 2 registration sites (remedies, diagnoses), found %d", n)
		}
		for _, alt := range ReturnAlts(bp, 0) {
			ma := litField(alt.Val, "ManageAll")
			ok := ma != nil
			if ok {
				// manageAll is true on an edge where some global plugin is enabled
				ph, isPhi := ma.(*ssa.Phi)
				ok = isPhi
				if isPhi {
					nTrue := 0
					for i, e := range ph.Edges {
						if b, isC := constBool(e); isC && b {
							if condsHave(CondsOfEdge(ph.Block().Preds[i], ph.Block()), true, func(v ssa.Value) bool { return strings.HasSuffix(Path(v), "global.Enabled") }) {
								nTrue++
							}
						}
					}
					ok = nTrue >= 1 && strings.Contains(Path(ph), "true")
				}
			}
			r.Check(ok, "R4", "policies/manage-all-for-enabled-global", posOf(alt.Ret), "ManageAll is set when a global diagnosis or remedy is enabled")
		}
	}
}

// c14CoverageMethods: method list agreement between registration and engine.
func c14CoverageMethods(w *World, r *Report) {
	if gs := w.Fn(pkgSCfg, "Filter.GetSupportedMethods"); gs != nil {
		defaults := map[string]bool{}
		Instrs(gs, func(in ssa.Instruction) {
			if st, ok := in.(*ssa.Store); ok {
				if s, isC := constString(st.Val); isC {
					defaults[s] = true
				}
			}
		})
		std := []string{}
		if np := w.ByPath["net/http"]; np != nil {
			sc := np.Types.Scope()
			for _, n := range sc.Names() {
				if c, ok := sc.Lookup(n).(*types.Const); ok && strings.HasPrefix(n, "Method") {
					std = append(std, constant.StringVal(c.Val()))
				}
			}
		}
		var miss []string
		for _, m := range std {
			if !defaults[m] {
				miss = append(miss, m)
			}
		}
		sort.Strings(miss)
		unconstrained := false
		if mq := w.Fn(pkgFilter, "FilterNode.isMethodQualified"); mq != nil {
			for _, alt := range ReturnAlts(mq, 0) {
				if b, isC := constBool(alt.Val); isC && b {
					for _, rel := range relsOfConds(alt.Conds) {
						if rel.Op == "==" && isCallTo0(rel.L, "builtin.len") && isIntConst(rel.R, 0) {
							unconstrained = true
						}
					}
				}
			}
		}
		switch {
		case len(miss) == 0 || !unconstrained:
			r.Hold("R4", "methods/registered-cover-accepted", gs.Pos(), 1, "the default method list covers what the engine accepts for an unconstrained filter")
		default:
			r.Fail("R4", "methods/unconstrained-filter-registers-fewer-methods:"+strings.Join(miss, ","), gs.Pos(), "a user flow without a method constraint is accepted by the engine for every method, but only %v are registered with the proxy: requests with %v to that URL bypass the engine", keysOf(defaults), miss)
		}
	}

	// R5 manage before unmanage
	for _, site := range []struct{ pkg, fn string }{{pkgRouting, "HandlingDataManager.initializeStreams"}, {pkgConfig, "TxnPoliciesAccessor.UpdatePoliciesData"}} {
		f := w.Fn(site.pkg, site.fn)
		if f == nil {
			r.Undec("R5", site.fn, token.NoPos, "function not found")
			continue
		}
		mg := CallsIn(f, false, "config.ManageHAProxyEndpoints")
		un := CallsIn(f, false, "config.ScheduleUnmanageHAProxyEndpoints", "config.unmanageHAProxyEndpointsVoided")
		df := CallsIn(f, false, "config.EndpointsToUnmanage")
		ok := len(mg) == 1 && len(un) >= 1 && len(df) == 1 && errReturned(f, mg[0])
		if ok {
			for _, u := range un {
				if !domInstr(mg[0], u) || !Derives(u.Common().Args[0], func(x ssa.Value) bool { return x == df[0].Value() }) {
					ok = false
				}
			}
			// Difference(previous, new)
			a := df[0].Common().Args
			ok = ok && sameVal(a[1], fieldOfArg(mg[0].Common().Args[0], a[1])) // new endpoints are the ones just managed
		}
		r.Check(ok, "R5", shortName(site.fn)+"/manage-new-before-unmanaging-difference", f.Pos(), "the new endpoint set is registered (error returned) before EndpointsToUnmanage(old, new) is un-managed")
		// manage-all is withdrawn only when the previous configuration had it and the new one does not
		for _, c := range CallsIn(f, false, "config.unmanageGlobalVoided", "config.scheduleUnmanageHAProxyGlobal") {
			cs := expandConds(CondsOf(c.Block()))
			prev := condsHave(cs, true, func(v ssa.Value) bool {
				return strings.HasSuffix(Path(v), "ManageAll") && strings.Contains(strings.ToLower(Path(v)), "previous")
			})
			notNew := condsHave(cs, false, func(v ssa.Value) bool {
				return strings.HasSuffix(Path(v), "ManageAll") && strings.Contains(strings.ToLower(Path(v)), "new")
			})
			// the condition may be a named boolean: previous && !new
			if !prev || !notNew {
				for _, cd := range cs {
					if !cd.Pol {
						continue
					}
					if ph, isPhi := cd.V.(*ssa.Phi); isPhi {
						ok2 := false
						for i, e := range ph.Edges {
							if u, isU := e.(*ssa.UnOp); isU && u.Op == token.NOT && strings.HasSuffix(Path(u.X), "ManageAll") && Derives(u.X, func(x ssa.Value) bool {
								return isCallTo0(x, "config.BuildHAProxyEndpointsRequest") && strings.Contains(Path(x), "newPoliciesData")
							}) {
								ec := CondsOfEdge(ph.Block().Preds[i], ph.Block())
								if condsHave(ec, true, func(v ssa.Value) bool {
									return strings.HasSuffix(Path(v), "ManageAll") && Derives(v, func(x ssa.Value) bool {
										return isCallTo0(x, "config.BuildHAProxyEndpointsRequest") && !strings.Contains(Path(x), "newPoliciesData")
									})
								}) {
									ok2 = true
								}
							} else if k, isK := constBool(e); !(isK && !k) {
								ok2 = false
								break
							}
						}
						if ok2 {
							prev, notNew = true, true
						}
					}
				}
			}
			r.Check(prev && notNew, "R5", shortName(site.fn)+"/manage-all-withdrawn-only-when-dropped/"+calleeShort(calleeID(c)), posOf(c), "%s runs only when the previous request had ManageAll (=%v) and the new one has not (=%v): a reload that keeps a catch-all flow or a global plugin must not un-manage all traffic", calleeShort(calleeID(c)), prev, notNew)
		}
		// policies mode: the new policies version is served only once its endpoints are registered
		if sv := CallsIn(f, false, "TxnPoliciesAccessor).setNextVersion"); len(sv) > 0 && len(mg) == 1 {
			okV := true
			for _, c := range sv {
				op, _ := FindRel(Rels(c.Block()), func(v ssa.Value) bool { return v == mg[0].Value() }, isNilConst)
				if !domInstr(mg[0], c) || op != "==" {
					okV = false
				}
			}
			r.Check(okV, "R5", shortName(site.fn)+"/version-published-after-endpoints-registered", posOf(sv[0]), "setNextVersion runs only after ManageHAProxyEndpoints returned nil: a failed registration never leaves the engine serving policies whose endpoints the proxy does not intercept")
		}
	}
	if uh := w.Fn(pkgConfig, "updateHAProxyEndpoints"); uh != nil {
		ma := CallsIn(uh, false, "config.manageAll")
		oe := CallsIn(uh, false, "config.operateEndpoint")
		ok := len(ma) == 1 && errReturned(uh, ma[0]) && len(oe) >= 1
		for _, c := range oe {
			if !errReturned(uh, c) {
				ok = false
			}
		}
		r.Check(ok, "R5", "updateHAProxyEndpoints/errors-returned", uh.Pos(), "a failing manage_all or managed_endpoint request fails the update (the engine must not load policies the proxy does not forward)")
		first := true
		for _, c := range oe {
			if first {
				okArgs := strings.HasSuffix(Path(c.Common().Args[0]), "managedEndpoint.Endpoint") || strings.Contains(Path(c.Common().Args[0]), ".Endpoint")
				r.Check(okArgs && len(loopExits(loopHeaderOf(c), true)) == 0, "R5", "updateHAProxyEndpoints/every-endpoint-registered", posOf(c), "every managed endpoint is sent to the proxy")
				first = false
			}
		}
	}
	if mh := w.Fn(pkgConfig, "ManageHAProxyEndpoints"); mh != nil {
		u := CallsIn(mh, false, "config.updateHAProxyEndpoints")
		r.Check(len(u) == 1 && errReturned(mh, u[0]), "R5", "ManageHAProxyEndpoints/error-returned", mh.Pos(), "ManageHAProxyEndpoints returns the update error")
	}
}

func shortName(s string) string {
	if i := strings.LastIndex(s, "."); i >= 0 {
		return s[i+1:]
	}
	return s
}

// fieldOfArg: helper for the Difference check - returns b when it is the
// ManagedEndpoints field of the request value a (else nil).
func fieldOfArg(a, b ssa.Value) ssa.Value {
	if strings.HasSuffix(Path(b), ".ManagedEndpoints") && strings.HasPrefix(strings.TrimPrefix(Path(b), "&"), strings.TrimPrefix(Path(a), "&")) {
		return b
	}
	return nil
}

// loopHeaderOf: the innermost rangeindex loop header dominating the instruction.
func loopHeaderOf(in ssa.Instruction) *ssa.BasicBlock {
	for _, cd := range CondsOf(in.Block()) {
		if b, isB := cd.V.(*ssa.BinOp); isB && b.Op == token.LSS && isCallTo0(b.Y, "builtin.len") {
			return cd.If.Block()
		}
	}
	return in.Block()
}

// varargsConsts returns the constant strings stored into a varargs slice.
func varargsConsts(v ssa.Value) []string {
	sl, ok := v.(*ssa.Slice)
	if !ok {
		return nil
	}
	a, ok := sl.X.(*ssa.Alloc)
	if !ok {
		return nil
	}
	got := map[int64]string{}
	var max int64 = -1
	for _, rr := range *a.Referrers() {
		if ia, ok := rr.(*ssa.IndexAddr); ok {
			idx, _ := constInt(ia.Index)
			for _, u := range *ia.Referrers() {
				if st, ok := u.(*ssa.Store); ok && st.Addr == ssa.Value(ia) {
					if s, isC := constString(st.Val); isC {
						got[idx] = s
						if idx > max {
							max = idx
						}
					}
				}
			}
		}
	}
	out := make([]string, max+1)
	for i := range out {
		out[i] = got[int64(i)]
	}
	return out
}

// c14CatchAllSpellings: every spelling of "any URL" that the flow loader
// accepts makes the proxy manage all traffic. The reviewed spellings are "",
// "*" and ".*"; the accepted set is evaluated from the comparisons.
func c14CatchAllSpellings(w *World, r *Report) {
	f := w.Fn(pkgSCfg, "Filter.IsAnyURLAccepted")
	if f == nil {
		r.Undec("R4", "Filter.IsAnyURLAccepted", token.NoPos, "function not found")
		return
	}
	isURL := func(v ssa.Value) bool { return strings.HasSuffix(Path(v), "f.URL") }
	acc := map[string]bool{}
	shape := true
	for _, alt := range ReturnAlts(f, 0) {
		add := func(c Cond) {
			if rel, ok := NormCond(c); ok && rel.Op == "==" {
				for _, s := range [][2]ssa.Value{{rel.L, rel.R}, {rel.R, rel.L}} {
					if k, isK := constString(s[1]); isK && isURL(s[0]) {
						acc[k] = true
						return
					}
				}
			}
			shape = false
		}
		if b, isC := constBool(alt.Val); isC {
			if !b {
				continue
			}
			// the deciding equality is the positive one
			n := 0
			for _, c := range alt.Conds {
				if c.Pol {
					add(c)
					n++
				}
			}
			if n != 1 {
				shape = false
			}
			continue
		}
		add(Cond{V: alt.Val, Pol: true})
	}
	var missing []string
	for _, s := range []string{"", "*", ".*"} {
		if !acc[s] {
			missing = append(missing, strconv.Quote(s))
		}
	}
	r.Check(shape && len(missing) == 0, "R4", "IsAnyURLAccepted/catch-all-spellings", f.Pos(),
		"IsAnyURLAccepted is a disjunction of URL == constant tests (=%v) accepting every reviewed catch-all spelling; missing: %v", shape, missing)
}

// c14UnmanageSet: after a reload only endpoints that the new configuration no
// longer registers may be deleted from the proxy. The previous and the new
// registration lists are built independently, so they must be compared by the
// registered expression (value), never by pointer identity.
func c14UnmanageSet(w *World, r *Report) {
	// (a) no identity-based set operation over endpoint pointers
	nId := 0
	for _, f := range w.lunarFns {
		if f.Origin() != nil {
			continue
		}
		Instrs(f, func(in ssa.Instruction) {
			c, ok := in.(ssa.CallInstruction)
			if !ok {
				return
			}
			id := calleeID(c)
			if !strings.HasPrefix(id, "github.com/samber/lo.") {
				return
			}
			for _, a := range c.Common().Args {
				if sl, ok := a.Type().Underlying().(*types.Slice); ok {
					if p, isPtr := sl.Elem().(*types.Pointer); isPtr {
						if _, n := namedOf(p); n == "HAProxyEndpointData" {
							nId++
							r.Fail("R5", "unmanage-set/identity-comparison/"+shortFn(fnID(outermost(f))), posOf(in),
								"%s over []*HAProxyEndpointData compares pointers: the previous and new lists are built independently, so every previously managed endpoint - also the ones the new configuration keeps - is scheduled for deletion from the proxy and the engine is bypassed after the stale-version delay", calleeShort(id))
							return
						}
					}
				}
			}
		})
	}
	// (b) what is unmanaged is a value-based difference previous \ current
	helper := w.Fn(pkgConfig, "EndpointsToUnmanage")
	okHelper := false
	if helper != nil && len(helper.Params) == 2 {
		// membership set keyed by the registered expression of the CURRENT list
		keyed := false
		Instrs(helper, func(in ssa.Instruction) {
			if mu, ok := in.(*ssa.MapUpdate); ok && strings.HasSuffix(Path(mu.Key), ".Endpoint") && Derives(mu.Key, func(x ssa.Value) bool { return x == ssa.Value(helper.Params[1]) }) {
				keyed = true
			}
		})
		// an element of PREVIOUS is kept exactly when its expression is not in the set
		kept := 0
		good := true
		Instrs(helper, func(in ssa.Instruction) {
			c, ok := in.(*ssa.Call)
			if !ok {
				return
			}
			if b, isB := c.Call.Value.(*ssa.Builtin); !isB || b.Name() != "append" {
				return
			}
			kept++
			fromPrev := Derives(c.Call.Args[1], func(x ssa.Value) bool { return x == ssa.Value(helper.Params[0]) }) &&
				!Derives(c.Call.Args[1], func(x ssa.Value) bool { return x == ssa.Value(helper.Params[1]) })
			notFound := false
			for _, cd := range CondsOf(c.Block()) {
				e, isE := cd.V.(*ssa.Extract)
				if !isE || e.Index != 1 || cd.Pol {
					continue
				}
				if l, isL := e.Tuple.(*ssa.Lookup); isL && strings.HasSuffix(Path(l.Index), ".Endpoint") &&
					Derives(l.Index, func(x ssa.Value) bool { return x == ssa.Value(helper.Params[0]) }) {
					notFound = true
				}
			}
			if !fromPrev || !notFound {
				good = false
			}
		})
		okHelper = keyed && kept == 1 && good
	}
	nSites := 0
	for _, cs := range w.CallSites("config.ScheduleUnmanageHAProxyEndpoints", "config.unmanageHAProxyEndpointsVoided") {
		caller := fnID(outermost(cs.Fn))
		if strings.HasSuffix(caller, "ScheduleUnmanageHAProxyEndpoints") {
			continue // the scheduler's own deferred call
		}
		nSites++
		arg := cs.In.Common().Args[0]
		viaHelper := helper != nil && Derives(arg, func(x ssa.Value) bool {
			c, ok := x.(*ssa.Call)
			return ok && c.Call.StaticCallee() != nil && origin(c.Call.StaticCallee()) == helper
		})
		r.Check(viaHelper && okHelper, "R5", "unmanage-set/"+shortFn(caller)+"/"+calleeShort(calleeID(cs.In)), posOf(cs.In),
			"the endpoints handed to the proxy for deletion are previous-minus-current compared by registered expression (through EndpointsToUnmanage=%v, helper keeps exactly the previous entries whose expression the current list lacks=%v)", viaHelper, okHelper)
	}
	if nSites < 2 {
		r.Undec("R5", "unmanage-set/call-sites", token.NoPos, "expected at least two places that unmanage endpoints after a reload, found %d", nSites)
	}
	if nId == 0 {
		r.Hold("R5", "unmanage-set/no-identity-comparison", token.NoPos, 1, "no samber/lo set operation is applied to []*HAProxyEndpointData")
	}
}

// c14DelayedUnmanage: an unmanage that is carried out after the stale-version
// delay re-validates its targets when it fires: an expression (or the
// manage-all flag) that a later reload registered again must survive. Decided
// structurally: inside the goroutine, after the Sleep, the unmanage call is
// conditioned on registrationCount(x) (read then) == the count captured when the
// unmanage was scheduled; and every successful ManageHAProxyEndpoints bumps the
// counts of what it registered.
func c14DelayedUnmanage(w *World, r *Report) {
	isCount := func(v ssa.Value) bool { return isCallTo0(v, "config.registrationCount") }
	for _, site := range []struct{ fn, call, key string }{
		{"ScheduleUnmanageHAProxyEndpoints", "config.unmanageHAProxyEndpointsVoided", "endpoints"},
		{"scheduleUnmanageHAProxyGlobal", "config.unmanageGlobalVoided", "manage-all"},
	} {
		f := w.Fn(pkgConfig, site.fn)
		if f == nil {
			r.Undec("R5", "delayed-unmanage/"+site.key, token.NoPos, "%s not found", site.fn)
			continue
		}
		ok := false
		n := 0
		for _, g := range Anons(f) {
			if g == f {
				continue
			}
			sl := CallsIn(g, false, "clock.Clock).Sleep")
			for _, c := range CallsIn(g, false, site.call) {
				n++
				if len(sl) != 1 || !domInstr(sl[0], c) {
					continue
				}
				// condition on the unmanage itself (manage-all) or on the append that builds its argument (endpoints)
				guardedBlocks := []*ssa.BasicBlock{c.Block()}
				if len(c.Common().Args) > 0 {
					Instrs(g, func(in ssa.Instruction) {
						if a, isC := in.(*ssa.Call); isC {
							if b, isB := a.Call.Value.(*ssa.Builtin); isB && b.Name() == "append" && Derives(c.Common().Args[0], func(x ssa.Value) bool { return x == ssa.Value(a) }) {
								guardedBlocks = append(guardedBlocks, a.Block())
							}
						}
					})
					// the raw captured list must not be what is unmanaged
					if fv, isFV := peel(c.Common().Args[0]).(*ssa.FreeVar); isFV {
						_ = fv
						continue
					}
					if u, isU := peel(c.Common().Args[0]).(*ssa.UnOp); isU {
						if _, isFV := u.X.(*ssa.FreeVar); isFV {
							continue
						}
					}
				}
				for _, b := range guardedBlocks {
					for _, rel := range Rels(b) {
						fresh := func(v ssa.Value) bool {
							cc, isC := peel(v).(*ssa.Call)
							return isC && isCount(v) && domInstr(sl[0], cc)
						}
						captured := func(v ssa.Value) bool {
							return Derives(v, func(x ssa.Value) bool { _, isFV := x.(*ssa.FreeVar); return isFV }) && !fresh(v)
						}
						if rel.Op == "==" && ((fresh(rel.L) && captured(rel.R)) || (fresh(rel.R) && captured(rel.L))) {
							ok = true
						}
					}
				}
			}
		}
		if n == 0 {
			r.Undec("R5", "delayed-unmanage/"+site.key, f.Pos(), "no delayed %s call found", site.call)
			continue
		}
		if ok {
			r.Hold("R5", "delayed-unmanage-revalidated/"+site.key, f.Pos(), 1, "after the delay, %s is removed only if its registration count still equals the one captured when the removal was scheduled", site.key)
		} else {
			r.Fail("R5", "delayed-unmanage-revalidated/"+site.key, f.Pos(), "the goroutine started by %s removes %s after the delay without checking whether a later reload registered it again: reload without X, reload with X 10 s later, and 30 s after the first reload X is deleted from the proxy although it is configured", site.fn, site.key)
		}
	}
	// registrations are recorded
	if m := w.Fn(pkgConfig, "ManageHAProxyEndpoints"); m != nil {
		nr := CallsIn(m, false, "config.noteRegistered")
		up := CallsIn(m, false, "config.updateHAProxyEndpoints")
		ok := len(nr) == 1 && len(up) == 1 && Path(nr[0].Common().Args[0]) == Path(up[0].Common().Args[0])
		if ok {
			op, _ := FindRel(Rels(nr[0].Block()), func(v ssa.Value) bool { return v == up[0].Value() }, isNilConst)
			ok = op == "=="
		}
		r.Check(ok, "R5", "delayed-unmanage/registrations-recorded", m.Pos(), "ManageHAProxyEndpoints records what it registered (noteRegistered on the success edge of updateHAProxyEndpoints)")
	}
	if nrf := w.Fn(pkgConfig, "noteRegistered"); nrf != nil {
		n := 0
		okInc := true
		Instrs(nrf, func(in ssa.Instruction) {
			mu, isMU := in.(*ssa.MapUpdate)
			if !isMU || !strings.HasSuffix(Path(mu.Map), "global:registrations") {
				return
			}
			n++
			b, isB := peel(mu.Value).(*ssa.BinOp)
			if !isB || b.Op != token.ADD || Path(b.Y) != "1" {
				okInc = false
			}
			// every registration counts: the increment depends only on the manage-all branch and the loop
			for _, cd := range expandConds(CondsOf(mu.Block())) {
				p := Path(cd.V)
				if strings.HasSuffix(p, ".ManageAll") {
					continue
				}
				if rel, isRel := NormCond(cd); isRel && rel.Op == "<" && strings.Contains(Path(rel.R), "builtin.len(") {
					continue
				}
				if strings.HasPrefix(p, "next(range(") {
					continue
				}
				okInc = false
			}
		})
		r.Check(n == 2 && okInc, "R5", "delayed-unmanage/registration-counts-increase", nrf.Pos(), "noteRegistered increments the count of the manage-all flag or of every registered expression")
	}
}

// c14NormalisationAgreement: what the engine's URL tree tolerates or
// generalises when it matches, the registered expression has to tolerate or
// generalise too. Three agreements are evaluated from the code:
//   - the tree trims leading/trailing "." and "/" before matching (trimURL), so
//     a request URL with a trailing slash still matches its pattern; the
//     expression of a non-wildcard pattern ends with a terminator constant;
//   - the tree treats `{x}` as a parameter in host labels as well as in path
//     segments; the registration only rewrites `/{x}`;
//   - the tree treats a final `*` as a wildcard also when it is a host label; the
//     registration only rewrites a final `/*`.
func c14NormalisationAgreement(w *World, r *Report) {
	hf := w.Fn(pkgConfig, "HaproxyEndpointFormat")
	tu := w.Fn(pkgURLTree, "trimURL")
	ins := w.Fn(pkgURLTree, "URLTree.insertWithConvergenceIndication")
	if hf == nil || tu == nil || ins == nil {
		r.Undec("R3", "normalisation-agreement", token.NoPos, "HaproxyEndpointFormat / trimURL / insert not found")
		return
	}
	// engine side: the trim cut-set
	cut := ""
	for _, c := range CallsIn(tu, false, "strings.Trim", "strings.TrimRight", "strings.TrimSuffix") {
		if s, ok := constString(c.Common().Args[1]); ok {
			cut += s
		}
	}
	// registration side: terminator appended to non-wildcard patterns, and any trimming of its own
	term := ""
	Instrs(hf, func(in ssa.Instruction) {
		if b, ok := in.(*ssa.BinOp); ok && b.Op == token.ADD {
			if s, isS := constString(b.Y); isS && strings.HasSuffix(s, "$") {
				term = s
			}
		}
	})
	ownTrim := false
	for _, c := range CallsIn(hf, false, "strings.Trim", "strings.TrimRight", "strings.TrimSuffix") {
		if s, ok := constString(c.Common().Args[1]); ok && (s == "/" || s == "./" || s == "/.") {
			ownTrim = true
		}
	}
	tolerant := term != "" && term != "$" && regexpAccepts(term, "/") && regexpAccepts(term, "")
	switch {
	case !strings.Contains(cut, "/"):
		r.Hold("R3", "trailing-slash/engine-does-not-trim", tu.Pos(), 1, "the URL tree does not trim '/' (cut-set %q)", cut)
	case tolerant && ownTrim:
		r.Hold("R3", "trailing-slash/expression-tolerates-it", hf.Pos(), 1, "non-wildcard expressions end with %q and the configured URL is trimmed like the tree does", term)
	default:
		r.Fail("R3", "trailing-slash/engine-trims-what-the-expression-requires-absent", hf.Pos(), "the URL tree trims %q from both ends before matching (request api.example.com/orders/ matches pattern api.example.com/orders), but the registered expression of a non-wildcard pattern ends with %q (own trimming of the configured URL: %v): GET api.example.com/orders/ is acted on by the engine's tree and is not intercepted by the proxy", cut, term, ownTrim)
	}
	// parameters and wildcard in host labels
	hostParam, hostWild := true, true
	Instrs(ins, func(in ssa.Instruction) {
		c, ok := in.(*ssa.Call)
		if ok && isCallTo(c, "urltree.TryExtractPathParameter") {
			for _, cd := range expandConds(CondsOf(c.Block())) {
				if strings.HasSuffix(Path(cd.V), ".IsPartOfHost") && !cd.Pol {
					hostParam = false
				}
			}
		}
	})
	for _, b := range ins.Blocks {
		for _, rel := range Rels(b) {
			if rel.Op == "==" && (strings.Contains(Path(rel.R), "wildcard") || Path(rel.R) == `"*"`) {
				for _, cd := range expandConds(CondsOf(b)) {
					if strings.HasSuffix(Path(cd.V), ".IsPartOfHost") && !cd.Pol {
						hostWild = false
					}
				}
			}
		}
	}
	pat := ""
	if init := w.SSAPkg[pkgConfig].Func("init"); init != nil {
		Instrs(init, func(in ssa.Instruction) {
			if st, ok := in.(*ssa.Store); ok && strings.HasSuffix(Path(st.Addr), "global:regexToFindPathParameters") {
				if c, ok := peel(st.Val).(*ssa.Call); ok && isCallTo(c, "regexp.MustCompile") {
					pat, _ = constString(c.Call.Args[0])
				}
			}
		})
	}
	if hostParam && strings.HasPrefix(pat, "/") {
		r.Fail("R3", "host-parameter-not-translated", hf.Pos(), "the URL tree accepts a `{x}` parameter in host labels as well (pattern {sub}.example.com/orders matches eu.example.com/orders), but the registration rewrites only %q - a parameter preceded by '/': the expression for that pattern is GET:::{sub}\\.example\\.com/orders$ and never matches", pat)
	} else {
		r.Hold("R3", "host-parameter-translated-or-not-accepted", hf.Pos(), 1, "host-label parameters: tree accepts=%v, registration pattern %q", hostParam, pat)
	}
	wl := ""
	Instrs(hf, func(in ssa.Instruction) {
		if c, ok := in.(*ssa.Call); ok && isCallTo(c, "strings.HasSuffix") {
			if s, isS := constString(c.Call.Args[1]); isS && strings.Contains(s, "*") {
				wl = s
			}
		}
	})
	if hostWild && strings.HasPrefix(wl, "/") {
		r.Fail("R3", "host-wildcard-not-translated", hf.Pos(), "the URL tree treats a final `*` label as a wildcard in the host too (pattern api.example.* matches api.example.org/orders), but the registration rewrites only a final %q: the expression for that pattern is GET:::api\\.example\\.*$ and does not match", wl)
	} else {
		r.Hold("R3", "host-wildcard-translated-or-not-accepted", hf.Pos(), 1, "host-label wildcard: tree accepts=%v, registration suffix %q", hostWild, wl)
	}
	// a path parameter matched by an EMPTY segment: the tree steps into the parametric child without
	// looking at the segment's text; the expression a parameter is rewritten to may demand a character
	repl := ""
	if c := w.constOf(pkgConfig, "RegexToReplacePathParameters"); c != nil {
		repl = constant.StringVal(c)
	}
	needsChar := false
	if re, err := regexp.Compile("^" + repl + "$"); err == nil && repl != "" {
		needsChar = !re.MatchString("/") && !re.MatchString("")
	}
	treeLooksAtText := false
	for _, name := range []string{"lookupNode", "lookupFlow"} {
		lf := w.Fn(pkgURLTree, name)
		if lf == nil {
			continue
		}
		for _, b := range lf.Blocks {
			for _, cd := range CondsOf(b) {
				rel, isRel := NormCond(cd)
				if !isRel {
					continue
				}
				for _, side := range [][2]ssa.Value{{rel.L, rel.R}, {rel.R, rel.L}} {
					if s, isS := constString(side[1]); isS && s == "" && strings.HasSuffix(Path(side[0]), ".Value") {
						treeLooksAtText = true
					}
					if isIntConst(side[1], 0) && strings.Contains(Path(side[0]), "builtin.len(") && strings.Contains(Path(side[0]), ".Value") {
						treeLooksAtText = true
					}
				}
			}
		}
	}
	if needsChar && !treeLooksAtText {
		r.Fail("R3", "empty-parameter-segment/engine-accepts-what-the-expression-excludes", hf.Pos(), "the URL tree follows a `{param}` node for any segment, the empty one included (GET api.example.com/users//orders matches pattern api.example.com/users/{id}/orders), but a parameter is registered as %q, which needs at least one character: that request is acted on by the engine's tree and is not intercepted by the proxy", repl)
	} else {
		r.Hold("R3", "empty-parameter-segment/agree", hf.Pos(), 1, "empty parameter segments: expression needs a character=%v, tree tests the segment's text=%v", needsChar, treeLooksAtText)
	}
}

// regexpAccepts: does the (suffix) pattern match exactly s?
func regexpAccepts(pat, s string) bool {
	re, err := regexp.Compile("^(?:" + strings.TrimSuffix(pat, "$") + ")$")
	if err != nil {
		return false
	}
	return re.MatchString(s)
}

// c14ProxyProtocolAgreement: each management request the engine sends reaches
// the proxy backend with the intended effect. The engine side (HTTP method
// constant and URL constant of every call of applyAllRequest) is read from the
// SSA, the proxy side (acl / use_backend / backend directives) from haproxy.cfg
// of the same tree; the effects are compared with the reviewed intent:
// dropping the global flag must not touch the endpoints map.
func c14ProxyProtocolAgreement(w *World, r *Report) {
	cfgPath := filepath.Join(w.Repo, "proxy/rootfs/etc/haproxy/haproxy.cfg")
	raw, err := os.ReadFile(cfgPath)
	if err != nil {
		r.Undec("R5", "proxy-protocol/haproxy.cfg", token.NoPos, "cannot read %s: %v", cfgPath, err)
		return
	}
	aclPath, aclMethod := map[string]string{}, map[string]string{}
	type route struct{ backend, method, path string }
	var routes []route
	effects := map[string][]string{}
	cur := ""
	for _, line := range strings.Split(string(raw), "\n") {
		f := strings.Fields(strings.TrimSpace(line))
		if len(f) == 0 || strings.HasPrefix(f[0], "#") {
			continue
		}
		switch {
		case f[0] == "backend" && len(f) >= 2:
			cur = f[1]
		case f[0] == "frontend" || f[0] == "listen" || f[0] == "defaults" || f[0] == "global":
			cur = ""
		case f[0] == "acl" && len(f) >= 4 && f[2] == "path":
			aclPath[f[1]] = f[3]
		case f[0] == "acl" && len(f) >= 4 && f[2] == "method":
			aclMethod[f[1]] = f[3]
		case f[0] == "use_backend" && len(f) >= 4 && f[2] == "if":
			rt := route{backend: f[1]}
			for _, a := range f[3:] {
				if m, ok := aclMethod[a]; ok {
					rt.method = m
				}
				if p, ok := aclPath[a]; ok {
					rt.path = p
				}
			}
			routes = append(routes, rt)
		case cur != "" && f[0] == "http-request" && len(f) >= 2:
			effects[cur] = append(effects[cur], strings.Join(f[1:], " "))
		}
	}
	backendOf := func(method, path string) string {
		for _, rt := range routes {
			if rt.method == method && rt.path == path {
				return rt.backend
			}
		}
		return ""
	}
	has := func(b, what string) bool {
		for _, e := range effects[b] {
			if strings.Contains(e, what) {
				return true
			}
		}
		return false
	}
	urlOf := func(v ssa.Value) string {
		// the URL globals are initialised as "http://localhost:" + port + "/path"
		g, ok := peel(v).(*ssa.UnOp)
		if !ok {
			return ""
		}
		gl, ok := g.X.(*ssa.Global)
		if !ok {
			return ""
		}
		path := ""
		if init := w.SSAPkg[pkgConfig].Func("init"); init != nil {
			Instrs(init, func(in ssa.Instruction) {
				if st, ok := in.(*ssa.Store); ok && st.Addr == ssa.Value(gl) {
					if b, ok := st.Val.(*ssa.BinOp); ok {
						if s, isS := constString(b.Y); isS {
							path = s
						}
					}
				}
			})
		}
		return path
	}
	intent := map[string]struct {
		must, mustNot []string
		why           string
	}{
		"manageAll":      {[]string{"set-var(proc.manage_all)"}, []string{"del-map(/etc/haproxy/maps/endpoints.map)"}, "switching manage-all on keeps the registered endpoints"},
		"unmanageGlobal": {[]string{"unset-var(proc.manage_all)"}, []string{"del-map(/etc/haproxy/maps/endpoints.map)", "set-var(proc.skip_all)"}, "dropping the global flag keeps every endpoint expression that is still configured"},
		"UnmanageAll":    {[]string{"unset-var(proc.manage_all)", "del-map(/etc/haproxy/maps/endpoints.map)"}, nil, "the fail-safe switch-off removes everything"},
	}
	for fn, want := range intent {
		f := w.Fn(pkgConfig, fn)
		if f == nil {
			r.Undec("R5", "proxy-protocol/"+fn, token.NoPos, "function not found")
			continue
		}
		calls := CallsIn(f, false, "config.applyAllRequest")
		if len(calls) != 1 {
			r.Undec("R5", "proxy-protocol/"+fn, f.Pos(), "expected one applyAllRequest call, found %d", len(calls))
			continue
		}
		method, _ := constString(calls[0].Common().Args[0])
		path := urlOf(calls[0].Common().Args[1])
		b := backendOf(method, path)
		ok := b != ""
		var why []string
		for _, m := range want.must {
			if !has(b, m) {
				ok = false
				why = append(why, "backend lacks "+m)
			}
		}
		for _, m := range want.mustNot {
			if has(b, m) {
				ok = false
				why = append(why, "backend has "+m)
			}
		}
		r.Check(ok, "R5", "proxy-protocol/"+fn, posOf(calls[0]), "%s sends %s %s -> haproxy backend %q: %s %v", fn, method, path, b, want.why, why)
	}
}
