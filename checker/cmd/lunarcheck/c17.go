package main

import (
	"go/token"
	"go/types"
	"strings"

	"golang.org/x/tools/go/ssa"
)

const pkgRetry = "lunar/engine/streams/processors/retry"

func init() {
	register(&Property{
		ID:   "C17",
		Mods: []string{modEngine},
		Explanation: "Decides structural necessary conditions of the retry bound, not interleaved sequences: " +
			"(R1, flows mode) 'retry' (with a RetryRequestAction) is returned only on the edge count <= attempts and 'failed' only on count > attempts after removeCount; count is the value stored back = loaded+1 (0 when absent); counter key derives from processor name + sequence id and the same key is incremented and removed; init rejects attempts < 1; " +
			"(R2, policy mode) a retry action is returned only for a status inside a configured range and only for a known or new sequence; attemptsLeft decreases by exactly 1 per retry from the configured attempts; the state is deleted when it reaches < 1 and otherwise stored under the sequence id; a status outside the ranges deletes the sequence state; " +
			"(R3) the state store (MemoryCache.Set) stores the new state unconditionally. NOT decided: interleaving of sequences sharing the store, TTL arithmetic.",
		RuleText: "obligation = (rule, anchored construct) on SSA of the current tree: return-alternative conditions with normalised comparisons, value provenance of keys and counters",
		Run:      runC17,
	})
}

func runC17(w *World, r *Report) {
	// the policy-mode retry state lives in utils.MemoryCache: its freshness and store rules (C12.R1, C12.R2)
	r.Borrow(w, runC12, map[string]string{"R1": "R2", "R2": "R2"})
	hrRetryCounterStore(w, r, "R1")
	hrFlowContextGetterIsPure(w, r, "R1")
	hrDuplicateEdgeByEquality(w, r, "R1")
	hrDestroyDoesNotRecreate(w, r, "R1")
	hrMessageArgsByName(w, r, "R1")
	hrCfgIdentifiers(w, r, "R1")
	hrStoredResponseOwnsItsHeaders(w, r, "R2")
	hrHeadersAliasing(w, r, "R1")
	hrCycleCheckSkippedOnlyWithoutRoot(w, r, "R1")
	hrNewResponseKeepsIdentity(w, r, "R1")
	// in flows mode the retry conditions are the filter of the flow that holds the processor (C03.R1, C03.R4)
	r.Borrow(w, runC03, map[string]string{"R1": "R1", "R4": "R1"})
	la := NewLockAn(w)
	ex := w.Fn(pkgRetry, "retryProcessor.Execute")
	if ex == nil {
		r.Undec("R1", "retryProcessor.Execute", token.NoPos, "function not found")
	} else {
		incs := CallsIn(ex, false, "retryProcessor).incrementRetryCount")
		rems := CallsIn(ex, false, "retryProcessor).removeCount")
		if len(incs) != 1 || len(rems) != 1 {
			r.Undec("R1", "Execute/calls", ex.Pos(), "expected one incrementRetryCount and one removeCount, found %d/%d", len(incs), len(rems))
		} else {
			cnt := incs[0].Value()
			isCnt := func(v ssa.Value) bool { return v == ssa.Value(cnt) }
			isAtt := pathRe(`^param:p\.attempts$`)
			key := unhelp(incs[0].Common().Args[1])
			okKey := isCallTo0(key, "retryProcessor).getCounterKey") && strings.HasSuffix(Path(key), "GetSequenceID(param:APIStream))") && unhelp(rems[0].Common().Args[1]) == key
			r.Check(okKey, "R1", "Execute/same-sequence-key", posOf(incs[0]), "counter key = getCounterKey(APIStream.GetSequenceID()) for both increment and removal (key %s)", trunc(Path(key), 110))
			nRetry, nFail := 0, 0
			for _, alt := range ReturnAlts(ex, 0) {
				nm := litField(alt.Val, "Name")
				s, _ := constString(nm)
				op, _ := FindRel(relsOfConds(alt.Conds), isCnt, isAtt)
				switch s {
				case "retry":
					nRetry++
					ra := litField(alt.Val, "RespAction")
					okA := ra != nil && structOf(peel(ra).Type()) == "RetryRequestAction"
					r.Check(op == "<=" && okA, "R1", "Execute/retry-only-within-attempts", posOf(alt.Ret), "'retry' returned under count %q attempts (want <=) with a RetryRequestAction=%v", op, okA)
				case "failed":
					nFail++
					ra := litField(alt.Val, "RespAction")
					r.Check(op == ">" && domInstr(rems[0], alt.Ret) && ra == nil, "R1", "Execute/failed-clears-sequence", posOf(alt.Ret), "'failed' returned under count %q attempts (want >) after removeCount=%v, without a retry action=%v", op, domInstr(rems[0], alt.Ret), ra == nil)
				default:
					r.Fail("R1", "Execute/unknown-output", posOf(alt.Ret), "unexpected output name %q", s)
				}
			}
			if nRetry != 1 || nFail != 1 {
				r.Undec("R1", "Execute/outputs", ex.Pos(), "expected one 'retry' and one 'failed' return, found %d/%d", nRetry, nFail)
			}
			// removeCount only on the failed edge
			op, _ := FindRel(Rels(rems[0].Block()), isCnt, isAtt)
			r.Check(op == ">", "R1", "Execute/remove-only-when-exhausted", posOf(rems[0]), "removeCount executes under count %q attempts (want >)", op)
		}
	}
	if inc := w.Fn(pkgRetry, "retryProcessor.incrementRetryCount"); inc == nil {
		r.Undec("R1", "incrementRetryCount", token.NoPos, "function not found")
	} else {
		sets := CallsIn(inc, false, "ContextI).Set")
		gets := CallsIn(inc, false, "ContextI).Get")
		ok := len(sets) == 1 && len(gets) == 1
		if ok {
			stored := margs(sets[0])[1]
			b, isB := peel(stored).(*ssa.BinOp)
			ok = isB && b.Op == token.ADD && isIntConst(b.Y, 1) && Path(margs(sets[0])[0]) == "param:counterKey" && Path(margs(gets[0])[0]) == "param:counterKey" &&
				Path(sets[0].Common().Value) == Path(gets[0].Common().Value) && strings.Contains(Path(sets[0].Common().Value), "GetFlowContext(") &&
				onEveryPathToReturn(sets[0]) // the new count is stored whatever its value
			if ok {
				ph, isPhi := b.X.(*ssa.Phi)
				ok = isPhi
				if isPhi {
					isErr := func(cs []Cond) bool {
						op, _ := FindRel(relsOfConds(cs), func(v ssa.Value) bool {
							e, ok := v.(*ssa.Extract)
							return ok && e.Tuple == gets[0].Value() && e.Index == 1
						}, isNilConst)
						return op == "!="
					}
					y, n := phiEdgesWhere(ph, isErr)
					ok = len(y) == 1 && len(n) == 1 && isIntConst(y[0], 0) && Derives(n[0], func(x ssa.Value) bool { return x == gets[0].Value() })
				}
				for _, alt := range ReturnAlts(inc, 0) {
					if peel(alt.Val) != peel(stored) {
						ok = false
					}
				}
			}
		}
		r.Check(ok, "R1", "incrementRetryCount/load-plus-one-stored-and-returned", inc.Pos(), "returns and stores flowContext[counterKey]+1 (0 when the key is absent)")
	}
	if rm := w.Fn(pkgRetry, "retryProcessor.removeCount"); rm != nil {
		pops := CallsIn(rm, false, "ContextI).Pop")
		ok := len(pops) == 1 && Path(margs(pops[0])[0]) == "param:counterKey" && strings.Contains(Path(pops[0].Common().Value), "GetFlowContext(") && len(CondsOf(pops[0].Block())) == 0
		r.Check(ok, "R1", "removeCount/pops-given-key", rm.Pos(), "removeCount pops exactly the key it was given from the flow context")
	} else {
		r.Undec("R1", "removeCount", token.NoPos, "function not found")
	}
	if gk := w.Fn(pkgRetry, "retryProcessor.getCounterKey"); gk != nil {
		for _, alt := range ReturnAlts(gk, 0) {
			ok := Derives(alt.Val, func(x ssa.Value) bool { return Path(x) == "param:p.name" }) && Derives(alt.Val, func(x ssa.Value) bool { return Path(x) == "param:reqID" })
			r.Check(ok, "R1", "getCounterKey/name-and-sequence", posOf(alt.Ret), "key derives from the processor name and the given id")
		}
	}
	if in := w.Fn(pkgRetry, "retryProcessor.init"); in != nil {
		// some error return is guarded by attempts < 1
		ok := false
		for _, alt := range ReturnAlts(in, 0) {
			if isNilConst(alt.Val) {
				continue
			}
			for _, rel := range relsOfConds(alt.Conds) {
				if Path(rel.L) == "param:p.attempts" {
					if k, isK := constInt(rel.R); isK && ((rel.Op == "<" && k == 1) || (rel.Op == "<=" && k == 0)) {
						ok = true
					}
				}
			}
		}
		r.Check(ok, "R1", "init/rejects-attempts-below-one", in.Pos(), "init returns an error when attempts < 1")
	} else {
		r.Undec("R1", "retryProcessor.init", token.NoPos, "function not found")
	}

	// R2 policy mode
	on := w.Fn(pkgRemedies, "RetryPlugin.OnResponse")
	if on == nil {
		r.Undec("R2", "RetryPlugin.OnResponse", token.NoPos, "function not found")
	} else {
		isStatus := func(v ssa.Value) bool { return strings.HasSuffix(Path(v), "onResponse.Status") }
		inRange := func(cs []Cond) bool {
			rs := relsOfConds(cs)
			a, _ := FindRel(rs, isStatus, func(v ssa.Value) bool { return strings.HasSuffix(Path(v), ".From") })
			b, _ := FindRel(rs, isStatus, func(v ssa.Value) bool { return strings.HasSuffix(Path(v), ".To") })
			return a == ">=" && b == "<="
		}
		gets := CallsIn(on, false, "utils.Cache).Get", "MemoryCache).Get")
		sets := CallsIn(on, false, "utils.Cache).Set", "MemoryCache).Set")
		dels := CallsIn(on, false, "utils.Cache).Del", "MemoryCache).Del")
		isSeq := func(v ssa.Value) bool { return strings.HasSuffix(Path(v), "onResponse.SequenceID") }
		if len(gets) != 1 || len(sets) != 1 || len(dels) != 2 {
			r.Undec("R2", "OnResponse/cache-ops", on.Pos(), "expected 1 Get, 1 Set, 2 Del; found %d/%d/%d", len(gets), len(sets), len(dels))
		} else {
			okKeys := isSeq(margs(gets[0])[0]) && isSeq(margs(sets[0])[0]) && isSeq(margs(dels[0])[0]) && isSeq(margs(dels[1])[0])
			r.Check(okKeys, "R2", "OnResponse/state-keyed-by-sequence", posOf(gets[0]), "retry state is read, written and deleted under onResponse.SequenceID (Get %s, Set %s)", trunc(Path(margs(gets[0])[0]), 40), trunc(Path(margs(sets[0])[0]), 40))
			found := func(pol bool) VP {
				return func(v ssa.Value) bool {
					e, ok := v.(*ssa.Extract)
					return ok && e.Tuple == gets[0].Value() && e.Index == 1
				}
			}
			nMod := 0
			var loopDel, tailDel ssa.CallInstruction
			for _, d := range dels {
				if inRange(CondsOf(d.Block())) {
					loopDel = d
				} else {
					tailDel = d
				}
			}
			for _, alt := range ReturnAlts(on, 0) {
				a, isAlloc := peel(alt.Val).(*ssa.Alloc)
				if !isAlloc {
					continue
				}
				switch structOf(a.Type()) {
				case "ModifyResponseAction":
					nMod++
					r.Check(inRange(alt.Conds), "R2", "OnResponse/retry-only-in-range", posOf(alt.Ret), "a retry action is returned only on From <= status <= To")
				case "NoOpAction":
					if inRange(alt.Conds) {
						// "not new": !onResponse.IsNewSequence(), or its meaning written out (ID != SequenceID)
						notNew := condsHave(alt.Conds, false, func(v ssa.Value) bool { return isCallTo0(v, "OnResponse).IsNewSequence") })
						for _, rel := range relsOfConds(alt.Conds) {
							l, rr := typedField(rel.L), typedField(rel.R)
							if rel.Op == "!=" && (l == "OnResponse.ID" && rr == "OnResponse.SequenceID" || l == "OnResponse.SequenceID" && rr == "OnResponse.ID") {
								notNew = true
							}
						}
						ok := condsHave(alt.Conds, false, found(false)) && notNew
						r.Check(ok, "R2", "OnResponse/unknown-old-sequence-not-retried", posOf(alt.Ret), "inside a range NoOp is returned exactly for a sequence that has no state and is not new")
					} else {
						r.Check(tailDel != nil && domInstr(tailDel, alt.Ret), "R2", "OnResponse/out-of-range-clears-state", posOf(alt.Ret), "a status outside every range deletes the sequence state before NoOp is returned")
					}
				}
			}
			if nMod != 1 {
				r.Undec("R2", "OnResponse/retry-return", on.Pos(), "expected one retry-action return, found %d", nMod)
			}
			// decrement
			upd := margs(sets[0])[1]
			al := litField(upd, "attemptsLeft")
			okDec := false
			var statePhi *ssa.Phi
			if b, ok := al.(*ssa.BinOp); ok && b.Op == token.SUB && isIntConst(b.Y, 1) {
				// the minuend is retryState.attemptsLeft of the phi(state from cache | fresh literal)
				okDec = strings.HasSuffix(Path(b.X), ".attemptsLeft")
				Derives(b.X, func(x ssa.Value) bool {
					if ph, ok := x.(*ssa.Phi); ok {
						statePhi = ph
					}
					return false
				})
			}
			r.Check(okDec, "R2", "OnResponse/attempts-decrease-by-one", posOf(sets[0]), "stored attemptsLeft = %s (want previous attemptsLeft - 1)", Path(al))
			okInit := Derives(al, func(x ssa.Value) bool { return strings.HasSuffix(Path(x), "remedyConfig.Attempts") }) && Derives(al, func(x ssa.Value) bool { return x == gets[0].Value() })
			_ = statePhi
			r.Check(okInit, "R2", "OnResponse/initial-attempts-from-config", posOf(sets[0]), "the state is the cached one or a fresh one with attemptsLeft = remedyConfig.Attempts")
			// Del when < 1, Set otherwise
			var updAlloc ssa.Value
			if u, ok := peel(upd).(*ssa.UnOp); ok {
				updAlloc = u.X
			}
			isLeft := func(v ssa.Value) bool {
				if v == al {
					return true
				}
				if u, ok := v.(*ssa.UnOp); ok {
					if fa, ok := u.X.(*ssa.FieldAddr); ok && fa.X == updAlloc && fieldName(fa.X.Type(), fa.Field) == "attemptsLeft" {
						return true
					}
				}
				return false
			}
			one := func(v ssa.Value) bool { return isIntConst(v, 1) }
			opD := ""
			if loopDel != nil {
				opD, _ = FindRel(Rels(loopDel.Block()), isLeft, one)
			}
			opS, _ := FindRel(Rels(sets[0].Block()), isLeft, one)
			r.Check(opD == "<" && opS == ">=", "R2", "OnResponse/forget-when-exhausted", posOf(sets[0]), "state deleted under attemptsLeft %q 1 and stored under attemptsLeft %q 1 (want <, >=)", opD, opS)
		}
	}
	// R3 state store
	cacheCore(w, r, la, false)
	c17Wiring(w, r)
	c17Helpers(w, r)
	r.Min("R3", 2)
	r.Min("R1", 8)
	r.Min("R2", 7)
}

// c17Wiring: (a) the retry plugin's sequence store can never refuse a write
// (no size bound is configured on it: WithMaxCacheSize is called by the
// reviewed callers only), (b) the synthetic response built for a
// gateway-generated early response carries the request's own sequence id - and
// every other field from the field of the same name.
func c17Wiring(w *World, r *Report) {
	allowed := map[string]string{"(*lunar/engine/services/remedies.CachingPlugin).OnResponse": "the caching remedy bounds its response cache (C12.R5)"}
	n := 0
	for _, cs := range w.CallSites("utils.Cache).WithMaxCacheSize", "MemoryCache).WithMaxCacheSize") {
		id := fnID(outermost(cs.Fn))
		if strings.Contains(id, "/test") || strings.HasSuffix(cs.Fn.Prog.Fset.Position(cs.In.Pos()).Filename, "_test.go") {
			continue
		}
		n++
		why, ok := allowed[id]
		r.Check(ok, "R3", "state-store-unbounded/WithMaxCacheSize-caller/"+shortFn(id), posOf(cs.In), "a size bound is configured by %s (%s): a bounded store refuses Set when full, and the retry plugin only logs that error, so a tracked sequence would keep its old attempts budget", shortFn(id), why)
	}
	if n == 0 {
		r.Undec("R3", "state-store-unbounded/callers", token.NoPos, "no WithMaxCacheSize call site found (positive example missing)")
	}
	if np := w.Fn(pkgRemedies, "NewRetryPlugin"); np == nil {
		r.Undec("R3", "NewRetryPlugin", token.NoPos, "constructor not found")
	} else {
		ok := len(CallsIn(np, true, "WithMaxCacheSize")) == 0
		for _, alt := range ReturnAlts(np, 0) {
			c := litField(alt.Val, "cache")
			ok = ok && c != nil && Derives(c, func(x ssa.Value) bool { return isCallTo0(x, "utils.NewMemoryCache") })
		}
		r.Check(ok, "R3", "state-store-unbounded/NewRetryPlugin", np.Pos(), "the retry plugin's state store is a fresh MemoryCache without a size bound")
	}
	om := w.Fn(pkgRunner, "obtainModifiedEarlyResponse")
	if om == nil {
		r.Undec("R2", "obtainModifiedEarlyResponse", token.NoPos, "function not found")
		return
	}
	var lit *ssa.Alloc
	Instrs(om, func(in ssa.Instruction) {
		if a, ok := in.(*ssa.Alloc); ok && structOf(a.Type()) == "OnResponse" {
			lit = a
		}
	})
	if lit == nil {
		r.Undec("R2", "obtainModifiedEarlyResponse/literal", om.Pos(), "synthetic OnResponse literal not found")
		return
	}
	st := deref(lit.Type()).Underlying().(*types.Struct)
	var wrong []string
	copied := 0
	for i := 0; i < st.NumFields(); i++ {
		dst := st.Field(i).Name()
		v := litField(lit, dst)
		if v == nil {
			continue
		}
		// a plain copy of a field of another struct value
		var srcField string
		var srcType types.Type
		switch x := peel(v).(type) {
		case *ssa.UnOp:
			if fa, ok := x.X.(*ssa.FieldAddr); ok && x.Op == token.MUL {
				srcField, srcType = fieldName(fa.X.Type(), fa.Field), fa.X.Type()
			}
		case *ssa.Field:
			srcField, srcType = fieldName(x.X.Type(), x.Field), x.X.Type()
		}
		if srcField == "" {
			continue
		}
		copied++
		if srcField != dst && hasField(srcType, dst) {
			wrong = append(wrong, dst+" <- "+Path(v))
		}
	}
	seq := litField(lit, "SequenceID")
	okSeq := seq != nil && strings.HasSuffix(Path(seq), "onRequest.SequenceID")
	r.Check(len(wrong) == 0 && okSeq && copied >= 5, "R2", "synthetic-response/fields-copied-from-same-named-fields", lit.Pos(),
		"the OnResponse built for a gateway-generated early response copies each field from the field of the same name (SequenceID <- %s); mismatches: %v", Path(seq), wrong)
}

func hasField(t types.Type, name string) bool {
	st, ok := deref(t).Underlying().(*types.Struct)
	if !ok {
		return false
	}
	for i := 0; i < st.NumFields(); i++ {
		if st.Field(i).Name() == name {
			return true
		}
	}
	return false
}

// sameNameCopyMismatches inspects the composite literal held by alloc: a
// destination field whose value is computed from exactly ONE field of one
// source struct must take it from the field of the same name whenever the
// source has one ("wrong variable of the same type").
func sameNameCopyMismatches(lit *ssa.Alloc) (mismatches []string, copied int) {
	st, ok := deref(lit.Type()).Underlying().(*types.Struct)
	if !ok {
		return nil, 0
	}
	for i := 0; i < st.NumFields(); i++ {
		dst := st.Field(i).Name()
		v := litField(lit, dst)
		if v == nil {
			continue
		}
		type src struct {
			field string
			typ   types.Type
		}
		seen := map[string]src{}
		Derives(v, func(x ssa.Value) bool {
			switch y := x.(type) {
			case *ssa.FieldAddr:
				if _, n := namedOf(y.X.Type()); n != "" {
					seen[fieldName(y.X.Type(), y.Field)] = src{fieldName(y.X.Type(), y.Field), y.X.Type()}
				}
			case *ssa.Field:
				if _, n := namedOf(y.X.Type()); n != "" {
					seen[fieldName(y.X.Type(), y.Field)] = src{fieldName(y.X.Type(), y.Field), y.X.Type()}
				}
			}
			return false
		})
		if len(seen) != 1 {
			continue
		}
		for _, s := range seen {
			copied++
			if s.field != dst && hasField(s.typ, dst) {
				mismatches = append(mismatches, dst+" <- ."+s.field)
			}
		}
	}
	return mismatches, copied
}

// c17Helpers: helpers the retry bookkeeping stands on: the context's Pop really
// removes the key (the retry processor forgets an exhausted sequence with it),
// and a response opens a new sequence exactly when its id equals its sequence id.
func c17Helpers(w *World, r *Report) {
	if pop := w.Fn(pkgLctx, "contextMemory.Pop"); pop == nil {
		r.Undec("R1", "contextMemory.Pop", token.NoPos, "function not found")
	} else {
		lad := CallsIn(pop, false, "sync.Map).LoadAndDelete")
		ld := CallsIn(pop, false, "sync.Map).Load")
		ok := len(lad) == 1 && len(ld) == 0
		if ok {
			for _, alt := range ReturnAlts(pop, 0) {
				if !isNilConst(alt.Val) && !Derives(alt.Val, func(x ssa.Value) bool { return x == lad[0].Value() }) {
					ok = false
				}
			}
		}
		r.Check(ok, "R1", "contextMemory.Pop/removes-what-it-returns", pop.Pos(), "Pop is LoadAndDelete on the context map (a key that is popped is gone: removeCount of an exhausted retry sequence relies on it)")
	}
	for _, c := range []struct{ pkg, fn string }{{"lunar/engine/messages", "OnResponse.IsNewSequence"}, {"lunar/engine/streams/types", "OnResponse.IsNewSequence"}, {"lunar/engine/streams/types", "OnRequest.IsNewSequence"}} {
		f := w.Fn(c.pkg, c.fn)
		if f == nil {
			continue
		}
		ok, n := true, 0
		for _, alt := range ReturnAlts(f, 0) {
			n++
			rel, isRel := NormCond(Cond{V: alt.Val, Pol: true})
			if !isRel || rel.Op != "==" || len(alt.Conds) != 0 {
				ok = false
				continue
			}
			l, rr := Path(rel.L), Path(rel.R)
			if !(strings.HasSuffix(l, ".ID") && strings.HasSuffix(rr, ".SequenceID") || strings.HasSuffix(rr, ".ID") && strings.HasSuffix(l, ".SequenceID")) {
				ok = false
			}
		}
		r.Check(ok && n == 1, "R2", "IsNewSequence/"+shortFn(fnID(f)), f.Pos(), "a transaction is a new sequence exactly when ID == SequenceID (nothing else - an empty sequence id is not a fresh start)")
	}
}
