package main

import (
	_ "embed"
	"encoding/json"
	"sort"

	"golang.org/x/tools/go/ssa"
)

// Rule tables identify parameters, captured variables and address-taken
// locals by the name they had when the rule instance was reviewed. A rename
// leaves behaviour unchanged, so names are canonicalised by position: the
// table below records, per function, the reviewed names (with types) of the
// parameters and of the named allocations in source order. When the current
// function has the same number of parameters (named allocations) with the same
// types, the reviewed name at the same index is used; otherwise the current
// name is used as is. Identity is positional either way - the name is only the
// label the tables are written in.

//go:embed names.json
var namesJSON []byte

type fnNames struct {
	Params   []string `json:"params,omitempty"` // "name|type"
	Locals   []string `json:"locals,omitempty"`
	Closures int      `json:"closures,omitempty"` // number of function literals inside (adopt.go)
}

var frozenNames map[string]fnNames
var canonCache = map[*ssa.Function]*canonFn{}

type canonFn struct {
	param map[*ssa.Parameter]string
	local map[*ssa.Alloc]string
}

// inventoryComplete: the table lists every function (tables written before
// adopt.go existed listed only functions with parameters or named locals).
var inventoryComplete bool

func init() {
	frozenNames = map[string]fnNames{}
	if len(namesJSON) > 0 {
		_ = json.Unmarshal(namesJSON, &frozenNames)
	}
	for _, n := range frozenNames {
		if len(n.Params) == 0 && len(n.Locals) == 0 {
			inventoryComplete = true
			break
		}
	}
}

func namedAllocs(f *ssa.Function) []*ssa.Alloc {
	var out []*ssa.Alloc
	for _, b := range f.Blocks {
		for _, in := range b.Instrs {
			if a, ok := in.(*ssa.Alloc); ok && a.Comment != "" && a.Pos().IsValid() {
				out = append(out, a)
			}
		}
	}
	sort.SliceStable(out, func(i, j int) bool { return out[i].Pos() < out[j].Pos() })
	return out
}

func split2(s string) (string, string) {
	for i := 0; i < len(s); i++ {
		if s[i] == '|' {
			return s[:i], s[i+1:]
		}
	}
	return s, ""
}

func currentNames(f *ssa.Function) fnNames {
	var n fnNames
	for _, p := range f.Params {
		n.Params = append(n.Params, p.Name()+"|"+p.Type().String())
	}
	for _, a := range namedAllocs(f) {
		n.Locals = append(n.Locals, a.Comment+"|"+a.Type().String())
	}
	return n
}

func canonOf(f *ssa.Function) *canonFn {
	if c, ok := canonCache[f]; ok {
		return c
	}
	c := &canonFn{param: map[*ssa.Parameter]string{}, local: map[*ssa.Alloc]string{}}
	canonCache[f] = c
	if f.Synthetic != "" && f.Origin() == nil {
		return c // wrappers and thunks: not source functions
	}
	if o := origin(f); o != f {
		// instantiation of a generic function: same positions as its origin
		if len(o.Params) == len(f.Params) {
			for i, p := range f.Params {
				c.param[p] = canonParam(o.Params[i])
			}
		}
		oa, fa := namedAllocs(o), namedAllocs(f)
		if len(oa) == len(fa) {
			for i, a := range fa {
				c.local[a] = canonLocal(oa[i])
			}
		}
		return c
	}
	fz, ok := frozenNames[fnID(f)]
	if !ok {
		return c
	}
	if len(fz.Params) == len(f.Params) {
		same := true
		for i, p := range f.Params {
			if _, t := split2(fz.Params[i]); t != p.Type().String() {
				same = false
			}
		}
		if same {
			for i, p := range f.Params {
				n, _ := split2(fz.Params[i])
				c.param[p] = n
			}
		}
	}
	as := namedAllocs(f)
	if len(fz.Locals) == len(as) {
		// 1. a local that still has its reviewed name and type is itself, wherever it
		//    is declared now (moving a declaration is not a rename)
		left := map[string][]int{}
		for i, e := range fz.Locals {
			left[e] = append(left[e], i)
		}
		usedF := map[int]bool{}
		var restA []*ssa.Alloc
		for _, a := range as {
			k := a.Comment + "|" + a.Type().String()
			if q := left[k]; len(q) > 0 {
				usedF[q[0]] = true
				left[k] = q[1:]
				c.local[a] = a.Comment
			} else {
				restA = append(restA, a)
			}
		}
		// 2. the others were renamed: reviewed names of the remaining entries, in
		//    source order, when the types agree
		var restF []string
		for i, e := range fz.Locals {
			if !usedF[i] {
				restF = append(restF, e)
			}
		}
		same := len(restF) == len(restA)
		if same {
			for i, a := range restA {
				if _, t := split2(restF[i]); t != a.Type().String() {
					same = false
				}
			}
		}
		if same {
			for i, a := range restA {
				n, _ := split2(restF[i])
				c.local[a] = n
			}
		}
	}
	return c
}

func canonParam(p *ssa.Parameter) string {
	if f := p.Parent(); f != nil {
		if n, ok := canonOf(f).param[p]; ok {
			return n
		}
	}
	return p.Name()
}

func canonLocal(a *ssa.Alloc) string {
	if f := a.Parent(); f != nil {
		if n, ok := canonOf(f).local[a]; ok {
			return n
		}
	}
	return a.Comment
}

// canonFree names a captured variable after the value it is bound to in the
// enclosing function.
func canonFree(fv *ssa.FreeVar) string {
	f := fv.Parent()
	if f == nil || f.Parent() == nil {
		return fv.Name()
	}
	idx := -1
	for i, x := range f.FreeVars {
		if x == fv {
			idx = i
		}
	}
	if idx < 0 {
		return fv.Name()
	}
	for _, b := range f.Parent().Blocks {
		for _, in := range b.Instrs {
			mc, ok := in.(*ssa.MakeClosure)
			if !ok || mc.Fn != ssa.Value(f) || idx >= len(mc.Bindings) {
				continue
			}
			switch x := mc.Bindings[idx].(type) {
			case *ssa.Alloc:
				if x.Comment != "" {
					return canonLocal(x)
				}
			case *ssa.Parameter:
				return canonParam(x)
			case *ssa.FreeVar:
				return canonFree(x)
			}
		}
	}
	return fv.Name()
}

// genNames prints the table for the current tree.
func genNames(w *World) []byte {
	out := map[string]fnNames{}
	for _, f := range w.lunarFns {
		if origin(f) != f || f.Synthetic != "" {
			continue
		}
		// every function is listed (also without parameters and locals): the table is
		// the inventory of reviewed functions as well (adopt.go)
		n := currentNames(f)
		if f.Parent() == nil {
			n.Closures = len(Anons(f)) - 1
		}
		out[fnID(f)] = n
	}
	b, _ := json.MarshalIndent(out, "", " ")
	return append(b, '\n')
}
