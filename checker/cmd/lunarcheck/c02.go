package main

import (
	"go/token"
	"os"
	"path/filepath"
	"strings"

	"golang.org/x/tools/go/ssa"
)

const (
	pkgResources = "lunar/engine/streams/resources"
	pkgStream    = "lunar/engine/streams/stream"
	pkgStreams   = "lunar/engine/streams"
	pkgRouting   = "lunar/engine/routing"
)

func init() {
	register(&Property{
		ID:   "C02",
		Mods: []string{modEngine, modAgg},
		Explanation: "Decides structural necessary conditions of the concurrency quota, not the in-flight count over interleavings: " +
			"(R1) add-if-below-max: the member is appended only on the edge len(set) < maxAllowed, inside the memoryState mutex together with the set initialisation; (R2) only Inc adds and only Dec/GC remove members; " +
			"(R3) the quota's system flow puts QuotaProcessorInc at request start and QuotaProcessorDec at response end for this quota id, and the Dec processor calls quota.Dec; " +
			"(R4) an early-response action triggers OnRequestDrop before the flow returns; (R5) the proxy-error handler calls OnError -> OnRequestDrop for every reported id; " +
			"(R6) OnRequestDrop uses the single-winner Pop and Decs only what it popped, GetQuota records the first reqID->quota association only; " +
			"(R7) GC goroutine is started, sweeps on every gcInterval tick, removes exactly members that expired or whose instance left, member encodes now+requestExpireTime+delta::reqID::instance and is parsed back from the same positions; " +
			"(R8) Dec removes the recorded member when the request was admitted, propagates to the parent, forgets the request; the maximum reaches the comparison unmodified from configuration; (R9) an admitted request is recorded (status+member) on every nil-returning path. " +
			"NOT decided: that expiry happens within a time bound, multi-gateway behaviour, linearisability of Inc/Dec histories.",
		RuleText: "obligation = (rule, anchored construct) on SSA of the current tree: edge-dominance, must-lockset, who-calls inventory, literal/provenance checks, return-alternative conditions",
		Run:      runC02,
	})
}

var c02KeptWhen = []string{
	"true <= !(param:cs.clusterLiveness == nil) ; (0 < param:member.ExpiryTime) ; (interfaces.ClusterLivenessI).IsPartOfCluster(param:cs.clusterLiveness, param:member.InstanceID)",
	"true <= (0 < param:member.ExpiryTime) ; (param:cs.clusterLiveness == nil)",
}

func runC02(w *World, r *Report) {
	hrConcurrentAllowed(w, r, "R6")
	hrNotFoundOnlyWhenAbsent(w, r, "R6")
	hrMemberDelimiter(w, r, "R7")
	hrOnErrorWireFormat(w, r, "R6")
	hrEarlyReturnTypes(w, r, "R6")
	hrChildStrategyKeepsParent(w, r, "R6")
	hrParentWalk(w, r, "R6")
	hrCacheFailureDoesNotFailTheTransaction(w, r, "R6")
	hrOnErrorRecords(w, r, "R6")
	hrToComparable(w, r, "R6")
	hrLimiterRegisters(w, r, "R6")
	hrDiscoveryRunOrder(w, r, "R5")
	// the system flows of a quota are selected like any flow: the qualifier tables of C03.R4
	r.Borrow(w, runC03, map[string]string{"R4": "R6", "R9": "R6"})
	hrIncUsesTransactionID(w, r, "R6")
	la := NewLockAn(w)
	atomicOnly := func(id string) bool {
		for _, m := range []string{"AtomicSAddWithMaxValuesAllowed", "SCard", "SMembers", "SRem"} {
			if idMatches(id, "memoryState)."+m) {
				return true
			}
		}
		return false
	}
	checkGB(w, r, la, "R1", []GuardRow{
		{Pkg: pkgLctx, Struct: "memoryState", Fields: []string{"contextMemory"}, Mutex: "mutex", MinSites: 10, Only: atomicOnly},
		{Pkg: pkgQuota, Struct: "concurrentStrategy", Fields: []string{"allowedReq"}, Mutex: "mutex", MinSites: 6},
	})

	// R1 add-if-below-max
	if sadd := w.Fn(pkgLctx, "memoryState.AtomicSAddWithMaxValuesAllowed"); sadd == nil {
		r.Undec("R1", "AtomicSAdd", token.NoPos, "function not found")
	} else {
		isLen := func(v ssa.Value) bool {
			p := Path(v)
			return strings.HasPrefix(p, "builtin.len(assert((public-types.ContextI).Get(param:p.contextMemory, param:key)#0))")
		}
		isMaxA := pathRe(`^param:maxAllowed$`)
		nApp := 0
		for _, c := range CallsIn(sadd, false, "ContextI).Set") {
			val := c.Common().Args[1]
			if isCallTo0(val, "builtin.append") {
				nApp++
				rels := Rels(c.Block())
				op, _ := FindRel(rels, isLen, isMaxA)
				okVal := strings.HasPrefix(Path(val), "builtin.append(assert((public-types.ContextI).Get(param:p.contextMemory, param:key)#0)") && Derives(val, func(x ssa.Value) bool { return Path(x) == "param:value" })
				r.Check(op == "<" && okVal && Path(c.Common().Args[0]) == "param:key", "R1", "AtomicSAdd/append-guard", posOf(c), "member appended under len(set) %q maxAllowed (want <), stored value = set+value: %v", op, okVal)
			} else {
				ok := condsHave(CondsOf(c.Block()), false, func(v ssa.Value) bool {
					return isCallTo0(v, "ContextI).Exists") && strings.HasSuffix(Path(v), "param:key)")
				})
				r.Check(ok, "R1", "AtomicSAdd/init-only-when-absent", posOf(c), "the empty set is created only when the key does not exist yet")
			}
		}
		if nApp != 1 {
			r.Undec("R1", "AtomicSAdd/append-site", sadd.Pos(), "expected one append-store, found %d", nApp)
		}
		for _, alt := range ReturnAlts(sadd, 0) {
			b, isC := constBool(alt.Val)
			if !isC {
				r.Fail("R1", "AtomicSAdd/result", posOf(alt.Ret), "non-constant admission result %s", Path(alt.Val))
				continue
			}
			if b {
				op, _ := FindRel(relsOfConds(alt.Conds), isLen, isMaxA)
				stored := false
				for _, c := range CallsIn(sadd, false, "ContextI).Set") {
					if isCallTo0(c.Common().Args[1], "builtin.append") && domInstr(c, alt.Ret) {
						stored = true
					}
				}
				r.Check(op == "<" && stored, "R1", "AtomicSAdd/true-only-after-store", posOf(alt.Ret), "true returned under len %q max after the store=%v", op, stored)
			}
		}
	}

	// R2 callers
	for _, cs := range w.CallSites("SharedStateI).AtomicSAddWithMaxValuesAllowed") {
		id := fnID(outermost(cs.Fn))
		r.Check(idMatches(id, "concurrentStrategy).Inc"), "R2", "callers(AtomicSAdd)/"+shortFn(id), posOf(cs.In), "AtomicSAddWithMaxValuesAllowed called from %s", id)
		a := cs.In.Common().Args
		ok := Path(a[0]) == "param:cs.concurrentSetKey" && Path(a[2]) == "param:cs.maxRequestCount" && isCallTo0(a[1], "concurrentStrategy).generateMember")
		r.Check(ok, "R8", "Inc/SAdd-args", posOf(cs.In), "SAdd(%s, %s, %s)", Path(a[0]), trunc(Path(a[1]), 80), Path(a[2]))
		if ok {
			g := peel(a[1]).(*ssa.Call)
			okG := strings.HasSuffix(Path(g.Call.Args[1]), "GetID(param:APIStream)") && Path(g.Call.Args[2]) == "param:cs.requestExpireTime"
			r.Check(okG, "R7", "Inc/member-ttl", posOf(g), "member built with generateMember(%s, %s) (want the request id and cs.requestExpireTime)", trunc(Path(g.Call.Args[1]), 60), Path(g.Call.Args[2]))
		}
	}
	for _, cs := range w.CallSites("SharedStateI).SRem") {
		id := fnID(outermost(cs.Fn))
		if !strings.Contains(id, "quota.concurrentStrategy") {
			continue
		}
		ok := idMatches(id, "concurrentStrategy).Dec") || idMatches(id, "concurrentStrategy).validateMemberIntegrity")
		r.Check(ok && Path(cs.In.Common().Args[0]) == "param:cs.concurrentSetKey", "R2", "callers(SRem)/"+shortFn(id), posOf(cs.In), "SRem on %s from %s", Path(cs.In.Common().Args[0]), id)
	}

	c02SystemFlow(w, r)
	c02Release(w, r)
	c02Expiry(w, r)
	c02IncDec(w, r)
	r.Min("R1", 7)
	r.Min("R2", 3)
	r.Min("R3", 6)
	r.Min("R4", 2)
	r.Min("R5", 3)
	r.Min("R6", 4)
	r.Min("R7", 8)
	r.Min("R8", 5)
	c02ConfigGetters(w, r)
	c02TransactionIdentity(w, r)
	r.Min("R9", 2)
}

func c02SystemFlow(w *World, r *Report) {
	incN, decN := w.constOf(pkgQuota, "quotaProcessorInc"), w.constOf(pkgQuota, "quotaProcessorDec")
	procName := func(v ssa.Value) string {
		c, ok := peel(v).(*ssa.Call)
		if !ok || !isCallTo(c, "concurrentStrategy).buildProcName") {
			return ""
		}
		if isConstVal(c.Call.Args[1], incN) {
			return "inc"
		}
		if isConstVal(c.Call.Args[1], decN) {
			return "dec"
		}
		return ""
	}
	if gp := w.Fn(pkgQuota, "concurrentStrategy.getProcessors"); gp == nil {
		r.Undec("R3", "getProcessors", token.NoPos, "function not found")
	} else {
		seen := map[string]bool{}
		Instrs(gp, func(in ssa.Instruction) {
			mu, ok := in.(*ssa.MapUpdate)
			if !ok {
				return
			}
			k := procName(mu.Key)
			seen[k] = true
			want := incN
			if k == "dec" {
				want = decN
			}
			pf := litField(mu.Value, "Processor")
			qid := Derives(mu.Value, func(x ssa.Value) bool { return Path(x) == "param:cs.quotaID" })
			r.Check(k != "" && isConstVal(pf, want) && qid && procName(litField(mu.Value, "Key")) == k, "R3", "getProcessors/"+k, posOf(mu), "system processor %q has Processor=%s, key=buildProcName(same), quota_id from cs.quotaID=%v", k, Path(pf), qid)
		})
		if !seen["inc"] || !seen["dec"] {
			r.Undec("R3", "getProcessors/both", gp.Pos(), "expected both the Inc and the Dec system processors (inc=%v dec=%v)", seen["inc"], seen["dec"])
		}
	}
	if gl := w.Fn(pkgQuota, "concurrentStrategy.getProcessorsLocation"); gl == nil {
		r.Undec("R3", "getProcessorsLocation", token.NoPos, "function not found")
	} else {
		for _, alt := range ReturnAlts(gl, 0) {
			req, resp := litField(alt.Val, "Request"), litField(alt.Val, "Response")
			has := func(v ssa.Value, field, kind string) bool {
				f := litField(v, field)
				return f != nil && Derives(f, func(x ssa.Value) bool { return procName(x) == kind })
			}
			r.Check(req != nil && has(req, "Start", "inc"), "R3", "getProcessorsLocation/request-start-inc", posOf(alt.Ret), "Request.Start holds the Inc system processor")
			r.Check(resp != nil && has(resp, "End", "dec"), "R3", "getProcessorsLocation/response-end-dec", posOf(alt.Ret), "Response.End holds the Dec system processor")
		}
	}
	if in := w.Fn(pkgQuota, "concurrentStrategy.init"); in != nil {
		st := fieldStores(in, "systemFlowData")
		ok := len(st) == 1 && isCallTo0(litField(st[0].Val, "Processors"), "concurrentStrategy).getProcessors") && isCallTo0(litField(st[0].Val, "ProcessorsConnections"), "concurrentStrategy).getProcessorsLocation") &&
			Path(litField(st[0].Val, "Filter")) == "param:cs.filter"
		r.Check(ok, "R3", "init/system-flow-data", in.Pos(), "systemFlowData = {Filter: cs.filter, Processors: getProcessors(), ProcessorsConnections: getProcessorsLocation()}")
	}
	if ex := w.Fn(pkgQDec, "quotaProcessorDec.Execute"); ex == nil {
		r.Undec("R3", "quotaProcessorDec.Execute", token.NoPos, "function not found")
	} else {
		decs := CallsIn(ex, false, "QuotaResourceI).Dec")
		gq := CallsIn(ex, false, "ResourceManagementI).GetQuota")
		ok := len(decs) == 1 && len(gq) == 1 && errReturned(ex, decs[0]) && errReturned(ex, gq[0]) && Path(gq[0].Common().Args[0]) == "param:p.quotaID" &&
			condsHave(CondsOf(decs[0].Block()), true, func(v ssa.Value) bool { return Path(v) == "param:p.applyLogic" }) && Path(decs[0].Common().Args[0]) == "param:apiStream"
		r.Check(ok, "R3", "quotaProcessorDec.Execute/dec", ex.Pos(), "Dec processor releases quota p.quotaID for this stream on the applyLogic edge and returns errors")
	}
	// the Dec processor's applyLogic defaults to true unless the parameter says otherwise
	if np := w.Fn(pkgQDec, "NewProcessor"); np != nil {
		ok := false
		for _, alt := range ReturnAlts(np, 0) {
			if v := litField(alt.Val, "applyLogic"); v != nil {
				if b, isC := constBool(v); isC && b {
					ok = true
				}
			}
		}
		Instrs(np, func(in ssa.Instruction) {
			if st, isSt := in.(*ssa.Store); isSt {
				if fa, isFa := st.Addr.(*ssa.FieldAddr); isFa && fieldName(fa.X.Type(), fa.Field) == "applyLogic" {
					if b, isC := constBool(st.Val); isC && b {
						ok = true
					}
				}
			}
		})
		// ... or the processor registry definition, from which ProcessorManager fills absent parameters
		yamlDefault := registryParamDefault(w.Repo, "quota_processor_dec.yaml", "should_apply_logic")
		r.Check(ok || yamlDefault == "true", "R3", "quotaProcessorDec/applyLogic-default-true", np.Pos(), "Dec processor applies its logic by default: Go default true=%v, registry quota_processor_dec.yaml should_apply_logic default=%q (the system flow passes no should_apply_logic parameter)", ok, yamlDefault)
	}
}

// registryParamDefault reads `parameters.<param>.default` from a processor
// registry definition (plain indentation scan; the files are flat YAML).
func registryParamDefault(repo, file, param string) string {
	b, err := os.ReadFile(filepath.Join(repo, modEngine, "streams/processors/registry", file))
	if err != nil {
		return ""
	}
	lines := strings.Split(string(b), "\n")
	in := false
	indent := 0
	for _, l := range lines {
		t := strings.TrimSpace(l)
		cur := len(l) - len(strings.TrimLeft(l, " "))
		if !in {
			if t == param+":" {
				in, indent = true, cur
			}
			continue
		}
		if t == "" {
			continue
		}
		if cur <= indent {
			return ""
		}
		if strings.HasPrefix(t, "default:") {
			return strings.TrimSpace(strings.TrimPrefix(t, "default:"))
		}
	}
	return ""
}

func c02Release(w *World, r *Report) {
	// R4 early response
	if ef := w.Fn(pkgStream, "Stream.ExecuteFlow"); ef == nil {
		r.Undec("R4", "stream.ExecuteFlow", token.NoPos, "function not found")
	} else {
		drops := CallsIn(ef, false, "ResourceManagementI).OnRequestDrop")
		if len(drops) != 1 {
			r.Undec("R4", "ExecuteFlow/OnRequestDrop", ef.Pos(), "expected one OnRequestDrop call, found %d", len(drops))
		} else {
			d := drops[0]
			cs := CondsOf(d.Block())
			early := condsHave(cs, true, func(v ssa.Value) bool {
				return isCallTo0(v, "ReqLunarAction).IsEarlyReturnType") && strings.Contains(Path(v), "ReqAction")
			})
			extra := []string{}
			for _, c := range cs {
				p := Path(c.V)
				if strings.Contains(p, "IsEarlyReturnType(") || strings.Contains(p, "IsRequestActionAvailable(") || strings.Contains(p, "IsRequestType(") || strings.Contains(p, " != nil") && strings.Contains(p, "#1") {
					continue
				}
				extra = append(extra, p)
			}
			r.Check(early && len(extra) == 0 && Path(d.Common().Args[0]) == "param:apiStream", "R4", "ExecuteFlow/drop-on-early-response", posOf(d), "OnRequestDrop(apiStream) executes exactly when the processor's request action is an early return (extra conditions: %v)", extra)
			// nothing returns inside the early-return branch before the drop
			okOrder := true
			for _, b := range ef.Blocks {
				if ret, ok := b.Instrs[len(b.Instrs)-1].(*ssa.Return); ok && b != ef.Recover {
					if condsHave(CondsOf(b), true, func(v ssa.Value) bool { return isCallTo0(v, "ReqLunarAction).IsEarlyReturnType") }) && !domInstr(d, ret) {
						okOrder = false
					}
				}
			}
			// the ShortCircuit return that follows must be dominated by the branch merge, i.e. come after the drop on early-return paths
			for _, b := range ef.Blocks {
				for _, in := range b.Instrs {
					if mu, ok := in.(*ssa.Store); ok && strings.HasSuffix(Path(mu.Addr), "actions.Request.Actions") {
						if !(d.Block().Index < b.Index) {
							okOrder = false
						}
					}
				}
			}
			r.Check(okOrder, "R4", "ExecuteFlow/drop-before-return", posOf(d), "no return or action append of the request branch precedes the drop")
		}
	}
	// R5 proxy error
	hm := w.Fn(pkgRouting, "HandlingDataManager.handleOnError")
	if hm == nil {
		r.Undec("R5", "handleOnError", token.NoPos, "function not found")
	} else {
		n := 0
		for _, f := range Anons(hm) {
			for _, c := range CallsIn(f, false, "streams.Stream).OnError") {
				n++
				arg := c.Common().Args[1]
				isKey := strings.HasPrefix(Path(arg), "next(range(") && strings.Contains(Path(arg), "FailedTransactions") && strings.HasSuffix(Path(arg), "#1")
				cs := CondsOf(c.Block())
				onlyLoop := true
				for _, cd := range cs {
					p := Path(cd.V)
					if !(strings.HasPrefix(p, "next(range(") && strings.HasSuffix(p, "#0")) && !strings.Contains(p, "Decode(") && !strings.Contains(p, "req.Method") {
						onlyLoop = false
					}
				}
				r.Check(isKey && onlyLoop, "R5", "handleOnError/every-id-dropped", posOf(c), "OnError(%s) is called for every key of FailedTransactions without a skipping condition (conds %s)", trunc(Path(arg), 70), trunc(condsString(cs), 160))
			}
		}
		if n != 1 {
			r.Undec("R5", "handleOnError/call", hm.Pos(), "expected one OnError call, found %d", n)
		}
	}
	if oe := w.Fn(pkgStreams, "Stream.OnError"); oe == nil {
		r.Undec("R5", "Stream.OnError", token.NoPos, "function not found")
	} else {
		ds := CallsIn(oe, false, "ResourceManagementI).OnRequestDrop", "ResourceManagement).OnRequestDrop")
		ok := len(ds) == 1 && len(CondsOf(ds[0].Block())) == 0 && isCallTo0(ds[0].Common().Args[len(ds[0].Common().Args)-1], "NewResponseAPIStream")
		idOK := false
		for _, st := range fieldStores(oe, "ID") {
			if Path(st.Val) == "param:transactionID" {
				idOK = true
			}
		}
		r.Check(ok && idOK, "R5", "Stream.OnError/drops-transaction", oe.Pos(), "OnError unconditionally calls OnRequestDrop with a stream whose ID is the failed transaction id (id set=%v)", idOK)
	}
	if reg := w.Fn(pkgRouting, "HandlingDataManager.buildHTTPServer"); reg != nil || true {
		n := len(w.CallSites("HandlingDataManager).handleOnError"))
		r.Check(n >= 1, "R5", "routes/handle-on-error-registered", token.NoPos, "handleOnError is registered as an admin route (%d registration sites)", n)
	}
	// R6 OnRequestDrop / GetQuota
	if od := w.Fn(pkgResources, "ResourceManagement.OnRequestDrop"); od == nil {
		r.Undec("R6", "OnRequestDrop", token.NoPos, "function not found")
	} else {
		pops := CallsIn(od, false, "ContextI).Pop")
		gets := CallsIn(od, false, "ContextI).Get")
		decs := CallsIn(od, false, "QuotaResourceI).Dec")
		okPop := len(pops) == 1 && len(gets) == 0 && strings.HasSuffix(Path(pops[0].Common().Value), "rm.reqIDToQuota") && strings.HasSuffix(Path(pops[0].Common().Args[0]), "GetID(param:APIStream)")
		r.Check(okPop, "R6", "OnRequestDrop/single-winner-pop", od.Pos(), "the association is taken with Pop (load-and-delete), not Get: exactly one of several racing droppers obtains the quota")
		if len(decs) == 1 {
			rels := Rels(decs[0].Block())
			opE, _ := FindRel(rels, func(v ssa.Value) bool {
				return strings.Contains(Path(v), "ContextI).Pop(") && strings.HasSuffix(Path(v), "#1")
			}, isNilConst)
			okT := condsHave(CondsOf(decs[0].Block()), true, func(v ssa.Value) bool {
				return strings.HasPrefix(Path(v), "assert(") && strings.HasSuffix(Path(v), "#1")
			})
			fromPop := strings.Contains(Path(decs[0].Common().Value), "ContextI).Pop(")
			r.Check(opE == "==" && okT && fromPop && Path(decs[0].Common().Args[0]) == "param:APIStream", "R6", "OnRequestDrop/dec-what-was-popped", posOf(decs[0]), "Dec runs on the popped quota under err %q nil and a successful type assertion=%v", opE, okT)
		} else {
			r.Undec("R6", "OnRequestDrop/dec", od.Pos(), "expected one Dec call, found %d", len(decs))
		}
	}
	if orf := w.Fn(pkgResources, "ResourceManagement.OnResponseFinish"); orf != nil {
		ok := len(CallsIn(orf, false, "ContextI).Pop")) == 1
		r.Check(ok, "R6", "OnResponseFinish/forgets-association", orf.Pos(), "the reqID->quota association is removed when the response finished")
	}
	if gq := w.Fn(pkgResources, "ResourceManagement.GetQuota"); gq == nil {
		r.Undec("R6", "GetQuota", token.NoPos, "function not found")
	} else {
		sets := CallsIn(gq, false, "ContextI).Set")
		if len(sets) != 1 {
			r.Undec("R6", "GetQuota/set", gq.Pos(), "expected one association store, found %d", len(sets))
		} else {
			s := sets[0]
			cs := CondsOf(s.Block())
			notExists := condsHave(cs, false, func(v ssa.Value) bool {
				return isCallTo0(v, "ContextI).Exists") && strings.HasSuffix(Path(v), "param:reqID)")
			})
			op, _ := FindRel(relsOfConds(cs), pathRe(`^param:reqID$`), func(v ssa.Value) bool { s, ok := constString(v); return ok && s == "" })
			okArgs := Path(s.Common().Args[0]) == "param:reqID" && strings.Contains(Path(s.Common().Args[1]), ".GetQuota(") && strings.HasSuffix(Path(s.Common().Value), "rm.reqIDToQuota")
			r.Check(notExists && op == "!=" && okArgs, "R6", "GetQuota/first-association-kept", posOf(s), "reqID->quota is recorded under reqID %q \"\" and only when no association exists yet=%v (a later lookup of another quota must not overwrite the one that holds the slot)", op, notExists)
		}
	}
}

func c02Expiry(w *World, r *Report) {
	if ctor := w.Fn(pkgQuota, "NewConcurrentStrategy"); ctor == nil {
		r.Undec("R7", "NewConcurrentStrategy", token.NoPos, "function not found")
	} else {
		n := 0
		Instrs(ctor, func(in ssa.Instruction) {
			if g, ok := in.(*ssa.Go); ok && isCallTo(g, "concurrentStrategy).runGC") {
				n++
			}
		})
		r.Check(n == 1, "R7", "constructor/starts-gc", ctor.Pos(), "constructor starts the GC goroutine (found %d)", n)
		for _, alt := range ReturnAlts(ctor, 0) {
			if isNilConst(peel(alt.Val)) {
				continue
			}
			mx := litField(alt.Val, "maxRequestCount")
			ex := litField(alt.Val, "requestExpireTime")
			gi := litField(alt.Val, "gcInterval")
			ok := mx != nil && strings.HasSuffix(Path(mx), "Strategy.Concurrent.MaxRequestCount") && ex != nil && strings.Contains(Path(ex), "GetRequestExpiration(") && gi != nil && strings.Contains(Path(gi), "GetGCInterval(")
			r.Check(ok, "R8", "constructor/fields", posOf(alt.Ret), "maxRequestCount=%s requestExpireTime=%s gcInterval=%s", Path(mx), trunc(Path(ex), 60), trunc(Path(gi), 60))
		}
	}
	if gc := w.Fn(pkgQuota, "concurrentStrategy.runGC"); gc == nil {
		r.Undec("R7", "runGC", token.NoPos, "function not found")
	} else {
		var sel *ssa.Select
		Instrs(gc, func(in ssa.Instruction) {
			if s, ok := in.(*ssa.Select); ok {
				sel = s
			}
		})
		ok := false
		if sel != nil && sel.Blocking {
			tick := -1
			for i, st := range sel.States {
				if strings.HasSuffix(Path(st.Chan), "After(") || strings.Contains(Path(st.Chan), "clock.Clock).After(") && strings.HasSuffix(Path(st.Chan), "param:cs.gcInterval)") {
					tick = i
				}
			}
			for _, c := range CallsIn(gc, false, "concurrentStrategy).checkForExpiredRequests") {
				for _, cd := range CondsOf(c.Block()) {
					if b, isB := cd.V.(*ssa.BinOp); isB && cd.Pol && strings.HasPrefix(Path(cd.V), "(select#0 == ") {
						if k, isK := constInt(b.Y); isK && int(k) == tick {
							ok = reachableFrom(c.Block(), nil)[sel.Block()]
						}
					}
				}
			}
		}
		r.Check(ok, "R7", "runGC/sweep-on-every-tick", gc.Pos(), "runGC loops: on the clock.After(cs.gcInterval) arm it calls checkForExpiredRequests and waits again")
	}
	if cf := w.Fn(pkgQuota, "concurrentStrategy.checkForExpiredRequests"); cf != nil {
		sm := CallsIn(cf, false, "SharedStateI).SMembers")
		vm := CallsIn(cf, false, "concurrentStrategy).validateMemberIntegrity")
		em := CallsIn(cf, false, "concurrentStrategy).extractMemberFromItem")
		ok := len(sm) == 1 && len(vm) == 1 && len(em) == 1 && Path(sm[0].Common().Args[0]) == "param:cs.concurrentSetKey" &&
			strings.Contains(Path(vm[0].Common().Args[1]), "extractMemberFromItem(") && Derives(em[0].Common().Args[1], func(x ssa.Value) bool { return x == sm[0].Value() })
		r.Check(ok, "R7", "checkForExpiredRequests/validates-every-member", cf.Pos(), "every member of the set is parsed and validated")
		// ... every member: the sweep loop ends only by exhaustion (one abandoned slot must not hide the next)
		var exits []string
		for _, h := range loopHeadersOf(cf) {
			exits = append(exits, loopExits(h, false)...)
		}
		r.Check(len(loopHeadersOf(cf)) == 1 && len(exits) == 0, "R7", "checkForExpiredRequests/sweep-runs-to-exhaustion", cf.Pos(), "the loop over the set's members has no exit other than exhaustion (extra exits %v)", exits)
	} else {
		r.Undec("R7", "checkForExpiredRequests", token.NoPos, "function not found")
	}
	if vm := w.Fn(pkgQuota, "concurrentStrategy.validateMemberIntegrity"); vm == nil {
		r.Undec("R7", "validateMemberIntegrity", token.NoPos, "function not found")
	} else {
		srem := CallsIn(vm, false, "SharedStateI).SRem")
		var del ssa.Instruction
		Instrs(vm, func(in ssa.Instruction) {
			if c, ok := in.(*ssa.Call); ok {
				if b, ok := c.Call.Value.(*ssa.Builtin); ok && b.Name() == "delete" && strings.HasSuffix(Path(c.Call.Args[0]), "cs.allowedReq") && Path(c.Call.Args[1]) == "param:member.ReqID" {
					del = c
				}
			}
		})
		for _, alt := range ReturnAlts(vm, 0) {
			b, isC := constBool(alt.Val)
			if !isC {
				r.Fail("R7", "validateMemberIntegrity/result", posOf(alt.Ret), "non-constant result")
				continue
			}
			if b {
				continue // decided below as a table
			} else {
				ok := len(srem) == 1 && del != nil && domInstr(srem[0], alt.Ret) && domInstr(del, alt.Ret) &&
					Path(srem[0].Common().Args[0]) == "param:cs.concurrentSetKey" && Path(srem[0].Common().Args[1]) == "param:member.Key"
				r.Check(ok, "R7", "validateMemberIntegrity/expired-removed", posOf(alt.Ret), "an invalid member is removed from the set (SRem(cs.concurrentSetKey, member.Key)) and from allowedReq before returning false")
			}
		}
		// a member is kept exactly when its expiry time is positive and its instance is in the
		// cluster (or there is no liveness service to ask): compared as a boolean function, so an
		// if ladder, a switch or a flag local give the same answer
		checkDecisionFor(r, "R7", "validateMemberIntegrity/kept-only-if-alive", vm, 0, "true", c02KeptWhen)
	}
	if gm := w.Fn(pkgQuota, "concurrentStrategy.generateMember"); gm != nil {
		for _, alt := range ReturnAlts(gm, 0) {
			exp := Derives(alt.Val, func(x ssa.Value) bool {
				p := Path(x)
				return strings.HasPrefix(p, "(time.Time).UnixNano((time.Time).Add(") && strings.Contains(p, "Now(") && strings.Contains(p, "(param:ttl + 10000000)")
			})
			id := Derives(alt.Val, func(x ssa.Value) bool { return Path(x) == "param:requestID" })
			inst := Derives(alt.Val, func(x ssa.Value) bool { return strings.Contains(Path(x), "GetInstanceID(") })
			fmtOK := Derives(alt.Val, func(x ssa.Value) bool { s, ok := constString(x); return ok && s == "%d%s%s%s%s" })
			r.Check(exp && id && inst && fmtOK, "R7", "generateMember/encodes-expiry-id-instance", posOf(alt.Ret), "member = (now+ttl+delta).UnixNano()::requestID::instance (expiry=%v id=%v instance=%v)", exp, id, inst)
		}
	} else {
		r.Undec("R7", "generateMember", token.NoPos, "function not found")
	}
	if em := w.Fn(pkgQuota, "concurrentStrategy.extractMemberFromItem"); em != nil {
		get := func(field string) string {
			for _, st := range fieldStores(em, field) {
				return Path(st.Val)
			}
			return ""
		}
		okParts := strings.HasSuffix(get("ReqID"), "[1]") && strings.HasSuffix(get("InstanceID"), "[2]")
		exp := ""
		for _, st := range fieldStores(em, "ExpiryTime") {
			if !isIntConst(st.Val, 0) {
				exp = Path(st.Val)
			}
		}
		okExp := strings.Contains(exp, "Until(") && strings.Contains(exp, "time.Unix(0, strconv.ParseInt(") && strings.Contains(exp, "[0]")
		r.Check(okParts && okExp, "R7", "extractMemberFromItem/positions", em.Pos(), "parsed back from the same positions: expiry=parts[0] (%v), reqID=parts[1], instance=parts[2] (%v)", okExp, okParts)
	}
}

func c02IncDec(w *World, r *Report) {
	reqAllowed := w.constOf(pkgQuota, "reqAllowed")
	if dec := w.Fn(pkgQuota, "concurrentStrategy.Dec"); dec == nil {
		r.Undec("R8", "Dec", token.NoPos, "function not found")
	} else {
		srem := CallsIn(dec, false, "SharedStateI).SRem")
		if len(srem) != 1 {
			r.Undec("R8", "Dec/SRem", dec.Pos(), "expected one SRem, found %d", len(srem))
		} else {
			s := srem[0]
			ok := condsHave(CondsOf(s.Block()), true, func(v ssa.Value) bool {
				return isCallTo0(v, "concurrentStrategy).checkReqStatus") && Derives(v, func(x ssa.Value) bool { return isConstVal(x, reqAllowed) })
			})
			okArgs := Path(s.Common().Args[0]) == "param:cs.concurrentSetKey" && strings.HasSuffix(Path(s.Common().Args[1]), "].member") || strings.HasSuffix(Path(s.Common().Args[1]), "#0.member")
			r.Check(ok && okArgs && errReturned(dec, s), "R8", "Dec/removes-recorded-member", posOf(s), "SRem(cs.concurrentSetKey, recorded member) runs when the request was admitted=%v, args ok=%v", ok, okArgs)
		}
		var pd []ssa.CallInstruction
		for _, c := range CallsIn(dec, false, "ResourceAdmI).Dec", "QuotaResourceI).Dec") {
			if strings.Contains(Path(c.Common().Value), "GetQuota(param:cs.parent)") {
				pd = append(pd, c)
			}
		}
		okP := len(pd) == 1
		if okP {
			op, _ := FindRel(Rels(pd[0].Block()), pathRe(`^param:cs\.parent$`), isNilConst)
			okP = op == "!=" && errReturned(dec, pd[0])
		}
		r.Check(okP, "R8", "Dec/propagates-to-parent", dec.Pos(), "parent.Dec runs when parent != nil and its error is returned")
		// delete before the final nil return
		okDel := false
		var del ssa.Instruction
		Instrs(dec, func(in ssa.Instruction) {
			if c, ok := in.(*ssa.Call); ok {
				if b, ok := c.Call.Value.(*ssa.Builtin); ok && b.Name() == "delete" && strings.HasSuffix(Path(c.Call.Args[0]), "cs.allowedReq") {
					del = c
				}
			}
		})
		for _, alt := range ReturnAlts(dec, 0) {
			if isNilConst(alt.Val) && del != nil && domInstr(del, alt.Ret) {
				okDel = true
			}
		}
		r.Check(okDel, "R8", "Dec/forgets-request", dec.Pos(), "the request is removed from allowedReq on the success path")
	}
	inc := w.Fn(pkgQuota, "concurrentStrategy.Inc")
	if inc == nil {
		r.Undec("R9", "Inc", token.NoPos, "function not found")
		return
	}
	sadd := CallsIn(inc, false, "SharedStateI).AtomicSAddWithMaxValuesAllowed")
	if len(sadd) != 1 {
		r.Undec("R9", "Inc/SAdd", inc.Pos(), "expected one SAdd, found %d", len(sadd))
		return
	}
	isIncd := func(v ssa.Value) bool {
		return strings.HasSuffix(Path(v), "#0") && strings.Contains(Path(v), "AtomicSAddWithMaxValuesAllowed(")
	}
	setSt := CallsIn(inc, false, "concurrentStrategy).setReqStatus")
	mem := fieldStores(inc, "member")
	// guard: only requests not seen yet
	okNew := condsHave(CondsOf(sadd[0].Block()), true, func(v ssa.Value) bool {
		return isCallTo0(v, "concurrentStrategy).checkReqStatus") && Derives(v, func(x ssa.Value) bool { return isConstVal(x, w.constOf(pkgQuota, "reqNotFound")) })
	})
	r.Check(okNew, "R9", "Inc/only-new-requests", posOf(sadd[0]), "a request id is added to the set only when it has no status yet (idempotent Inc)")
	// the parent is charged only for a request this quota admitted itself (a refused request
	// must not take a parent slot: nothing would ever release it)
	pincs := CallsIn(inc, false, "QuotaResourceI).Inc")
	nP := 0
	for _, c := range pincs {
		if !strings.Contains(Path(c.Common().Value), ".parent") && !(len(c.Common().Args) > 0 && strings.Contains(Path(c.Common().Args[0]), ".parent")) {
			continue
		}
		nP++
		cs := CondsOf(c.Block())
		r.Check(condsHave(cs, true, isIncd) && domInstr(sadd[0], c), "R9", "Inc/parent-charged-only-after-own-admission", posOf(c),
			"parent.Inc is reached only on the increased edge of this quota's own SAdd=%v", condsHave(cs, true, isIncd))
	}
	if nP != 1 {
		r.Undec("R9", "Inc/parent-inc", inc.Pos(), "expected one parent Inc call, found %d", nP)
	}
	for _, alt := range ReturnAlts(inc, 0) {
		if !condsHave(alt.Conds, true, isIncd) {
			continue
		}
		recorded := len(setSt) == 1 && len(mem) == 1 && domInstr(setSt[0], alt.Ret) && domInstr(mem[0], alt.Ret) && isConstVal(setSt[0].Common().Args[2], reqAllowed) &&
			mem[0].Val == sadd[0].Common().Args[1]
		if isNilConst(alt.Val) {
			r.Check(recorded, "R9", "Inc/admitted-is-recorded", posOf(alt.Ret), "after a successful SAdd the status reqAllowed and the very member added are recorded before returning nil")
		} else if !recorded {
			r.Fail("R9", "Inc/parent-error-leaves-slot-unrecorded", posOf(alt.Ret), "after a successful SAdd the function returns the parent's error without recording status/member: Dec and OnRequestDrop then find nothing to release and the slot stays taken until the GC expiry")
		}
	}
}

// c02ConfigGetters: each duration getter of the concurrent strategy's
// configuration converts its OWN field (seconds) and two getters never read
// the same field.
func c02ConfigGetters(w *World, r *Report) {
	want := map[string]string{"GetRequestExpiration": "RequestExpirationSec", "GetGCInterval": "GCIntervalSec"}
	for g, field := range want {
		f := w.Fn(pkgQuota, "ConcurrentConfig."+g)
		if f == nil {
			r.Undec("R7", "ConcurrentConfig."+g, token.NoPos, "getter not found")
			continue
		}
		ok, n := true, 0
		var got []string
		for _, alt := range ReturnAlts(f, 0) {
			if _, isG := peel(alt.Val).(*ssa.UnOp); isG && strings.HasPrefix(Path(alt.Val), "*global:default") {
				// the package default, returned when the field is zero
				op, _ := FindRel(relsOfConds(alt.Conds), func(v ssa.Value) bool { return strings.HasSuffix(Path(v), "cc."+field) }, func(v ssa.Value) bool { return isIntConst(v, 0) })
				if op != "==" {
					ok = false
					got = append(got, "default returned under "+field+" "+op+" 0")
				}
				continue
			}
			if k, isK := peel(alt.Val).(*ssa.Const); isK {
				_ = k
				op, _ := FindRel(relsOfConds(alt.Conds), func(v ssa.Value) bool { return strings.HasSuffix(Path(v), "cc."+field) }, func(v ssa.Value) bool { return isIntConst(v, 0) })
				if op != "==" {
					ok = false
					got = append(got, "constant returned under "+field+" "+op+" 0")
				}
				continue
			}
			n++
			nv, factor, shape := productOf(alt.Val, func(v ssa.Value) bool { return strings.HasSuffix(Path(v), "cc."+field) })
			if !shape || nv != 1 || factor != 1e9 {
				ok = false
				got = append(got, trunc(Path(alt.Val), 60))
			}
		}
		r.Check(ok && n == 1, "R7", "ConcurrentConfig."+g+"/own-field-in-seconds", f.Pos(), "%s returns %s x 1s (default only when the field is 0) %v", g, field, got)
	}
}

// c02TransactionIdentity: the transaction objects the flows see are built from
// the SPOE message field by field, each field from the message field of the
// same name (the request id is the key under which quota slots are taken and
// given back; the sequence id is a different thing), and a fixed-window quota
// sitting between a request and a concurrent ancestor forwards every release
// to its parent.
func c02TransactionIdentity(w *World, r *Report) {
	const pkgSTypes = "lunar/engine/streams/types"
	for _, c := range []struct{ fn, lit string }{{"NewResponse", "OnResponse"}, {"NewRequest", "OnRequest"}} {
		f := w.Fn(pkgSTypes, c.fn)
		if f == nil {
			r.Undec("R6", c.fn, token.NoPos, "function not found")
			continue
		}
		var lit *ssa.Alloc
		Instrs(f, func(in ssa.Instruction) {
			if a, ok := in.(*ssa.Alloc); ok && structOf(a.Type()) == c.lit && a.Heap {
				lit = a
			}
		})
		if lit == nil {
			r.Undec("R6", c.fn+"/literal", f.Pos(), "%s literal not found", c.lit)
			continue
		}
		mm, n := sameNameCopyMismatches(lit)
		id := litField(lit, "ID")
		r.Check(len(mm) == 0 && n >= 5 && id != nil && strings.HasSuffix(Path(id), ".ID"), "R6", c.fn+"/fields-from-same-named-message-fields", lit.Pos(), "%d fields of the transaction are copied from the message field of the same name (ID <- %s); mismatches %v", n, trunc(Path(id), 40), mm)
	}
	if dec := w.Fn(pkgQuota, "fixedWindow.Dec"); dec == nil {
		r.Undec("R8", "fixedWindow.Dec", token.NoPos, "function not found")
	} else {
		n, ok := 0, true
		var why []string
		for _, c := range CallsIn(dec, false, "QuotaResourceI).Dec") {
			if !strings.Contains(Path(c.Common().Value), ".parent") {
				continue
			}
			n++
			for _, cd := range expandConds(CondsOf(c.Block())) {
				p := Path(cd.V)
				if rel, isRel := NormCond(cd); isRel && (strings.HasSuffix(Path(rel.L), ".parent") || strings.HasSuffix(Path(rel.R), ".parent")) {
					continue // parent != nil
				}
				if rel, isRel := NormCond(cd); isRel && (isNilConst(rel.L) || isNilConst(rel.R)) && strings.Contains(p, "getQuota(") && strings.Contains(p, "#1") {
					continue // the group's quota object was obtained without error
				}
				ok = false
				why = append(why, trunc(p, 60))
			}
		}
		r.Check(ok && n == 1, "R8", "fixedWindow.Dec/release-always-forwarded-to-parent", dec.Pos(), "a fixed-window quota under another quota forwards every Dec to its parent whenever it has one (extra conditions %v): the ancestor's concurrency slot is given back", why)
	}
}
