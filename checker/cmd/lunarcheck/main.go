package main

import (
	"encoding/json"
	"flag"
	"fmt"
	"os"
	"path/filepath"
	"runtime/debug"
	"sort"
	"strconv"
	"strings"

	"golang.org/x/tools/go/ssa"
)

// Property is one registered property checker.
type Property struct {
	ID          string
	Mods        []string
	Explanation string
	RuleText    string
	Run         func(w *World, r *Report)
}

var registry = map[string]*Property{}

type overlayList []string

func (o *overlayList) String() string     { return strings.Join(*o, ",") }
func (o *overlayList) Set(s string) error { *o = append(*o, s); return nil }

var overlayFlag overlayList

// overlayMap reads the -overlay replacements.
func overlayMap() (map[string][]byte, error) {
	if len(overlayFlag) == 0 {
		return nil, nil
	}
	out := map[string][]byte{}
	for _, s := range overlayFlag {
		i := strings.Index(s, "=")
		if i < 0 {
			return nil, fmt.Errorf("bad -overlay %q", s)
		}
		b, err := os.ReadFile(s[i+1:])
		if err != nil {
			return nil, err
		}
		out[s[:i]] = b
	}
	return out, nil
}

func register(p *Property) { registry[p.ID] = p }

func main() {
	prop := flag.String("p", "", "property id (C01..C20)")
	tier := flag.String("tier", "quick", "quick|thorough")
	repo := flag.String("repo", "/repo", "repository root")
	verif := flag.String("verif", "", "verif directory (default: cwd)")
	explain := flag.String("explain", "", "print a replay file")
	list := flag.Bool("list", false, "list properties")
	dump := flag.String("dump", "", "debug: pkg:Func[,mod] print SSA with value paths and edge conditions")
	flag.Var(&overlayFlag, "overlay", "orig.go=replacement.go: analyse the tree with one file replaced (repeatable; used for rule-liveness mutants)")
	gen := flag.Bool("gen-names", false, "print the reviewed-names table (names.json) for the current tree")
	flag.Parse()
	if os.Getenv("LC_LEAKS") != "" {
		w, err := LoadWorld(*repo, modEngine, modAgg)
		if err != nil {
			fmt.Fprintln(os.Stderr, err)
			os.Exit(2)
		}
		la := NewLockAn(w)
		nAcq := 0
		for _, f := range w.lunarFns {
			if f.Origin() != nil {
				continue
			}
			has := false
			Instrs(f, func(in ssa.Instruction) {
				if op, _ := lockOp(in); op == "Lock" || op == "RLock" {
					has = true
				}
			})
			if has {
				nAcq++
			}
			for _, l := range la.Leaks(f) {
				fmt.Printf("%s %s key=%s must=%v wrapper=%v\n", w.Pos(l.Ret.Pos()), fnID(f), l.Key, l.Must, la.sum[f] != nil && la.sum[f].acq[l.Key] != 0)
			}
		}
		fmt.Printf("functions acquiring a lock: %d\n", nAcq)
		return
	}
	if os.Getenv("LC_ERRPOL") != "" {
		w, err := LoadWorld(*repo, modEngine, modAgg)
		if err != nil {
			fmt.Fprintln(os.Stderr, err)
			os.Exit(2)
		}
		n, nf := 0, 0
		for _, f := range w.lunarFns {
			if f.Origin() != nil {
				continue
			}
			nf++
			for _, m := range errPolarity(f) {
				n++
				fmt.Printf("%s %s: %s (%s)\n", w.Pos(m.At.Pos()), shortFn(fnID(outermost(f))), m.Kind, trunc(Path(m.Err), 60))
			}
		}
		fmt.Printf("functions=%d misuses=%d\n", nf, n)
		return
	}
	if os.Getenv("LC_GBINFER") != "" {
		w, err := LoadWorld(*repo, modEngine, modAgg)
		if err != nil {
			fmt.Fprintln(os.Stderr, err)
			os.Exit(2)
		}
		gbInfer(w)
		return
	}
	if *gen {
		frozenNames = map[string]fnNames{}
		w, err := LoadWorld(*repo, modEngine, modAgg)
		if err != nil {
			fmt.Fprintln(os.Stderr, err)
			os.Exit(2)
		}
		os.Stdout.Write(genNames(w))
		return
	}

	if *explain != "" {
		b, err := os.ReadFile(*explain)
		if err != nil {
			fmt.Println(err)
			os.Exit(2)
		}
		var v any
		_ = json.Unmarshal(b, &v)
		out, _ := json.MarshalIndent(v, "", "  ")
		fmt.Println(string(out))
		return
	}
	if *dump != "" {
		debugDump(*repo, *dump)
		return
	}
	if *list {
		ids := []string{}
		for id := range registry {
			ids = append(ids, id)
		}
		sort.Strings(ids)
		for _, id := range ids {
			fmt.Println(id)
		}
		return
	}
	if *verif == "" {
		wd, _ := os.Getwd()
		*verif = wd
	}
	if t := os.Getenv("VERIF_TIER"); t != "" && !isFlagSet("tier") {
		*tier = t
	}
	var seed int64
	if s := os.Getenv("VERIF_SEED"); s != "" {
		seed, _ = strconv.ParseInt(s, 10, 64)
	}
	p := registry[*prop]
	if p == nil {
		fmt.Printf("unknown property %q\n", *prop)
		os.Exit(2)
	}
	os.Exit(runProperty(p, *tier, *repo, *verif, seed))
}

func isFlagSet(name string) bool {
	set := false
	flag.Visit(func(f *flag.Flag) {
		if f.Name == name {
			set = true
		}
	})
	return set
}

func runProperty(p *Property, tier, repo, verif string, seed int64) (code int) {
	r := NewReport(p.ID, tier, seed)
	r.Explanation = p.Explanation
	r.RuleText = p.RuleText
	r.Assumptions = []string{
		"verdict is a structural necessary condition of the property, not the behaviour itself",
		"Go type checker and x/tools SSA builder are correct; aliasing handled by access path within a function and by type+field across functions (no pointer analysis)",
		"lock identity is receiver-relative; function values are followed only where the rule says so",
	}
	kf, err := loadKnown(filepath.Join(verif, "known_findings.json"))
	if err != nil {
		r.Undec("R0", "known-findings-file", 0, "cannot read known_findings.json: %v", err)
	}
	r.Known = kf
	defer func() {
		if e := recover(); e != nil {
			r.Undec("R0", "analysis-panic", 0, "checker panicked: %v\n%s", e, debug.Stack())
			code = r.Finish(verif)
		}
	}()
	w, err := LoadWorld(repo, p.Mods...)
	if err != nil {
		r.Undec("R0", "load", 0, "cannot load/type-check the working tree: %v", err)
		return r.Finish(verif)
	}
	r.W = w
	p.Run(w, r)
	checkErrorPolarity(w, r)
	if g := os.Getenv("LC_GAPS"); g != "" {
		d, _ := strconv.Atoi(g)
		reportGaps(w, r, verif, d)
	}
	return r.Finish(verif)
}

func debugDump(repo, spec string) {
	mod := modEngine
	if i := strings.LastIndex(spec, ","); i >= 0 {
		mod, spec = spec[i+1:], spec[:i]
	}
	i := strings.LastIndex(spec, ":")
	w, err := LoadWorld(repo, mod)
	if err != nil {
		fmt.Println(err)
		return
	}
	fn := w.Fn(spec[:i], spec[i+1:])
	if fn == nil {
		fmt.Println("not found")
		return
	}
	if os.Getenv("LC_SIGS") == "decision" {
		var rows []string
		for _, c := range decisionOf(fn, 0) {
			rows = append(rows, c.String())
		}
		sort.Strings(rows)
		for _, s := range rows {
			fmt.Printf("\t\t%q,\n", s)
		}
		return
	}
	if os.Getenv("LC_SIGS") != "" {
		for i := 0; i < fn.Signature.Results().Len(); i++ {
			for _, sg := range retSigs(fn, i) {
				if os.Getenv("LC_SIGS") == "decision" {
					continue
				}
				if os.Getenv("LC_SIGS") == "go" {
					fmt.Printf("\t\t%q,\n", normSig(sg))
				} else {
					fmt.Printf("SIG[%d] %s\n", i, sg)
				}
			}
		}
		return
	}
	for _, f := range Anons(fn) {
		fmt.Printf("FUNC %s\n", f.String())
		for _, b := range f.Blocks {
			fmt.Printf(" block %d (%s) conds=%s\n", b.Index, b.Comment, condsString(CondsOf(b)))
			for _, in := range b.Instrs {
				if v, ok := in.(ssa.Value); ok {
					fmt.Printf("   %-6s = %-40.40s | %s\n", v.Name(), in.String(), Path(v))
				} else {
					fmt.Printf("   %s\n", in.String())
				}
			}
		}
	}
}
