package main

import (
	"go/token"
	"strings"

	"golang.org/x/tools/go/ssa"
)

const pkgVacuum = "lunar/toolkit-core/vacuum"

func init() {
	register(&Property{
		ID:   "C11",
		Mods: []string{modEngine},
		Explanation: "Decides structural necessary conditions of 'one policy version per transaction', not histories of reload/revert/vacuum: " +
			"(R1) version counter, version map and transaction-pin map are only touched under the accessor's mutex; the vacuum's entry list under entriesMutex and the vacuumed map under mapMutex; " +
			"(R2) a transaction is pinned in exactly one place, on the not-found edge of its lookup, to the version read in the same critical section, and that same value is returned; " +
			"(R3) the policies handed to a transaction are looked up by its pinned version; (R4) a superseded version is scheduled for removal with the version number read before the increment, pins are scheduled with their own transaction id, both vacuums are built with TTL=staleVersionTTL, tick=vacuumTick and the very map and mutex stored in the accessor; " +
			"(R5) only the vacuum deletes from those maps, only entries whose vacuumAt (= now+ttl at scheduling) is before now, under the map's write lock; (R6) request and response handlers both pin by the transaction id (not the sequence id) and pass that one policies object to the dispatcher. " +
			"NOT decided: that 30 s suffices; interleavings of reload/vacuum.",
		RuleText: "obligation = (rule, anchored construct) on SSA of the current tree: must-lockset, who-writes/who-deletes inventory, provenance of keys and constructor arguments, edge conditions of the delete",
		Run:      runC11,
	})
}

func runC11(w *World, r *Report) {
	la := NewLockAn(w)
	hrLockOwnersUsePointerReceivers(w, r, "R1", "lunar/")
	hrMessageArgsByName(w, r, "R2")
	hrCfgIdentifiers(w, r, "R2")
	hrRevertUnmanageFlags(w, r, "R4")
	hrBodyLengthDecides(w, r, "R6")
	hrEarlyResponseMessage(w, r, "R2")
	hrDelayedUnmanageWaitsRetention(w, r, "R4")
	hrDiagnosisWorkerKey(w, r, "R2")
	hrWriteErrorReturned(w, r, "R6")
	hrVersionBumpReturnsPrevious(w, r, "R4")
	hrVacuumStartOnce(w, r, la, "R1")
	checkGB(w, r, la, "R1", []GuardRow{
		{Pkg: pkgConfig, Struct: "TxnPoliciesAccessor", Fields: []string{"currentVersion", "policiesVersions", "txnVersions"}, Mutex: "mutex", MinSites: 14,
			Except: map[string]string{"TxnPoliciesAccessor).GetCurrentPoliciesData": "the unlocked reads are arguments of the error log on the current-version-not-found path only; the deciding lookup is under RLock (checked: every other access in this function holds the lock)"}},
		{Pkg: pkgVacuum, Struct: "MapVacuum", Fields: []string{"entries"}, Mutex: "entriesMutex", MinSites: 5},
		{Pkg: pkgVacuum, Struct: "MapVacuum", Fields: []string{"mapToVacuum"}, Mutex: "mapMutex", MinSites: 1},
	})
	// the exception above is only valid if the lookup itself is locked
	if gc := w.Fn(pkgConfig, "TxnPoliciesAccessor.GetCurrentPoliciesData"); gc != nil {
		ok := false
		Instrs(gc, func(in ssa.Instruction) {
			if lk, isL := in.(*ssa.Lookup); isL && strings.HasSuffix(Path(lk.X), ".policiesVersions") && strings.HasSuffix(Path(lk.Index), ".currentVersion") {
				if _, h := la.HeldAt(lk)["param:txnPoliciesAccessor.mutex"]; h {
					ok = true
				}
			}
		})
		r.Check(ok, "R1", "GetCurrentPoliciesData/lookup-locked", gc.Pos(), "policiesVersions[currentVersion] is read under the accessor's lock")
		// the current version's data is what is returned whenever it exists
		okRet, nFound := true, 0
		for _, alt := range ReturnAlts(gc, 0) {
			p := Path(alt.Val)
			isLookup := strings.Contains(p, ".policiesVersions[") && strings.HasSuffix(p, ".currentVersion]#0")
			found := condsHave(expandConds(alt.Conds), true, func(v ssa.Value) bool {
				return strings.Contains(Path(v), ".policiesVersions[") && strings.HasSuffix(Path(v), "#1")
			})
			notFound := condsHave(expandConds(alt.Conds), false, func(v ssa.Value) bool {
				return strings.Contains(Path(v), ".policiesVersions[") && strings.HasSuffix(Path(v), "#1")
			})
			switch {
			case isLookup && found:
				nFound++
			case !isLookup && notFound:
			default:
				okRet = false
			}
		}
		r.Check(okRet && nFound == 1, "R1", "GetCurrentPoliciesData/returns-current-when-present", gc.Pos(), "the stored data of currentVersion is returned exactly on the found edge; the empty placeholder only when the version is missing")
	}
	// `active` is written once, before the goroutine that reads it is started
	for _, a := range w.fieldAccesses(pkgVacuum, "MapVacuum", []string{"active"}) {
		if !a.Write || isFreshBase(a.Base) {
			continue
		}
		id := fnID(outermost(a.Fn))
		okW := idMatches(id, "MapVacuum).VacuumKey")
		if okW {
			b, isC := constBool(a.In.(*ssa.Store).Val)
			_, held := la.HeldAt(a.In)[strings.TrimPrefix(Path(a.Base), "&")+".entriesMutex"]
			okW = isC && b && held
		}
		r.Check(okW, "R1", "MapVacuum.active/written-once-before-start/"+shortFn(id), posOf(a.In), "active is only set to true, under entriesMutex, in VacuumKey before the background goroutine starts")
	}

	acc := "param:txnPoliciesAccessor"
	// R2 pin once
	nPin := 0
	for _, f := range w.lunarFns {
		if f.Origin() != nil || !strings.HasPrefix(fnPkgPath(f), "lunar/engine") {
			continue
		}
		Instrs(f, func(in ssa.Instruction) {
			switch x := in.(type) {
			case *ssa.MapUpdate:
				if strings.HasSuffix(Path(x.Map), ".txnVersions") && ownerStruct(x.Map) == "TxnPoliciesAccessor" {
					nPin++
					id := fnID(outermost(f))
					r.Check(idMatches(id, "TxnPoliciesAccessor).setTxnVersion"), "R2", "writers(txnVersions)/"+shortFn(id), posOf(x), "transaction pin written by %s", id)
				}
			case *ssa.Call:
				if b, ok := x.Call.Value.(*ssa.Builtin); ok && b.Name() == "delete" {
					p := Path(x.Call.Args[0])
					if (strings.HasSuffix(p, ".txnVersions") || strings.HasSuffix(p, ".policiesVersions")) && strings.Contains(fnPkgPath(f), "lunar/engine/config") {
						r.Fail("R5", "deleters/"+shortFn(fnID(outermost(f))), posOf(x), "delete on %s outside the vacuum", p)
					}
				}
			}
		})
	}
	if nPin == 0 {
		r.Undec("R2", "writers(txnVersions)", token.NoPos, "no pin site found")
	}
	if st := w.Fn(pkgConfig, "TxnPoliciesAccessor.setTxnVersion"); st == nil {
		r.Undec("R2", "setTxnVersion", token.NoPos, "function not found")
	} else {
		var mu *ssa.MapUpdate
		Instrs(st, func(in ssa.Instruction) {
			if m, ok := in.(*ssa.MapUpdate); ok {
				mu = m
			}
		})
		ok := mu != nil && Path(mu.Key) == "param:txnID" && Path(mu.Value) == acc+".currentVersion"
		if ok {
			ld := mu.Value.(ssa.Instruction)
			_, h1 := la.HeldAt(ld)[acc+".mutex"]
			mode := la.HeldAt(mu)[acc+".mutex"]
			ok = h1 && mode == 'W' && !unlockOnPath(ld, mu)
			for _, alt := range ReturnAlts(st, 0) {
				if alt.Val != mu.Value {
					ok = false
				}
			}
		}
		r.Check(ok, "R2", "setTxnVersion/pins-and-returns-one-read", st.Pos(), "txnVersions[txnID] := currentVersion read in the same write-locked section, and that very value is returned")
		vk := CallsIn(st, false, "MapVacuum).VacuumKey")
		okV := len(vk) == 1 && Path(vk[0].Common().Args[0]) == acc+".txnVersionsVacuum" && Path(vk[0].Common().Args[1]) == "param:txnID" && len(CondsOf(vk[0].Block())) == 0
		r.Check(okV, "R4", "setTxnVersion/pin-scheduled-for-vacuum", st.Pos(), "the pin is scheduled on txnVersionsVacuum with its own transaction id")
	}
	for _, cs := range w.CallSites("TxnPoliciesAccessor).setTxnVersion") {
		id := fnID(outermost(cs.Fn))
		okC := idMatches(id, "TxnPoliciesAccessor).getTxnPoliciesVersion") && condsHave(CondsOf(cs.In.Block()), false, func(v ssa.Value) bool {
			return strings.HasSuffix(Path(v), ".txnVersions[param:txnID]#1")
		}) && Path(cs.In.Common().Args[1]) == "param:txnID"
		r.Check(okC, "R2", "callers(setTxnVersion)/"+shortFn(id), posOf(cs.In), "setTxnVersion is called only by getTxnPoliciesVersion on the not-found edge of the same transaction id")
	}
	if gv := w.Fn(pkgConfig, "TxnPoliciesAccessor.getTxnPoliciesVersion"); gv != nil {
		for _, alt := range ReturnAlts(gv, 0) {
			p := Path(alt.Val)
			ok := p == acc+".txnVersions[param:txnID]#0" && condsHave(alt.Conds, true, func(v ssa.Value) bool { return strings.HasSuffix(Path(v), ".txnVersions[param:txnID]#1") }) ||
				isCallTo0(alt.Val, "TxnPoliciesAccessor).setTxnVersion")
			r.Check(ok, "R2", "getTxnPoliciesVersion/returns-pin", posOf(alt.Ret), "returns the existing pin when found, else the fresh pin (%s)", trunc(p, 80))
		}
	} else {
		r.Undec("R2", "getTxnPoliciesVersion", token.NoPos, "function not found")
	}
	// R3 lookup
	if gd := w.Fn(pkgConfig, "TxnPoliciesAccessor.GetTxnPoliciesData"); gd == nil {
		r.Undec("R3", "GetTxnPoliciesData", token.NoPos, "function not found")
	} else {
		ok := false
		Instrs(gd, func(in ssa.Instruction) {
			if lk, isL := in.(*ssa.Lookup); isL && Path(lk.X) == acc+".policiesVersions" {
				ok = isCallTo0(lk.Index, "TxnPoliciesAccessor).getTxnPoliciesVersion") && strings.HasSuffix(Path(lk.Index), "param:txnID)")
			}
		})
		r.Check(ok, "R3", "GetTxnPoliciesData/lookup-by-pinned-version", gd.Pos(), "policiesVersions is indexed by getTxnPoliciesVersion(txnID), not by the current version")
		for _, alt := range ReturnAlts(gd, 0) {
			p := Path(alt.Val)
			found := condsHave(alt.Conds, true, func(v ssa.Value) bool {
				return strings.HasSuffix(Path(v), "#1") && strings.Contains(Path(v), ".policiesVersions[")
			})
			okR := strings.Contains(p, ".policiesVersions[") && strings.HasSuffix(p, "#0") && found || isCallTo0(alt.Val, "TxnPoliciesAccessor).GetCurrentPoliciesData") && !found
			r.Check(okR, "R3", "GetTxnPoliciesData/returns-pinned", posOf(alt.Ret), "returns the pinned version's data when present (fallback to current only when it is gone): %s", trunc(p, 70))
		}
	}
	// R4 retention
	// a reload that reports success has installed its version (also on the fail-safe path,
	// which unmanages immediately): every nil return of UpdatePoliciesData follows setNextVersion
	if up := w.Fn(pkgConfig, "TxnPoliciesAccessor.UpdatePoliciesData"); up == nil {
		r.Undec("R4", "UpdatePoliciesData", token.NoPos, "function not found")
	} else {
		sv := CallsIn(up, false, "TxnPoliciesAccessor).setNextVersion")
		ok := len(sv) == 1
		nOK := 0
		for _, alt := range ReturnAlts(up, 0) {
			if !isNilConst(alt.Val) {
				continue
			}
			nOK++
			if ok && !domInstr(sv[0], alt.Ret) {
				ok = false
			}
		}
		r.Check(ok && nOK > 0, "R4", "UpdatePoliciesData/success-means-installed", up.Pos(), "every nil return of UpdatePoliciesData is preceded by setNextVersion(newPoliciesData) (%d success exits)", nOK)
	}
	if sn := w.Fn(pkgConfig, "TxnPoliciesAccessor.setNextVersion"); sn == nil {
		r.Undec("R4", "setNextVersion", token.NoPos, "function not found")
	} else {
		vk := CallsIn(sn, false, "MapVacuum).VacuumKey")
		st := fieldStores(sn, "currentVersion")
		ok := len(vk) == 1 && len(st) == 1
		if ok {
			arg := unhelp(vk[0].Common().Args[1])
			ld, isLd := arg.(*ssa.UnOp)
			ok = isLd && Path(arg) == acc+".currentVersion" && domInstr(ld, st[0]) && Path(vk[0].Common().Args[0]) == acc+".policiesVersionsVacuum" && len(CondsOf(vk[0].Block())) == 0
			b, isB := st[0].Val.(*ssa.BinOp)
			ok = ok && isB && b.Op == token.ADD && isIntConst(b.Y, 1)
		}
		r.Check(ok, "R4", "setNextVersion/previous-version-scheduled", sn.Pos(), "the version read BEFORE the increment is scheduled on policiesVersionsVacuum (the new version is never scheduled)")
		okStore := false
		Instrs(sn, func(in ssa.Instruction) {
			if mu, isM := in.(*ssa.MapUpdate); isM && Path(mu.Map) == acc+".policiesVersions" {
				okStore = Path(mu.Value) == "param:policiesData" && Path(mu.Key) == acc+".currentVersion" && len(st) == 1 && domInstr(st[0], mu) && !unlockOnPath(st[0], mu)
			}
		})
		r.Check(okStore, "R4", "setNextVersion/new-version-stored", sn.Pos(), "policiesVersions[currentVersion after increment] := new data in the same critical section")
	}
	if nc := w.Fn(pkgConfig, "NewTxnPoliciesAccessor"); nc == nil {
		r.Undec("R4", "NewTxnPoliciesAccessor", token.NoPos, "function not found")
	} else {
		ttlC, tickC := w.constOf(pkgConfig, "staleVersionTTL"), w.constOf(pkgConfig, "vacuumTick")
		var lit ssa.Value
		for _, alt := range ReturnAlts(nc, 0) {
			lit = alt.Val
		}
		// one construction per execution: a helper called once per map counts once per call,
		// with that call's arguments
		calls := boundCallsIn(nc, "vacuum.NewMapVacuum")
		if len(calls) != 2 || lit == nil {
			r.Undec("R4", "NewTxnPoliciesAccessor/vacuums", nc.Pos(), "expected two NewMapVacuum calls, found %d", len(calls))
		} else {
			for i, c := range calls {
				a := c.Args
				field := []string{"txnVersions", "policiesVersions"}[i]
				sameMap := sameVal(a[4], litField(lit, field))
				sameMu := sameVal(a[5], litField(lit, "mutex"))
				vf := litField(lit, field+"Vacuum")
				stored := vf != nil && c.Val != nil && Derives(vf, func(x ssa.Value) bool { return x == c.Val })
				r.Check(isConstVal(a[2], ttlC) && isConstVal(a[3], tickC) && sameMap && sameMu && stored, "R4", "NewTxnPoliciesAccessor/"+field+"Vacuum", posOf(c.In),
					"NewMapVacuum(ttl=%s, tick=%s, map=%s, mutex=%s) (want staleVersionTTL, vacuumTick, the accessor's own %s map and mutex; stored in %sVacuum=%v)", Path(a[2]), Path(a[3]), Path(a[4]), Path(a[5]), field, field, stored)
			}
		}
	}
	if nv := w.Fn(pkgVacuum, "NewMapVacuum"); nv != nil {
		for _, alt := range ReturnAlts(nv, 0) {
			ok := Path(litField(alt.Val, "ttl")) == "param:ttl" && Path(litField(alt.Val, "tick")) == "param:tick" && Path(litField(alt.Val, "mapToVacuum")) == "param:mapToVacuum" &&
				Path(litField(alt.Val, "mapMutex")) == "param:mapMutex" && Path(litField(alt.Val, "clock")) == "param:clock"
			r.Check(ok, "R4", "NewMapVacuum/fields", posOf(alt.Ret), "MapVacuum{ttl: ttl, tick: tick, mapToVacuum: mapToVacuum, mapMutex: mapMutex, clock: clock}")
		}
	} else {
		r.Undec("R4", "NewMapVacuum", token.NoPos, "function not found")
	}
	// R5 vacuum
	if vk := w.Fn(pkgVacuum, "MapVacuum.VacuumKey"); vk != nil {
		okAt := false
		Instrs(vk, func(in ssa.Instruction) {
			if st, ok := in.(*ssa.Store); ok {
				if fa, ok := st.Addr.(*ssa.FieldAddr); ok && fieldName(fa.X.Type(), fa.Field) == "vacuumAt" {
					okAt = Path(st.Val) == "(time.Time).Add((clock.Clock).Now(param:mapVacuum.clock), param:mapVacuum.ttl)"
				}
			}
		})
		r.Check(okAt, "R5", "VacuumKey/vacuumAt-is-now-plus-ttl", vk.Pos(), "entry.vacuumAt = clock.Now().Add(ttl)")
		ap := CallsIn(vk, false, "builtin.append")
		okAp := len(ap) == 1 && Path(ap[0].Common().Args[0]) == "param:mapVacuum.entries" && len(CondsOf(ap[0].Block())) == 0
		st := fieldStores(vk, "entries")
		okAp = okAp && len(st) == 1 && st[0].Val == ap[0].Value()
		r.Check(okAp, "R5", "VacuumKey/entry-appended", vk.Pos(), "every scheduled key is appended to the live entry list")
		bg := CallsIn(vk, false, "MapVacuum).vacuumInBackground")
		okBg := len(bg) == 1 && condsHave(CondsOf(bg[0].Block()), false, func(v ssa.Value) bool { return Path(v) == "param:mapVacuum.active" })
		r.Check(okBg, "R5", "VacuumKey/starts-background-once", vk.Pos(), "the background vacuum is started on the first scheduled key")
	} else {
		r.Undec("R5", "VacuumKey", token.NoPos, "function not found")
	}
	if vb := w.Fn(pkgVacuum, "MapVacuum.vacuumInBackground"); vb != nil {
		ok := false
		for _, a := range vb.AnonFuncs {
			v := CallsIn(a, false, "MapVacuum).vacuum")
			s := CallsIn(a, false, "clock.Clock).Sleep")
			ok = len(v) == 1 && len(s) == 1 && strings.HasSuffix(Path(s[0].Common().Args[0]), "mapVacuum.tick") && reachableFrom(s[0].Block(), nil)[v[0].Block()]
		}
		r.Check(ok, "R5", "vacuumInBackground/loop", vb.Pos(), "the goroutine alternates vacuum() and Sleep(tick)")
	}
	if vc := w.Fn(pkgVacuum, "MapVacuum.vacuum"); vc == nil {
		r.Undec("R5", "vacuum", token.NoPos, "function not found")
	} else {
		var del *ssa.Call
		Instrs(vc, func(in ssa.Instruction) {
			if c, ok := in.(*ssa.Call); ok {
				if b, ok := c.Call.Value.(*ssa.Builtin); ok && b.Name() == "delete" {
					del = c
				}
			}
		})
		if del == nil {
			r.Undec("R5", "vacuum/delete", vc.Pos(), "delete site not found")
		} else {
			op := ""
			// the entry whose expiry is tested is the entry whose key is deleted (a test of the
			// first entry only, hoisted in front of the loop, says nothing about the others)
			entryOf := func(p, field string) string { return strings.TrimSuffix(p, field) }
			delEntry := entryOf(Path(del.Call.Args[1]), ".keyToVacuum")
			for _, rel := range Rels(del.Block()) {
				if strings.HasSuffix(Path(rel.L), ".vacuumAt") && entryOf(Path(rel.L), ".vacuumAt") == delEntry && isCallTo0(rel.R, "clock.Clock).Now") {
					op = rel.Op
				} else if strings.HasSuffix(Path(rel.R), ".vacuumAt") && entryOf(Path(rel.R), ".vacuumAt") == delEntry && isCallTo0(rel.L, "clock.Clock).Now") {
					op = flipOp(rel.Op)
				}
			}
			mode := la.HeldAt(del)["param:mapVacuum.mapMutex"]
			okKey := Path(del.Call.Args[0]) == "param:mapVacuum.mapToVacuum" && strings.HasSuffix(Path(del.Call.Args[1]), ".keyToVacuum")
			r.Check(op == "<" && mode == 'W' && okKey, "R5", "vacuum/deletes-only-expired-under-lock", posOf(del), "delete(mapToVacuum, entry.keyToVacuum) executes under vacuumAt %q now (want <) with mapMutex held in mode %q", op, string(mode))
			// trimming the live list by the number of deleted entries
			st := fieldStores(vc, "entries")
			okTrim := len(st) == 1
			if okTrim {
				sl, isSl := st[0].Val.(*ssa.Slice)
				okTrim = isSl && Path(sl.X) == "param:mapVacuum.entries" && sl.High == nil && sl.Low != nil
				if okTrim {
					mode := la.HeldAt(st[0])["param:mapVacuum.entriesMutex"]
					ld := sl.X.(ssa.Instruction)
					okTrim = mode == 'W' && !unlockOnPath(ld, st[0])
					_, hl := la.HeldAt(ld)["param:mapVacuum.entriesMutex"]
					okTrim = okTrim && hl
				}
			}
			r.Check(okTrim, "R5", "vacuum/trims-live-entries", vc.Pos(), "entries = entries[deleteUntil:] re-reads the live list under entriesMutex (keys scheduled meanwhile are kept)")
		}
	}
	// R6 handlers
	for _, name := range []string{"processRequest", "processResponse"} {
		f := w.Fn(pkgRouting, name)
		if f == nil {
			r.Undec("R6", name, token.NoPos, "function not found")
			continue
		}
		cs := CallsIn(f, false, "TxnPoliciesAccessor).GetTxnPoliciesData")
		if len(cs) != 1 {
			r.Undec("R6", name+"/pin", f.Pos(), "expected one GetTxnPoliciesData call, found %d", len(cs))
			continue
		}
		arg := Path(cs[0].Common().Args[1])
		okID := strings.HasSuffix(arg, "args.ID")
		disp := CallsIn(f, false, "runner.DispatchOnRequest", "runner.DispatchOnResponse")
		okD := len(disp) == 1
		if okD {
			a := disp[0].Common().Args
			g := Path(cs[0].Value())
			okD = Path(a[1]) == "&"+g+".EndpointPolicyTree" && strings.HasPrefix(Path(a[2]), "&"+g+".Config")
		}
		r.Check(okID && okD, "R6", name+"/pinned-by-transaction-id", posOf(cs[0]), "policies = GetTxnPoliciesData(TxnID(%s)) and that one object's tree and config go to the dispatcher=%v", arg, okD)
	}
	r.Min("R1", 10)
	r.Min("R2", 5)
	r.Min("R3", 3)
	c11ClockKeepsMonotonicReading(w, r)
	r.Min("R4", 6)
	r.Min("R5", 6)
	r.Min("R6", 2)
}

// ownerStruct: for a value loaded from a struct field, the struct's name.
func ownerStruct(v ssa.Value) string {
	if u, ok := peel(v).(*ssa.UnOp); ok {
		if fa, ok := u.X.(*ssa.FieldAddr); ok {
			return structOf(fa.X.Type())
		}
	}
	return ""
}

// c11ClockKeepsMonotonicReading: the version and pin retention deadlines are
// compared with clock.Now(); the real clock returns time.Now() as it is - any
// normalisation (UTC, Round, Truncate, In, Local, Unix round-trips) strips Go's
// monotonic reading and makes the 30 s retention depend on wall-clock steps.
func c11ClockKeepsMonotonicReading(w *World, r *Report) {
	f := w.Fn("lunar/toolkit-core/clock", "RealClock.Now")
	if f == nil {
		r.Undec("R4", "RealClock.Now", token.NoPos, "function not found")
		return
	}
	ok, n := true, 0
	for _, alt := range ReturnAlts(f, 0) {
		n++
		c, isC := peel(alt.Val).(*ssa.Call)
		if !isC || calleeID(c) != "time.Now" {
			ok = false
		}
	}
	r.Check(ok && n == 1, "R4", "RealClock.Now/returns-time.Now-unmodified", f.Pos(), "the real clock hands out time.Now() itself, with its monotonic reading")
}
