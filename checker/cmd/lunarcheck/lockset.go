package main

import (
	"go/token"
	"sort"
	"strings"

	"golang.org/x/tools/go/ssa"
)

// LS is a must-lockset: lock path -> 'W' (Lock) or 'R' (RLock).
type LS map[string]byte

func (a LS) clone() LS {
	b := LS{}
	for k, v := range a {
		b[k] = v
	}
	return b
}

func meetLS(a, b LS) LS {
	out := LS{}
	for k, va := range a {
		if vb, ok := b[k]; ok {
			if va == 'R' || vb == 'R' {
				out[k] = 'R'
			} else {
				out[k] = 'W'
			}
		}
	}
	return out
}

func eqLS(a, b LS) bool {
	if len(a) != len(b) {
		return false
	}
	for k, v := range a {
		if b[k] != v {
			return false
		}
	}
	return true
}

func (a LS) String() string {
	var s []string
	for k, v := range a {
		s = append(s, k+":"+string(v))
	}
	sort.Strings(s)
	return "{" + strings.Join(s, ",") + "}"
}

type lockSummary struct {
	acq LS              // held at every return, relative to params
	rel map[string]bool // unlocked without having been locked here
}

// LockAn is the interprocedural must-lockset analysis over lunar/* code.
type LockAn struct {
	w      *World
	entry  map[*ssa.Function]LS
	sum    map[*ssa.Function]*lockSummary
	before map[ssa.Instruction]LS
	sites  map[*ssa.Function][]CallSite // static call sites per callee
	valUse map[*ssa.Function]bool       // function used as a value / go / defer target
	relev  map[*ssa.Function]bool
}

func lockOp(in ssa.Instruction) (op string, addr ssa.Value) {
	c, ok := in.(ssa.CallInstruction)
	if !ok {
		return "", nil
	}
	id := calleeID(c)
	var name string
	switch {
	case strings.HasPrefix(id, "(*sync.Mutex)."), strings.HasPrefix(id, "(*sync.RWMutex)."):
		name = id[strings.LastIndex(id, ".")+1:]
		if len(c.Common().Args) == 0 {
			return "", nil
		}
		addr = c.Common().Args[0]
	case strings.HasPrefix(id, "(sync.Locker)."):
		name = id[strings.LastIndex(id, ".")+1:]
		addr = c.Common().Value
	default:
		return "", nil
	}
	switch name {
	case "Lock", "RLock", "Unlock", "RUnlock":
		return name, addr
	}
	return "", nil
}

func lockKey(addr ssa.Value) string {
	return strings.TrimPrefix(Path(addr), "&")
}

// NewLockAn computes summaries and caller-held entry locksets to a fixpoint.
func NewLockAn(w *World) *LockAn {
	la := &LockAn{w: w, entry: map[*ssa.Function]LS{}, sum: map[*ssa.Function]*lockSummary{},
		before: map[ssa.Instruction]LS{}, sites: map[*ssa.Function][]CallSite{}, valUse: map[*ssa.Function]bool{}, relev: map[*ssa.Function]bool{}}
	var fns []*ssa.Function
	for _, f := range w.lunarFns {
		if f.Origin() != nil {
			continue
		}
		fns = append(fns, f)
	}
	// static call sites and value uses
	for _, f := range fns {
		Instrs(f, func(in ssa.Instruction) {
			if c, ok := in.(ssa.CallInstruction); ok {
				if callee := c.Common().StaticCallee(); callee != nil {
					callee = origin(callee)
					la.sites[callee] = append(la.sites[callee], CallSite{c, f})
				}
			}
			for _, op := range in.Operands(nil) {
				if g, ok := (*op).(*ssa.Function); ok {
					if c, isCall := in.(ssa.CallInstruction); isCall && c.Common().Value == g {
						if _, isGo := in.(*ssa.Go); !isGo {
							continue
						}
					}
					la.valUse[origin(g)] = true
				}
			}
		})
	}
	for iter := 0; iter < 6; iter++ {
		changed := false
		for _, f := range fns {
			if la.analyze(f) {
				changed = true
			}
		}
		// entry locksets for unexported, non-escaping functions
		for _, f := range fns {
			if !la.callerHeldEligible(f) {
				continue
			}
			var acc LS
			for _, cs := range la.sites[f] {
				var at LS
				if f.Signature.Recv() != nil && len(cs.In.Common().Args) > 0 && isFreshBase(cs.In.Common().Args[0]) {
					if _, isGo := cs.In.(*ssa.Go); !isGo {
						continue // constructor call on a not-yet-shared object
					}
				}
				if _, isGo := cs.In.(*ssa.Go); isGo {
					at = LS{}
				} else {
					at = la.mapToCallee(la.before[cs.In], cs.In, f)
				}
				if acc == nil {
					acc = at
				} else {
					acc = meetLS(acc, at)
				}
			}
			if acc == nil {
				acc = LS{}
			}
			if !eqLS(acc, la.entry[f]) {
				la.entry[f] = acc
				changed = true
			}
		}
		if !changed {
			break
		}
	}
	return la
}

func (la *LockAn) callerHeldEligible(f *ssa.Function) bool {
	if f.Parent() != nil || la.valUse[f] || len(la.sites[f]) == 0 {
		return false
	}
	o := f.Object()
	if o == nil {
		return false
	}
	if o.Exported() {
		// exported methods of unexported types with only static in-repo callers
		// could qualify, but interface dispatch makes that unsound; keep empty.
		return false
	}
	// a method reachable through an interface may have unseen callers
	if f.Signature.Recv() != nil && la.w.implementsInterfaceMethod(f) {
		return false
	}
	return true
}

// mapToCallee renames caller lock paths into the callee's parameter space.
func (la *LockAn) mapToCallee(ls LS, call ssa.CallInstruction, callee *ssa.Function) LS {
	out := LS{}
	args := call.Common().Args
	for k, v := range ls {
		for i, p := range callee.Params {
			if i >= len(args) {
				break
			}
			ap := strings.TrimPrefix(Path(args[i]), "&")
			if ap == "" {
				continue
			}
			if k == ap || strings.HasPrefix(k, ap+".") {
				out["param:"+canonParam(p)+k[len(ap):]] = v
			}
		}
	}
	return out
}

// mapToCaller renames a callee lock path into the caller's space.
func mapToCaller(k string, call ssa.CallInstruction, callee *ssa.Function) (string, bool) {
	args := call.Common().Args
	for i, p := range callee.Params {
		if i >= len(args) {
			break
		}
		pp := "param:" + canonParam(p)
		if k == pp || strings.HasPrefix(k, pp+".") {
			ap := strings.TrimPrefix(Path(args[i]), "&")
			return ap + k[len(pp):], true
		}
	}
	return "", false
}

// analyze runs the forward must-analysis on f; returns true if its summary changed.
func (la *LockAn) analyze(f *ssa.Function) bool {
	if len(f.Blocks) == 0 {
		return false
	}
	in := map[*ssa.BasicBlock]LS{}
	out := map[*ssa.BasicBlock]LS{}
	entry := la.entry[f]
	if entry == nil {
		entry = LS{}
	}
	rel := map[string]bool{}
	order := f.DomPreorder()
	for changed := true; changed; {
		changed = false
		for _, b := range order {
			var st LS
			if b == f.Blocks[0] {
				st = entry.clone()
			} else {
				first := true
				for _, p := range b.Preds {
					po, ok := out[p]
					if !ok {
						continue // unvisited = TOP
					}
					if first {
						st, first = po.clone(), false
					} else {
						st = meetLS(st, po)
					}
				}
				if first {
					continue
				}
			}
			in[b] = st.clone()
			for _, ins := range b.Instrs {
				la.before[ins] = st.clone()
				if _, isDefer := ins.(*ssa.Defer); isDefer {
					continue // deferred unlock keeps the lock until exit
				}
				if _, isGo := ins.(*ssa.Go); isGo {
					continue
				}
				if op, addr := lockOp(ins); op != "" {
					k := lockKey(addr)
					switch op {
					case "Lock":
						st[k] = 'W'
					case "RLock":
						st[k] = 'R'
					case "Unlock", "RUnlock":
						if _, held := st[k]; !held {
							rel[k] = true
						}
						delete(st, k)
					}
					continue
				}
				if c, ok := ins.(*ssa.Call); ok {
					if callee := c.Call.StaticCallee(); callee != nil {
						if s := la.sum[origin(callee)]; s != nil {
							for k := range s.rel {
								if ck, ok := mapToCaller(k, c, origin(callee)); ok {
									if _, held := st[ck]; !held {
										rel[ck] = true
									}
									delete(st, ck)
								}
							}
							for k, v := range s.acq {
								if ck, ok := mapToCaller(k, c, origin(callee)); ok {
									st[ck] = v
								}
							}
						}
					}
				}
			}
			if old, ok := out[b]; !ok || !eqLS(old, st) {
				out[b] = st
				changed = true
			}
		}
	}
	// summary: locks held at every return beyond the entry set
	var acq LS
	for _, b := range f.Blocks {
		if len(b.Instrs) == 0 {
			continue
		}
		if _, ok := b.Instrs[len(b.Instrs)-1].(*ssa.Return); !ok {
			continue
		}
		o, ok := out[b]
		if !ok {
			continue
		}
		if acq == nil {
			acq = o.clone()
		} else {
			acq = meetLS(acq, o)
		}
	}
	s := &lockSummary{acq: LS{}, rel: map[string]bool{}}
	for k, v := range acq {
		if _, atEntry := entry[k]; !atEntry && strings.HasPrefix(k, "param:") {
			// a deferred unlock releases at exit: not an acquiring wrapper
			if !hasDeferredUnlock(f, k) {
				s.acq[k] = v
			}
		}
	}
	for k := range rel {
		if strings.HasPrefix(k, "param:") {
			s.rel[k] = true
		}
	}
	old := la.sum[f]
	la.sum[f] = s
	if old == nil {
		return len(s.acq) > 0 || len(s.rel) > 0
	}
	if !eqLS(old.acq, s.acq) || len(old.rel) != len(s.rel) {
		return true
	}
	for k := range s.rel {
		if !old.rel[k] {
			return true
		}
	}
	return false
}

func hasDeferredUnlock(f *ssa.Function, key string) bool {
	found := false
	Instrs(f, func(in ssa.Instruction) {
		if d, ok := in.(*ssa.Defer); ok {
			if op, addr := lockOp(d); (op == "Unlock" || op == "RUnlock") && lockKey(addr) == key {
				found = true
			}
		}
	})
	return found
}

// HeldAt returns the must-lockset immediately before instruction in.
func (la *LockAn) HeldAt(in ssa.Instruction) LS {
	return la.before[in]
}

// implementsInterfaceMethod: is f a method whose name appears in some
// interface of lunar/* that its receiver type implements?
func (w *World) implementsInterfaceMethod(f *ssa.Function) bool {
	recv := f.Signature.Recv()
	if recv == nil {
		return false
	}
	for _, it := range w.interfaces() {
		if typesImplements(recv.Type(), it) {
			for i := 0; i < it.NumMethods(); i++ {
				if it.Method(i).Name() == f.Name() {
					return true
				}
			}
		}
	}
	return false
}

// Leak is a return reached with a lock (acquired in the same function, not
// released by a defer) possibly still held.
type Leak struct {
	Ret  *ssa.Return
	Key  string
	Must bool // held on every path to this return
}

// deferredUnlockKeys: lock paths released by a defer (direct or through a
// deferred closure), in the outer function's path space.
func deferredUnlockKeys(f *ssa.Function) map[string]bool {
	out := map[string]bool{}
	Instrs(f, func(in ssa.Instruction) {
		d, ok := in.(*ssa.Defer)
		if !ok {
			return
		}
		if op, addr := lockOp(d); op == "Unlock" || op == "RUnlock" {
			out[lockKey(addr)] = true
			return
		}
		if mc, ok := d.Call.Value.(*ssa.MakeClosure); ok {
			if fn, ok := mc.Fn.(*ssa.Function); ok {
				Instrs(fn, func(in2 ssa.Instruction) {
					if op, addr := lockOp(in2); op == "Unlock" || op == "RUnlock" {
						k := lockKey(addr)
						out[k] = true
						out[strings.Replace(k, "free:", "param:", 1)] = true
						out[strings.Replace(k, "free:", "local:", 1)] = true
					}
				})
			}
		}
	})
	return out
}

// Leaks runs a forward may-held analysis over f for locks acquired inside f
// (directly or through an acquiring wrapper) and reports every return that a
// lock can reach without a release. Path-insensitive: a lock taken and
// released under the same condition in two separate ifs would be reported;
// the callers of this function list such idioms explicitly if they occur.
func (la *LockAn) Leaks(f *ssa.Function) []Leak {
	if len(f.Blocks) == 0 {
		return nil
	}
	type set map[string]bool
	out := map[*ssa.BasicBlock]set{}
	step := func(st set, ins ssa.Instruction) {
		if _, isDefer := ins.(*ssa.Defer); isDefer {
			return
		}
		if _, isGo := ins.(*ssa.Go); isGo {
			return
		}
		if op, addr := lockOp(ins); op != "" {
			k := lockKey(addr)
			switch op {
			case "Lock", "RLock":
				st[k] = true
			default:
				delete(st, k)
			}
			return
		}
		if c, ok := ins.(*ssa.Call); ok {
			if callee := c.Call.StaticCallee(); callee != nil {
				if s := la.sum[origin(callee)]; s != nil {
					for k := range s.rel {
						if ck, ok := mapToCaller(k, c, origin(callee)); ok {
							delete(st, ck)
						}
					}
					for k := range s.acq {
						if ck, ok := mapToCaller(k, c, origin(callee)); ok {
							st[ck] = true
						}
					}
				}
			}
		}
	}
	for changed := true; changed; {
		changed = false
		for _, b := range f.DomPreorder() {
			st := set{}
			for _, p := range b.Preds {
				for k := range out[p] {
					st[k] = true
				}
			}
			for _, ins := range b.Instrs {
				step(st, ins)
			}
			if old, ok := out[b]; !ok || len(old) != len(st) {
				out[b] = st
				changed = true
			} else {
				for k := range st {
					if !old[k] {
						out[b] = st
						changed = true
					}
				}
			}
		}
	}
	deferred := deferredUnlockKeys(f)
	var leaks []Leak
	for _, b := range f.Blocks {
		if b == f.Recover || len(b.Instrs) == 0 {
			continue
		}
		ret, ok := b.Instrs[len(b.Instrs)-1].(*ssa.Return)
		if !ok {
			continue
		}
		var keys []string
		for k := range out[b] {
			if !deferred[k] {
				keys = append(keys, k)
			}
		}
		sort.Strings(keys)
		for _, k := range keys {
			_, must := la.before[ret][k]
			leaks = append(leaks, Leak{ret, k, must})
		}
	}
	return leaks
}

// acquiresMutexOf: does f call Lock/RLock on field mutex of struct pkg.name?
func acquiresMutexOf(f *ssa.Function, pkg, name, mutex string) bool {
	found := false
	Instrs(f, func(in ssa.Instruction) {
		if op, addr := lockOp(in); op == "Lock" || op == "RLock" {
			a := peel(addr)
			if u, ok := a.(*ssa.UnOp); ok && u.Op == token.MUL {
				a = u.X // mutex held by pointer
			}
			if fa, ok := a.(*ssa.FieldAddr); ok {
				p, n := namedOf(fa.X.Type())
				if p == pkg && n == name && fieldName(fa.X.Type(), fa.Field) == mutex {
					found = true
				}
			}
		}
	})
	return found
}
