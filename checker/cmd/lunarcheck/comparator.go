package main

import (
	"fmt"
	"go/constant"
	"go/token"
	"strings"

	"golang.org/x/tools/go/ssa"
)

// A comparator touches its operands only through comparisons, so what it
// computes is a function of finitely many orderings. Instead of matching the
// shape of `Less` (two returns, one `==`, one `<`) the rule below interprets
// its SSA over that finite abstract domain: the two priorities stand in one of
// {<, =, >}, so do the two arrival times, and every value the function computes
// is a boolean, a sign, or one of those four quantities. Nothing is executed;
// a comparison whose outcome is not determined by the orderings (for example
// the difference of two priorities compared with 1) makes the scenario
// undecided, and the obligation fails naming it.

type ordv struct {
	kind  string // "bool", "sign", "prio", "time", "elem", "elemaddr", "fieldaddr", "coll", "idx", "int", "unknown"
	b     bool
	n     int64  // sign: -1/0/1; int: the constant
	exact bool   // sign: the value is exactly -1, 0 or 1
	who   string // "i" or "j"
	field string
	why   string
}

type ordScenario struct{ prio, ts int } // relation of i to j: -1 less, 0 equal, 1 greater

type ordFrame struct {
	fn                   *ssa.Function
	args                 []ordv
	sc                   ordScenario
	memo                 map[ssa.Value]ordv
	prev                 *ssa.BasicBlock
	d                    int
	prioField, timeField string
}

func unknownf(format string, a ...any) ordv {
	return ordv{kind: "unknown", why: fmt.Sprintf(format, a...)}
}

func relOf(sc ordScenario, kind, a, b string) int {
	r := sc.prio
	if kind == "time" {
		r = sc.ts
	}
	switch {
	case a == b:
		return 0
	case a == "i":
		return r
	default:
		return -r
	}
}

func cmpInts(op token.Token, x, y int64) bool {
	switch op {
	case token.EQL:
		return x == y
	case token.NEQ:
		return x != y
	case token.LSS:
		return x < y
	case token.LEQ:
		return x <= y
	case token.GTR:
		return x > y
	case token.GEQ:
		return x >= y
	}
	return false
}

func (fr *ordFrame) eval(v ssa.Value) ordv {
	if r, ok := fr.memo[v]; ok {
		return r
	}
	r := fr.eval1(v)
	fr.memo[v] = r
	return r
}

func (fr *ordFrame) eval1(v ssa.Value) ordv {
	switch x := v.(type) {
	case *ssa.Parameter:
		for k, p := range fr.fn.Params {
			if p == x && k < len(fr.args) {
				return fr.args[k]
			}
		}
		return unknownf("parameter %s", x.Name())
	case *ssa.Const:
		if x.Value == nil {
			return unknownf("nil")
		}
		switch x.Value.Kind() {
		case constant.Bool:
			return ordv{kind: "bool", b: constant.BoolVal(x.Value)}
		case constant.Int:
			n, _ := constant.Int64Val(x.Value)
			return ordv{kind: "int", n: n}
		}
		return unknownf("constant %s", x.Value)
	case *ssa.IndexAddr:
		c, i := fr.eval(x.X), fr.eval(x.Index)
		if c.kind == "coll" && i.kind == "idx" {
			return ordv{kind: "elemaddr", who: i.who}
		}
		return unknownf("index of %s", c.kind)
	case *ssa.Index:
		c, i := fr.eval(x.X), fr.eval(x.Index)
		if c.kind == "coll" && i.kind == "idx" {
			return ordv{kind: "elem", who: i.who}
		}
		return unknownf("index of %s", c.kind)
	case *ssa.FieldAddr:
		e := fr.eval(x.X)
		if e.kind == "elem" {
			return ordv{kind: "fieldaddr", who: e.who, field: fieldName(x.X.Type(), x.Field)}
		}
		return unknownf("field of %s", e.kind)
	case *ssa.Field:
		e := fr.eval(x.X)
		if e.kind == "elem" {
			return fr.fieldValue(e.who, fieldName(x.X.Type(), x.Field))
		}
		return unknownf("field of %s", e.kind)
	case *ssa.Alloc:
		// a spilled parameter / local: the single value stored in it
		if sv := singleStore(x); sv != nil {
			in := fr.eval(sv)
			return ordv{kind: "box:" + in.kind, who: in.who, b: in.b, n: in.n, exact: in.exact, field: in.field}
		}
		return unknownf("local with several stores")
	case *ssa.UnOp:
		switch x.Op {
		case token.MUL:
			a := fr.eval(x.X)
			switch {
			case a.kind == "elemaddr":
				return ordv{kind: "elem", who: a.who}
			case a.kind == "fieldaddr":
				return fr.fieldValue(a.who, a.field)
			case strings.HasPrefix(a.kind, "box:"):
				a.kind = strings.TrimPrefix(a.kind, "box:")
				return a
			}
			return unknownf("load of %s", a.kind)
		case token.NOT:
			a := fr.eval(x.X)
			if a.kind == "bool" {
				return ordv{kind: "bool", b: !a.b}
			}
			return a
		case token.SUB:
			a := fr.eval(x.X)
			if a.kind == "sign" {
				a.n = -a.n
				return a
			}
			if a.kind == "int" {
				a.n = -a.n
				return a
			}
			return unknownf("negation of %s", a.kind)
		}
	case *ssa.Convert:
		return fr.eval(x.X)
	case *ssa.ChangeType:
		return fr.eval(x.X)
	case *ssa.BinOp:
		a, b := fr.eval(x.X), fr.eval(x.Y)
		if a.kind == "unknown" {
			return a
		}
		if b.kind == "unknown" {
			return b
		}
		switch x.Op {
		case token.EQL, token.NEQ, token.LSS, token.LEQ, token.GTR, token.GEQ:
			if (a.kind == "prio" && b.kind == "prio") || (a.kind == "time" && b.kind == "time") {
				return ordv{kind: "bool", b: cmpInts(x.Op, int64(relOf(fr.sc, a.kind, a.who, b.who)), 0)}
			}
			// a sign against a constant
			sg, k, op := a, b, x.Op
			if a.kind == "int" && b.kind == "sign" {
				sg, k = b, a
				op = map[token.Token]token.Token{token.LSS: token.GTR, token.GTR: token.LSS, token.LEQ: token.GEQ, token.GEQ: token.LEQ, token.EQL: token.EQL, token.NEQ: token.NEQ}[op]
			}
			if sg.kind == "sign" && k.kind == "int" {
				if sg.exact || k.n == 0 {
					return ordv{kind: "bool", b: cmpInts(op, sg.n, k.n)}
				}
				// only the sign is known: decided when every value of that sign answers alike
				reps := map[int64][]int64{-1: {-1, -2, -1 << 40}, 0: {0}, 1: {1, 2, 1 << 40}}[sg.n]
				same := true
				for _, v := range reps {
					if cmpInts(op, v, k.n) != cmpInts(op, reps[0], k.n) {
						same = false
					}
				}
				if same {
					return ordv{kind: "bool", b: cmpInts(op, reps[0], k.n)}
				}
				return unknownf("the outcome of comparing a difference with %d depends on how far apart the operands are, not on their order", k.n)
			}
			if a.kind == "int" && b.kind == "int" {
				return ordv{kind: "bool", b: cmpInts(x.Op, a.n, b.n)}
			}
			if a.kind == "bool" && b.kind == "bool" && (x.Op == token.EQL || x.Op == token.NEQ) {
				return ordv{kind: "bool", b: (a.b == b.b) == (x.Op == token.EQL)}
			}
			return unknownf("comparison of %s with %s", a.kind, b.kind)
		case token.SUB:
			if a.kind == "prio" && b.kind == "prio" {
				return ordv{kind: "sign", n: int64(relOf(fr.sc, "prio", a.who, b.who))}
			}
		case token.AND, token.OR:
			if a.kind == "bool" && b.kind == "bool" {
				if x.Op == token.AND {
					return ordv{kind: "bool", b: a.b && b.b}
				}
				return ordv{kind: "bool", b: a.b || b.b}
			}
		}
		return unknownf("%s of %s and %s", x.Op, a.kind, b.kind)
	case *ssa.Phi:
		for k, p := range x.Block().Preds {
			if p == fr.prev {
				return fr.eval(x.Edges[k])
			}
		}
		return unknownf("phi without a taken edge")
	case *ssa.Call:
		return fr.call(x)
	}
	return unknownf("%T", v)
}

func (fr *ordFrame) fieldValue(who, field string) ordv {
	switch field {
	case fr.prioField:
		return ordv{kind: "prio", who: who}
	case fr.timeField:
		return ordv{kind: "time", who: who}
	}
	return unknownf("field %s is not one of the two compared quantities", field)
}

func (fr *ordFrame) call(c *ssa.Call) ordv {
	var args []ordv
	for _, a := range c.Call.Args {
		args = append(args, fr.eval(a))
	}
	id := calleeID(c)
	two := func(kind string) bool { return len(args) == 2 && args[0].kind == kind && args[1].kind == kind }
	switch {
	case idMatches(id, "time.Time).Before") && two("time"):
		return ordv{kind: "bool", b: relOf(fr.sc, "time", args[0].who, args[1].who) < 0}
	case idMatches(id, "time.Time).After") && two("time"):
		return ordv{kind: "bool", b: relOf(fr.sc, "time", args[0].who, args[1].who) > 0}
	case idMatches(id, "time.Time).Equal") && two("time"):
		return ordv{kind: "bool", b: relOf(fr.sc, "time", args[0].who, args[1].who) == 0}
	case idMatches(id, "time.Time).Compare") && two("time"):
		return ordv{kind: "sign", exact: true, n: int64(relOf(fr.sc, "time", args[0].who, args[1].who))}
	case strings.HasPrefix(id, "cmp.Compare") && (two("prio") || two("time")):
		return ordv{kind: "sign", exact: true, n: int64(relOf(fr.sc, args[0].kind, args[0].who, args[1].who))}
	case strings.HasPrefix(id, "cmp.Less") && (two("prio") || two("time")):
		return ordv{kind: "bool", b: relOf(fr.sc, args[0].kind, args[0].who, args[1].who) < 0}
	}
	callee := c.Call.StaticCallee()
	if callee == nil || len(callee.Blocks) == 0 || fr.d > 3 || !strings.HasPrefix(fnPkgPath(callee), "lunar/") {
		return unknownf("call of %s", calleeShort(id))
	}
	sub := &ordFrame{fn: callee, args: args, sc: fr.sc, memo: map[ssa.Value]ordv{}, d: fr.d + 1, prioField: fr.prioField, timeField: fr.timeField}
	return sub.run()
}

// run interprets the function in its scenario and gives the (single) result.
func (fr *ordFrame) run() ordv {
	b := fr.fn.Blocks[0]
	for steps := 0; steps < 200; steps++ {
		last := b.Instrs[len(b.Instrs)-1]
		switch x := last.(type) {
		case *ssa.Return:
			if len(x.Results) != 1 {
				return unknownf("%d results", len(x.Results))
			}
			return fr.eval(x.Results[0])
		case *ssa.If:
			c := fr.eval(x.Cond)
			if c.kind != "bool" {
				if c.kind == "unknown" {
					return c
				}
				return unknownf("branch on %s", c.kind)
			}
			fr.prev = b
			if c.b {
				b = b.Succs[0]
			} else {
				b = b.Succs[1]
			}
		case *ssa.Jump:
			fr.prev = b
			b = b.Succs[0]
		default:
			return unknownf("block ends in %T", last)
		}
	}
	return unknownf("no result after 200 steps")
}

// checkLessByOrderings: Less(i, j) is true exactly when i has the better (smaller) priority, or
// the same priority and the earlier arrival - for each of the nine orderings of the two pairs.
func checkLessByOrderings(w *World, r *Report, rule string, less *ssa.Function, prioField, timeField string) {
	names := map[int]string{-1: "<", 0: "=", 1: ">"}
	n := 0
	for _, p := range []int{-1, 0, 1} {
		for _, t := range []int{-1, 0, 1} {
			n++
			fr := &ordFrame{fn: less, sc: ordScenario{p, t}, memo: map[ssa.Value]ordv{}, prioField: prioField, timeField: timeField,
				args: []ordv{{kind: "coll"}, {kind: "idx", who: "i"}, {kind: "idx", who: "j"}}}
			got := fr.run()
			want := p < 0 || (p == 0 && t < 0)
			key := fmt.Sprintf("Less/priority%sarrival%s", map[int]string{-1: "-lower-", 0: "-equal-", 1: "-higher-"}[p], map[int]string{-1: "-earlier", 0: "-same", 1: "-later"}[t])
			switch {
			case got.kind == "bool":
				r.Check(got.b == want, rule, key, less.Pos(), "priority_i %s priority_j, arrival_i %s arrival_j: Less gives %v (want %v: lower priority value first, ties by earlier arrival)", names[p], names[t], got.b, want)
			default:
				r.Fail(rule, key, less.Pos(), "priority_i %s priority_j, arrival_i %s arrival_j: the result is not determined by the two orderings (%s)", names[p], names[t], got.why)
			}
		}
	}
}
