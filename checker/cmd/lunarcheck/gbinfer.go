package main

import (
	"fmt"
	"go/types"
	"sort"
	"strings"

	"golang.org/x/tools/go/ssa"
)

// gbInfer is a discovery aid (never a verdict): for every struct of lunar/*
// that has a sync.Mutex/RWMutex field it counts, per other field, the accesses
// made with one of the struct's own mutexes held and without. Fields with a
// mixed discipline are candidates for the guarded-by table; each is confirmed
// by reading before it is frozen there.
func gbInfer(w *World) {
	la := NewLockAn(w)
	type key struct{ pkg, st, field string }
	type cnt struct {
		locked, unlocked, wUnlocked int
		where                       []string
	}
	stats := map[key]*cnt{}
	mutexes := map[string][]string{} // pkg.struct -> mutex fields
	for _, p := range w.Pkgs {
		sc := p.Types.Scope()
		for _, n := range sc.Names() {
			tn, ok := sc.Lookup(n).(*types.TypeName)
			if !ok {
				continue
			}
			st, ok := tn.Type().Underlying().(*types.Struct)
			if !ok {
				continue
			}
			for i := 0; i < st.NumFields(); i++ {
				t := st.Field(i).Type().String()
				if strings.HasSuffix(t, "sync.Mutex") || strings.HasSuffix(t, "sync.RWMutex") {
					mutexes[p.PkgPath+"."+n] = append(mutexes[p.PkgPath+"."+n], st.Field(i).Name())
				}
			}
		}
	}
	for _, f := range w.lunarFns {
		if f.Origin() != nil {
			continue
		}
		Instrs(f, func(in ssa.Instruction) {
			fa, ok := in.(*ssa.FieldAddr)
			if !ok {
				return
			}
			pk, sn := namedOf(fa.X.Type())
			ms := mutexes[pk+"."+sn]
			if len(ms) == 0 || isFreshBase(fa.X) {
				return
			}
			fld := fieldName(fa.X.Type(), fa.Field)
			for _, m := range ms {
				if m == fld {
					return
				}
			}
			refs := fa.Referrers()
			if refs == nil {
				return
			}
			for _, rr := range *refs {
				write := false
				switch x := rr.(type) {
				case *ssa.Store:
					write = x.Addr == fa
				case *ssa.UnOp:
				default:
					continue
				}
				held := la.HeldAt(rr)
				base := strings.TrimPrefix(Path(fa.X), "&")
				isLocked := false
				for _, m := range ms {
					if _, h := held[base+"."+m]; h {
						isLocked = true
					}
				}
				k := key{pk, sn, fld}
				c := stats[k]
				if c == nil {
					c = &cnt{}
					stats[k] = c
				}
				if isLocked {
					c.locked++
				} else {
					c.unlocked++
					if write {
						c.wUnlocked++
					}
					if len(c.where) < 4 {
						c.where = append(c.where, w.Pos(rr.Pos())+" "+shortFn(fnID(outermost(f))))
					}
				}
			}
		})
	}
	var keys []key
	for k := range stats {
		keys = append(keys, k)
	}
	sort.Slice(keys, func(i, j int) bool {
		return keys[i].pkg+keys[i].st+keys[i].field < keys[j].pkg+keys[j].st+keys[j].field
	})
	for _, k := range keys {
		c := stats[k]
		if c.locked > 0 && c.unlocked > 0 {
			fmt.Printf("MIXED %s.%s.%s locked=%d unlocked=%d (writes unlocked=%d) e.g. %v\n", k.pkg, k.st, k.field, c.locked, c.unlocked, c.wUnlocked, c.where)
		}
	}
	fmt.Printf("structs with a mutex: %d, fields accessed: %d\n", len(mutexes), len(stats))
}
