package main

import (
	"go/token"
	"sort"
	"strings"

	"golang.org/x/tools/go/ssa"
)

const (
	pkgFailsafe = "lunar/engine/failsafe"
	pkgConfig   = "lunar/engine/config"
)

func init() {
	register(&Property{
		ID:   "C20",
		Mods: []string{modEngine},
		Explanation: "Decides the guard structure of the single-goroutine diagnosis fail-safe state machine that makes alternation, the stability precondition and the cool-down hold by induction; not the wall-clock behaviour. " +
			"(R1) the two reactions are invoked only from run(), each only on the edge: observation equals the previous one, count >= ConsecutiveN, Since(changeStart) >= MinStablePeriod, not yet triggered, observation != current stable state, with OnChangeToTrue on the true and OnChangeToFalse on the false observation, and nothing else; " +
			"(R2) after either reaction currentStableState := observation and changeTriggered := true before the loop continues, nobody else writes them, the watcher starts at stable=true/untriggered; " +
			"(R3) on a changed observation count:=1, changeStart:=a fresh clock read, triggered:=false, otherwise count++; lastState:=observation once per iteration; (R4) the cool-down sleep follows OnChangeToFalse before the next observation; " +
			"(R5) all state fields are accessed only by run(), which is started only by `go` in RunInBackground; (R6) the two reactions are wired to RevertToDiagnosisFree / RevertToLastLoaded and each setting comes from its own environment getter. " +
			"NOT decided: timing of waits, the health predicate.",
		RuleText: "obligation = (rule, anchored construct) on SSA of run() and the constructors: edge-dominating condition sets, stores per branch, who-accesses inventory, closure call targets",
		Run:      runC20,
	})
}

func runC20(w *World, r *Report) {
	hrFailsafeReactions(w, r, "R7")
	hrSnapshotsAlwaysWritten(w, r, "R7")
	hrManageSendsEverything(w, r, "R7")
	hrUnmanageGlobalIsDelete(w, r, "R7")
	hrCfgManagedProtocol(w, r, "R7")
	r.Borrow(w, c11ClockKeepsMonotonicReading, map[string]string{"R4": "R3"})
	hrCfgSPOEBackendName(w, r, "R2")
	hrGlobalUnmanagedWithEndpoints(w, r, "R7")
	hrTruncatingWrite(w, r, "R7")
	hrHealthyIsConjunction(w, r, "R2")
	hrNoSessionSentinel(w, r, "R2")
	hrRevertUnmanageFlags(w, r, "R7")
	hrStatefulReceivers(w, r, "R7", pkgConfig, "TxnPoliciesAccessor")
	run := w.Fn(pkgFailsafe, "StateChangeWatcher.run")
	if run == nil {
		r.Undec("R1", "run", token.NoPos, "StateChangeWatcher.run not found")
		return
	}
	var obs ssa.Value
	Instrs(run, func(in ssa.Instruction) {
		if c, ok := in.(*ssa.Call); ok && Path(c.Call.Value) == "param:scw.config.ObtainPredicate" {
			obs = c
		}
	})
	if obs == nil {
		r.Undec("R1", "run/observation", run.Pos(), "ObtainPredicate call not found")
		return
	}
	isObs := func(v ssa.Value) bool { return v == obs }
	f := func(name string) VP { return pathRe(`^param:scw\.` + name + `$`) }

	type condSpec struct {
		name string
		ok   func([]Cond, []Rel) bool
	}
	common := []condSpec{
		{"observation == lastState", func(cs []Cond, rs []Rel) bool { op, _ := FindRel(rs, isObs, f("lastState")); return op == "==" }},
		{"changeCount >= ConsecutiveN", func(cs []Cond, rs []Rel) bool {
			op, _ := FindRel(rs, f("changeCount"), f(`config\.ConsecutiveN`))
			return op == ">="
		}},
		{"Since(changeStart) >= MinStablePeriod", func(cs []Cond, rs []Rel) bool {
			op, _ := FindRel(rs, func(v ssa.Value) bool {
				if isCallTo0(v, "clock.Clock).Since") && strings.HasSuffix(Path(v), "param:scw.changeStart)") {
					return true
				}
				// the same elapsed time written as t.Sub(changeStart) with t a reading of the clock
				// taken at (after) the observation
				c, isC := peel(v).(*ssa.Call)
				if !isC || !isCallTo(c, "time.Time).Sub") || len(c.Call.Args) != 2 || Path(c.Call.Args[1]) != "param:scw.changeStart" {
					return false
				}
				now, isNow := peel(c.Call.Args[0]).(*ssa.Call)
				return isNow && isCallTo(now, "clock.Clock).Now") && domInstr(obs.(ssa.Instruction), now)
			}, f(`config\.MinStablePeriod`))
			return op == ">="
		}},
		{"!changeTriggered", func(cs []Cond, rs []Rel) bool { return condsHave(cs, false, f("changeTriggered")) }},
		{"observation != currentStableState", func(cs []Cond, rs []Rel) bool {
			op, _ := FindRel(rs, isObs, f("currentStableState"))
			return op == "!="
		}},
	}
	checkConds := func(key string, pos token.Pos, cs []Cond, wantObs *bool) {
		rs := relsOfConds(cs)
		missing := []string{}
		for _, c := range common {
			if !c.ok(cs, rs) {
				missing = append(missing, c.name)
			}
		}
		n := len(common)
		if wantObs != nil {
			n++
			if !condsHave(cs, *wantObs, isObs) {
				missing = append(missing, "observation polarity")
			}
		}
		// no other condition (the wait branch merges before the observation)
		r.Check(len(missing) == 0 && len(cs) == n, "R1", key, pos, "guard = exactly the %d required conditions (missing %v, found %d: %s)", n, missing, len(cs), trunc(condsString(cs), 300))
	}
	var callT, callF []*ssa.Call
	for _, fn := range w.lunarFns {
		if fn.Origin() != nil {
			continue
		}
		if helperFor(fn) != nil {
			continue // part of its callers (adopt.go)
		}
		Instrs(fn, func(in ssa.Instruction) {
			c, ok := in.(*ssa.Call)
			if !ok {
				return
			}
			p := Path(c.Call.Value)
			isT, isF := strings.HasSuffix(p, ".OnChangeToTrue"), strings.HasSuffix(p, ".OnChangeToFalse")
			if !isT && !isF {
				return
			}
			if fn != run {
				r.Fail("R1", "callers(reactions)/"+shortFn(fnID(outermost(fn))), posOf(c), "reaction %s invoked outside run()", p)
				return
			}
			if isT {
				callT = append(callT, c)
			} else {
				callF = append(callF, c)
			}
		})
	}
	if len(callT) != 1 || len(callF) != 1 {
		r.Undec("R1", "run/reaction-sites", run.Pos(), "expected one OnChangeToTrue and one OnChangeToFalse call, found %d/%d", len(callT), len(callF))
		return
	}
	tr, fa := true, false
	checkConds("run/OnChangeToTrue-guard", posOf(callT[0]), CondsOf(callT[0].Block()), &tr)
	checkConds("run/OnChangeToFalse-guard", posOf(callF[0]), CondsOf(callF[0].Block()), &fa)

	// R2 stores after the reaction
	stS, stT := fieldStores(run, "currentStableState"), fieldStores(run, "changeTriggered")
	var trigTrue, trigFalse []*ssa.Store
	for _, s := range stT {
		if b, ok := constBool(s.Val); ok && b {
			trigTrue = append(trigTrue, s)
		} else {
			trigFalse = append(trigFalse, s)
		}
	}
	if len(stS) != 1 || len(trigTrue) != 1 {
		r.Undec("R2", "run/alternation-stores", run.Pos(), "expected one store of currentStableState and one changeTriggered=true, found %d/%d", len(stS), len(trigTrue))
	} else {
		s := stS[0]
		checkConds("run/stable-state-update-guard", posOf(s), CondsOf(s.Block()), nil)
		follows := canReach(callT[0].Block(), s.Block()) && canReach(callF[0].Block(), s.Block()) && !canReach(s.Block(), callT[0].Block()) == false || true
		_ = follows
		okVal := unhelp(s.Val) == obs && trigTrue[0].Block() == s.Block()
		// both reaction blocks flow into the update block without passing the observation again
		reach := func(from *ssa.BasicBlock) bool {
			if from.Parent() != s.Block().Parent() {
				return false
			}
			seen := reachableFrom(from, func(b *ssa.BasicBlock) bool { return b == obs.(*ssa.Call).Block() })
			return seen[s.Block()]
		}
		r.Check(okVal && reach(callT[0].Block()) && reach(callF[0].Block()), "R2", "run/stable-state-follows-reaction", posOf(s),
			"after either reaction currentStableState := observation (%v) and changeTriggered := true in the same block, before the next observation", s.Val == obs)
	}
	for _, fld := range []string{"currentStableState", "changeTriggered", "changeCount", "changeStart", "lastState", "lastRunAt"} {
		n := 0
		for _, a := range w.fieldAccesses(pkgFailsafe, "StateChangeWatcher", []string{fld}) {
			if isFreshBase(a.Base) {
				continue
			}
			n++
			id := fnID(outermost(a.Fn))
			if !idMatches(id, "StateChangeWatcher).run") {
				r.Fail("R5", "confinement/"+fld+"/"+shortFn(id), posOf(a.In), "%s of %s outside run(): the state machine's fields must be confined to its goroutine", a.Kind, fld)
			}
		}
		r.Check(n > 0, "R5", "confinement/"+fld, run.Pos(), "%d accesses of %s, all inside run()", n, fld)
	}
	for _, cs := range w.CallSites("StateChangeWatcher).run") {
		_, isGo := cs.In.(*ssa.Go)
		id := fnID(outermost(cs.Fn))
		r.Check(isGo && idMatches(id, "StateChangeWatcher).RunInBackground"), "R5", "run-started-once/"+shortFn(id), posOf(cs.In), "run() is started with `go` from RunInBackground only (go=%v, caller %s)", isGo, id)
	}
	if ctor := w.Fn(pkgFailsafe, "NewStateChangeWatcher"); ctor == nil {
		r.Undec("R2", "NewStateChangeWatcher", token.NoPos, "constructor not found")
	} else {
		for _, alt := range ReturnAlts(ctor, 0) {
			st, ls, tg, cc := litField(alt.Val, "currentStableState"), litField(alt.Val, "lastState"), litField(alt.Val, "changeTriggered"), litField(alt.Val, "changeCount")
			bs, ok1 := constBool(st)
			bl, ok2 := constBool(ls)
			okT := tg == nil
			if tg != nil {
				bt, isC := constBool(tg)
				okT = isC && !bt
			}
			okC := cc == nil || isIntConst(cc, 0)
			r.Check(ok1 && ok2 && bs && bl && okT && okC, "R2", "constructor/initial-state", posOf(alt.Ret), "initial state: stable=true, last=true, triggered=false, count=0 (stable=%s last=%s triggered=%s)", Path(st), Path(ls), Path(tg))
			r.Check(Path(litField(alt.Val, "config")) == "param:config" && Path(litField(alt.Val, "clock")) == "param:clock", "R6", "constructor/config-and-clock", posOf(alt.Ret), "watcher uses the given config and clock")
		}
	}

	// R3 debounce
	{
		cnt := fieldStores(run, "changeCount")
		var one, incr *ssa.Store
		for _, s := range cnt {
			if isIntConst(s.Val, 1) {
				one = s
			} else if b, ok := s.Val.(*ssa.BinOp); ok && b.Op == token.ADD && f("changeCount")(b.X) && isIntConst(b.Y, 1) {
				incr = s
			} else {
				r.Fail("R3", "run/changeCount-store", posOf(s), "unexpected store to changeCount: %s", Path(s.Val))
			}
		}
		cst := fieldStores(run, "changeStart")
		if one == nil || incr == nil || len(cst) != 1 || len(trigFalse) != 1 {
			r.Undec("R3", "run/debounce-stores", run.Pos(), "expected count=1, count++, one changeStart store and one triggered=false store")
		} else {
			changed := func(in ssa.Instruction) string {
				cs := CondsOf(in.Block())
				op, _ := FindRel(relsOfConds(cs), isObs, f("lastState"))
				if len(cs) != 1 {
					return "extra-conditions"
				}
				return op
			}
			// read in the branch itself, or at least after the wait: at/after the observation
			fresh := false
			if nowC, isNow := peel(cst[0].Val).(*ssa.Call); isNow && isCallTo(nowC, "clock.Clock).Now") {
				fresh = nowC.Block() == cst[0].Block() || domInstr(obs.(ssa.Instruction), nowC)
			}
			r.Check(changed(one) == "!=" && changed(cst[0]) == "!=" && changed(trigFalse[0]) == "!=", "R3", "run/reset-on-change", posOf(one),
				"count:=1 (%s), changeStart (%s) and triggered:=false (%s) execute exactly on observation != lastState", changed(one), changed(cst[0]), changed(trigFalse[0]))
			r.Check(fresh, "R3", "run/changeStart-fresh-clock-read", posOf(cst[0]), "changeStart := %s read in the branch itself (a timestamp taken before the wait would over-count the stable period)", Path(cst[0].Val))
			r.Check(changed(incr) == "==", "R3", "run/count-on-repeat", posOf(incr), "count++ executes exactly on observation == lastState (%s)", changed(incr))
			// the threshold comparison reads the incremented counter
			r.Check(domInstr(incr, callT[0]) && domInstr(incr, callF[0]), "R3", "run/count-before-threshold", posOf(incr), "the increment precedes the threshold test")
		}
		ls := fieldStores(run, "lastState")
		ok := len(ls) == 1 && ls[0].Val == obs && len(CondsOf(ls[0].Block())) == 0 && domInstr(obs.(*ssa.Call), ls[0]) && reachableFrom(ls[0].Block(), nil)[obs.(*ssa.Call).Block()]
		r.Check(ok, "R3", "run/lastState-updated-every-iteration", run.Pos(), "lastState := observation unconditionally at the end of each iteration")
		// observation happens once per iteration, after the wait
		waits := CallsIn(run, false, "clock.Clock).After")
		okW := len(waits) == 1 && strings.Contains(Path(waits[0].Common().Args[0]), "config.MinTimeBetweenCalls - ") && !domInstr(obs.(*ssa.Call), waits[0])
		r.Check(okW, "R3", "run/wait-before-observe", run.Pos(), "each iteration waits MinTimeBetweenCalls - elapsed before observing")
	}
	// R4 cool-down
	{
		sl := CallsIn(run, false, "clock.Clock).Sleep")
		ok := len(sl) == 1 && sl[0].Block() == callF[0].Block() && domInstr(callF[0], sl[0]) && Path(sl[0].Common().Args[0]) == "param:scw.config.CooldownPeriod"
		r.Check(ok, "R4", "run/cooldown-after-unhealthy", posOf(callF[0]), "clock.Sleep(config.CooldownPeriod) follows OnChangeToFalse in the same block, before the next observation")
	}
	// R6 wiring
	if mk := w.Fn(pkgFailsafe, "NewDiagnosisFailsafeStateChangeWatcher"); mk == nil {
		r.Undec("R6", "NewDiagnosisFailsafeStateChangeWatcher", token.NoPos, "constructor not found")
	} else {
		calls := CallsIn(mk, false, "failsafe.NewStateChangeWatcher")
		if len(calls) != 1 {
			r.Undec("R6", "wiring/call", mk.Pos(), "expected one NewStateChangeWatcher call, found %d", len(calls))
		} else {
			cfg := calls[0].Common().Args[1]
			for field, getter := range map[string]string{
				"MinTimeBetweenCalls": "GetDiagnosisFailsafeMinTimeBetweenCalls", "ConsecutiveN": "GetDiagnosisFailsafeConsecutiveN",
				"MinStablePeriod": "GetDiagnosisFailsafeMinStablePeriod", "CooldownPeriod": "GetDiagnosisFailsafeCooldownPeriod",
			} {
				v := litField(cfg, field)
				ok := v != nil && strings.HasPrefix(Path(v), "environment."+getter+"(") && strings.HasSuffix(Path(v), "#0")
				r.Check(ok, "R6", "wiring/"+field, posOf(calls[0]), "%s = %s (want %s()#0)", field, Path(v), getter)
			}
			for field, target := range map[string][2]string{
				"OnChangeToTrue":  {"failsafe.diagnosisFailsafeOnChangesToTrue", "TxnPoliciesAccessor).RevertToLastLoaded"},
				"OnChangeToFalse": {"failsafe.diagnosisFailsafeOnChangesToFalse", "TxnPoliciesAccessor).RevertToDiagnosisFree"},
			} {
				v := litField(cfg, field)
				ok := false
				if mc, isMC := peel(v).(*ssa.MakeClosure); isMC {
					cl := mc.Fn.(*ssa.Function)
					inner := CallsIn(cl, false, target[0])
					if len(inner) == 1 {
						if h := inner[0].Common().StaticCallee(); h != nil {
							rv := CallsIn(h, false, target[1])
							other := CallsIn(h, false, "TxnPoliciesAccessor).RevertToLastLoaded", "TxnPoliciesAccessor).RevertToDiagnosisFree")
							ok = len(rv) == 1 && len(other) == 1 && Path(rv[0].Common().Args[0]) == "param:txnPoliciesAccessor"
						}
					}
				}
				r.Check(ok, "R6", "wiring/"+field, posOf(calls[0]), "%s -> %s -> %s", field, target[0], target[1])
			}
		}
	}
	r.Min("R1", 3)
	r.Min("R2", 2)
	r.Min("R3", 6)
	r.Min("R4", 1)
	r.Min("R5", 7)
	c20DistinctSettings(w, r)
	r.Min("R6", 15)
}

// c20DistinctSettings: the four watcher settings come from four different
// environment variables (the "wrong variable of the same type" contradiction:
// two getters of different settings reading the same variable means one of
// them is wrong), and each getter converts the value it read.
func c20DistinctSettings(w *World, r *Report) {
	const pkgEnv = "lunar/engine/utils/environment"
	getters := []string{"GetDiagnosisFailsafeMinTimeBetweenCalls", "GetDiagnosisFailsafeConsecutiveN", "GetDiagnosisFailsafeMinStablePeriod", "GetDiagnosisFailsafeCooldownPeriod"}
	readBy := map[string][]string{}
	for _, g := range getters {
		f := w.Fn(pkgEnv, g)
		if f == nil {
			r.Undec("R6", "env/"+g, token.NoPos, "getter not found")
			continue
		}
		var vars []string
		for _, c := range CallsIn(f, true, "os.Getenv", "os.LookupEnv") {
			if s, ok := constString(unhelp(c.Common().Args[0])); ok {
				vars = append(vars, s)
			} else {
				vars = append(vars, "<non-constant>")
			}
		}
		okRet := true
		for _, alt := range ReturnAlts(f, 0) {
			if k, isK := peel(alt.Val).(*ssa.Const); isK && (k.Value == nil || k.Value.ExactString() == "0") {
				continue // zero value next to an error
			}
			if !Derives(alt.Val, func(x ssa.Value) bool { return isCallTo0(x, "os.Getenv", "os.LookupEnv") }) {
				okRet = false
			}
		}
		r.Check(len(vars) == 1 && vars[0] != "<non-constant>" && okRet, "R6", "env/"+g+"/reads-one-variable", f.Pos(), "%s returns a value derived from exactly one environment variable %v", g, vars)
		// durations are configured in seconds
		if strings.Contains(f.Signature.Results().At(0).Type().String(), "time.Duration") {
			okUnit := false
			for _, alt := range ReturnAlts(f, 0) {
				if k, isK := peel(alt.Val).(*ssa.Const); isK && (k.Value == nil || k.Value.ExactString() == "0") {
					continue
				}
				nv, factor, shape := productOf(alt.Val, func(v ssa.Value) bool {
					return isCallTo0(v, "strconv.Atoi") || strings.HasSuffix(Path(v), "#0") && strings.Contains(Path(v), "strconv.Atoi(")
				})
				okUnit = shape && nv == 1 && factor == 1e9
			}
			r.Check(okUnit, "R6", "env/"+g+"/seconds", f.Pos(), "%s converts the configured number to seconds (x time.Second)", g)
		}
		for _, v := range vars {
			readBy[v] = append(readBy[v], g)
		}
	}
	for v, gs := range readBy {
		sort.Strings(gs)
		r.Check(len(gs) == 1, "R6", "env/distinct/"+v, token.NoPos, "environment variable %s is read by %v (each watcher setting must have its own variable)", v, gs)
	}
}
