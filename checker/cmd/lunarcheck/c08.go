package main

import (
	"go/token"
	"strings"

	"golang.org/x/tools/go/ssa"
)

func init() {
	register(&Property{
		ID:   "C08",
		Mods: []string{modEngine},
		Explanation: "Decides structural necessary conditions of all-or-nothing configuration updates, not crash points or in-flight transactions: " +
			"(R1) Restore writes back content that comes from the BACKUP's data (receiver of GetDiff is the stored backup, the fresh snapshot only supplies checksums), GetDiff returns the receiver's data for keys whose checksum differs; " +
			"(R2) Restore removes files that exist now but not in the backup; clean-up and backup traverse directories with the same recursive primitive; " +
			"(R3) every admin handler that mutates configuration on disk takes the update lock first, backs up before the first mutation, and on every failing exit after a mutation restores (and reloads after a failed reload); " +
			"(R4) the live engine pointer is assigned only in initializeStreams, only with an engine whose Initialize() already returned nil; " +
			"(R5) only FileSystemOperation (and two listed writers) create/remove configuration files; each payload part is parsed/saved under its own 'specified' guard from its own field with all errors returned; every Save* target lies in the backed-up set; " +
			"(R6) reload validates by dry-run before the live engine is replaced. NOT decided: crash points (backup is in memory), byte equality as such, transactions during the switch.",
		RuleText: "obligation = (rule, anchored construct) on SSA of the current tree: argument provenance, dominance and post-mutation exit inventory per handler closure, who-writes inventory, sibling tables of parse/save helpers",
		Run:      runC08,
	})
}

func runC08(w *World, r *Report) {
	hrCleanAll(w, r, "R2")
	hrRestoreBeforeFallbackReload(w, r, "R3")
	hrPayloadDecodeErrorsReturned(w, r, "R5")
	hrApplyFlowsWipesEverything(w, r, "R2")
	// only what the new configuration no longer registers is un-managed (C14.R5)
	r.Borrow(w, c14UnmanageSet, map[string]string{"R5": "R4"})
	hrNotifyHubInBackground(w, r, "R4")
	hrMetricsPathIsTheConfiguredFile(w, r, "R2")
	hrKnownEndpointsAlwaysWritten(w, r, "R3")
	hrBackupChecksumKeys(w, r, "R2")
	// an endpoint configured again is not un-managed by an older reload's delayed job (C14.R5)
	r.Borrow(w, c14DelayedUnmanage, map[string]string{"R5": "R4"})
	hrAllLocksReleased(w, r, NewLockAn(w), "R4", "lunar/toolkit-core/status-message", "lunar/engine/config", "lunar/engine/routing", "lunar/engine/streams/config")
	hrCleanUpFile(w, r, "R2")
	hrFlowNamesUnique(w, r, "R5")
	hrValidationDirGuard(w, r, "R3")
	hrStoreFileTruncates(w, r, "R2")
	hrLastError(w, r, "R3")
	fsT := "FileSystemOperation)."
	// R1/R2 Restore
	rs := w.Fn(pkgConfig, "FileSystemOperation.Restore")
	if rs == nil {
		r.Undec("R1", "Restore", token.NoPos, "function not found")
	} else {
		snaps := CallsIn(rs, false, fsT+"createFileSystemBackUp")
		diffs := CallsIn(rs, false, "FileSystemBackUp).GetDiff")
		stores := CallsIn(rs, false, fsT+"storeFileOnDisk")
		if len(snaps) != 1 || len(diffs) != 1 || len(stores) != 1 {
			r.Undec("R1", "Restore/calls", rs.Pos(), "expected one snapshot, one GetDiff, one storeFileOnDisk; found %d/%d/%d", len(snaps), len(diffs), len(stores))
		} else {
			d := diffs[0]
			recvIsBackup := Path(d.Common().Args[0]) == "param:fs.backUp"
			argFromSnap := strings.HasSuffix(Path(d.Common().Args[1]), ".dataMD5") && Derives(d.Common().Args[1], func(x ssa.Value) bool { return x == snaps[0].Value() })
			r.Check(recvIsBackup && argFromSnap, "R1", "Restore/diff-of-backup-against-current", posOf(d), "GetDiff is called on the stored backup (%s) with the fresh snapshot's checksums (%s): the content written back is the backup's", Path(d.Common().Args[0]), trunc(Path(d.Common().Args[1]), 80))
			st := stores[0]
			fromDiff := Derives(st.Common().Args[1], func(x ssa.Value) bool { return x == d.Value() }) && Derives(st.Common().Args[2], func(x ssa.Value) bool { return x == d.Value() })
			r.Check(fromDiff && errReturned(rs, st), "R1", "Restore/writes-diff-entries", posOf(st), "every (path, content) of the diff is written back and a write error is returned")
		}
		// R2 removal of added files
		cl := CallsIn(rs, false, fsT+"cleanUpFile")
		ok := len(cl) == 1 && len(snaps) == 1
		if ok {
			c := cl[0]
			fromCur := Derives(c.Common().Args[1], func(x ssa.Value) bool {
				rg, isR := x.(*ssa.Range)
				return isR && strings.HasSuffix(Path(rg.X), ".data") && Derives(rg.X, func(y ssa.Value) bool { return y == snaps[0].Value() })
			})
			notInBackup := condsHave(CondsOf(c.Block()), false, func(v ssa.Value) bool {
				p := Path(v)
				return strings.HasPrefix(p, "param:fs.backUp.data[") && strings.HasSuffix(p, "#1")
			})
			ok = fromCur && notInBackup
		}
		r.Check(ok, "R2", "Restore/removes-files-added-since-backup", rs.Pos(), "a path present in the current snapshot and absent from the backup is removed")
		// both halves of the restore run on every successful return: no success exit before the
		// write-back loop and the added-file removal loop have been entered
		if len(cl) == 1 && len(stores) == 1 {
			var early []string
			for _, alt := range ReturnAlts(rs, 0) {
				if !isNilConst(alt.Val) {
					continue
				}
				// the loop headers of both passes dominate the return
				for what, c := range map[string]ssa.CallInstruction{"write-back": stores[0], "removal of added files": cl[0]} {
					var hdr *ssa.BasicBlock
					for _, h := range loopHeadersOf(rs) {
						if h.Dominates(c.Block()) && (hdr == nil || hdr.Dominates(h)) {
							hdr = h
						}
					}
					if hdr == nil || !hdr.Dominates(alt.Ret.Block()) {
						early = append(early, "success return at "+w.Pos(posOf(alt.Ret))+" is not preceded by the "+what+" pass")
					}
				}
			}
			r.Check(len(early) == 0, "R2", "Restore/both-passes-on-every-success", rs.Pos(), "Restore reports success only after the write-back pass and the removal pass: %v", early)
		}
	}
	if gd := w.Fn(pkgConfig, "FileSystemBackUp.GetDiff"); gd == nil {
		r.Undec("R1", "GetDiff", token.NoPos, "function not found")
	} else {
		ok := false
		Instrs(gd, func(in ssa.Instruction) {
			if mu, isMU := in.(*ssa.MapUpdate); isMU {
				v := Path(mu.Value)
				cmp := false
				for _, rel := range Rels(mu.Block()) {
					l, rr := Path(rel.L), Path(rel.R)
					if rel.Op == "!=" && (strings.HasPrefix(l, "param:dataMD5[") || strings.HasPrefix(rr, "param:dataMD5[")) {
						cmp = true
					}
				}
				ok = strings.HasPrefix(v, "param:fsb.data[") && cmp && Derives(mu.Key, func(x ssa.Value) bool { rg, isR := x.(*ssa.Range); return isR && Path(rg.X) == "param:fsb.dataMD5" })
			}
		})
		r.Check(ok, "R1", "GetDiff/returns-receiver-data-for-differing-keys", gd.Pos(), "diff[key] = receiver.data[key] for every receiver key whose checksum differs from the argument's")
	}
	if bk := w.Fn(pkgConfig, "FileSystemOperation.Backup"); bk != nil {
		st := fieldStores(bk, "backUp")
		ok := len(st) == 1 && strings.HasPrefix(Path(st[0].Val), "(*config.FileSystemOperation).createFileSystemBackUp(param:fs)#0")
		if ok {
			op, _ := FindRel(Rels(st[0].Block()), func(v ssa.Value) bool { return strings.HasSuffix(Path(v), "createFileSystemBackUp(param:fs)#1") }, isNilConst)
			ok = op == "=="
		}
		r.Check(ok, "R1", "Backup/stores-successful-snapshot", bk.Pos(), "Backup keeps the snapshot only when it was taken without error")
	}
	// every existing file of the backed-up set is part of the snapshot (empty files too)
	if bf := w.Fn(pkgConfig, "FileSystemOperation.backupFile"); bf == nil {
		r.Undec("R1", "backupFile", token.NoPos, "function not found")
	} else {
		var mu *ssa.MapUpdate
		Instrs(bf, func(in ssa.Instruction) {
			if m, ok := in.(*ssa.MapUpdate); ok && Path(m.Map) == "param:backup.data" && Path(m.Key) == "param:filePath" {
				mu = m
			}
		})
		okStore := mu != nil && Derives(mu.Value, func(x ssa.Value) bool { return isCallTo0(x, "io.ReadAll") }) &&
			Derives(mu.Value, func(x ssa.Value) bool {
				return isCallTo0(x, "os.Open") && Path(peel(x).(*ssa.Call).Call.Args[0]) == "param:filePath"
			})
		var bad []string
		for _, alt := range ReturnAlts(bf, 0) {
			if !isNilConst(alt.Val) {
				continue
			}
			if mu != nil && domInstr(mu, alt.Ret) {
				continue
			}
			only := len(alt.Conds) == 1 && alt.Conds[0].Pol && isCallTo0(alt.Conds[0].V, "os.IsNotExist") &&
				strings.HasPrefix(Path(alt.Conds[0].V), "os.IsNotExist(os.Stat(param:filePath)#1")
			if !only {
				bad = append(bad, w.Pos(posOf(alt.Ret))+" under "+condsString(alt.Conds))
			}
		}
		r.Check(okStore && len(bad) == 0, "R1", "backupFile/every-existing-file-is-snapshotted", bf.Pos(),
			"backupFile stores the file's content under its path (=%v) and succeeds without storing only when the file does not exist (other silent exits: %v)", okStore, bad)
	}
	// traversal agreement
	{
		cd, bd := w.Fn(pkgConfig, "FileSystemOperation.cleanUpDirectory"), w.Fn(pkgConfig, "FileSystemOperation.backupDirectory")
		prim := func(f *ssa.Function) string {
			if f == nil {
				return ""
			}
			for _, c := range CallsIn(f, false, "path/filepath.Walk", "path/filepath.WalkDir", "os.ReadDir", "io/ioutil.ReadDir") {
				return calleeID(c)
			}
			return ""
		}
		a, b := prim(cd), prim(bd)
		rm := false
		if cd != nil {
			for _, af := range cd.AnonFuncs {
				for _, c := range CallsIn(af, false, "os.Remove") {
					rm = condsHave(CondsOf(c.Block()), false, func(v ssa.Value) bool { return strings.Contains(Path(v), "IsDir(") })
				}
			}
		}
		r.Check(a != "" && a == b && strings.Contains(a, "filepath.Walk") && rm, "R2", "cleanUpDirectory/recursive-like-backup", token.NoPos, "clean-up (%s) and backup (%s) traverse the directory tree with the same recursive primitive and every non-directory is removed=%v", a, b, rm)
	}

	c08Handlers(w, r)
	c08Publish(w, r)
	c08Ownership(w, r)
	c08SnapshotCompleteness(w, r)
	r.Min("R1", 6)
	r.Min("R2", 2)
	r.Min("R3", 6)
	r.Min("R4", 2)
	r.Min("R5", 14)
	r.Min("R6", 2)
}

func c08Handlers(w *World, r *Report) {
	mutators := []string{"ConfigurationPayload).CleanUpGatewayDirectories", "ConfigurationPayload).MakeCleanUpsByContent", "ConfigurationPayload).SavePayloadContentToDisk",
		"FileSystemOperation).CleanAll", "FileSystemOperation).SaveFlow", "FileSystemOperation).SaveQuota", "FileSystemOperation).SavePathParams", "FileSystemOperation).SaveGatewayConfig", "FileSystemOperation).SaveMetricsConfig"}
	nH := 0
	hdm := w.Named(pkgRouting, "HandlingDataManager")
	if hdm == nil {
		r.Undec("R3", "HandlingDataManager", token.NoPos, "type not found")
		return
	}
	for i := 0; i < hdm.NumMethods(); i++ {
		m := w.Prog.FuncValue(hdm.Method(i))
		if m == nil || !strings.HasPrefix(m.Name(), "handle") {
			continue
		}
		for _, cl := range m.AnonFuncs {
			muts := CallsIn(cl, false, mutators...)
			if len(muts) == 0 {
				continue
			}
			nH++
			key := m.Name()
			first := muts[0]
			for _, mu := range muts {
				if domInstr(mu, first) {
					first = mu
				}
			}
			// lock
			locks := CallsIn(cl, false, "sync.Mutex).TryLock", "sync.Mutex).Lock")
			okLock := false
			for _, l := range locks {
				if strings.HasSuffix(Path(l.Common().Args[0]), "rd.handlingLock") && domInstr(l, first) {
					if isCallTo(l, "sync.Mutex).Lock") || condsHave(CondsOf(first.Block()), true, func(v ssa.Value) bool { return v == l.Value() }) {
						okLock = true
					}
				}
			}
			unl := false
			Instrs(cl, func(in ssa.Instruction) {
				if d, ok := in.(*ssa.Defer); ok && isCallTo(d, "sync.Mutex).Unlock") {
					unl = true
				}
			})
			r.Check(okLock && unl, "R3", key+"/update-lock-before-mutation", posOf(first), "the update lock is held (TryLock succeeded, deferred Unlock) before the first disk mutation")
			// backup
			bks := CallsIn(cl, false, "FileSystemOperation).Backup")
			okB := false
			for _, b := range bks {
				if domInstr(b, first) {
					op, _ := FindRel(Rels(first.Block()), func(v ssa.Value) bool { return v == b.Value() }, isNilConst)
					okB = op == "=="
				}
			}
			if !okB {
				r.Fail("R3", key+"/backup-before-mutation", posOf(first), "configuration on disk is mutated (%s) without a successful Backup() before it: a failing update cannot be rolled back", calleeShort(calleeID(first)))
			} else {
				r.Hold("R3", key+"/backup-before-mutation", posOf(first), 1, "a successful Backup() dominates the first disk mutation")
			}
			// failing exits after a mutation restore
			rest := CallsIn(cl, false, "FileSystemOperation).Restore")
			rel := CallsIn(cl, false, "HandlingDataManager).reloadFlows")
			bad := []string{}
			nExit := 0
			for _, b := range cl.Blocks {
				ret, ok := b.Instrs[len(b.Instrs)-1].(*ssa.Return)
				if !ok || b == cl.Recover {
					continue
				}
				after := false
				for _, mu := range muts {
					if domInstr(mu, ret) {
						after = true
					}
				}
				if !after {
					continue
				}
				success := false
				for _, in := range b.Instrs {
					if isCallTo(in, "routing.SuccessResponse") {
						success = true
					}
				}
				if success {
					continue
				}
				nExit++
				restored := false
				for _, rc := range rest {
					if domInstr(rc, ret) {
						restored = true
					}
				}
				if !restored {
					bad = append(bad, w.Pos(posOf(ret)))
					continue
				}
				// after a failed reload: reload again after the restore
				afterReload := false
				for _, rl := range rel {
					if domInstr(rl, ret) {
						afterReload = true
					}
				}
				if afterReload {
					again := false
					for _, rc := range rest {
						for _, rl := range rel {
							if domInstr(rc, rl) && domInstr(rl, ret) {
								again = true
							}
						}
					}
					if !again {
						bad = append(bad, w.Pos(posOf(ret))+" (no reload after restore)")
					}
				}
			}
			if len(bad) > 0 {
				r.Fail("R3", key+"/failing-exits-restore", posOf(first), "failing exits after a disk mutation without Restore(): %v", bad)
			} else {
				r.Hold("R3", key+"/failing-exits-restore", posOf(first), nExit, "%d failing exit(s) after a mutation, each dominated by Restore() (and by a reload after the restore when the reload had failed)", nExit)
			}
		}
	}
	if nH < 2 {
		r.Undec("R3", "handlers", token.NoPos, "expected the 2 confirmed disk-mutating admin handlers, found %d", nH)
	}
}

func c08Publish(w *World, r *Report) {
	n := 0
	for _, a := range w.fieldAccesses(pkgRouting, "StreamsData", []string{"stream"}) {
		if !a.Write {
			continue
		}
		n++
		id := fnID(outermost(a.Fn))
		st := a.In.(*ssa.Store)
		okW := idMatches(id, "HandlingDataManager).initializeStreams")
		r.Check(okW, "R4", "writers(stream)/"+shortFn(id), posOf(st), "live engine pointer written by %s (allowed: initializeStreams)", id)
		if !okW {
			continue
		}
		inits := CallsIn(a.Fn, false, "streams.Stream).Initialize")
		ok := false
		for _, ic := range inits {
			if sameVal(ic.Common().Args[0], st.Val) && domInstr(ic, st) {
				op, _ := FindRel(Rels(st.Block()), func(v ssa.Value) bool { return v == ic.Value() }, isNilConst)
				if op == "==" {
					ok = true
				}
			}
		}
		r.Check(ok, "R4", "initializeStreams/publish-after-initialize", posOf(st), "rd.stream is assigned an engine whose Initialize() has already returned nil (a failed or half-built engine never becomes live)")
	}
	if n == 0 {
		r.Undec("R4", "writers(stream)", token.NoPos, "no store to HandlingDataManager.stream found")
	}
	// R6 dry-run first
	if rf := w.Fn(pkgRouting, "HandlingDataManager.reloadFlows"); rf == nil {
		r.Undec("R6", "reloadFlows", token.NoPos, "function not found")
	} else {
		v := CallsIn(rf, false, "HandlingDataManager).processFlowsValidation")
		i := CallsIn(rf, false, "HandlingDataManager).initializeStreams")
		ok := len(v) == 1 && len(i) == 1 && domInstr(v[0], i[0]) && errReturned(rf, v[0])
		if ok {
			op, _ := FindRel(Rels(i[0].Block()), func(x ssa.Value) bool { return x == v[0].Value() }, isNilConst)
			ok = op == "=="
		}
		r.Check(ok, "R6", "reloadFlows/validate-before-replace", rf.Pos(), "the dry-run validation succeeds before initializeStreams replaces the engine, and its error is returned")
	}
	if pv := w.Fn(pkgRouting, "HandlingDataManager.initializeStreamsForDryRun"); pv != nil {
		ok := len(CallsIn(pv, false, "Validator).Validate")) == 1
		for _, alt := range ReturnAlts(pv, 0) {
			if !isCallTo0(alt.Val, "Validator).Validate") {
				ok = false
			}
		}
		r.Check(ok, "R6", "dry-run/returns-validator-verdict", pv.Pos(), "the dry run returns Validator.Validate()'s verdict")
	}
}

func c08Ownership(w *World, r *Report) {
	allowed := map[string]string{
		"FileSystemOperation).cleanUpFile":      "owner",
		"FileSystemOperation).cleanUpDirectory": "owner",
		"FileSystemOperation).storeFileOnDisk":  "owner",
		"TxnPoliciesAccessor).UpdateRawData":    "policy-mode writer of policies.yaml (listed)",
		"path_params.createYAMLFile":            "generated path-params file (listed)",
	}
	for _, cs := range w.CallSites("os.Remove", "os.RemoveAll", "os.Create", "os.WriteFile", "os.MkdirAll", "os.Rename", "os.OpenFile", "os.Truncate") {
		if !strings.HasPrefix(fnPkgPath(cs.Fn), "lunar/engine/") {
			continue
		}
		id := fnID(outermost(cs.Fn))
		why := ""
		for suf, reason := range allowed {
			if idMatches(id, suf) {
				why = reason
			}
		}
		if strings.HasPrefix(fnPkgPath(cs.Fn), "lunar/engine/utils/writers") || strings.Contains(id, "persistLoaded") || strings.Contains(id, "doctor") {
			why = "non-configuration artefact writer"
		}
		if why == "" && !strings.Contains(fnPkgPath(cs.Fn), "/config") && !strings.Contains(fnPkgPath(cs.Fn), "/streams") && !strings.Contains(fnPkgPath(cs.Fn), "/routing") {
			continue // not a configuration path owner
		}
		r.Check(why != "", "R5", "file-mutators/"+shortFn(id)+"/"+calleeShort(calleeID(cs.In)), posOf(cs.In), "%s called from %s (%s)", calleeID(cs.In), id, why)
	}
	// parse/save siblings
	type row struct{ fn, guard, src, dst string }
	rows := []row{
		{"parseFlows", "isFlowSpecified", "Flows", "parsedFlows"}, {"parseQuotas", "isQuotaSpecified", "Quotas", "parsedQuotas"},
		{"parsePathParams", "isPathParamsSpecified", "PathParams", "parsedPathParams"}, {"parseGatewayConfig", "isGatewayConfigSpecified", "GatewayConfig", "parsedGatewayConfig"},
		{"parseMetricsConfig", "isMetricsConfigSpecified", "Metrics", "parsedMetrics"},
		{"saveFlows", "isFlowSpecified", "parsedFlows", "SaveFlow"}, {"saveQuotas", "isQuotaSpecified", "parsedQuotas", "SaveQuota"},
		{"savePathParams", "isPathParamsSpecified", "parsedPathParams", "SavePathParams"}, {"saveGatewayConfig", "isGatewayConfigSpecified", "parsedGatewayConfig", "SaveGatewayConfig"},
		{"saveMetricsConfig", "isMetricsConfigSpecified", "parsedMetrics", "SaveMetricsConfig"},
	}
	payloadFields := map[string]bool{"Flows": true, "Quotas": true, "PathParams": true, "GatewayConfig": true, "Metrics": true, "parsedFlows": true, "parsedQuotas": true, "parsedPathParams": true, "parsedGatewayConfig": true, "parsedMetrics": true}
	for _, rw := range rows {
		f := w.Fn(pkgSCfg, "ConfigurationPayload."+rw.fn)
		if f == nil {
			r.Undec("R5", "payload/"+rw.fn, token.NoPos, "function not found")
			continue
		}
		guards, fields, saves := map[string]bool{}, map[string]bool{}, map[string]bool{}
		Instrs(f, func(in ssa.Instruction) {
			switch x := in.(type) {
			case ssa.CallInstruction:
				id := calleeID(x)
				if i := strings.LastIndex(id, "."); i >= 0 {
					n := id[i+1:]
					if strings.HasPrefix(n, "is") && strings.HasSuffix(n, "Specified") {
						guards[n] = true
					}
					if strings.HasPrefix(n, "Save") && strings.Contains(id, "FileSystemOperation") {
						saves[n] = true
					}
				}
			case *ssa.FieldAddr:
				if _, n := namedOf(x.X.Type()); n == "ConfigurationPayload" {
					if fn := fieldName(x.X.Type(), x.Field); payloadFields[fn] {
						fields[fn] = true
					}
				}
			}
		})
		ok := len(guards) == 1 && guards[rw.guard] && fields[rw.src]
		if strings.HasPrefix(rw.fn, "parse") {
			ok = ok && fields[rw.dst] && len(fields) == 2
		} else {
			ok = ok && len(fields) == 1 && len(saves) == 1 && saves[rw.dst]
		}
		// guard polarity: the early nil return is on !specified
		early := false
		for _, alt := range ReturnAlts(f, 0) {
			if isNilConst(alt.Val) && condsHave(alt.Conds, false, func(v ssa.Value) bool { return strings.Contains(Path(v), rw.guard+"(") }) {
				early = true
			}
		}
		if strings.HasPrefix(rw.fn, "save") && len(guards) == 0 && !early {
			// a part that is a collection is saved entry by entry: with nothing specified the loop over
			// the parsed entries saves nothing, so no guard is needed (a single-file part still needs its own)
			inLoop := false
			for _, c := range CallsIn(f, false, "FileSystemOperation)."+rw.dst) {
				for _, h := range loopHeadersOf(f) {
					if loopHas(h, c.Block()) {
						inLoop = true
					}
				}
			}
			if inLoop && fields[rw.src] && len(fields) == 1 && len(saves) == 1 && saves[rw.dst] {
				ok, early = true, true
			}
		}
		r.Check(ok && early, "R5", "payload/"+rw.fn, f.Pos(), "%s uses only guard %s (found %v), fields %v, saves %v; returns early exactly when its own part is not specified=%v", rw.fn, rw.guard, keysOf(guards), keysOf(fields), keysOf(saves), early)
	}
	for _, agg := range []struct {
		fn    string
		parts []string
	}{{"ParsePayload", []string{"parseFlows", "parseQuotas", "parsePathParams", "parseGatewayConfig", "parseMetricsConfig"}},
		{"SavePayloadContentToDisk", []string{"saveFlows", "saveQuotas", "savePathParams", "saveGatewayConfig", "saveMetricsConfig"}}} {
		f := w.Fn(pkgSCfg, "ConfigurationPayload."+agg.fn)
		if f == nil {
			r.Undec("R5", "payload/"+agg.fn, token.NoPos, "function not found")
			continue
		}
		missing := []string{}
		for _, p := range agg.parts {
			cs := CallsIn(f, false, "ConfigurationPayload)."+p)
			if len(cs) == 1 && errReturned(f, cs[0]) {
				continue
			}
			// accepted idiom: the parts as a table of method values that is walked, every
			// element called and its error returned
			viaTable := false
			if len(cs) == 0 {
				var bound ssa.Value
				var dyn []ssa.CallInstruction
				Instrs(f, func(in ssa.Instruction) {
					if mc, ok := in.(*ssa.MakeClosure); ok {
						if bf, ok := mc.Fn.(*ssa.Function); ok && bf.Name() == p+"$bound" {
							bound = mc
						}
					}
					if c, ok := in.(*ssa.Call); ok && !c.Call.IsInvoke() && c.Call.StaticCallee() == nil {
						if _, isB := c.Call.Value.(*ssa.Builtin); !isB {
							dyn = append(dyn, c)
						}
					}
				})
				for _, d := range dyn {
					if bound == nil || !Derives(d.Common().Value, func(x ssa.Value) bool { return x == bound }) {
						continue
					}
					// the walk stops at the first failing step and returns that error
					for _, alt := range ReturnAlts(f, f.Signature.Results().Len()-1) {
						if d.Value() == nil || peel(alt.Val) != ssa.Value(d.Value()) {
							continue
						}
						if op, _ := FindRel(relsOfConds(alt.Conds), func(v ssa.Value) bool { return peel(v) == ssa.Value(d.Value()) }, isNilConst); op == "!=" {
							viaTable = true
						}
					}
				}
			}
			if !viaTable {
				missing = append(missing, p)
			}
		}
		r.Check(len(missing) == 0, "R5", "payload/"+agg.fn, f.Pos(), "%s runs every part and returns its error (missing/unpropagated: %v)", agg.fn, missing)
	}
	// Save* targets lie inside the backed-up set
	ctor := w.Fn(pkgConfig, "NewFileSystemOperation")
	covered := map[string]bool{}
	if ctor != nil {
		Instrs(ctor, func(in ssa.Instruction) {
			if mu, ok := in.(*ssa.MapUpdate); ok {
				if c, ok := peel(mu.Value).(*ssa.Call); ok {
					covered[calleeID(c)] = true
				}
			}
		})
	}
	for _, name := range []string{"SaveFlow", "SaveQuota", "SavePathParams", "SaveGatewayConfig", "SaveMetricsConfig"} {
		f := w.Fn(pkgConfig, "FileSystemOperation."+name)
		if f == nil {
			r.Undec("R5", "save-target/"+name, token.NoPos, "function not found")
			continue
		}
		target := ""
		for _, c := range CallsIn(f, false, "FileSystemOperation).storeFileOnDisk") {
			Derives(c.Common().Args[1], func(x ssa.Value) bool {
				if cc, ok := x.(*ssa.Call); ok && strings.Contains(calleeID(cc), "utils/environment.") {
					target = calleeID(cc)
				}
				return false
			})
		}
		if covered[target] {
			r.Hold("R5", "save-target/"+name, f.Pos(), 1, "%s writes under %s, which Backup/Restore/CleanAll cover", name, calleeShort(target))
		} else {
			r.Fail("R5", "save-target/"+name, f.Pos(), "%s writes to %s but the backed-up set is built from %v: a file written there by a failing update is neither backed up nor restored", name, calleeShort(target), keysOf(covered))
		}
	}
}

func keysOf(m map[string]bool) []string {
	var out []string
	for k := range m {
		out = append(out, calleeShort(k))
	}
	sortStrings(out)
	return out
}

// c08SnapshotCompleteness: the checksums Restore diffs by are computed over
// the COMPLETE snapshot (after every directory and every single file has been
// read), and the directory walk descends into sub-directories - what CleanAll
// wipes recursively, the snapshot must contain recursively.
func c08SnapshotCompleteness(w *World, r *Report) {
	const fsT = "FileSystemOperation)."
	if cb := w.Fn(pkgConfig, "FileSystemOperation.createFileSystemBackUp"); cb == nil {
		r.Undec("R1", "createFileSystemBackUp", token.NoPos, "function not found")
	} else {
		md5 := CallsIn(cb, false, "FileSystemBackUp).SetMD5OfStorage")
		reads := append(CallsIn(cb, false, fsT+"backupDirectory"), CallsIn(cb, false, fsT+"backupFile")...)
		ok := len(md5) == 1 && len(reads) == 2
		if ok {
			for _, rd := range reads {
				// the checksum call is reached only after the loop containing the read is done
				if reachableFrom(md5[0].Block(), nil)[rd.Block()] || md5[0].Block() == rd.Block() {
					ok = false
				}
			}
			for _, alt := range ReturnAlts(cb, 1) {
				if isNilConst(alt.Val) && !domInstr(md5[0], alt.Ret) {
					ok = false
				}
			}
		}
		r.Check(ok, "R1", "createFileSystemBackUp/checksums-over-the-complete-snapshot", cb.Pos(), "SetMD5OfStorage runs once, after both the directory pass and the single-file pass, and before the successful return")
	}
	if bd := w.Fn(pkgConfig, "FileSystemOperation.backupDirectory"); bd == nil {
		r.Undec("R2", "backupDirectory", token.NoPos, "function not found")
	} else {
		skip := false
		for _, g := range Anons(bd) {
			Instrs(g, func(in ssa.Instruction) {
				if u, ok := in.(*ssa.UnOp); ok {
					if gl, isG := u.X.(*ssa.Global); isG && (gl.Name() == "SkipDir" || gl.Name() == "SkipAll") {
						skip = true
					}
				}
			})
		}
		r.Check(!skip, "R2", "backupDirectory/walk-descends-into-sub-directories", bd.Pos(), "the snapshot walk never returns filepath.SkipDir/SkipAll: nested files are part of the snapshot, like they are part of what the clean-up removes")
	}
}
