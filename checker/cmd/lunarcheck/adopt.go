package main

import (
	"go/constant"
	"go/token"
	"go/types"
	"sort"
	"strings"

	"golang.org/x/tools/go/ssa"
)

// Transparent helpers.
//
// The rules are anchored in functions that were read when the rules were
// written (names.json is the inventory of those functions). Extracting a block
// of such a function into a new unexported helper leaves behaviour unchanged
// but would hide the block from a rule that looks at the anchored function
// only. So a function of a lunar/* package that is NOT in the reviewed
// inventory, is only ever called statically (never stored, passed or used as
// a method value) and does not call itself is treated as part of its callers:
//
//   - Instrs/CallsIn on a function also visit the body of such helpers,
//   - a parameter of the helper is named by the argument at its call site(s)
//     when they agree, a call of the helper by the value it returns when there
//     is a single way of returning,
//   - the conditions of a block inside the helper include those of its call
//     site(s), and the alternatives of a returned helper call are the helper's
//     own return alternatives,
//   - "a executes before b" (domInstr) is decided across the call: an
//     instruction of the helper that is on every path to the helper's returns
//     precedes whatever the call site precedes, and whatever precedes all
//     call sites precedes the instructions of the helper.
//
// On the tree the inventory was generated from there are no such functions,
// so nothing changes there.

type helper struct {
	fn    *ssa.Function
	sites []ssa.CallInstruction // static call sites in lunar/* functions (generic bodies once)
}

var helpers = map[*ssa.Function]*helper{}

// rootCtx is the function a rule is currently looking at (set by the primitives
// that take a function: Instrs, ReturnAlts, ...). A helper shared by several
// callers is read in the context of that function: only the call sites made on
// its behalf say what the helper's parameters are.
var rootCtx *ssa.Function

func setRoot(f *ssa.Function) {
	if f == nil || len(helpers) == 0 {
		return
	}
	o := outermost(f)
	if helperFor(o) == nil {
		rootCtx = o
	}
}

// sitesInContext: the call sites of h that belong to the function in focus
// (all of them when that leaves none).
func sitesInContext(h *helper) []ssa.CallInstruction {
	if rootCtx == nil || len(h.sites) < 2 {
		return h.sites
	}
	var out []ssa.CallInstruction
	for _, s := range h.sites {
		if inScopeOf(s.Parent(), rootCtx, 4) {
			out = append(out, s)
		}
	}
	if len(out) == 0 {
		return h.sites
	}
	return out
}

func helperFor(f *ssa.Function) *helper {
	if f == nil || len(helpers) == 0 {
		return nil
	}
	return helpers[origin(f)]
}

// helperCall: the transparent helper called by in, if any.
func helperCall(in ssa.Instruction) *helper {
	if len(helpers) == 0 {
		return nil
	}
	c, ok := in.(ssa.CallInstruction)
	if !ok {
		return nil
	}
	if _, isGo := in.(*ssa.Go); isGo {
		return nil
	}
	if _, isDefer := in.(*ssa.Defer); isDefer {
		return nil
	}
	callee := c.Common().StaticCallee()
	if callee == nil {
		return nil
	}
	return helpers[origin(callee)]
}

// findHelpers fills the table (called once after loading, when the inventory is known).
func (w *World) findHelpers() {
	if len(frozenNames) == 0 || !inventoryComplete {
		return
	}
	cand := map[*ssa.Function]*helper{}
	for _, f := range w.lunarFns {
		if f.Parent() != nil || f.Synthetic != "" || origin(f) != f || f.Blocks == nil {
			continue
		}
		if _, known := frozenNames[fnID(f)]; known {
			continue
		}
		if f.Name() == "init" || f.Name() == "main" {
			continue
		}
		cand[f] = &helper{fn: f}
	}
	if len(cand) == 0 {
		return
	}
	bad := map[*ssa.Function]bool{}
	for _, f := range w.lunarFns {
		if f.Origin() != nil {
			continue // generic bodies once
		}
		for _, b := range f.Blocks {
			for _, in := range b.Instrs {
				var calleeV ssa.Value
				if c, ok := in.(ssa.CallInstruction); ok && !c.Common().IsInvoke() {
					calleeV = c.Common().Value
					if callee := c.Common().StaticCallee(); callee != nil {
						if h := cand[origin(callee)]; h != nil {
							_, isGo := in.(*ssa.Go)
							_, isDefer := in.(*ssa.Defer)
							if isGo || isDefer || outermost(f) == h.fn {
								bad[h.fn] = true // started as a goroutine, deferred, or recursive
							} else {
								h.sites = append(h.sites, c)
							}
						}
					}
				}
				// any other use of the function value (stored, passed, bound)
				for _, op := range in.Operands(nil) {
					if op == nil || *op == nil || *op == calleeV {
						continue
					}
					if fv, ok := (*op).(*ssa.Function); ok {
						if h := cand[origin(fv)]; h != nil {
							bad[h.fn] = true
						}
					}
				}
			}
		}
	}
	for f, h := range cand {
		if bad[f] || len(h.sites) == 0 || w.implementsInterfaceMethod(f) {
			continue
		}
		helpers[f] = h
	}
}

// findCalledClosures: a function literal that is only ever called on the spot
// (`func() { ... }()`, or bound to a local that is only called) inside a function
// that is new or whose reviewed version had no such literal is a block of its
// enclosing function written as a closure; it is treated like a transparent
// helper. Only literals of functions whose number of closures differs from the
// reviewed inventory are considered, so the reviewed tree is analysed as before.
func (w *World) findCalledClosures() {
	if !inventoryComplete {
		return
	}
	for _, f := range w.lunarFns {
		if f.Origin() != nil || f.Parent() != nil {
			continue
		}
		fz, known := frozenNames[fnID(f)]
		if known && fz.Closures == len(Anons(f))-1 {
			continue
		}
		for _, af := range Anons(f)[1:] {
			par := af.Parent()
			var sites []ssa.CallInstruction
			ok := true
			for _, b := range par.Blocks {
				for _, in := range b.Instrs {
					mc, isMC := in.(*ssa.MakeClosure)
					if !isMC || mc.Fn != ssa.Value(af) {
						continue
					}
					for _, rr := range *mc.Referrers() {
						c, isC := rr.(*ssa.Call)
						if !isC || c.Call.Value != ssa.Value(mc) {
							ok = false
							continue
						}
						sites = append(sites, c)
					}
				}
			}
			if ok && len(sites) > 0 {
				helpers[af] = &helper{fn: af, sites: sites}
			}
		}
	}
}

// instrsWithHelpers visits the instructions of fn and, after each call of a
// transparent helper, the helper's instructions (once per helper).
func instrsWithHelpers(fn *ssa.Function, f func(ssa.Instruction), seen map[*ssa.Function]bool) {
	isHelper := helperFor(fn) != nil
	for _, b := range fn.Blocks {
		// a branch of a helper that the call in focus cannot take (`if remove {..}` with
		// load(key, false)) is not part of the function in focus
		if isHelper && infeasibleInContext(b) {
			continue
		}
		for _, in := range b.Instrs {
			f(in)
			if h := helperCall(in); h != nil && !seen[h.fn] {
				seen[h.fn] = true
				instrsWithHelpers(h.fn, f, seen)
			}
		}
	}
}

// onEveryPathToReturn: does instruction a dominate every return of its function?
func onEveryPathToReturn(a ssa.Instruction) bool {
	f := a.Parent()
	n := 0
	for _, b := range f.Blocks {
		if len(b.Instrs) == 0 || b == f.Recover {
			continue
		}
		if ret, ok := b.Instrs[len(b.Instrs)-1].(*ssa.Return); ok {
			n++
			if ssa.Instruction(ret) != a && !domLocal(a, ret) {
				return false
			}
		}
	}
	return n > 0
}

func domLocal(a, b ssa.Instruction) bool {
	if a.Block() == b.Block() {
		return instrIndex(a) < instrIndex(b)
	}
	return a.Block().Dominates(b.Block())
}

func domAcross(a, b ssa.Instruction, depth int) bool {
	if a.Parent() == b.Parent() {
		return domLocal(a, b)
	}
	if depth <= 0 {
		return false
	}
	// a inside a helper: when a is on every path to the returns of the helper that are
	// consistent with what is known about the call's results at b (`if err != nil { return }`
	// in the caller rules out the helper's error returns), a precedes what the call precedes
	if h := helperFor(a.Parent()); h != nil {
		for _, s := range h.sites {
			if !domAcross(s, b, depth-1) {
				continue
			}
			rets := allReturns(h.fn)
			if s.Parent() == b.Parent() {
				rets = consistentReturns(h, s, b.Block())
			}
			ok := len(rets) > 0
			for _, ret := range rets {
				if ssa.Instruction(ret) != a && !domLocal(a, ret) {
					ok = false
				}
			}
			if ok {
				return true
			}
		}
	}
	// b inside a helper: a precedes b when it precedes every call of the helper
	// (only the calls made on behalf of a's function count: a helper shared with an
	// unrelated function is looked at in the context of the function the rule is about)
	if h := helperFor(b.Parent()); h != nil && len(h.sites) > 0 {
		all, n := true, 0
		for _, s := range h.sites {
			if !inScopeOf(s.Parent(), a.Parent(), 4) {
				continue
			}
			n++
			if !domAcross(a, s, depth-1) {
				all = false
				break
			}
		}
		if all && n > 0 {
			return true
		}
	}
	return false
}

// inScopeOf: f is root or a transparent helper called (transitively) from root.
func inScopeOf(f, root *ssa.Function, depth int) bool {
	if outermost(f) == outermost(root) {
		return true
	}
	if depth == 0 {
		return false
	}
	if h := helperFor(outermost(f)); h != nil {
		for _, s := range h.sites {
			if inScopeOf(s.Parent(), root, depth-1) {
				return true
			}
		}
	}
	return false
}

// siteConds: the conditions common to all call sites of the helper b belongs to.
func siteConds(b *ssa.BasicBlock, depth int) []Cond {
	h := helperFor(b.Parent())
	if h == nil || depth <= 0 {
		return nil
	}
	var common []Cond
	for i, s := range sitesInContext(h) {
		cs := append(condsLocal(s.Block()), siteConds(s.Block(), depth-1)...)
		if i == 0 {
			common = cs
			continue
		}
		var keep []Cond
		for _, c := range common {
			for _, d := range cs {
				if c.Pol == d.Pol && (c.V == d.V || Path(c.V) == Path(d.V)) {
					keep = append(keep, c)
					break
				}
			}
		}
		common = keep
	}
	return common
}

// helperParamPath: the access path of the argument bound to parameter p at the
// call sites of its (transparent) function, when all sites agree.
func helperParamPath(p *ssa.Parameter, d int) (string, bool) {
	h := helperFor(p.Parent())
	if h == nil || d <= 0 {
		return "", false
	}
	idx := -1
	for i, q := range p.Parent().Params {
		if q == p {
			idx = i
		}
	}
	if idx < 0 {
		return "", false
	}
	out := ""
	for i, s := range sitesInContext(h) {
		args := s.Common().Args
		if idx >= len(args) {
			return "", false
		}
		ap := pathD(args[idx], d-1)
		if i > 0 && ap != out {
			return "", false
		}
		out = ap
	}
	return out, out != ""
}

// helperResult: the value a transparent helper returns as result idx when there
// is one way of returning something: returns of the zero value (`return nil,
// err` on the failing exits) are not counted when there is exactly one other.
func helperResult(h *helper, idx int) ssa.Value {
	var vals, zeros []ssa.Value
	for _, ret := range allReturns(h.fn) {
		if idx >= len(ret.Results) {
			continue
		}
		v := ret.Results[idx]
		if k, isK := v.(*ssa.Const); isK && (k.Value == nil || k.IsNil()) && !isErrorType(v.Type()) {
			zeros = append(zeros, v)
			continue
		}
		dup := false
		for _, o := range vals {
			if o == v {
				dup = true
			}
		}
		if !dup {
			vals = append(vals, v)
		}
	}
	var v ssa.Value
	switch {
	case len(vals) == 1:
		v = vals[0]
	case len(vals) == 0 && len(zeros) > 0:
		v = zeros[0]
	default:
		return nil
	}
	if _, isPhi := v.(*ssa.Phi); isPhi {
		return nil
	}
	return v
}

func isErrorType(t types.Type) bool {
	return t.String() == "error"
}

func allReturns(f *ssa.Function) []*ssa.Return {
	var out []*ssa.Return
	for _, b := range f.Blocks {
		if len(b.Instrs) == 0 || b == f.Recover {
			continue
		}
		if ret, ok := b.Instrs[len(b.Instrs)-1].(*ssa.Return); ok {
			out = append(out, ret)
		}
	}
	return out
}

// knownNonNil: values that are never nil (a built error, an allocation).
func knownNonNil(v ssa.Value) bool {
	switch x := peel(v).(type) {
	case *ssa.Alloc, *ssa.MakeClosure, *ssa.Function, *ssa.MakeMap, *ssa.MakeSlice, *ssa.MakeChan, *ssa.FieldAddr, *ssa.IndexAddr:
		return true
	case *ssa.Call:
		return isCallTo(x, "fmt.Errorf", "errors.New")
	}
	return false
}

// consistentReturns: the returns of helper h that agree with the conditions
// that hold at block `at` of the caller about the results of call site s.
func consistentReturns(h *helper, s ssa.CallInstruction, at *ssa.BasicBlock) []*ssa.Return {
	sv := s.Value()
	resultIdx := func(v ssa.Value) (int, bool) {
		if sv == nil {
			return 0, false
		}
		if v == ssa.Value(sv) {
			return 0, true
		}
		if ex, ok := v.(*ssa.Extract); ok && ex.Tuple == ssa.Value(sv) {
			return ex.Index, true
		}
		return 0, false
	}
	var out []*ssa.Return
	conds := condsLocal(at)
	for _, ret := range allReturns(h.fn) {
		ok := true
		for _, c := range conds {
			v, pol := c.V, c.Pol
			var l, r ssa.Value
			op := ""
			if b, isB := v.(*ssa.BinOp); isB && (b.Op == token.EQL || b.Op == token.NEQ) {
				l, r, op = b.X, b.Y, "=="
				if (b.Op == token.NEQ) == pol {
					op = "!="
				}
			} else if isBool(v.Type()) {
				l, r, op = v, ssa.NewConst(constant.MakeBool(pol), v.Type()), "=="
			} else {
				continue
			}
			for _, side := range [][2]ssa.Value{{l, r}, {r, l}} {
				k, isRes := resultIdx(side[0])
				if !isRes || k >= len(ret.Results) {
					continue
				}
				got := ret.Results[k]
				if isNilConst(side[1]) {
					if op == "==" && knownNonNil(got) || op == "!=" && isNilConst(got) {
						ok = false
					}
				} else if want, isC := constBool(side[1]); isC {
					if have, isK := constBool(got); isK && (have == want) != (op == "==") {
						ok = false
					}
				}
			}
		}
		if ok {
			out = append(out, ret)
		}
	}
	return out
}

// calleeConds: what is known inside block b of a caller about a transparent
// helper that was called before: when the conditions at b on the call's
// results leave only some of the helper's returns possible, the conditions
// common to those returns hold at b as well (`v, err := h(); if err != nil {
// return }; use(v)`: at use(v) everything on the way to h's successful return holds).
func calleeConds(b *ssa.BasicBlock) []Cond {
	var out []Cond
	f := b.Parent()
	for _, blk := range f.Blocks {
		if blk != b && !blk.Dominates(b) {
			continue
		}
		for _, in := range blk.Instrs {
			h := helperCall(in)
			if h == nil {
				continue
			}
			s := in.(ssa.CallInstruction)
			all := allReturns(h.fn)
			rets := consistentReturns(h, s, b)
			if len(rets) == 0 || len(rets) == len(all) {
				continue
			}
			var common []Cond
			for i, ret := range rets {
				cs := condsLocal(ret.Block())
				if i == 0 {
					common = cs
					continue
				}
				var keep []Cond
				for _, c := range common {
					for _, d := range cs {
						if c.Pol == d.Pol && c.V == d.V {
							keep = append(keep, c)
							break
						}
					}
				}
				common = keep
			}
			out = append(out, common...)
		}
	}
	return out
}

// infeasibleInContext: block b of a transparent helper lies under a test of a
// parameter that is a boolean constant at the call site(s) in focus, with the
// other outcome.
func infeasibleInContext(b *ssa.BasicBlock) bool {
	for _, c := range condsLocal(b) {
		p, isP := c.V.(*ssa.Parameter)
		if !isP {
			continue
		}
		if k, isK := constBool(unhelp(p)); isK && k != c.Pol {
			return true
		}
	}
	return false
}

// alwaysRuns: every path from the function's entry to a return passes through the instruction's
// block (no branch, written as one condition or as a disjunction of several, skips it). For
// functions without loops around the instruction.
func alwaysRuns(in ssa.Instruction) bool {
	b := in.Block()
	f := b.Parent()
	if len(f.Blocks) == 0 {
		return false
	}
	if f.Blocks[0] == b {
		return true
	}
	seen := map[*ssa.BasicBlock]bool{b: true}
	stack := []*ssa.BasicBlock{f.Blocks[0]}
	for len(stack) > 0 {
		x := stack[len(stack)-1]
		stack = stack[:len(stack)-1]
		if seen[x] {
			continue
		}
		seen[x] = true
		if len(x.Instrs) > 0 {
			if _, isRet := x.Instrs[len(x.Instrs)-1].(*ssa.Return); isRet {
				return false
			}
		}
		stack = append(stack, x.Succs...)
	}
	return true
}

// renamedAs: functions of the current tree that are a reviewed function under a new name.
// A function listed in the inventory that is gone, and exactly one function that is not listed,
// in the same package, on the same receiver, with the same parameter types: a rename. The new
// function answers to the reviewed name everywhere (fnID, calleeID, World.Fn), so renaming an
// unexported function does not make its rules lose their subject.
var renamedAs = map[*ssa.Function]string{}

func idPrefix(id string) string {
	if i := strings.LastIndex(id, "."); i >= 0 {
		return id[:i]
	}
	return ""
}

func (w *World) findRenames() {
	if len(frozenNames) == 0 || !inventoryComplete {
		return
	}
	present := map[string]bool{}
	var fresh []*ssa.Function
	pkgs := map[string]bool{}
	for _, f := range w.lunarFns {
		if f.Parent() != nil || f.Synthetic != "" || origin(f) != f || f.Blocks == nil {
			continue
		}
		id := fnID(f)
		present[id] = true
		pkgs[idPrefix(id)] = true
		if _, known := frozenNames[id]; !known && f.Name() != "init" && f.Name() != "main" {
			fresh = append(fresh, f)
		}
	}
	if len(fresh) == 0 {
		return
	}
	typesOf := func(ps []string) string {
		var ts []string
		for _, p := range ps {
			if i := strings.Index(p, "|"); i >= 0 {
				ts = append(ts, p[i+1:])
			}
		}
		return strings.Join(ts, ";")
	}
	var missing []string
	for id := range frozenNames {
		if !present[id] && pkgs[idPrefix(id)] {
			missing = append(missing, id)
		}
	}
	sort.Strings(missing)
	used := map[*ssa.Function]bool{}
	for _, id := range missing {
		want := typesOf(frozenNames[id].Params)
		var cands []*ssa.Function
		for _, f := range fresh {
			if used[f] || idPrefix(fnID(f)) != idPrefix(id) {
				continue
			}
			var ps []string
			for _, p := range f.Params {
				ps = append(ps, p.Name()+"|"+p.Type().String())
			}
			if typesOf(ps) == want {
				cands = append(cands, f)
			}
		}
		if len(cands) == 1 {
			// and no second reviewed function of that shape is missing too
			n := 0
			for _, other := range missing {
				if idPrefix(other) == idPrefix(id) && typesOf(frozenNames[other].Params) == want {
					n++
				}
			}
			if n == 1 {
				renamedAs[cands[0]] = id
				used[cands[0]] = true
			}
		}
	}
}

// boundCall is a call seen from a function in focus: made by the function itself, or by a
// transparent helper once per call of that helper, with the helper's parameters replaced by
// what that call passes.
type boundCall struct {
	In   ssa.CallInstruction // the call (inside the helper when made through one)
	Args []ssa.Value
	Val  ssa.Value // what the function in focus receives: the call's value, or the helper call's
}

// boundCallsIn lists the calls matching pats made by fn, one per execution: a helper that fn calls
// twice contributes its inner call twice, each time with that call's arguments (one level).
func boundCallsIn(fn *ssa.Function, pats ...string) []boundCall {
	var out []boundCall
	for _, b := range fn.Blocks {
		for _, in := range b.Instrs {
			c, ok := in.(ssa.CallInstruction)
			if !ok {
				continue
			}
			if isCallTo(in, pats...) {
				out = append(out, boundCall{c, c.Common().Args, c.Value()})
				continue
			}
			h := helperCall(in)
			if h == nil || h.fn.Blocks == nil {
				continue
			}
			for _, hb := range h.fn.Blocks {
				for _, hin := range hb.Instrs {
					if !isCallTo(hin, pats...) {
						continue
					}
					hc := hin.(ssa.CallInstruction)
					var args []ssa.Value
					for _, a := range hc.Common().Args {
						sub := a
						for pi, p := range h.fn.Params {
							if a == ssa.Value(p) && pi < len(c.Common().Args) {
								sub = c.Common().Args[pi]
							}
						}
						args = append(args, sub)
					}
					// the helper's caller receives this call's value only when the helper returns it as it is
					var val ssa.Value
					if hv := hc.Value(); hv != nil && c.Value() != nil {
						val = c.Value()
						for _, rb := range h.fn.Blocks {
							if ret, isRet := rb.Instrs[len(rb.Instrs)-1].(*ssa.Return); isRet && (len(ret.Results) != 1 || ret.Results[0] != ssa.Value(hv)) {
								val = nil
							}
						}
					}
					out = append(out, boundCall{hc, args, val})
				}
			}
		}
	}
	return out
}
