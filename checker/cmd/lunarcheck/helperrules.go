package main

import (
	"go/token"
	"go/types"
	"strings"

	"golang.org/x/tools/go/ssa"
)

// Contracts of small helpers that several properties rely on (seventh wave of
// seeded changes: one-line edits in getters, parsers and encoders away from the
// anchored functions). Each is evaluated under the rule id the calling property
// gives it.

const (
	pkgStreamTypes = "lunar/engine/streams/types"
	pkgEngUtils    = "lunar/engine/utils"
	pkgProcUtils   = "lunar/engine/streams/processors/utils"
)

// hrGetHeader: OnRequest.GetHeader looks the header up under the lower-cased name
// (stored names are lower-cased by ParseHeaders; filters and group_by_header
// settings spell names as the user wrote them).
func hrGetHeader(w *World, r *Report, rule string) {
	f := w.Fn(pkgStreamTypes, "OnRequest.GetHeader")
	if f == nil {
		r.Undec(rule, "OnRequest.GetHeader", token.NoPos, "function not found")
		return
	}
	n, ok := 0, true
	Instrs(f, func(in ssa.Instruction) {
		lk, isLk := in.(*ssa.Lookup)
		if !isLk || !strings.HasSuffix(Path(lk.X), ".Headers") {
			return
		}
		n++
		c, isC := peel(lk.Index).(*ssa.Call)
		if !isC || !isCallTo(c, "strings.ToLower") || Path(c.Call.Args[0]) != "param:key" {
			ok = false
		}
	})
	r.Check(ok && n == 1, rule, "OnRequest.GetHeader/looks-up-the-lower-cased-name", f.Pos(), "GetHeader(key) reads Headers[strings.ToLower(key)] (%d lookup(s))", n)
}

// hrParseHeaders: ParseHeaders never returns a nil map (the folds and
// processors write into it) and keeps the first value of a repeated header.
func hrParseHeaders(w *World, r *Report, rule string) {
	f := w.Fn(pkgEngUtils, "ParseHeaders")
	if f == nil {
		r.Undec(rule, "ParseHeaders", token.NoPos, "function not found")
		return
	}
	ok, n := true, 0
	for _, alt := range ReturnAlts(f, 0) {
		n++
		if isNilConst(alt.Val) {
			ok = false
		}
	}
	r.Check(ok && n >= 2, rule, "ParseHeaders/never-returns-a-nil-map", f.Pos(), "every return of ParseHeaders hands back a map (also when the header block cannot be parsed): callers write into it")
	// the value chosen for a header that occurs several times is element 0
	first := false
	for _, af := range Anons(f)[1:] {
		for _, alt := range ReturnAlts(af, 0) {
			if u, isU := alt.Val.(*ssa.UnOp); isU && u.Op == token.MUL {
				if ia, isIA := u.X.(*ssa.IndexAddr); isIA && isIntConst(ia.Index, 0) {
					first = true
				}
			}
			if ix, isIx := alt.Val.(*ssa.Index); isIx && isIntConst(ix.Index, 0) {
				first = true
			}
		}
		Instrs(af, func(in ssa.Instruction) {
			// strings[len(strings)-1] or any non-zero index: not the first value
			if ia, isIA := in.(*ssa.IndexAddr); isIA && !isIntConst(ia.Index, 0) {
				if _, isSl := ia.X.Type().Underlying().(*types.Slice); isSl {
					first = false
				}
			}
		})
	}
	r.Check(first, rule, "ParseHeaders/first-value-of-a-repeated-header", f.Pos(), "a header that occurs several times is represented by its first value (the group/priority a request is counted under does not depend on a duplicate appended later)")
}

// hrDumpHeaders: the encoder writes every entry of the map it is given.
func hrDumpHeaders(w *World, r *Report, rule string) {
	f := w.Fn(pkgEngUtils, "DumpHeaders")
	if f == nil {
		r.Undec(rule, "DumpHeaders", token.NoPos, "function not found")
		return
	}
	ms := CallsIn(f, false, "lo.MapToSlice")
	ok := len(ms) == 1 && Path(ms[0].Common().Args[0]) == "param:headers"
	filt := CallsIn(f, false, "lo.OmitBy", "lo.OmitByValues", "lo.OmitByKeys", "lo.PickBy", "lo.PickByKeys", "lo.PickByValues", "lo.Filter")
	r.Check(ok && len(filt) == 0, rule, "DumpHeaders/every-entry-is-encoded", f.Pos(), "DumpHeaders encodes the whole map it was given (no entry is filtered out: an edit that sets a header to the empty string is still an edit)")
}

// hrExtractKeyValuePair: parts[1] is read only when there are exactly two parts.
func hrExtractKeyValuePair(w *World, r *Report, rule string) {
	f := w.Fn(pkgProcUtils, "ExtractKeyValuePair")
	if f == nil {
		r.Undec(rule, "ExtractKeyValuePair", token.NoPos, "function not found")
		return
	}
	n, ok := 0, true
	Instrs(f, func(in ssa.Instruction) {
		ia, isIA := in.(*ssa.IndexAddr)
		if !isIA {
			return
		}
		k, isK := constInt(ia.Index)
		if !isK {
			return
		}
		if _, isSl := ia.X.Type().Underlying().(*types.Slice); !isSl {
			return
		}
		n++
		guarded := false
		for _, rel := range Rels(ia.Block()) {
			for _, side := range [][2]ssa.Value{{rel.L, rel.R}, {rel.R, rel.L}} {
				c, isC := peel(side[0]).(*ssa.Call)
				if !isC || !isCallTo(c, "builtin.len") || c.Call.Args[0] != ia.X {
					continue
				}
				m, isM := constInt(side[1])
				op := rel.Op
				if side[0] == rel.R {
					op = flipOp(op)
				}
				if isM && (op == "==" && m > k || op == ">" && m >= k || op == ">=" && m > k) {
					guarded = true
				}
			}
		}
		if !guarded {
			ok = false
		}
	})
	r.Check(ok && n >= 2, rule, "ExtractKeyValuePair/indexes-within-the-checked-length", f.Pos(), "parts[k] is read only where len(parts) was compared so that k is in range (%d reads): a parameter without '=' must not panic the loader", n)
}

// hrLastError: Error() is called on the error that was just tested for nil.
func hrLastError(w *World, r *Report, rule string) {
	f := w.Fn(pkgEngUtils, "LastErrorWithUnwrappedDepth")
	if f == nil {
		r.Undec(rule, "LastErrorWithUnwrappedDepth", token.NoPos, "function not found")
		return
	}
	n, ok := 0, true
	Instrs(f, func(in ssa.Instruction) {
		c, isC := in.(*ssa.Call)
		if !isC || !c.Call.IsInvoke() || c.Call.Method.Name() != "Error" {
			return
		}
		n++
		recv := c.Call.Value
		op, _ := FindRel(Rels(c.Block()), func(v ssa.Value) bool { return v == recv }, isNilConst)
		if op != "!=" {
			ok = false
		}
	})
	r.Check(ok && n >= 1, rule, "LastErrorWithUnwrappedDepth/error-text-of-a-non-nil-error", f.Pos(), "err.Error() is called only on the value that was just compared != nil (an unwrapped error may be nil: the panic would escape the handler before Restore)")
}

// hrGetCountFromContext: the counter that is read is the one the caller asked for.
func hrGetCountFromContext(w *World, r *Report, rule string) {
	f := w.Fn(pkgQuota, "quota.getCountFromContext")
	if f == nil {
		r.Undec(rule, "quota.getCountFromContext", token.NoPos, "function not found")
		return
	}
	cs := CallsIn(f, false, "SharedStateI).GetQuotaCounter", "ContextI).GetQuotaCounter")
	ok := len(cs) == 1
	if ok {
		a := margs(cs[0])
		ok = len(a) >= 1 && Path(a[0]) == "param:counterKey"
	}
	r.Check(ok, rule, "getCountFromContext/reads-the-key-it-was-given", f.Pos(), "getCountFromContext(counterKey) reads counterKey (the spill-over budget is not the window counter)")
}

// hrGetQuotaByID: what ResourceManagement.GetQuota returns is looked up by quotaID.
func hrGetQuotaByID(w *World, r *Report, rule string) {
	f := w.Fn("lunar/engine/streams/resources", "ResourceManagement.GetQuota")
	if f == nil {
		r.Undec(rule, "ResourceManagement.GetQuota", token.NoPos, "function not found")
		return
	}
	ok, n := true, 0
	for _, alt := range ReturnAlts(f, 0) {
		if isNilConst(alt.Val) {
			continue
		}
		n++
		byID := Derives(alt.Val, func(x ssa.Value) bool {
			c, isC := x.(*ssa.Call)
			if !isC {
				return false
			}
			for _, a := range c.Call.Args {
				if Path(a) == "param:quotaID" {
					return true
				}
			}
			return false
		})
		byReq := Derives(alt.Val, func(x ssa.Value) bool {
			c, isC := x.(*ssa.Call)
			return isC && strings.Contains(Path(c), "reqIDToQuota") && !strings.Contains(Path(c), "param:quotaID")
		})
		if !byID || byReq {
			ok = false
		}
	}
	r.Check(ok && n >= 1, rule, "ResourceManagement.GetQuota/result-is-the-quota-of-that-id", f.Pos(), "every quota GetQuota(quotaID, reqID) returns was looked up with quotaID (the request-to-quota record is only written here, never answered from)")
}

// hrIncUsesTransactionID: the Inc processor registers the request under its
// transaction id, the id the drop/error hooks look it up with.
func hrIncUsesTransactionID(w *World, r *Report, rule string) {
	f := w.Fn("lunar/engine/streams/processors/quota-processor-inc", "quotaProcessorInc.Execute")
	if f == nil {
		r.Undec(rule, "quotaProcessorInc.Execute", token.NoPos, "function not found")
		return
	}
	cs := CallsIn(f, false, "ResourceManagementI).GetQuota", "ResourceManagement).GetQuota")
	ok := len(cs) == 1
	if ok {
		a := margs(cs[0])
		ok = len(a) == 2 && strings.Contains(Path(a[1]), "APIStreamI).GetID(") && strings.HasSuffix(Path(a[0]), ".quotaID")
	}
	r.Check(ok, rule, "quotaProcessorInc.Execute/registers-under-the-transaction-id", f.Pos(), "the Inc processor asks for GetQuota(p.quotaID, apiStream.GetID()) - the id OnRequestDrop/OnError release with")
}

// hrMeasureReturnsError: the wrapper every processor runs through hands the processor's error back.
func hrMeasureReturnsError(w *World, r *Report, rule string) {
	f := w.Fn(pkgStreams, "processorMetricsData.measureProcExecutionTime")
	if f == nil {
		r.Undec(rule, "measureProcExecutionTime", token.NoPos, "function not found")
		return
	}
	var dyn []ssa.CallInstruction
	Instrs(f, func(in ssa.Instruction) {
		if c, ok := in.(*ssa.Call); ok && !c.Call.IsInvoke() && c.Call.StaticCallee() == nil {
			if _, isB := c.Call.Value.(*ssa.Builtin); !isB && Path(c.Call.Value) == "param:fn" {
				dyn = append(dyn, c)
			}
		}
	})
	ok := len(dyn) == 1 && errReturned(f, dyn[0])
	if ok {
		// ... and the result next to a nil error is the processor's result
		for _, alt := range ReturnAlts(f, 0) {
			if !Derives(alt.Val, func(x ssa.Value) bool { return x == dyn[0].Value() }) {
				ok = false
			}
		}
	}
	r.Check(ok, rule, "measureProcExecutionTime/returns-what-the-processor-returned", f.Pos(), "the timing wrapper returns the processor's own result and error (a failing processor must stop the walk)")
}

// hrStoreFileTruncates: a file written over an existing one does not keep its old tail.
func hrStoreFileTruncates(w *World, r *Report, rule string) {
	f := w.Fn(pkgConfig, "FileSystemOperation.storeFileOnDisk")
	if f == nil {
		r.Undec(rule, "storeFileOnDisk", token.NoPos, "function not found")
		return
	}
	ok := len(CallsIn(f, false, "os.Create")) == 1 || len(CallsIn(f, false, "os.WriteFile")) == 1
	for _, c := range CallsIn(f, false, "os.OpenFile") {
		if k, isK := constInt(c.Common().Args[1]); isK && k&0x200 != 0 { // os.O_TRUNC on linux
			ok = true
		}
	}
	r.Check(ok, rule, "storeFileOnDisk/replaces-the-whole-file", f.Pos(), "the file is created/truncated before the content is written (Restore writing a shorter backed-up file over a longer rejected one leaves no tail)")
}

// hrNoDedupBeforeUniqueness: the names handed to the duplicate-name validation are not de-duplicated first.
func hrNoDedupBeforeUniqueness(w *World, r *Report, rule string) {
	f := w.Fn(pkgConfig, "extractAllPolicyNames")
	if f == nil {
		r.Undec(rule, "extractAllPolicyNames", token.NoPos, "function not found")
		return
	}
	var dd []ssa.CallInstruction
	for _, af := range Anons(f) {
		dd = append(dd, CallsIn(af, false, "lo.Uniq", "lo.UniqBy", "slices.Compact", "slices.CompactFunc")...)
	}
	maps := len(CallsIn(f, false, "lo.Map"))
	r.Check(len(dd) == 0 && maps >= 4, rule, "extractAllPolicyNames/all-names-with-their-repetitions", f.Pos(), "the list checked for duplicate policy names contains every name as often as it is declared (%d collections, %d de-duplications): two same-named throttling remedies would share one counter", maps, len(dd))
}

// hrConstructorAlignsWindow: a new delayed queue takes its first window end from the aligned grid.
func hrConstructorAlignsWindow(w *World, r *Report, rule string) {
	f := w.Fn(pkgQueue, "NewInMemoryDelayedPriorityQueue")
	if f == nil {
		r.Undec(rule, "NewInMemoryDelayedPriorityQueue", token.NoPos, "function not found")
		return
	}
	ens := CallsIn(f, false, "DelayedPriorityQueue).ensureWindowIsUpdated")
	var gos []ssa.Instruction
	Instrs(f, func(in ssa.Instruction) {
		if g, ok := in.(*ssa.Go); ok && isCallTo(g, "DelayedPriorityQueue).process") {
			gos = append(gos, g)
		}
	})
	ok := len(ens) == 1 && len(gos) == 1 && domInstr(ens[0], gos[0]) && len(fieldStores(f, "currentWindowEndTime")) == 0
	r.Check(ok, rule, "constructor/first-window-on-the-aligned-grid", f.Pos(), "the constructor calls ensureWindowIsUpdated() before it starts the rollover goroutine and does not set currentWindowEndTime itself (the first rollover fires at the aligned boundary)")
}

// hrFilterResultGetters: each getter of the selection result returns the list and the validity flag of its own slot.
func hrFilterResultGetters(w *World, r *Report, rule string) {
	for getter, slot := range map[string]string{"GetUserFlow": "UserFlow", "GetSystemFlowStart": "SystemFlowStart", "GetSystemFlowEnd": "SystemFlowEnd"} {
		f := w.Fn(pkgFilter, "FilterResult."+getter)
		if f == nil {
			r.Undec(rule, "FilterResult."+getter, token.NoPos, "function not found")
			continue
		}
		ok := true
		for i, fld := range []string{"Flow", "FlowValid"} {
			for _, alt := range ReturnAlts(f, i) {
				if !strings.HasSuffix(Path(alt.Val), "."+slot+"."+fld) {
					ok = false
				}
			}
		}
		r.Check(ok, rule, "FilterResult."+getter+"/own-slot", f.Pos(), "%s returns %s.Flow and %s.FlowValid (a slot's flows are valid by its own flag)", getter, slot, slot)
	}
}

// hrQueuePriority: the priority of a waiting request is the configured number of
// its group, found by the header value exactly as sent; the fall-back is used
// only when the header or the group is absent (0 is a legitimate, best priority).
func hrQueuePriority(w *World, r *Report, rule string) {
	if f := w.Fn(pkgQProc, "queueProcessor.extractPriority"); f == nil {
		r.Undec(rule, "queueProcessor.extractPriority", token.NoPos, "function not found")
	} else {
		ok, n := true, 0
		for _, alt := range ReturnAlts(f, 0) {
			k, isK := peel(alt.Val).(*ssa.Const)
			if !isK || k.Value == nil || k.Value.ExactString() == "0" {
				continue // the group's own priority, or 0 when no grouping is configured
			}
			n++
			// the non-zero constant fall-back: on the not-found edge of a comma-ok lookup, nothing else
			for _, cd := range alt.Conds {
				e, isE := cd.V.(*ssa.Extract)
				_, isLk := ssa.Value(nil), false
				if isE {
					_, isLk = e.Tuple.(*ssa.Lookup)
				}
				if isE && isLk && e.Index == 1 {
					continue
				}
				if b, isB := cd.V.(*ssa.BinOp); isB && (Path(b.X) == "param:p.groupByHeader" || Path(b.Y) == "param:p.groupByHeader") {
					continue // whether grouping is configured at all
				}
				ok = false
			}
		}
		r.Check(ok && n >= 1, rule, "queueProcessor.extractPriority/fallback-only-when-absent", f.Pos(), "the default priority is returned only when the header or the group is not found (decided by the lookups' found flags, not by the value: priority 0 is a configured value)")
	}
	if f := w.Fn(pkgRemedies, "extractPriority"); f == nil {
		r.Undec(rule, "remedies.extractPriority", token.NoPos, "function not found")
	} else {
		ok, n := true, 0
		Instrs(f, func(in ssa.Instruction) {
			lk, isLk := in.(*ssa.Lookup)
			if !isLk || !strings.HasSuffix(Path(lk.X), ".Groups") {
				return
			}
			n++
			if Derives(lk.Index, func(x ssa.Value) bool {
				return isCallTo0(x, "strings.ToLower", "strings.ToUpper", "strings.TrimSpace", "strings.Title")
			}) || !Derives(lk.Index, func(x ssa.Value) bool {
				l, isL := x.(*ssa.Lookup)
				return isL && strings.HasSuffix(Path(l.X), ".Headers")
			}) {
				ok = false
			}
		})
		r.Check(ok && n == 1, rule, "remedies.extractPriority/group-looked-up-by-the-header-value-as-sent", f.Pos(), "Prioritization.Groups is indexed with the request's header value unmodified (the keys are the group names as written in the policy)")
	}
}

// hrWatchListCount: leaving the watch list gives back exactly one place.
func hrWatchListCount(w *World, r *Report, rule string) {
	f := w.Fn(pkgQProc, "RequestWatcher.RemoveFromWatchList")
	if f == nil {
		r.Undec(rule, "RemoveFromWatchList", token.NoPos, "function not found")
		return
	}
	adds := CallsIn(f, false, "atomic.Int64).Add")
	stores := CallsIn(f, false, "atomic.Int64).Store")
	ok := len(adds) == 1 && len(stores) == 0
	if ok {
		a := margs(adds[0])
		k, isK := constInt(a[len(a)-1])
		ok = isK && k == -1 && strings.HasSuffix(Path(adds[0].Common().Args[0]), ".requestCount")
	}
	r.Check(ok, rule, "RemoveFromWatchList/gives-back-one-place", f.Pos(), "requestCount.Add(-1), and no other write of the counter (a recount from the map would wipe out the Add(1) of an arrival that has not reached the map yet)")
}

// hrDiscoveryRunOrder: the failed transactions of a batch are reported before
// anything that can make Run return early.
func hrDiscoveryRunOrder(w *World, r *Report, rule string) {
	f := w.Fn(pkgDisc, "Run")
	if f == nil {
		r.Undec(rule, "discovery.Run", token.NoPos, "function not found")
		return
	}
	nt := CallsIn(f, false, "discovery.notifyErrorRecord")
	ag := CallsIn(f, false, "discovery.GetUpdatedAggregations")
	ok := len(nt) == 1 && len(ag) == 1 && domInstr(nt[0], ag[0])
	if ok {
		// no failing exit before the report
		for _, alt := range ReturnAlts(f, 0) {
			if !isNilConst(alt.Val) && !domInstr(nt[0], alt.Ret) {
				ok = false
			}
		}
	}
	r.Check(ok, rule, "discovery.Run/failed-transactions-reported-first", f.Pos(), "notifyErrorRecord runs before the aggregation and before every failing exit of Run (a batch whose aggregation fails still releases the slots of its failed transactions)")
}

// hrEarlyResponseNotRewritten: the synthetic response of an early response is
// not overwritten from the action of the response-side remedies before it is looked at.
func hrEarlyResponseNotRewritten(w *World, r *Report, rule string) {
	f := w.Fn("lunar/engine/runner", "obtainModifiedEarlyResponse")
	if f == nil {
		r.Undec(rule, "obtainModifiedEarlyResponse", token.NoPos, "function not found")
		return
	}
	n := len(CallsIn(f, false, "RespLunarAction).EnsureResponseIsUpdated"))
	r.Check(n == 0, rule, "obtainModifiedEarlyResponse/synthetic-response-not-rewritten", f.Pos(), "the response built from the early-response action is read as the remedies left it (%d EnsureResponseIsUpdated calls): an action that carries no status/body must not blank the configured rejection", n)
}

// ---- second half of the seventh wave ----

// hrRetryAfterHelpers: the stored Retry-After is read under exactly the
// configured header name (the replay rewrites exactly that name), and a remedy
// without a retry_after_type stores nothing.
func hrRetryAfterHelpers(w *World, r *Report, rule string) {
	if f := w.Fn(pkgRemedies, "readRetryAfter"); f == nil {
		r.Undec(rule, "readRetryAfter", token.NoPos, "function not found")
	} else {
		n, ok := 0, true
		Instrs(f, func(in ssa.Instruction) {
			lk, isLk := in.(*ssa.Lookup)
			if !isLk || Path(lk.X) != "param:headers" {
				return
			}
			n++
			if !strings.HasSuffix(Path(lk.Index), ".RetryAfterHeader") {
				ok = false
			}
		})
		r.Check(ok && n == 1, rule, "readRetryAfter/exact-configured-header", f.Pos(), "the retry-after value is read from headers[remedyConfig.RetryAfterHeader] and nowhere else (%d lookups): the replay rewrites exactly that name", n)
	}
	if f := w.Fn(pkgRemedies, "normalizeRetryAfter"); f == nil {
		r.Undec(rule, "normalizeRetryAfter", token.NoPos, "function not found")
	} else {
		undef := w.constOf("lunar/shared-model/config", "RetryAfterUndefined")
		ok, n := true, 0
		for _, alt := range ReturnAlts(f, 1) {
			if !isNilConst(alt.Val) {
				continue
			}
			n++
			// a nil error is returned only where the type was found equal to a defined type
			defined := false
			for _, rel := range relsOfConds(alt.Conds) {
				if rel.Op == "==" && Path(rel.L) == "param:retryAfterType" {
					if k, isK := peel(rel.R).(*ssa.Const); isK && !isConstVal(k, undef) {
						defined = true
					}
				}
			}
			if !defined {
				ok = false
			}
		}
		r.Check(ok && n == 2, rule, "normalizeRetryAfter/only-defined-types-convert", f.Pos(), "a value is converted (nil error) only for the two defined retry-after types; an undefined type is an error, so nothing is stored that the replay would not know how to reduce (%d converting exits)", n)
	}
}

// hrTimestampUTC: persisted timestamps are rendered in UTC (they are parsed back as UTC).
func hrTimestampUTC(w *World, r *Report, rule string) {
	f := w.Fn("lunar/shared-model/actions", "TimestampToStringFromInt64")
	if f == nil {
		r.Undec(rule, "TimestampToStringFromInt64", token.NoPos, "function not found")
		return
	}
	ok := true
	for _, alt := range ReturnAlts(f, 0) {
		c, isC := peel(alt.Val).(*ssa.Call)
		if !isC || !isCallTo(c, "time.Time).Format") || !Derives(c.Call.Args[0], func(x ssa.Value) bool { return isCallTo0(x, "time.Time).UTC") }) {
			ok = false
		}
	}
	r.Check(ok, rule, "TimestampToStringFromInt64/formats-the-UTC-time", f.Pos(), "the persisted text is Format of the time converted with UTC() (a state-file round trip must not shift min/max times by the zone offset)")
}

// hrNormalizeTreeInsertsAll: every URL of the batch is inserted (the insert is what reports convergence).
func hrNormalizeTreeInsertsAll(w *World, r *Report, rule string) {
	f := w.Fn("lunar/aggregation-plugin/common", "NormalizeTree")
	if f == nil {
		r.Undec(rule, "NormalizeTree", token.NoPos, "function not found")
		return
	}
	ins := CallsIn(f, false, "SimpleURLTreeI).InsertWithConvergenceIndication", "URLTreeI).InsertWithConvergenceIndication")
	ok := len(ins) == 1
	if ok {
		for _, cd := range CondsOf(ins[0].Block()) {
			if s := condSig(cd); s != "" {
				ok = false
			}
		}
		for _, h := range loopHeadersOf(f) {
			if len(loopBreaks(h)) > 0 {
				ok = false
			}
		}
	}
	r.Check(ok, rule, "NormalizeTree/every-url-is-inserted", f.Pos(), "InsertWithConvergenceIndication runs for every URL of the batch, unconditionally (a URL that already matches a wildcard still has to be inserted: the insert is what reports convergence)")
}

// hrYAMLTagsMatchFields: the yaml key of every field of the struct is the snake-case of the field name.
func hrYAMLTagsMatchFields(w *World, r *Report, rule, pkg, typ string) {
	p := w.ByPath[pkg]
	if p == nil || p.Types == nil {
		r.Undec(rule, typ, token.NoPos, "package %s not loaded", pkg)
		return
	}
	o := p.Types.Scope().Lookup(typ)
	if o == nil {
		r.Undec(rule, typ, token.NoPos, "type not found")
		return
	}
	st, isSt := o.Type().Underlying().(*types.Struct)
	if !isSt {
		r.Undec(rule, typ, o.Pos(), "not a struct")
		return
	}
	snake := func(s string) string {
		var b strings.Builder
		for i, c := range s {
			if c >= 'A' && c <= 'Z' {
				if i > 0 {
					b.WriteByte('_')
				}
				b.WriteRune(c + 32)
			} else {
				b.WriteRune(c)
			}
		}
		return b.String()
	}
	var bad []string
	for i := 0; i < st.NumFields(); i++ {
		tag := st.Tag(i)
		k := ""
		if j := strings.Index(tag, `yaml:"`); j >= 0 {
			k = tag[j+6:]
			if e := strings.IndexAny(k, `",`); e >= 0 {
				k = k[:e]
			}
		}
		if k != snake(st.Field(i).Name()) {
			bad = append(bad, st.Field(i).Name()+"<-"+k)
		}
	}
	r.Check(len(bad) == 0 && st.NumFields() > 0, rule, typ+"/yaml-keys-name-their-own-fields", o.Pos(), "every field of %s is read from the yaml key that spells its own name (%d fields; mismatches %v)", typ, st.NumFields(), bad)
}

// hrGetKeysAll / hrObfuscateWrappers: the walker sees every member; the per-side wrappers return what obfuscateBody returns.
func hrObfuscationHelpers(w *World, r *Report, rule string) {
	if f := w.Fn("lunar/engine/utils/obfuscation", "getKeys"); f == nil {
		r.Undec(rule, "getKeys", token.NoPos, "function not found")
	} else {
		ok, n := true, 0
		for _, af := range Anons(f)[1:] {
			Instrs(af, func(in ssa.Instruction) {
				if c, isC := in.(*ssa.Call); isC {
					if b, isB := c.Call.Value.(*ssa.Builtin); isB && b.Name() == "append" {
						n++
						if len(CondsOf(c.Block())) != 0 {
							ok = false
						}
					}
				}
			})
		}
		r.Check(ok && n == 1, rule, "getKeys/every-member-listed", f.Pos(), "the key collector appends every member name unconditionally (a member that is skipped vanishes, with its subtree, from the obfuscated copy)")
	}
	for _, m := range []string{"ObfuscateRequestBody", "ObfuscateResponseBody"} {
		f := w.Fn("lunar/engine/streams/processors/har-collector", "apiStreamObfuscator."+m)
		if f == nil {
			r.Undec(rule, m, token.NoPos, "function not found")
			continue
		}
		ok, n := true, 0
		for _, alt := range ReturnAlts(f, 0) {
			n++
			if !isCallTo0(alt.Val, "apiStreamObfuscator).obfuscateBody") {
				ok = false
			}
		}
		r.Check(ok && n == 1, rule, m+"/returns-the-obfuscated-body", f.Pos(), "%s returns obfuscateBody(body, ...) on its only exit (no shortcut hands the body back as it came)", m)
	}
}

// hrRetryCounterStore: where the retry counter of a flow lives - the flow's own
// context, under the processor's own key, in the context set for this stream.
func hrRetryCounterStore(w *World, r *Report, rule string) {
	if f := w.Fn(pkgLctx, "ContextManager.WithFlowContext"); f == nil {
		r.Undec(rule, "WithFlowContext", token.NoPos, "function not found")
	} else {
		cs := CallsIn(f, false, "LunarAdminContextI).SetFlowContext")
		ok := len(cs) == 1
		if ok {
			a := margs(cs[0])
			c, isC := peel(a[len(a)-1]).(*ssa.Call)
			ok = isC && isCallTo(c, "lunar-context.NewContext")
		}
		r.Check(ok, rule, "WithFlowContext/fresh-context-per-flow", f.Pos(), "every flow gets its own NewContext() as flow context (two flows with a Retry processor under the same key do not share a counter)")
	}
	if f := w.Fn(pkgRetry, "NewProcessor"); f == nil {
		r.Undec(rule, "retry.NewProcessor", token.NoPos, "function not found")
	} else {
		ok, n := true, 0
		for _, alt := range ReturnAlts(f, 0) {
			if isNilConst(alt.Val) {
				continue
			}
			n++
			nm := litField(alt.Val, "name")
			if nm == nil || Path(nm) != "param:metaData.Name" {
				ok = false
			}
		}
		r.Check(ok && n == 1, rule, "retry.NewProcessor/named-by-its-key", f.Pos(), "the processor's name (prefix of its counter key) is metaData.Name, the key of this processor in the flow, not the name of the processor type")
	}
	if f := w.Fn(pkgStreamTypes, "APIStream.SetContext"); f == nil {
		r.Undec(rule, "APIStream.SetContext", token.NoPos, "function not found")
	} else {
		st := fieldStores(f, "context")
		ok := len(st) == 1 && len(CondsOf(st[0].Block())) == 0 && st[0].Val == ssa.Value(f.Params[1])
		r.Check(ok, rule, "APIStream.SetContext/always-replaces", f.Pos(), "SetContext stores the given context unconditionally (each flow executed for a transaction works on its own context)")
	}
}

// hrFailsafeReactions: what the two reactions load.
func hrFailsafeReactions(w *World, r *Report, rule string) {
	for name, arg := range map[string]bool{"RevertToLastLoaded": false, "RevertToDiagnosisFree": true} {
		f := w.Fn(pkgConfig, "TxnPoliciesAccessor."+name)
		if f == nil {
			r.Undec(rule, name, token.NoPos, "function not found")
			continue
		}
		cs := CallsIn(f, false, "config.loadDataFromLoadedFile")
		ok := len(cs) == 1 && len(CallsIn(f, false, "config.loadDataFromFile")) == 0
		if ok {
			b, isB := constBool(cs[0].Common().Args[0])
			ok = isB && b == arg
		}
		r.Check(ok, rule, name+"/loads-the-persisted-snapshot", f.Pos(), "%s applies loadDataFromLoadedFile(%v) - the snapshot of what was last loaded, not the policies file on disk", name, arg)
	}
	if f := w.Fn(pkgConfig, "loadDataFromLoadedFile"); f == nil {
		r.Undec(rule, "loadDataFromLoadedFile", token.NoPos, "function not found")
	} else {
		n := len(CallsIn(f, false, "config.persistLoaded", "config.WritePoliciesConfig"))
		r.Check(n == 0, rule, "loadDataFromLoadedFile/does-not-rewrite-the-snapshot", f.Pos(), "reading the snapshot never writes it (%d writes): the 'unhealthy' reaction must not replace the last loaded policies by their diagnosis-free version", n)
	}
	if f := w.Fn(pkgConfig, "modifyIntoDiagnosisFreePoliciesConfig"); f == nil {
		r.Undec(rule, "modifyIntoDiagnosisFreePoliciesConfig", token.NoPos, "function not found")
	} else {
		// the endpoints that are kept are the ones whose Diagnosis was emptied: the value appended
		// (or the element stored) derives from the local whose Diagnosis field was overwritten
		ok := false
		for _, st := range fieldStores(f, "Diagnosis") {
			fa, isFA := st.Addr.(*ssa.FieldAddr)
			if !isFA {
				continue
			}
			if _, n := namedOf(fa.X.Type()); n != "EndpointConfig" {
				continue
			}
			base := fa.X
			Instrs(f, func(in ssa.Instruction) {
				c, isC := in.(*ssa.Call)
				if !isC {
					return
				}
				if b, isB := c.Call.Value.(*ssa.Builtin); isB && b.Name() == "append" && strings.Contains(c.Type().String(), "EndpointConfig") {
					if Derives(c.Call.Args[1], func(x ssa.Value) bool {
						u, isU := x.(*ssa.UnOp)
						return x == base || isU && u.Op == token.MUL && u.X == base
					}) && domInstr(st, c) {
						ok = true
					}
				}
			})
			// or the element is modified in place through its index
			if ia, isIA := base.(*ssa.IndexAddr); isIA && strings.HasSuffix(Path(ia.X), ".Endpoints") {
				ok = true
			}
		}
		r.Check(ok, rule, "modifyIntoDiagnosisFreePoliciesConfig/endpoint-diagnoses-emptied-in-what-is-kept", f.Pos(), "the endpoint whose Diagnosis is emptied is the one that goes into the result (emptying a loop copy that is then dropped leaves the endpoint diagnoses running)")
	}
}

// hrNormalisedPathSpelling: the normalised URL reported by a lookup spells a
// part as the request wrote it only where a literal child of that name was
// followed; a part matched by a parameter is spelled with the tree's own
// parameter name (aggregates are keyed by the normalised URL).
func hrNormalisedPathSpelling(w *World, r *Report, rule string) {
	f := w.Fn(pkgURLTree, "lookupNode")
	if f == nil {
		r.Undec(rule, "lookupNode", token.NoPos, "function not found")
		return
	}
	n, ok := 0, true
	Instrs(f, func(in ssa.Instruction) {
		b, isB := in.(*ssa.BinOp)
		if !isB || b.Op != token.ADD {
			return
		}
		if bt, isBasic := b.Type().Underlying().(*types.Basic); !isBasic || bt.Info()&types.IsString == 0 {
			return
		}
		if typedField(b.Y) != "urlPart.Value" && typedField(b.X) != "urlPart.Value" {
			return
		}
		n++
		lit := condsHave(CondsOf(b.Block()), true, func(v ssa.Value) bool {
			e, isE := v.(*ssa.Extract)
			if !isE || e.Index != 1 {
				return false
			}
			l, isL := e.Tuple.(*ssa.Lookup)
			return isL && strings.HasSuffix(Path(l.X), ".ConstantChildren")
		})
		if !lit {
			ok = false
		}
	})
	r.Check(ok && n >= 1, rule, "lookupNode/request-spelling-only-for-literal-parts", f.Pos(), "the request's own text of a part goes into the normalised path only under a found literal child (%d sites); a part matched by a parameter is written with the tree's parameter name", n)
}

// hrResponseNilGuard: while the flows are re-selected after an early response the
// stream is typed as a response although no response message exists; the filter
// qualifiers call a method on APIStream.GetResponse() only where that value was
// found present.
func hrResponseNilGuard(w *World, r *Report, rule string) {
	n := 0
	var bad []string
	for _, f := range w.lunarFns {
		if f.Origin() != nil || fnPkgPath(f) != pkgFilter {
			continue
		}
		Instrs(f, func(in ssa.Instruction) {
			c, ok := in.(*ssa.Call)
			if !ok || !c.Call.IsInvoke() {
				return
			}
			recv, isC := peel(c.Call.Value).(*ssa.Call)
			if !isC || !isCallTo(recv, "APIStreamI).GetResponse") {
				return
			}
			n++
			guarded := false
			for _, cd := range CondsOf(c.Block()) {
				if g, isG := peel(cd.V).(*ssa.Call); isG && !cd.Pol && isCallTo(g, "utils.IsInterfaceNil") && len(g.Call.Args) == 1 && peel(g.Call.Args[0]) == ssa.Value(recv) {
					guarded = true
				}
			}
			if op, _ := FindRel(Rels(c.Block()), func(v ssa.Value) bool { return peel(v) == ssa.Value(recv) }, isNilConst); op == "!=" {
				guarded = true
			}
			if !guarded {
				bad = append(bad, w.Pos(posOf(c))+" "+c.Call.Method.Name())
			}
		})
	}
	if n == 0 {
		r.Undec(rule, "filter/response-used-only-when-present", token.NoPos, "no use of APIStream.GetResponse() found in the filter package")
		return
	}
	r.Check(len(bad) == 0, rule, "filter/response-used-only-when-present", token.NoPos, "the flow qualifiers call a method on APIStream.GetResponse() only where it was found non-nil (%d uses; unguarded: %v): the selection for an early response runs without a response message", n, bad)
}
