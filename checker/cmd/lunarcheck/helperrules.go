package main

import (
	"go/constant"
	"go/token"
	"go/types"
	"os"
	"path/filepath"
	"reflect"
	"regexp"
	"sort"
	"strconv"
	"strings"

	"golang.org/x/tools/go/ssa"
)

// Contracts of small helpers that several properties rely on (seventh wave of
// seeded changes: one-line edits in getters, parsers and encoders away from the
// anchored functions). Each is evaluated under the rule id the calling property
// gives it.

const (
	pkgStreamTypes = "lunar/engine/streams/types"
	pkgEngUtils    = "lunar/engine/utils"
	pkgProcUtils   = "lunar/engine/streams/processors/utils"
)

// hrGetHeader: OnRequest.GetHeader looks the header up under the lower-cased name
// (stored names are lower-cased by ParseHeaders; filters and group_by_header
// settings spell names as the user wrote them).
func hrGetHeader(w *World, r *Report, rule string) {
	f := w.Fn(pkgStreamTypes, "OnRequest.GetHeader")
	if f == nil {
		r.Undec(rule, "OnRequest.GetHeader", token.NoPos, "function not found")
		return
	}
	n, ok := 0, true
	Instrs(f, func(in ssa.Instruction) {
		lk, isLk := in.(*ssa.Lookup)
		if !isLk || !strings.HasSuffix(Path(lk.X), ".Headers") {
			return
		}
		n++
		c, isC := peel(lk.Index).(*ssa.Call)
		if !isC || !isCallTo(c, "strings.ToLower") || Path(c.Call.Args[0]) != "param:key" {
			ok = false
		}
	})
	r.Check(ok && n == 1, rule, "OnRequest.GetHeader/looks-up-the-lower-cased-name", f.Pos(), "GetHeader(key) reads Headers[strings.ToLower(key)] (%d lookup(s))", n)
}

// hrParseHeaders: ParseHeaders never returns a nil map (the folds and
// processors write into it) and keeps the first value of a repeated header.
func hrParseHeaders(w *World, r *Report, rule string) {
	f := w.Fn(pkgEngUtils, "ParseHeaders")
	if f == nil {
		r.Undec(rule, "ParseHeaders", token.NoPos, "function not found")
		return
	}
	ok, n := true, 0
	for _, alt := range ReturnAlts(f, 0) {
		n++
		if isNilConst(alt.Val) {
			ok = false
		}
	}
	r.Check(ok && n >= 2, rule, "ParseHeaders/never-returns-a-nil-map", f.Pos(), "every return of ParseHeaders hands back a map (also when the header block cannot be parsed): callers write into it")
	// the value chosen for a header that occurs several times is element 0
	first := false
	for _, af := range Anons(f)[1:] {
		for _, alt := range ReturnAlts(af, 0) {
			if u, isU := alt.Val.(*ssa.UnOp); isU && u.Op == token.MUL {
				if ia, isIA := u.X.(*ssa.IndexAddr); isIA && isIntConst(ia.Index, 0) {
					first = true
				}
			}
			if ix, isIx := alt.Val.(*ssa.Index); isIx && isIntConst(ix.Index, 0) {
				first = true
			}
		}
		Instrs(af, func(in ssa.Instruction) {
			// strings[len(strings)-1] or any non-zero index: not the first value
			if ia, isIA := in.(*ssa.IndexAddr); isIA && !isIntConst(ia.Index, 0) {
				if _, isSl := ia.X.Type().Underlying().(*types.Slice); isSl {
					first = false
				}
			}
		})
	}
	r.Check(first, rule, "ParseHeaders/first-value-of-a-repeated-header", f.Pos(), "a header that occurs several times is represented by its first value (the group/priority a request is counted under does not depend on a duplicate appended later)")
}

// hrDumpHeaders: the encoder writes every entry of the map it is given.
func hrDumpHeaders(w *World, r *Report, rule string) {
	f := w.Fn(pkgEngUtils, "DumpHeaders")
	if f == nil {
		r.Undec(rule, "DumpHeaders", token.NoPos, "function not found")
		return
	}
	ms := CallsIn(f, false, "lo.MapToSlice")
	ok := len(ms) == 1 && Path(ms[0].Common().Args[0]) == "param:headers"
	filt := CallsIn(f, false, "lo.OmitBy", "lo.OmitByValues", "lo.OmitByKeys", "lo.PickBy", "lo.PickByKeys", "lo.PickByValues", "lo.Filter")
	r.Check(ok && len(filt) == 0, rule, "DumpHeaders/every-entry-is-encoded", f.Pos(), "DumpHeaders encodes the whole map it was given (no entry is filtered out: an edit that sets a header to the empty string is still an edit)")
}

// hrExtractKeyValuePair: parts[1] is read only when there are exactly two parts.
func hrExtractKeyValuePair(w *World, r *Report, rule string) {
	f := w.Fn(pkgProcUtils, "ExtractKeyValuePair")
	if f == nil {
		r.Undec(rule, "ExtractKeyValuePair", token.NoPos, "function not found")
		return
	}
	n, ok := 0, true
	Instrs(f, func(in ssa.Instruction) {
		ia, isIA := in.(*ssa.IndexAddr)
		if !isIA {
			return
		}
		k, isK := constInt(ia.Index)
		if !isK {
			return
		}
		if _, isSl := ia.X.Type().Underlying().(*types.Slice); !isSl {
			return
		}
		n++
		guarded := false
		for _, rel := range Rels(ia.Block()) {
			for _, side := range [][2]ssa.Value{{rel.L, rel.R}, {rel.R, rel.L}} {
				c, isC := peel(side[0]).(*ssa.Call)
				if !isC || !isCallTo(c, "builtin.len") || c.Call.Args[0] != ia.X {
					continue
				}
				m, isM := constInt(side[1])
				op := rel.Op
				if side[0] == rel.R {
					op = flipOp(op)
				}
				if isM && (op == "==" && m > k || op == ">" && m >= k || op == ">=" && m > k) {
					guarded = true
				}
			}
		}
		if !guarded {
			ok = false
		}
	})
	r.Check(ok && n >= 2, rule, "ExtractKeyValuePair/indexes-within-the-checked-length", f.Pos(), "parts[k] is read only where len(parts) was compared so that k is in range (%d reads): a parameter without '=' must not panic the loader", n)
}

// hrLastError: Error() is called on the error that was just tested for nil.
func hrLastError(w *World, r *Report, rule string) {
	f := w.Fn(pkgEngUtils, "LastErrorWithUnwrappedDepth")
	if f == nil {
		r.Undec(rule, "LastErrorWithUnwrappedDepth", token.NoPos, "function not found")
		return
	}
	n, ok := 0, true
	Instrs(f, func(in ssa.Instruction) {
		c, isC := in.(*ssa.Call)
		if !isC || !c.Call.IsInvoke() || c.Call.Method.Name() != "Error" {
			return
		}
		n++
		recv := c.Call.Value
		op, _ := FindRel(Rels(c.Block()), func(v ssa.Value) bool { return v == recv }, isNilConst)
		if op != "!=" {
			ok = false
		}
	})
	r.Check(ok && n >= 1, rule, "LastErrorWithUnwrappedDepth/error-text-of-a-non-nil-error", f.Pos(), "err.Error() is called only on the value that was just compared != nil (an unwrapped error may be nil: the panic would escape the handler before Restore)")
}

// hrGetCountFromContext: the counter that is read is the one the caller asked for.
func hrGetCountFromContext(w *World, r *Report, rule string) {
	f := w.Fn(pkgQuota, "quota.getCountFromContext")
	if f == nil {
		r.Undec(rule, "quota.getCountFromContext", token.NoPos, "function not found")
		return
	}
	cs := CallsIn(f, false, "SharedStateI).GetQuotaCounter", "ContextI).GetQuotaCounter")
	ok := len(cs) == 1
	if ok {
		a := margs(cs[0])
		ok = len(a) >= 1 && Path(a[0]) == "param:counterKey"
	}
	r.Check(ok, rule, "getCountFromContext/reads-the-key-it-was-given", f.Pos(), "getCountFromContext(counterKey) reads counterKey (the spill-over budget is not the window counter)")
}

// hrGetQuotaByID: what ResourceManagement.GetQuota returns is looked up by quotaID.
func hrGetQuotaByID(w *World, r *Report, rule string) {
	f := w.Fn("lunar/engine/streams/resources", "ResourceManagement.GetQuota")
	if f == nil {
		r.Undec(rule, "ResourceManagement.GetQuota", token.NoPos, "function not found")
		return
	}
	ok, n := true, 0
	for _, alt := range ReturnAlts(f, 0) {
		if isNilConst(alt.Val) {
			continue
		}
		n++
		byID := Derives(alt.Val, func(x ssa.Value) bool {
			c, isC := x.(*ssa.Call)
			if !isC {
				return false
			}
			for _, a := range c.Call.Args {
				if Path(a) == "param:quotaID" {
					return true
				}
			}
			return false
		})
		byReq := Derives(alt.Val, func(x ssa.Value) bool {
			c, isC := x.(*ssa.Call)
			return isC && strings.Contains(Path(c), "reqIDToQuota") && !strings.Contains(Path(c), "param:quotaID")
		})
		if !byID || byReq {
			ok = false
		}
	}
	r.Check(ok && n >= 1, rule, "ResourceManagement.GetQuota/result-is-the-quota-of-that-id", f.Pos(), "every quota GetQuota(quotaID, reqID) returns was looked up with quotaID (the request-to-quota record is only written here, never answered from)")
}

// hrIncUsesTransactionID: the Inc processor registers the request under its
// transaction id, the id the drop/error hooks look it up with.
func hrIncUsesTransactionID(w *World, r *Report, rule string) {
	f := w.Fn("lunar/engine/streams/processors/quota-processor-inc", "quotaProcessorInc.Execute")
	if f == nil {
		r.Undec(rule, "quotaProcessorInc.Execute", token.NoPos, "function not found")
		return
	}
	cs := CallsIn(f, false, "ResourceManagementI).GetQuota", "ResourceManagement).GetQuota")
	ok := len(cs) == 1
	if ok {
		a := margs(cs[0])
		ok = len(a) == 2 && strings.Contains(Path(a[1]), "APIStreamI).GetID(") && strings.HasSuffix(Path(a[0]), ".quotaID")
	}
	r.Check(ok, rule, "quotaProcessorInc.Execute/registers-under-the-transaction-id", f.Pos(), "the Inc processor asks for GetQuota(p.quotaID, apiStream.GetID()) - the id OnRequestDrop/OnError release with")
}

// hrMeasureReturnsError: the wrapper every processor runs through hands the processor's error back.
func hrMeasureReturnsError(w *World, r *Report, rule string) {
	f := w.Fn(pkgStreams, "processorMetricsData.measureProcExecutionTime")
	if f == nil {
		r.Undec(rule, "measureProcExecutionTime", token.NoPos, "function not found")
		return
	}
	var dyn []ssa.CallInstruction
	Instrs(f, func(in ssa.Instruction) {
		if c, ok := in.(*ssa.Call); ok && !c.Call.IsInvoke() && c.Call.StaticCallee() == nil {
			if _, isB := c.Call.Value.(*ssa.Builtin); !isB && Path(c.Call.Value) == "param:fn" {
				dyn = append(dyn, c)
			}
		}
	})
	ok := len(dyn) == 1 && errReturned(f, dyn[0])
	if ok {
		// ... and the result next to a nil error is the processor's result
		for _, alt := range ReturnAlts(f, 0) {
			if !Derives(alt.Val, func(x ssa.Value) bool { return x == dyn[0].Value() }) {
				ok = false
			}
		}
	}
	r.Check(ok, rule, "measureProcExecutionTime/returns-what-the-processor-returned", f.Pos(), "the timing wrapper returns the processor's own result and error (a failing processor must stop the walk)")
}

// hrStoreFileTruncates: a file written over an existing one does not keep its old tail.
func hrStoreFileTruncates(w *World, r *Report, rule string) {
	f := w.Fn(pkgConfig, "FileSystemOperation.storeFileOnDisk")
	if f == nil {
		r.Undec(rule, "storeFileOnDisk", token.NoPos, "function not found")
		return
	}
	ok := len(CallsIn(f, false, "os.Create")) == 1 || len(CallsIn(f, false, "os.WriteFile")) == 1
	for _, c := range CallsIn(f, false, "os.OpenFile") {
		if k, isK := constInt(c.Common().Args[1]); isK && k&0x200 != 0 { // os.O_TRUNC on linux
			ok = true
		}
	}
	r.Check(ok, rule, "storeFileOnDisk/replaces-the-whole-file", f.Pos(), "the file is created/truncated before the content is written (Restore writing a shorter backed-up file over a longer rejected one leaves no tail)")
}

// hrNoDedupBeforeUniqueness: the names handed to the duplicate-name validation are not de-duplicated first.
func hrNoDedupBeforeUniqueness(w *World, r *Report, rule string) {
	f := w.Fn(pkgConfig, "extractAllPolicyNames")
	if f == nil {
		r.Undec(rule, "extractAllPolicyNames", token.NoPos, "function not found")
		return
	}
	var dd []ssa.CallInstruction
	for _, af := range Anons(f) {
		dd = append(dd, CallsIn(af, false, "lo.Uniq", "lo.UniqBy", "slices.Compact", "slices.CompactFunc")...)
	}
	maps := len(CallsIn(f, false, "lo.Map"))
	r.Check(len(dd) == 0 && maps >= 4, rule, "extractAllPolicyNames/all-names-with-their-repetitions", f.Pos(), "the list checked for duplicate policy names contains every name as often as it is declared (%d collections, %d de-duplications): two same-named throttling remedies would share one counter", maps, len(dd))
}

// hrConstructorAlignsWindow: a new delayed queue takes its first window end from the aligned grid.
func hrConstructorAlignsWindow(w *World, r *Report, rule string) {
	f := w.Fn(pkgQueue, "NewInMemoryDelayedPriorityQueue")
	if f == nil {
		r.Undec(rule, "NewInMemoryDelayedPriorityQueue", token.NoPos, "function not found")
		return
	}
	ens := CallsIn(f, false, "DelayedPriorityQueue).ensureWindowIsUpdated")
	var gos []ssa.Instruction
	Instrs(f, func(in ssa.Instruction) {
		if g, ok := in.(*ssa.Go); ok && isCallTo(g, "DelayedPriorityQueue).process") {
			gos = append(gos, g)
		}
	})
	ok := len(ens) == 1 && len(gos) == 1 && domInstr(ens[0], gos[0]) && len(fieldStores(f, "currentWindowEndTime")) == 0
	r.Check(ok, rule, "constructor/first-window-on-the-aligned-grid", f.Pos(), "the constructor calls ensureWindowIsUpdated() before it starts the rollover goroutine and does not set currentWindowEndTime itself (the first rollover fires at the aligned boundary)")
}

// hrFilterResultGetters: each getter of the selection result returns the list and the validity flag of its own slot.
func hrFilterResultGetters(w *World, r *Report, rule string) {
	for getter, slot := range map[string]string{"GetUserFlow": "UserFlow", "GetSystemFlowStart": "SystemFlowStart", "GetSystemFlowEnd": "SystemFlowEnd"} {
		f := w.Fn(pkgFilter, "FilterResult."+getter)
		if f == nil {
			r.Undec(rule, "FilterResult."+getter, token.NoPos, "function not found")
			continue
		}
		ok := true
		for i, fld := range []string{"Flow", "FlowValid"} {
			for _, alt := range ReturnAlts(f, i) {
				if !strings.HasSuffix(Path(alt.Val), "."+slot+"."+fld) {
					ok = false
				}
			}
		}
		r.Check(ok, rule, "FilterResult."+getter+"/own-slot", f.Pos(), "%s returns %s.Flow and %s.FlowValid (a slot's flows are valid by its own flag)", getter, slot, slot)
	}
}

// hrQueuePriority: the priority of a waiting request is the configured number of
// its group, found by the header value exactly as sent; the fall-back is used
// only when the header or the group is absent (0 is a legitimate, best priority).
func hrQueuePriority(w *World, r *Report, rule string) {
	if f := w.Fn(pkgQProc, "queueProcessor.extractPriority"); f == nil {
		r.Undec(rule, "queueProcessor.extractPriority", token.NoPos, "function not found")
	} else {
		ok, n := true, 0
		for _, alt := range ReturnAlts(f, 0) {
			k, isK := peel(alt.Val).(*ssa.Const)
			if !isK || k.Value == nil || k.Value.ExactString() == "0" {
				continue // the group's own priority, or 0 when no grouping is configured
			}
			n++
			// the non-zero constant fall-back: on the not-found edge of a comma-ok lookup, nothing else
			for _, cd := range alt.Conds {
				e, isE := cd.V.(*ssa.Extract)
				_, isLk := ssa.Value(nil), false
				if isE {
					_, isLk = e.Tuple.(*ssa.Lookup)
				}
				if isE && isLk && e.Index == 1 {
					continue
				}
				if b, isB := cd.V.(*ssa.BinOp); isB && (Path(b.X) == "param:p.groupByHeader" || Path(b.Y) == "param:p.groupByHeader") {
					continue // whether grouping is configured at all
				}
				ok = false
			}
		}
		r.Check(ok && n >= 1, rule, "queueProcessor.extractPriority/fallback-only-when-absent", f.Pos(), "the default priority is returned only when the header or the group is not found (decided by the lookups' found flags, not by the value: priority 0 is a configured value)")
	}
	if f := w.Fn(pkgRemedies, "extractPriority"); f == nil {
		r.Undec(rule, "remedies.extractPriority", token.NoPos, "function not found")
	} else {
		ok, n := true, 0
		Instrs(f, func(in ssa.Instruction) {
			lk, isLk := in.(*ssa.Lookup)
			if !isLk || !strings.HasSuffix(Path(lk.X), ".Groups") {
				return
			}
			n++
			if Derives(lk.Index, func(x ssa.Value) bool {
				return isCallTo0(x, "strings.ToLower", "strings.ToUpper", "strings.TrimSpace", "strings.Title")
			}) || !Derives(lk.Index, func(x ssa.Value) bool {
				l, isL := x.(*ssa.Lookup)
				return isL && strings.HasSuffix(Path(l.X), ".Headers")
			}) {
				ok = false
			}
		})
		r.Check(ok && n == 1, rule, "remedies.extractPriority/group-looked-up-by-the-header-value-as-sent", f.Pos(), "Prioritization.Groups is indexed with the request's header value unmodified (the keys are the group names as written in the policy)")
	}
}

// hrWatchListCount: leaving the watch list gives back exactly one place.
func hrWatchListCount(w *World, r *Report, rule string) {
	f := w.Fn(pkgQProc, "RequestWatcher.RemoveFromWatchList")
	if f == nil {
		r.Undec(rule, "RemoveFromWatchList", token.NoPos, "function not found")
		return
	}
	adds := CallsIn(f, false, "atomic.Int64).Add")
	stores := CallsIn(f, false, "atomic.Int64).Store")
	ok := len(adds) == 1 && len(stores) == 0
	if ok {
		a := margs(adds[0])
		k, isK := constInt(a[len(a)-1])
		ok = isK && k == -1 && strings.HasSuffix(Path(adds[0].Common().Args[0]), ".requestCount")
	}
	r.Check(ok, rule, "RemoveFromWatchList/gives-back-one-place", f.Pos(), "requestCount.Add(-1), and no other write of the counter (a recount from the map would wipe out the Add(1) of an arrival that has not reached the map yet)")
}

// hrDiscoveryRunOrder: the failed transactions of a batch are reported before
// anything that can make Run return early.
func hrDiscoveryRunOrder(w *World, r *Report, rule string) {
	f := w.Fn(pkgDisc, "Run")
	if f == nil {
		r.Undec(rule, "discovery.Run", token.NoPos, "function not found")
		return
	}
	nt := CallsIn(f, false, "discovery.notifyErrorRecord")
	ag := CallsIn(f, false, "discovery.GetUpdatedAggregations")
	ok := len(nt) == 1 && len(ag) == 1 && domInstr(nt[0], ag[0])
	if ok {
		// no failing exit before the report
		for _, alt := range ReturnAlts(f, 0) {
			if !isNilConst(alt.Val) && !domInstr(nt[0], alt.Ret) {
				ok = false
			}
		}
	}
	r.Check(ok, rule, "discovery.Run/failed-transactions-reported-first", f.Pos(), "notifyErrorRecord runs before the aggregation and before every failing exit of Run (a batch whose aggregation fails still releases the slots of its failed transactions)")
}

// hrEarlyResponseNotRewritten: the synthetic response of an early response is
// not overwritten from the action of the response-side remedies before it is looked at.
func hrEarlyResponseNotRewritten(w *World, r *Report, rule string) {
	f := w.Fn("lunar/engine/runner", "obtainModifiedEarlyResponse")
	if f == nil {
		r.Undec(rule, "obtainModifiedEarlyResponse", token.NoPos, "function not found")
		return
	}
	n := len(CallsIn(f, false, "RespLunarAction).EnsureResponseIsUpdated"))
	r.Check(n == 0, rule, "obtainModifiedEarlyResponse/synthetic-response-not-rewritten", f.Pos(), "the response built from the early-response action is read as the remedies left it (%d EnsureResponseIsUpdated calls): an action that carries no status/body must not blank the configured rejection", n)
}

// ---- second half of the seventh wave ----

// hrRetryAfterHelpers: the stored Retry-After is read under exactly the
// configured header name (the replay rewrites exactly that name), and a remedy
// without a retry_after_type stores nothing.
func hrRetryAfterHelpers(w *World, r *Report, rule string) {
	if f := w.Fn(pkgRemedies, "readRetryAfter"); f == nil {
		r.Undec(rule, "readRetryAfter", token.NoPos, "function not found")
	} else {
		n, ok := 0, true
		Instrs(f, func(in ssa.Instruction) {
			lk, isLk := in.(*ssa.Lookup)
			if !isLk || Path(lk.X) != "param:headers" {
				return
			}
			n++
			if !strings.HasSuffix(Path(lk.Index), ".RetryAfterHeader") {
				ok = false
			}
		})
		r.Check(ok && n == 1, rule, "readRetryAfter/exact-configured-header", f.Pos(), "the retry-after value is read from headers[remedyConfig.RetryAfterHeader] and nowhere else (%d lookups): the replay rewrites exactly that name", n)
	}
	if f := w.Fn(pkgRemedies, "normalizeRetryAfter"); f == nil {
		r.Undec(rule, "normalizeRetryAfter", token.NoPos, "function not found")
	} else {
		undef := w.constOf("lunar/shared-model/config", "RetryAfterUndefined")
		ok, n := true, 0
		for _, alt := range ReturnAlts(f, 1) {
			if !isNilConst(alt.Val) {
				continue
			}
			n++
			// a nil error is returned only where the type was found equal to a defined type
			defined := false
			for _, rel := range relsOfConds(alt.Conds) {
				if rel.Op == "==" && Path(rel.L) == "param:retryAfterType" {
					if k, isK := peel(rel.R).(*ssa.Const); isK && !isConstVal(k, undef) {
						defined = true
					}
				}
			}
			if !defined {
				ok = false
			}
		}
		r.Check(ok && n == 2, rule, "normalizeRetryAfter/only-defined-types-convert", f.Pos(), "a value is converted (nil error) only for the two defined retry-after types; an undefined type is an error, so nothing is stored that the replay would not know how to reduce (%d converting exits)", n)
	}
}

// hrTimestampUTC: persisted timestamps are rendered in UTC (they are parsed back as UTC).
func hrTimestampUTC(w *World, r *Report, rule string) {
	f := w.Fn("lunar/shared-model/actions", "TimestampToStringFromInt64")
	if f == nil {
		r.Undec(rule, "TimestampToStringFromInt64", token.NoPos, "function not found")
		return
	}
	ok := true
	for _, alt := range ReturnAlts(f, 0) {
		c, isC := peel(alt.Val).(*ssa.Call)
		if !isC || !isCallTo(c, "time.Time).Format") || !Derives(c.Call.Args[0], func(x ssa.Value) bool { return isCallTo0(x, "time.Time).UTC") }) {
			ok = false
		}
	}
	r.Check(ok, rule, "TimestampToStringFromInt64/formats-the-UTC-time", f.Pos(), "the persisted text is Format of the time converted with UTC() (a state-file round trip must not shift min/max times by the zone offset)")
}

// hrNormalizeTreeInsertsAll: every URL of the batch is inserted (the insert is what reports convergence).
func hrNormalizeTreeInsertsAll(w *World, r *Report, rule string) {
	f := w.Fn("lunar/aggregation-plugin/common", "NormalizeTree")
	if f == nil {
		r.Undec(rule, "NormalizeTree", token.NoPos, "function not found")
		return
	}
	ins := CallsIn(f, false, "SimpleURLTreeI).InsertWithConvergenceIndication", "URLTreeI).InsertWithConvergenceIndication")
	ok := len(ins) == 1
	if ok {
		for _, cd := range CondsOf(ins[0].Block()) {
			if s := condSig(cd); s != "" {
				ok = false
			}
		}
		for _, h := range loopHeadersOf(f) {
			if len(loopBreaks(h)) > 0 {
				ok = false
			}
		}
	}
	r.Check(ok, rule, "NormalizeTree/every-url-is-inserted", f.Pos(), "InsertWithConvergenceIndication runs for every URL of the batch, unconditionally (a URL that already matches a wildcard still has to be inserted: the insert is what reports convergence)")
}

// hrYAMLTagsMatchFields: the yaml key of every field of the struct is the snake-case of the field name.
func hrYAMLTagsMatchFields(w *World, r *Report, rule, pkg, typ string) {
	p := w.ByPath[pkg]
	if p == nil || p.Types == nil {
		r.Undec(rule, typ, token.NoPos, "package %s not loaded", pkg)
		return
	}
	o := p.Types.Scope().Lookup(typ)
	if o == nil {
		r.Undec(rule, typ, token.NoPos, "type not found")
		return
	}
	st, isSt := o.Type().Underlying().(*types.Struct)
	if !isSt {
		r.Undec(rule, typ, o.Pos(), "not a struct")
		return
	}
	snake := func(s string) string {
		var b strings.Builder
		for i, c := range s {
			if c >= 'A' && c <= 'Z' {
				if i > 0 {
					b.WriteByte('_')
				}
				b.WriteRune(c + 32)
			} else {
				b.WriteRune(c)
			}
		}
		return b.String()
	}
	var bad []string
	for i := 0; i < st.NumFields(); i++ {
		tag := st.Tag(i)
		k := ""
		if j := strings.Index(tag, `yaml:"`); j >= 0 {
			k = tag[j+6:]
			if e := strings.IndexAny(k, `",`); e >= 0 {
				k = k[:e]
			}
		}
		if k != snake(st.Field(i).Name()) {
			bad = append(bad, st.Field(i).Name()+"<-"+k)
		}
	}
	r.Check(len(bad) == 0 && st.NumFields() > 0, rule, typ+"/yaml-keys-name-their-own-fields", o.Pos(), "every field of %s is read from the yaml key that spells its own name (%d fields; mismatches %v)", typ, st.NumFields(), bad)
}

// hrGetKeysAll / hrObfuscateWrappers: the walker sees every member; the per-side wrappers return what obfuscateBody returns.
func hrObfuscationHelpers(w *World, r *Report, rule string) {
	if f := w.Fn("lunar/engine/utils/obfuscation", "getKeys"); f == nil {
		r.Undec(rule, "getKeys", token.NoPos, "function not found")
	} else {
		ok, n := true, 0
		for _, af := range Anons(f)[1:] {
			Instrs(af, func(in ssa.Instruction) {
				if c, isC := in.(*ssa.Call); isC {
					if b, isB := c.Call.Value.(*ssa.Builtin); isB && b.Name() == "append" {
						n++
						if len(CondsOf(c.Block())) != 0 {
							ok = false
						}
					}
				}
			})
		}
		r.Check(ok && n == 1, rule, "getKeys/every-member-listed", f.Pos(), "the key collector appends every member name unconditionally (a member that is skipped vanishes, with its subtree, from the obfuscated copy)")
	}
	for _, m := range []string{"ObfuscateRequestBody", "ObfuscateResponseBody"} {
		f := w.Fn("lunar/engine/streams/processors/har-collector", "apiStreamObfuscator."+m)
		if f == nil {
			r.Undec(rule, m, token.NoPos, "function not found")
			continue
		}
		ok, n := true, 0
		for _, alt := range ReturnAlts(f, 0) {
			n++
			if !isCallTo0(alt.Val, "apiStreamObfuscator).obfuscateBody") {
				ok = false
			}
		}
		r.Check(ok && n == 1, rule, m+"/returns-the-obfuscated-body", f.Pos(), "%s returns obfuscateBody(body, ...) on its only exit (no shortcut hands the body back as it came)", m)
	}
}

// hrRetryCounterStore: where the retry counter of a flow lives - the flow's own
// context, under the processor's own key, in the context set for this stream.
func hrRetryCounterStore(w *World, r *Report, rule string) {
	if f := w.Fn(pkgLctx, "ContextManager.WithFlowContext"); f == nil {
		r.Undec(rule, "WithFlowContext", token.NoPos, "function not found")
	} else {
		cs := CallsIn(f, false, "LunarAdminContextI).SetFlowContext")
		ok := len(cs) == 1
		if ok {
			a := margs(cs[0])
			c, isC := peel(a[len(a)-1]).(*ssa.Call)
			ok = isC && isCallTo(c, "lunar-context.NewContext")
		}
		r.Check(ok, rule, "WithFlowContext/fresh-context-per-flow", f.Pos(), "every flow gets its own NewContext() as flow context (two flows with a Retry processor under the same key do not share a counter)")
	}
	if f := w.Fn(pkgRetry, "NewProcessor"); f == nil {
		r.Undec(rule, "retry.NewProcessor", token.NoPos, "function not found")
	} else {
		ok, n := true, 0
		for _, alt := range ReturnAlts(f, 0) {
			if isNilConst(alt.Val) {
				continue
			}
			n++
			nm := litField(alt.Val, "name")
			if nm == nil || Path(nm) != "param:metaData.Name" {
				ok = false
			}
		}
		r.Check(ok && n == 1, rule, "retry.NewProcessor/named-by-its-key", f.Pos(), "the processor's name (prefix of its counter key) is metaData.Name, the key of this processor in the flow, not the name of the processor type")
	}
	if f := w.Fn(pkgStreamTypes, "APIStream.SetContext"); f == nil {
		r.Undec(rule, "APIStream.SetContext", token.NoPos, "function not found")
	} else {
		st := fieldStores(f, "context")
		ok := len(st) == 1 && len(CondsOf(st[0].Block())) == 0 && alwaysRuns(st[0]) && st[0].Val == ssa.Value(f.Params[1])
		r.Check(ok, rule, "APIStream.SetContext/always-replaces", f.Pos(), "SetContext stores the given context unconditionally (each flow executed for a transaction works on its own context)")
	}
}

// hrFailsafeReactions: what the two reactions load.
func hrFailsafeReactions(w *World, r *Report, rule string) {
	for name, arg := range map[string]bool{"RevertToLastLoaded": false, "RevertToDiagnosisFree": true} {
		f := w.Fn(pkgConfig, "TxnPoliciesAccessor."+name)
		if f == nil {
			r.Undec(rule, name, token.NoPos, "function not found")
			continue
		}
		cs := CallsIn(f, false, "config.loadDataFromLoadedFile")
		ok := len(cs) == 1 && len(CallsIn(f, false, "config.loadDataFromFile")) == 0
		if ok {
			b, isB := constBool(cs[0].Common().Args[0])
			ok = isB && b == arg
		}
		r.Check(ok, rule, name+"/loads-the-persisted-snapshot", f.Pos(), "%s applies loadDataFromLoadedFile(%v) - the snapshot of what was last loaded, not the policies file on disk", name, arg)
	}
	if f := w.Fn(pkgConfig, "loadDataFromLoadedFile"); f == nil {
		r.Undec(rule, "loadDataFromLoadedFile", token.NoPos, "function not found")
	} else {
		n := len(CallsIn(f, false, "config.persistLoaded", "config.WritePoliciesConfig"))
		r.Check(n == 0, rule, "loadDataFromLoadedFile/does-not-rewrite-the-snapshot", f.Pos(), "reading the snapshot never writes it (%d writes): the 'unhealthy' reaction must not replace the last loaded policies by their diagnosis-free version", n)
	}
	if f := w.Fn(pkgConfig, "modifyIntoDiagnosisFreePoliciesConfig"); f == nil {
		r.Undec(rule, "modifyIntoDiagnosisFreePoliciesConfig", token.NoPos, "function not found")
	} else {
		// the endpoints that are kept are the ones whose Diagnosis was emptied: the value appended
		// (or the element stored) derives from the local whose Diagnosis field was overwritten
		ok := false
		for _, st := range fieldStores(f, "Diagnosis") {
			fa, isFA := st.Addr.(*ssa.FieldAddr)
			if !isFA {
				continue
			}
			if _, n := namedOf(fa.X.Type()); n != "EndpointConfig" {
				continue
			}
			base := fa.X
			Instrs(f, func(in ssa.Instruction) {
				c, isC := in.(*ssa.Call)
				if !isC {
					return
				}
				if b, isB := c.Call.Value.(*ssa.Builtin); isB && b.Name() == "append" && strings.Contains(c.Type().String(), "EndpointConfig") {
					if Derives(c.Call.Args[1], func(x ssa.Value) bool {
						u, isU := x.(*ssa.UnOp)
						return x == base || isU && u.Op == token.MUL && u.X == base
					}) && domInstr(st, c) {
						ok = true
					}
				}
			})
			// or the element is modified in place through its index
			if ia, isIA := base.(*ssa.IndexAddr); isIA && strings.HasSuffix(Path(ia.X), ".Endpoints") {
				ok = true
			}
		}
		r.Check(ok, rule, "modifyIntoDiagnosisFreePoliciesConfig/endpoint-diagnoses-emptied-in-what-is-kept", f.Pos(), "the endpoint whose Diagnosis is emptied is the one that goes into the result (emptying a loop copy that is then dropped leaves the endpoint diagnoses running)")
	}
}

// hrNormalisedPathSpelling: the normalised URL reported by a lookup spells a
// part as the request wrote it only where a literal child of that name was
// followed; a part matched by a parameter is spelled with the tree's own
// parameter name (aggregates are keyed by the normalised URL).
func hrNormalisedPathSpelling(w *World, r *Report, rule string) {
	f := w.Fn(pkgURLTree, "lookupNode")
	if f == nil {
		r.Undec(rule, "lookupNode", token.NoPos, "function not found")
		return
	}
	n, ok := 0, true
	Instrs(f, func(in ssa.Instruction) {
		b, isB := in.(*ssa.BinOp)
		if !isB || b.Op != token.ADD {
			return
		}
		if bt, isBasic := b.Type().Underlying().(*types.Basic); !isBasic || bt.Info()&types.IsString == 0 {
			return
		}
		if typedField(b.Y) != "urlPart.Value" && typedField(b.X) != "urlPart.Value" {
			return
		}
		n++
		lit := condsHave(CondsOf(b.Block()), true, func(v ssa.Value) bool {
			e, isE := v.(*ssa.Extract)
			if !isE || e.Index != 1 {
				return false
			}
			l, isL := e.Tuple.(*ssa.Lookup)
			return isL && strings.HasSuffix(Path(l.X), ".ConstantChildren")
		})
		if !lit {
			ok = false
		}
	})
	r.Check(ok && n >= 1, rule, "lookupNode/request-spelling-only-for-literal-parts", f.Pos(), "the request's own text of a part goes into the normalised path only under a found literal child (%d sites); a part matched by a parameter is written with the tree's parameter name", n)
}

// hrResponseNilGuard: while the flows are re-selected after an early response the
// stream is typed as a response although no response message exists; the filter
// qualifiers call a method on APIStream.GetResponse() only where that value was
// found present.
func hrResponseNilGuard(w *World, r *Report, rule string) {
	n := 0
	var bad []string
	for _, f := range w.lunarFns {
		if f.Origin() != nil || fnPkgPath(f) != pkgFilter {
			continue
		}
		Instrs(f, func(in ssa.Instruction) {
			c, ok := in.(*ssa.Call)
			if !ok || !c.Call.IsInvoke() {
				return
			}
			recv, isC := peel(c.Call.Value).(*ssa.Call)
			if !isC || !isCallTo(recv, "APIStreamI).GetResponse") {
				return
			}
			n++
			guarded := false
			for _, cd := range CondsOf(c.Block()) {
				if g, isG := peel(cd.V).(*ssa.Call); isG && !cd.Pol && isCallTo(g, "utils.IsInterfaceNil") && len(g.Call.Args) == 1 && peel(g.Call.Args[0]) == ssa.Value(recv) {
					guarded = true
				}
			}
			if op, _ := FindRel(Rels(c.Block()), func(v ssa.Value) bool { return peel(v) == ssa.Value(recv) }, isNilConst); op == "!=" {
				guarded = true
			}
			if !guarded {
				bad = append(bad, w.Pos(posOf(c))+" "+c.Call.Method.Name())
			}
		})
	}
	if n == 0 {
		r.Undec(rule, "filter/response-used-only-when-present", token.NoPos, "no use of APIStream.GetResponse() found in the filter package")
		return
	}
	r.Check(len(bad) == 0, rule, "filter/response-used-only-when-present", token.NoPos, "the flow qualifiers call a method on APIStream.GetResponse() only where it was found non-nil (%d uses; unguarded: %v): the selection for an early response runs without a response message", n, bad)
}

// ---- eighth wave, first half ----

// hrQuotaTrie: the recursive lookup hands back the node the recursion found, and a
// strategy reports its own configuration.
func hrQuotaTrie(w *World, r *Report, rule string) {
	if f := w.Fn("lunar/engine/streams/resources/utils", "QuotaNode.GetNode"); f == nil {
		r.Undec(rule, "QuotaNode.GetNode", token.NoPos, "function not found")
	} else {
		ok, n := true, 0
		for _, alt := range ReturnAlts(f, 0) {
			if isNilConst(alt.Val) {
				continue
			}
			n++
			p := Path(alt.Val)
			// the receiver itself (id matches) or result #0 of the recursive call
			rec := false
			if e, isE := alt.Val.(*ssa.Extract); isE && e.Index == 0 {
				if c, isC := e.Tuple.(*ssa.Call); isC && c.Call.StaticCallee() != nil && origin(c.Call.StaticCallee()) == origin(f) {
					rec = true
				}
			}
			if !(rec || p == "param:"+canonParam(f.Params[0])) {
				ok = false
			}
		}
		r.Check(ok && n == 2, rule, "QuotaNode.GetNode/returns-the-node-that-was-found", f.Pos(), "GetNode returns the receiver when the id matches and otherwise the node found by the recursive call (not the child it descended into): a limit at depth 2 must not resolve to its ancestor")
	}
	if f := w.Fn(pkgQuota, "fixedWindow.GetStrategyConfig"); f == nil {
		r.Undec(rule, "fixedWindow.GetStrategyConfig", token.NoPos, "function not found")
	} else {
		ok, n := true, 0
		for _, alt := range ReturnAlts(f, 0) {
			n++
			if !strings.HasSuffix(Path(alt.Val), "fw.strategyConfig") || len(alt.Conds) != 0 {
				ok = false
			}
		}
		r.Check(ok && n == 1, rule, "fixedWindow.GetStrategyConfig/own-configuration", f.Pos(), "GetStrategyConfig returns the strategy's own configuration (a percentage allocation is taken from the direct parent, not from the root)")
	}
}

// hrLimiterRegisters: the limiter asks for the quota under the transaction id (that records the
// request-to-quota association the error hook releases with).
func hrLimiterRegisters(w *World, r *Report, rule string) {
	f := w.Fn("lunar/engine/streams/processors/limiter", "limiterProcessor.Execute")
	if f == nil {
		r.Undec(rule, "limiterProcessor.Execute", token.NoPos, "function not found")
		return
	}
	cs := CallsIn(f, false, "ResourceManagementI).GetQuota", "ResourceManagement).GetQuota")
	ok := len(cs) == 1
	if ok {
		a := margs(cs[0])
		ok = len(a) == 2 && strings.Contains(Path(a[1]), "APIStreamI).GetID(") && strings.HasSuffix(Path(a[0]), ".quotaID")
	}
	r.Check(ok, rule, "limiterProcessor.Execute/registers-under-the-transaction-id", f.Pos(), "the limiter asks for GetQuota(p.quotaID, apiStream.GetID())")
}

// hrHeaderValueMatch: header values are compared case-insensitively, names through GetHeader.
func hrHeaderValueMatch(w *World, r *Report, rule string) {
	f := w.Fn(pkgStreamTypes, "OnRequest.DoesHeaderValueMatch")
	if f == nil {
		r.Undec(rule, "DoesHeaderValueMatch", token.NoPos, "function not found")
		return
	}
	ok, n := true, 0
	for _, alt := range ReturnAlts(f, 0) {
		if b, isC := constBool(alt.Val); isC && !b {
			continue
		}
		n++
		if !isCallTo0(alt.Val, "strings.EqualFold") {
			ok = false
		}
	}
	r.Check(ok && n == 1, rule, "DoesHeaderValueMatch/case-insensitive-value", f.Pos(), "a found header matches by strings.EqualFold(existing, wanted)")
}

// hrSplitURLKeepsEmptyParts: the tokenizer does not drop empty segments (validateURL rejects
// them for patterns; a request with an empty segment must not match the pattern without it).
func hrSplitURLKeepsEmptyParts(w *World, r *Report, rule string) {
	f := w.Fn(pkgURLTree, "splitURL")
	if f == nil {
		r.Undec(rule, "splitURL", token.NoPos, "function not found")
		return
	}
	var bad []string
	Instrs(f, func(in ssa.Instruction) {
		if i, ok := in.(*ssa.If); ok {
			if rel, isRel := NormCond(Cond{V: i.Cond, Pol: true}); isRel && (rel.Op == "==" || rel.Op == "!=") {
				for _, side := range []ssa.Value{rel.L, rel.R} {
					if s, isS := constString(side); isS && s == "" {
						bad = append(bad, w.Pos(posOf(i)))
					}
				}
			}
		}
	})
	for _, c := range CallsIn(f, true, "strings.Fields", "strings.FieldsFunc") {
		bad = append(bad, "strings.Fields* drops empty fields at "+w.Pos(posOf(c)))
	}
	r.Check(len(bad) == 0, rule, "splitURL/no-part-is-dropped", f.Pos(), "splitURL has no test for an empty part and no splitter that discards empty parts (none is skipped): %v", bad)
}

// hrFlowGraphNodeEqual: nodes are identified by their processor key.
func hrFlowGraphNodeEqual(w *World, r *Report, rule string) {
	f := w.Fn(pkgFlow, "FlowGraphNode.equal")
	if f == nil {
		r.Undec(rule, "FlowGraphNode.equal", token.NoPos, "function not found")
		return
	}
	ok, n := true, 0
	for _, alt := range ReturnAlts(f, 0) {
		n++
		rel, isRel := NormCond(Cond{V: alt.Val, Pol: true})
		if !isRel || rel.Op != "==" || typedField(rel.L) != "FlowGraphNode.processorKey" || typedField(rel.R) != "FlowGraphNode.processorKey" {
			ok = false
		}
	}
	r.Check(ok && n == 1, rule, "FlowGraphNode.equal/by-processor-key", f.Pos(), "two nodes are equal exactly when their processor keys are equal (the key, not the name of the wrapped processor: `Other.audit` and `audit` are different nodes)")
}

// hrSystemFlows: the generated start and end flows of a resource have different names and both are attached.
func hrSystemFlows(w *World, r *Report, rule string) {
	if f := w.Fn("lunar/engine/streams/resources/utils", "SystemFlowRepresentation.GetFlowTemplate"); f == nil {
		r.Undec(rule, "GetFlowTemplate", token.NoPos, "function not found")
	} else {
		ok := false
		for _, alt := range ReturnAlts(f, 0) {
			nm := litField(peel(alt.Val), "Name")
			if nm == nil {
				if a, isA := peel(alt.Val).(*ssa.Alloc); isA {
					nm = litField(a, "Name")
				}
			}
			if nm != nil && Derives(nm, func(x ssa.Value) bool {
				return isCallTo0(x, "FlowType).String") && strings.Contains(Path(x), "param:locationType")
			}) {
				ok = true
			}
		}
		r.Check(ok, rule, "GetFlowTemplate/name-carries-the-location", f.Pos(), "the name of a generated system flow contains locationType.String() (the start and the end flow of one resource are filed by name and must not overwrite each other)")
	}
	if f := w.Fn(pkgStreams, "Stream.attachSystemFlows"); f == nil {
		r.Undec(rule, "attachSystemFlows", token.NoPos, "function not found")
	} else {
		var ups []*ssa.MapUpdate
		Instrs(f, func(in ssa.Instruction) {
			if mu, ok := in.(*ssa.MapUpdate); ok && Path(mu.Map) == "param:flowReps" {
				ups = append(ups, mu)
			}
		})
		ok := len(ups) == 2
		if ok {
			// each is conditioned on its own flow only
			for _, mu := range ups {
				n := 0
				for _, cd := range CondsOf(mu.Block()) {
					if condSig(cd) == "" {
						continue
					}
					n++
				}
				if n != 1 {
					ok = false
				}
			}
		}
		r.Check(ok, rule, "attachSystemFlows/start-and-end-attached-independently", f.Pos(), "the start flow and the end flow of a resource are each stored under their own non-nil test only (a resource with both keeps both)")
	}
}

// hrAPIStreamAccessors: the accessors that fall back to the request read the response only when there is one.
func hrAPIStreamAccessors(w *World, r *Report, rule string) {
	n := 0
	var bad []string
	for _, name := range []string{"GetMethod", "GetHeaders", "GetBody", "GetURL", "GetHeader", "GetSize", "GetStrStatus"} {
		f := w.Fn(pkgStreamTypes, "APIStream."+name)
		if f == nil {
			continue
		}
		Instrs(f, func(in ssa.Instruction) {
			c, ok := in.(*ssa.Call)
			if !ok || !c.Call.IsInvoke() || typedField(c.Call.Value) != "APIStream.Response" {
				return
			}
			n++
			op, _ := FindRel(Rels(c.Block()), func(v ssa.Value) bool { return typedField(v) == "APIStream.Response" }, isNilConst)
			if op != "!=" {
				bad = append(bad, name)
			}
		})
	}
	r.Check(len(bad) == 0 && n >= 2, rule, "APIStream/response-read-only-when-present", token.NoPos, "the accessors of the API stream call into s.Response only under s.Response != nil (%d sites; unguarded in %v): after an early response the stream is typed as response without one", n, bad)
}

// hrEmptyDocument: a YAML document without content decodes to an empty object, never to nil.
func hrEmptyDocument(w *World, r *Report, rule string) {
	f := w.Fn("lunar/toolkit-core/configuration", "UnmarshalPolicyRawData")
	if f == nil {
		r.Undec(rule, "UnmarshalPolicyRawData", token.NoPos, "function not found")
		return
	}
	n, ok := 0, true
	for _, st := range fieldStores(f, "UnmarshaledData") {
		if isNilConst(st.Val) {
			continue
		}
		n++
		for _, cd := range CondsOf(st.Block()) {
			rel, isRel := NormCond(cd)
			if isRel && rel.Op == "==" && isNilConst(rel.R) && strings.HasSuffix(Path(rel.L), "UnmarshaledData") {
				continue
			}
			if isRel && rel.Op == "==" && isNilConst(rel.R) && strings.Contains(Path(rel.L), ".Unmarshal(") {
				continue // decoding succeeded
			}
			ok = false
		}
	}
	r.Check(ok && n == 1, rule, "UnmarshalPolicyRawData/nil-result-always-replaced", f.Pos(), "whenever decoding leaves a nil object it is replaced by an empty one, under no further condition (a file that is all comments must be rejected by validation, not crash the loader)")
}

// hrParentWalk: the walk up the quota hierarchy asks for the parent it is at.
func hrParentWalk(w *World, r *Report, rule string) {
	f := w.Fn(pkgStreams, "Stream.addParentsQuotaReferences")
	if f == nil {
		r.Undec(rule, "addParentsQuotaReferences", token.NoPos, "function not found")
		return
	}
	ok, n := true, 0
	for _, c := range CallsIn(f, false, "ResourceManagement).GetQuota", "ResourceManagementI).GetQuota") {
		if len(loopHeadersOf(f)) == 0 {
			ok = false
		}
		inLoop := false
		for _, h := range loopHeadersOf(f) {
			if loopHas(h, c.Block()) {
				inLoop = true
			}
		}
		if !inLoop {
			continue
		}
		n++
		a := margs(c)
		if _, isPhi := a[0].(*ssa.Phi); !isPhi || !strings.Contains(Path(a[0]), "GetParentID(") {
			ok = false
		}
	}
	// the id recorded as "has a parent reference" is the id the walk is at (not the next one)
	var asked ssa.Value
	for _, c := range CallsIn(f, false, "ResourceManagement).GetQuota", "ResourceManagementI).GetQuota") {
		for _, h := range loopHeadersOf(f) {
			if loopHas(h, c.Block()) {
				asked = margs(c)[0]
			}
		}
	}
	nRec, okRec := 0, true
	Instrs(f, func(in ssa.Instruction) {
		mu, isMU := in.(*ssa.MapUpdate)
		if !isMU || Path(mu.Map) != "param:result" {
			return
		}
		for _, h := range loopHeadersOf(f) {
			if loopHas(h, mu.Block()) {
				nRec++
				if asked == nil || mu.Key != asked {
					okRec = false
				}
			}
		}
	})
	r.Check(okRec && nRec == 1, rule, "addParentsQuotaReferences/records-the-parent-it-is-at", f.Pos(), "the id stored in the result is the same value GetQuota is asked for in that iteration (the direct parent is recorded, the root's empty parent id is not)")
	r.Check(ok && n == 1, rule, "addParentsQuotaReferences/asks-for-the-parent-it-is-at", f.Pos(), "inside the loop GetQuota is called with the parent id that advances with the loop (asking for the starting quota again never terminates)")
}

// hrTimeoutAboveTTL: a queue whose TTL reaches the SPOE processing timeout is rejected (at equality too).
func hrTimeoutAboveTTL(w *World, r *Report, rule string) {
	for _, fn := range []struct{ pkg, name string }{{pkgQProc, "queueProcessor.validateProcessingTimeoutIsGreaterTheTTL"}, {pkgConfig, "validateProcessingTimeoutIsGreaterTheTTL"}} {
		f := w.Fn(fn.pkg, fn.name)
		if f == nil {
			r.Undec(rule, fn.name, token.NoPos, "function not found")
			continue
		}
		ok, n := true, 0
		for _, alt := range ReturnAlts(f, 0) {
			if isNilConst(alt.Val) {
				continue
			}
			n++
			found := false
			for _, rel := range relsOfConds(alt.Conds) {
				l, rr := Path(rel.L), Path(rel.R)
				isTO := func(p string) bool {
					return strings.Contains(p, "GetSpoeProcessingTimeout") || strings.Contains(p, "defaultProcessingTimeout") || strings.HasPrefix(p, "phi[")
				}
				isTTL := func(p string) bool { return strings.Contains(p, "queueTTL") }
				if isTO(l) && isTTL(rr) && rel.Op == "<=" || isTTL(l) && isTO(rr) && rel.Op == ">=" {
					found = true
				}
			}
			if !found {
				ok = false
			}
		}
		r.Check(ok && n == 1, rule, shortFn(fnID(f))+"/rejects-timeout-not-above-ttl", f.Pos(), "the error is returned under processingTimeout <= queueTTL (equality included: the verdict of a waiter that times out must arrive before HAProxy stops waiting)")
	}
}

// hrScoreIsPriority: the heap score is the configured priority, for every sign.
func hrScoreIsPriority(w *World, r *Report, rule string) {
	f := w.Fn(pkgLctx, "calculateScore")
	if f == nil {
		r.Undec(rule, "calculateScore", token.NoPos, "function not found")
		return
	}
	ok, n := true, 0
	for _, alt := range ReturnAlts(f, 0) {
		n++
		if alt.Val != ssa.Value(f.Params[0]) || len(alt.Conds) != 0 {
			ok = false
		}
	}
	r.Check(ok && n == 1, rule, "calculateScore/identity", f.Pos(), "the score of a waiter is its priority, unconditionally (negative priorities keep their order)")
}

// hrAddRequestCountsFirst: a request takes its place in the count before it becomes visible in the maps.
func hrAddRequestCountsFirst(w *World, r *Report, rule string) {
	f := w.Fn(pkgQProc, "RequestWatcher.AddRequest")
	if f == nil {
		r.Undec(rule, "RequestWatcher.AddRequest", token.NoPos, "function not found")
		return
	}
	adds := CallsIn(f, false, "atomic.Int64).Add")
	locks := CallsIn(f, false, "sync.RWMutex).Lock", "sync.Mutex).Lock")
	ok := len(adds) == 1 && len(locks) >= 1
	if ok {
		for _, l := range locks {
			if !domInstr(adds[0], l) {
				ok = false
			}
		}
	}
	r.Check(ok, rule, "AddRequest/counted-before-registered", f.Pos(), "requestCount.Add(1) precedes the map insertions (while a request is being registered it already occupies its slot in the queue-size check)")
}

// hrCollectedActionsOnlyGrow: the walk only appends to the collected request/response actions.
func hrCollectedActionsOnlyGrow(w *World, r *Report, rule string) {
	f := w.Fn("lunar/engine/streams/stream", "Stream.ExecuteFlow")
	if f == nil {
		r.Undec(rule, "stream.ExecuteFlow", token.NoPos, "function not found")
		return
	}
	n := 0
	var bad []string
	for _, st := range fieldStores(f, "Actions") {
		n++
		c, isC := peel(st.Val).(*ssa.Call)
		if b, isB := ssa.Value(nil), false; isC {
			_, isB = c.Call.Value.(*ssa.Builtin)
			_ = b
			if isB && c.Call.Value.(*ssa.Builtin).Name() == "append" {
				continue
			}
		}
		bad = append(bad, w.Pos(posOf(st))+" "+trunc(Path(st.Val), 40))
	}
	r.Check(len(bad) == 0 && n >= 2, rule, "ExecuteFlow/collected-actions-only-grow", f.Pos(), "every store to actions.Request.Actions / actions.Response.Actions is an append (%d stores; others: %v): what earlier processors contributed is never discarded by the walk", n, bad)
}

// hrEnsureCopies: applying header edits to the message copies entries, it never adopts the action's map.
func hrEnsureCopies(w *World, r *Report, rule string) {
	for _, name := range []string{"ModifyHeadersAction.EnsureRequestIsUpdated", "ModifyRequestAction.EnsureRequestIsUpdated", "GenerateRequestAction.EnsureRequestIsUpdated"} {
		f := w.Fn(pkgActions, name)
		if f == nil {
			r.Undec(rule, name, token.NoPos, "function not found")
			continue
		}
		var bad []string
		for _, st := range fieldStores(f, "Headers") {
			if strings.Contains(Path(st.Val), "HeadersToSet") {
				bad = append(bad, w.Pos(posOf(st)))
			}
		}
		r.Check(len(bad) == 0, rule, name+"/copies-entries", f.Pos(), "the message's Headers map is never replaced by the action's own HeadersToSet map (the accumulated action must not alias the message): %v", bad)
	}
}

// hrActionAvailable: a typed-nil action pointer is not an available action.
func hrActionAvailable(w *World, r *Report, rule string) {
	f := w.Fn(pkgStreamTypes, "ProcessorIO.IsRequestActionAvailable")
	if f == nil {
		r.Undec(rule, "IsRequestActionAvailable", token.NoPos, "function not found")
		return
	}
	ok := len(CallsIn(f, false, "utils.IsInterfaceNil")) == 1
	r.Check(ok, rule, "IsRequestActionAvailable/typed-nil-is-absent", f.Pos(), "availability of the request action is decided with utils.IsInterfaceNil (a processor that returns a nil *XAction in the interface must not put a nil action into the fold)")
}

// hrCleanUpFile: removing a file never removes a directory tree.
func hrCleanUpFile(w *World, r *Report, rule string) {
	f := w.Fn(pkgConfig, "FileSystemOperation.cleanUpFile")
	if f == nil {
		r.Undec(rule, "cleanUpFile", token.NoPos, "function not found")
		return
	}
	ok := len(CallsIn(f, false, "os.Remove")) == 1 && len(CallsIn(f, false, "os.RemoveAll")) == 0
	r.Check(ok, rule, "cleanUpFile/removes-one-file", f.Pos(), "cleanUpFile uses os.Remove (a payload entry named like an existing directory must not wipe that sub-tree)")
}

// hrFlowNamesUnique: the loader rejects two flow files that declare the same flow name.
func hrFlowNamesUnique(w *World, r *Report, rule string) {
	f := w.Fn(pkgSCfg, "GetFlows")
	if f == nil {
		r.Undec(rule, "GetFlows", token.NoPos, "function not found")
		return
	}
	ok, n := true, 0
	var upd *ssa.MapUpdate
	Instrs(f, func(in ssa.Instruction) {
		if mu, isMU := in.(*ssa.MapUpdate); isMU && strings.Contains(mu.Map.Type().String(), "FlowRepI") {
			upd = mu
		}
	})
	Instrs(f, func(in ssa.Instruction) {
		lk, isLk := in.(*ssa.Lookup)
		if !isLk || !lk.CommaOk || upd == nil || lk.X != upd.Map {
			return
		}
		n++
		if typedField(lk.Index) != "FlowRepresentation.Name" || Path(lk.Index) != Path(upd.Key) {
			ok = false
		}
	})
	r.Check(ok && n == 1 && upd != nil, rule, "GetFlows/duplicate-looked-up-by-flow-name", f.Pos(), "the duplicate check looks the flow up under flow.Name, the key it is stored under")
}

// hrValidationDirGuard: the dry run reads the pushed gateway configuration of the validation directory when there is one.
func hrValidationDirGuard(w *World, r *Report, rule string) {
	f := w.Fn("lunar/engine/streams/validation", "Validator.ValidateGatewayConfig")
	if f == nil {
		r.Undec(rule, "ValidateGatewayConfig", token.NoPos, "function not found")
		return
	}
	cs := CallsIn(f, false, "environment.GetCustomGatewayConfigPath")
	ok := len(cs) == 1
	if ok {
		op, _ := FindRel(Rels(cs[0].Block()), func(v ssa.Value) bool { return strings.HasSuffix(Path(v), "v.validationDir") }, func(v ssa.Value) bool { s, isS := constString(v); return isS && s == "" })
		ok = op == "!="
	}
	r.Check(ok, rule, "ValidateGatewayConfig/custom-path-only-with-a-validation-dir", f.Pos(), "the path inside the validation directory is used only when a validation directory is set (with none, the live gateway configuration is what must be validated)")
}

// hrIdentityHasher: the hasher that keeps group keys readable returns its input unchanged.
func hrIdentityHasher(w *World, r *Report, rule string) {
	f := w.Fn("lunar/engine/utils/obfuscation", "IdentityHasher.HashBytes")
	if f == nil {
		r.Undec(rule, "IdentityHasher.HashBytes", token.NoPos, "function not found")
		return
	}
	ok, n := true, 0
	for _, alt := range ReturnAlts(f, 0) {
		n++
		if peel(alt.Val) != ssa.Value(f.Params[1]) || len(alt.Conds) != 0 {
			ok = false
		}
	}
	r.Check(ok && n == 1, rule, "IdentityHasher.HashBytes/whole-input", f.Pos(), "IdentityHasher returns string(raw) of the whole input (two group values that share a prefix stay different keys)")
}

// hrCountsCopy: the metrics snapshot of the per-priority counts is a copy.
func hrCountsCopy(w *World, r *Report, rule string) {
	f := w.Fn(pkgQueue, "DelayedPriorityQueue.Counts")
	if f == nil {
		r.Undec(rule, "DelayedPriorityQueue.Counts", token.NoPos, "function not found")
		return
	}
	ok, n := true, 0
	for _, alt := range ReturnAlts(f, 0) {
		n++
		if typedField(alt.Val) == "DelayedPriorityQueue.requestCounts" || strings.HasSuffix(Path(alt.Val), ".requestCounts") {
			ok = false
		}
	}
	r.Check(ok && n >= 1, rule, "Counts/returns-a-copy", f.Pos(), "Counts() never returns the live requestCounts map (the metrics reader iterates it outside the lock, Enqueue writes it)")
}

// hrRunOnRequestUpdates: every action of the remedy chain is applied to the message before the next remedy runs.
func hrRunOnRequestUpdates(w *World, r *Report, rule string) {
	f := w.Fn("lunar/engine/runner", "runOnRequest")
	if f == nil {
		r.Undec(rule, "runOnRequest", token.NoPos, "function not found")
		return
	}
	en := CallsIn(f, false, "ReqLunarAction).EnsureRequestIsUpdated")
	pr := CallsIn(f, false, "ReqLunarAction).ReqPrioritize")
	ok := len(en) == 1 && len(pr) == 1 && domInstr(en[0], pr[0]) && en[0].Block() == pr[0].Block()
	r.Check(ok, rule, "runOnRequest/each-action-applied-to-the-message", f.Pos(), "inside the loop over the remedies the returned action is applied with EnsureRequestIsUpdated(&args) before it is folded (a later remedy sees the headers an earlier one set)")
}

// ---------------------------------------------------------------------------
// part 6: contracts read off helpers that wave 8 (second half) edited

// hrLockOwnersUsePointerReceivers: a struct that holds a lock or a version counter by value is
// never the value receiver of a method (the method would work on a copy: the increment, the map
// header written under the copied mutex, are lost to every other caller).
func hrLockOwnersUsePointerReceivers(w *World, r *Report, rule string, pkgPrefix string) {
	var holds func(t types.Type, depth int) bool
	holds = func(t types.Type, depth int) bool {
		if depth > 6 {
			return false
		}
		if n, isN := t.(*types.Named); isN && n.Obj().Pkg() != nil && n.Obj().Pkg().Path() == "sync" {
			switch n.Obj().Name() {
			case "Mutex", "RWMutex", "WaitGroup", "Once", "Cond":
				return true
			}
		}
		switch u := t.Underlying().(type) {
		case *types.Struct:
			for i := 0; i < u.NumFields(); i++ {
				ft := u.Field(i).Type()
				if p, isP := ft.(*types.Pointer); isP && depth == 0 { // a mutex the struct owns through a pointer guards its other fields just the same
					if n, isN := p.Elem().(*types.Named); isN && n.Obj().Pkg() != nil && n.Obj().Pkg().Path() == "sync" && (n.Obj().Name() == "Mutex" || n.Obj().Name() == "RWMutex") {
						return true
					}
				}
				if holds(ft, depth+1) {
					return true
				}
			}
		case *types.Array:
			return holds(u.Elem(), depth+1)
		}
		return false
	}
	nTypes, nMeth := 0, 0
	for _, p := range w.Pkgs {
		if !strings.HasPrefix(p.PkgPath, pkgPrefix) || p.Types == nil {
			continue
		}
		sc := p.Types.Scope()
		for _, name := range sc.Names() {
			tn, isTN := sc.Lookup(name).(*types.TypeName)
			if !isTN || tn.IsAlias() {
				continue
			}
			named, isN := tn.Type().(*types.Named)
			if !isN {
				continue
			}
			if _, isS := named.Underlying().(*types.Struct); !isS || !holds(named, 0) {
				continue
			}
			nTypes++
			var bad []string
			for i := 0; i < named.NumMethods(); i++ {
				m := named.Method(i)
				nMeth++
				sig := m.Type().(*types.Signature)
				if _, isPtr := sig.Recv().Type().(*types.Pointer); !isPtr {
					bad = append(bad, m.Name())
				}
			}
			r.Check(len(bad) == 0, rule, "lock-owner/"+shortPkg(p.PkgPath)+"."+name+"/pointer-receivers", tn.Pos(), "%s owns a lock: each of its %d methods has a pointer receiver (a value receiver works on a copy of the guarded fields; value receivers: %v)", name, named.NumMethods(), bad)
		}
	}
	r.Check(nTypes >= 3 && nMeth >= 10, rule, "lock-owner/instances", token.NoPos, "%d lock-holding struct types with %d methods inspected under %s", nTypes, nMeth, pkgPrefix)
}

func shortPkg(p string) string {
	if i := strings.LastIndex(p, "/"); i >= 0 {
		return p[i+1:]
	}
	return p
}

// hrStatefulReceivers: the named types whose methods update fields in place use pointer receivers.
func hrStatefulReceivers(w *World, r *Report, rule string, pkg string, typeNames ...string) {
	for _, tn := range typeNames {
		named := w.Named(pkg, tn)
		if named == nil {
			r.Undec(rule, tn, token.NoPos, "type %s.%s not found", pkg, tn)
			continue
		}
		ok, n := true, 0
		var bad []string
		for i := 0; i < named.NumMethods(); i++ {
			m := named.Method(i)
			n++
			if _, isPtr := m.Type().(*types.Signature).Recv().Type().(*types.Pointer); !isPtr {
				ok = false
				bad = append(bad, m.Name())
			}
		}
		r.Check(ok && n > 0, rule, tn+"/every-method-on-the-shared-instance", named.Obj().Pos(), "all %d methods of %s have pointer receivers (a value receiver updates a copy: %v)", n, tn, bad)
	}
}

// hrRetryAfterTypeLiteral: only the two spellings are accepted; each selects its own constant.
func hrRetryAfterTypeLiteral(w *World, r *Report, rule string) {
	f := w.Fn("lunar/shared-model/config", "RetryAfterType.UnmarshalYAML")
	if f == nil {
		r.Undec(rule, "RetryAfterType.UnmarshalYAML", token.NoPos, "function not found")
		return
	}
	ok, n := true, 0
	Instrs(f, func(in ssa.Instruction) {
		st, isSt := in.(*ssa.Store)
		if !isSt || st.Addr != ssa.Value(f.Params[0]) {
			return
		}
		n++
		k, isK := constInt(st.Val)
		found := false
		for _, rel := range Rels(st.Block()) {
			if rel.Op != "==" {
				continue
			}
			for _, side := range []ssa.Value{rel.L, rel.R} {
				c, isC := peel(side).(*ssa.Call)
				if isC && isCallTo(c, "RetryAfterType).String") {
					if kk, isKK := constInt(c.Call.Args[0]); isKK && isK && kk == k {
						found = true
					}
				}
			}
		}
		if !found {
			ok = false
		}
	})
	nErr := 0
	for _, alt := range ReturnAlts(f, 0) {
		if !isNilConst(alt.Val) {
			nErr++
		}
	}
	r.Check(ok && n >= 2 && nErr >= 1, rule, "RetryAfterType.UnmarshalYAML/only-known-spellings", f.Pos(), "each constant is selected only by its own spelling (%d stores) and anything else is an error (%d error returns): a misspelt type must not silently become relative seconds", n, nErr)
}

// hrEndpointKeyHasMethod: remedies that keep per-endpoint state key it by method and URL.
func hrEndpointKeyHasMethod(w *World, r *Report, rule string) {
	n := 0
	for _, f := range w.lunarFns {
		if fnPkgPath(f) != pkgRemedies || f.Origin() != nil {
			continue
		}
		Instrs(f, func(in ssa.Instruction) {
			a, isA := in.(*ssa.Alloc)
			if !isA || structOf(a.Type()) != "Endpoint" {
				return
			}
			if pk, _ := namedOf(deref(a.Type())); pk != pkgConfig {
				return
			}
			if len(storesTo(a)) > 0 { // a copy of an existing value, not a literal
				return
			}
			m, u := singleFieldStoreByName(a, "Method"), singleFieldStoreByName(a, "URL")
			if m == nil && u == nil {
				return
			}
			n++
			ok := m != nil && u != nil && strings.HasSuffix(Path(m), ".Method") && strings.HasSuffix(Path(u), ".NormalizedURL")
			r.Check(ok, rule, shortFn(fnID(outermost(f)))+"/endpoint-key-is-method-and-url", a.Pos(), "config.Endpoint{Method: <request method>, URL: <normalised url>} (Method=%s URL=%s): state of GET and POST of one URL is kept apart", pathOrNone(m), pathOrNone(u))
		})
	}
	r.Check(n >= 2, rule, "remedies/endpoint-keys", token.NoPos, "%d config.Endpoint literals inspected in the remedies", n)
}

func pathOrNone(v ssa.Value) string {
	if v == nil {
		return "<unset>"
	}
	return Path(v)
}

// singleFieldStoreByName: the one value stored to field name of the struct allocated by a.
func singleFieldStoreByName(a *ssa.Alloc, name string) ssa.Value {
	var out ssa.Value
	n := 0
	for _, ref := range *a.Referrers() {
		fa, isFA := ref.(*ssa.FieldAddr)
		if !isFA || fieldName(fa.X.Type(), fa.Field) != name {
			continue
		}
		for _, r2 := range *fa.Referrers() {
			if st, isSt := r2.(*ssa.Store); isSt && st.Addr == ssa.Value(fa) {
				out = st.Val
				n++
			}
		}
	}
	if n != 1 {
		return nil
	}
	return out
}

// hrDiagnosesSelectedByRequest: the diagnoses of a transaction are those of its request's method and URL.
func hrDiagnosesSelectedByRequest(w *World, r *Report, rule string) {
	f := w.Fn(pkgRunner, "RunTask")
	if f == nil {
		r.Undec(rule, "RunTask", token.NoPos, "function not found")
		return
	}
	cs := CallsIn(f, false, "runner.getDiagnoses")
	ok := len(cs) == 1
	if ok {
		a := cs[0].Common().Args
		ok = strings.HasSuffix(Path(a[0]), "task.Request.Method") && strings.HasSuffix(Path(a[1]), "task.Request.URL") && Path(a[2]) == "param:policyTree"
	}
	r.Check(ok, rule, "RunTask/diagnoses-of-the-request-endpoint", f.Pos(), "getDiagnoses(task.Request.Method, task.Request.URL, policyTree, ...): the endpoint is the one the request was matched to")
}

// hrLookupDeclaredWalksEveryPart: the exact-pattern lookup gives up at the first part that has no node of its kind.
func hrLookupDeclaredWalksEveryPart(w *World, r *Report, rule string) {
	f := w.Fn(pkgURLTree, "URLTree.LookupDeclaredURL")
	if f == nil {
		r.Undec(rule, "LookupDeclaredURL", token.NoPos, "function not found")
		return
	}
	hs := loopHeadersOf(f)
	ok := len(hs) == 1
	var br []string
	if ok {
		br = loopBreaks(hs[0])
		ok = len(br) == 0
	}
	// and the found-return is outside the loop
	nTrue := 0
	for _, alt := range ReturnAlts(f, 1) {
		if b, isB := constBool(alt.Val); isB && b {
			nTrue++
			if len(hs) == 1 && loopHas(hs[0], alt.Ret.Block()) {
				ok = false
			}
		}
	}
	r.Check(ok && nTrue == 1, rule, "LookupDeclaredURL/missing-part-is-not-found", f.Pos(), "a part without a node of its own kind ends the lookup with not-found; the walk is never cut short into the found-return (breaks: %v)", br)
}

// hrDumpEndpointVerbatim: the persisted key of an endpoint is its method and URL as aggregated.
func hrDumpEndpointVerbatim(w *World, r *Report, rule string) {
	f := w.Fn(pkgDisc, "dumpEndpoint")
	if f == nil {
		r.Undec(rule, "dumpEndpoint", token.NoPos, "function not found")
		return
	}
	cs := CallsIn(f, false, "strings.Join")
	ok := len(cs) == 1
	if ok {
		parts := map[int64]string{}
		var base ssa.Value = cs[0].Common().Args[0]
		if sl, isSl := base.(*ssa.Slice); isSl {
			base = sl.X
		}
		for _, st := range partStores(base, 2) {
			if ia, isIA := st.Addr.(*ssa.IndexAddr); isIA {
				if k, isK := constInt(ia.Index); isK {
					parts[k] = Path(st.Val)
				}
			}
		}
		ok = len(parts) == 2 && strings.HasSuffix(parts[0], "endpoint.Method") && strings.HasSuffix(parts[1], "endpoint.URL")
		if !ok {
			r.Infof("dumpEndpoint parts: %v", parts)
		}
	}
	r.Check(ok, rule, "dumpEndpoint/method-and-url-verbatim", f.Pos(), "the key joins endpoint.Method and endpoint.URL unchanged (two aggregated endpoints never share a persisted key)")
}

// hrTreeRebuiltOnlyWhenNewer: the URL tree (and what it learned) is replaced only when the policies file is strictly newer.
func hrTreeRebuiltOnlyWhenNewer(w *World, r *Report, rule string) {
	f := w.Fn("lunar/aggregation-plugin", "periodicallyUpdateTree")
	if f == nil {
		r.Undec(rule, "periodicallyUpdateTree", token.NoPos, "function not found")
		return
	}
	cs := CallsIn(f, false, "common.BuildTree")
	ok := len(cs) == 1
	op := ""
	if ok {
		isNew := func(v ssa.Value) bool {
			p := Path(v)
			return strings.HasPrefix(p, "(time.Time).UnixMilli(common.GetPoliciesLastModifiedTime()#0")
		}
		isCur := func(v ssa.Value) bool {
			p := Path(v)
			return strings.HasPrefix(p, "(time.Time).UnixMilli(") && !isNew(v)
		}
		op, _ = FindRel(Rels(cs[0].Block()), isNew, isCur)
		ok = op == ">"
		if op == "" { // the same test written with time.Time's own comparison
			for _, cd := range CondsOf(cs[0].Block()) {
				p := Path(cd.V)
				if cd.Pol && strings.HasPrefix(p, "(time.Time).After(common.GetPoliciesLastModifiedTime()#0") {
					ok, op = true, "After"
				}
			}
		}
	}
	r.Check(ok, rule, "periodicallyUpdateTree/rebuild-only-when-strictly-newer", f.Pos(), "BuildTree runs under newLastModified %q currentLastModified (want >): an untouched policies file keeps the tree and the path parameters it converged", op)
}

// hrConvergenceKeepsParametricChild: when a node converges, its existing parametric child is merged too.
func hrConvergenceKeepsParametricChild(w *World, r *Report, rule string) {
	f := w.Fn(pkgURLTree, "URLTree.insertWithConvergenceIndication")
	if f == nil {
		r.Undec(rule, "insertWithConvergenceIndication", token.NoPos, "function not found")
		return
	}
	cs := CallsIn(f, false, "urltree.convergeNodesPaths")
	ok := len(cs) >= 1
	for _, c := range cs {
		// the list is the constant children with the parametric child appended: follow the appends
		found := false
		v := c.Common().Args[0]
		for i := 0; i < 4 && !found; i++ {
			ap, isC := peel(v).(*ssa.Call)
			if !isC {
				break
			}
			b, isB := ap.Call.Value.(*ssa.Builtin)
			if !isB || b.Name() != "append" || len(ap.Call.Args) != 2 {
				break
			}
			var base ssa.Value = ap.Call.Args[1]
			if sl, isSl := base.(*ssa.Slice); isSl {
				base = sl.X
			}
			for _, st := range partStores(base, 2) {
				if strings.HasSuffix(Path(st.Val), ".ParametricChild.Child") {
					found = true
				}
			}
			v = ap.Call.Args[0]
		}
		if !found {
			ok = false
		}
	}
	r.Check(ok, rule, "insertWithConvergenceIndication/converges-the-parametric-child-too", f.Pos(), "the nodes handed to convergeNodesPaths include currentNode.ParametricChild.Child (a declared {param} subtree is not dropped when the node converges)")
}

// hrGzipWholeBody: the body handed to the obfuscator is the whole decompressed stream.
func hrGzipWholeBody(w *World, r *Report, rule string) {
	f := w.Fn("lunar/engine/utils/compression", "DecompressGZip")
	if f == nil {
		r.Undec(rule, "DecompressGZip", token.NoPos, "function not found")
		return
	}
	nr := CallsIn(f, false, "gzip.NewReader")
	ok := len(nr) == 1
	var other []string
	if ok {
		Instrs(f, func(in ssa.Instruction) {
			c, isC := in.(ssa.CallInstruction)
			if !isC || c.Common().IsInvoke() {
				return
			}
			id := calleeID(c)
			if strings.Contains(id, "gzip.Reader)") && !idMatches(id, "gzip.Reader).Close") && !idMatches(id, "gzip.Reader).Read") {
				other = append(other, calleeShort(id))
			}
		})
		ra := CallsIn(f, false, "io.ReadAll")
		ok = len(other) == 0 && len(ra) == 1 && Derives(ra[0].Common().Args[0], func(x ssa.Value) bool { return x == nr[0].Value() })
	}
	r.Check(ok, rule, "DecompressGZip/reads-the-whole-stream", f.Pos(), "io.ReadAll of the gzip reader as gzip.NewReader returns it (multistream; other reader calls: %v)", other)
}

// hrContentEncodingFallback: the lower-case fallback looks up the same header name.
func hrContentEncodingFallback(w *World, r *Report, rule string) {
	f := w.Fn("lunar/engine/services/diagnoses", "extractContentEncodingValue")
	if f == nil {
		r.Undec(rule, "extractContentEncodingValue", token.NoPos, "function not found")
		return
	}
	var keys []ssa.Value
	Instrs(f, func(in ssa.Instruction) {
		if lk, isLk := in.(*ssa.Lookup); isLk && Path(lk.X) == "param:headers" {
			keys = append(keys, lk.Index)
		}
	})
	ok := len(keys) == 2
	if ok {
		var exact, lower ssa.Value
		for _, k := range keys {
			if c, isC := peel(k).(*ssa.Call); isC && isCallTo(c, "strings.ToLower") {
				lower = c.Call.Args[0]
			} else {
				exact = k
			}
		}
		ok = exact != nil && lower != nil && (exact == lower || Path(exact) == Path(lower))
	}
	r.Check(ok, rule, "extractContentEncodingValue/fallback-is-the-same-name-lowered", f.Pos(), "headers[name] then headers[strings.ToLower(name)] for one and the same name (the configured header, when one is configured)")
}

// hrConstructorKeepsExclusions: the obfuscator is built around the exclusions as configured.
func hrConstructorKeepsExclusions(w *World, r *Report, rule string) {
	f := w.Fn("lunar/engine/streams/processors/har-collector", "newAPIStreamObfuscator")
	if f == nil {
		r.Undec(rule, "newAPIStreamObfuscator", token.NoPos, "function not found")
		return
	}
	ok, n := true, 0
	for _, alt := range ReturnAlts(f, 0) {
		n++
		v := litField(alt.Val, "obfuscateExclusions")
		if v == nil || Path(v) != "param:obfuscateExclusions" {
			ok = false
		}
	}
	Instrs(f, func(in ssa.Instruction) {
		if st, isSt := in.(*ssa.Store); isSt {
			if ia, isIA := st.Addr.(*ssa.IndexAddr); isIA && Path(ia.X) == "param:obfuscateExclusions" {
				ok = false // writes into the caller's configuration
			}
		}
	})
	r.Check(ok && n == 1, rule, "newAPIStreamObfuscator/exclusions-as-configured", f.Pos(), "obfuscateExclusions is the configured list, unchanged and not written to (exclusion paths are matched case-sensitively)")
}

// hrFlowContextGetterIsPure: asking a flow for its execution context does not replace the flow context.
func hrFlowContextGetterIsPure(w *World, r *Report, rule string) {
	f := w.Fn(pkgFlow, "Flow.GetExecutionContext")
	if f == nil {
		r.Undec(rule, "Flow.GetExecutionContext", token.NoPos, "function not found")
		return
	}
	n := len(CallsIn(f, true, "ContextManager).WithFlowContext", "ContextManager).WithGlobalContext", "LunarAdminContextI).SetFlowContext", "LunarAdminContextI).SetGlobalContext"))
	g := CallsIn(f, false, "ContextManager).GetLunarContext")
	r.Check(n == 0 && len(g) == 1, rule, "Flow.GetExecutionContext/does-not-replace-the-flow-context", f.Pos(), "the getter returns contextManager.GetLunarContext() and never re-creates the flow context (%d re-creating calls): the retry counter lives there between executions", n)
}

// hrVersionBumpReturnsPrevious: the version handed to the vacuum is the one that was current before the bump.
func hrVersionBumpReturnsPrevious(w *World, r *Report, rule string) {
	f := w.Fn(pkgConfig, "TxnPoliciesAccessor.setNextVersion")
	if f == nil {
		r.Undec(rule, "setNextVersion", token.NoPos, "function not found")
		return
	}
	st := fieldStores(f, "currentVersion")
	vk := CallsIn(f, false, "MapVacuum).VacuumKey")
	ok := len(st) == 1 && len(vk) == 1
	if ok {
		before := func(v ssa.Value) bool {
			u, isU := peel(unhelp(peel(v))).(*ssa.UnOp)
			if !isU || u.Op != token.MUL || !strings.HasSuffix(Path(u), ".currentVersion") {
				return false
			}
			return domInstr(u, st[0]) && !domInstr(st[0], u)
		}
		ok = before(margs(vk[0])[0])
		for _, alt := range ReturnAlts(f, 0) {
			if !before(alt.Val) {
				ok = false
			}
		}
		b, isB := st[0].Val.(*ssa.BinOp)
		ok = ok && isB && b.Op == token.ADD && isIntConst(b.Y, 1)
	}
	r.Check(ok, rule, "setNextVersion/previous-version-is-read-before-the-bump", f.Pos(), "the version given to the vacuum and returned is currentVersion as read before currentVersion++ (the vacuum must not be told to discard the version just installed)")
}

// hrVacuumStartOnce: the check-and-set of `active` happens under the entries mutex.
func hrVacuumStartOnce(w *World, r *Report, la *LockAn, rule string) {
	n := 0
	for _, a := range w.fieldAccesses(pkgVacuum, "MapVacuum", []string{"active"}) {
		if isFreshBase(a.Base) {
			continue
		}
		id := fnID(outermost(a.Fn))
		if !idMatches(id, "MapVacuum).VacuumKey") {
			continue
		}
		n++
		_, held := la.HeldAt(a.In)[strings.TrimPrefix(Path(a.Base), "&")+".entriesMutex"]
		kind := "read"
		if a.Write {
			kind = "write"
		}
		r.Check(held, rule, "MapVacuum.active/check-and-set-under-entriesMutex/"+kind, posOf(a.In), "VacuumKey %ss active while holding entriesMutex (two first registrations must not both start a background loop)", kind)
	}
	r.Check(n >= 2, rule, "MapVacuum.active/instances", token.NoPos, "%d accesses of active in VacuumKey", n)
}

// hrSnapshotsAlwaysWritten: both snapshots are written on every load.
func hrSnapshotsAlwaysWritten(w *World, r *Report, rule string) {
	f := w.Fn(pkgConfig, "persistLoaded")
	if f == nil {
		r.Undec(rule, "persistLoaded", token.NoPos, "function not found")
		return
	}
	ws := CallsIn(f, false, "config.WritePoliciesConfig")
	ok := len(ws) == 2
	for _, c := range ws {
		for _, cd := range CondsOf(c.Block()) {
			rel, isRel := NormCond(cd)
			if !(isRel && rel.Op == "==" && isNilConst(rel.R) && isErrorType(rel.L.Type())) {
				ok = false // anything but "the previous step succeeded"
			}
		}
	}
	r.Check(ok, rule, "persistLoaded/both-snapshots-on-every-load", f.Pos(), "the loaded and the diagnosis-free snapshot are both written whenever the preceding steps succeed, whatever the policies contain (%d writes)", len(ws))
}

// hrNoSessionSentinel: only the sentinel -1 means "no session yet".
func hrNoSessionSentinel(w *World, r *Report, rule string) {
	f := w.Fn(pkgFailsafe, "ParseHAProxyStatsCSV")
	if f == nil {
		r.Undec(rule, "ParseHAProxyStatsCSV", token.NoPos, "function not found")
		return
	}
	n, ok := 0, true
	for _, b := range f.Blocks {
		iff := blockIf(b)
		if iff == nil {
			continue
		}
		rel, isRel := NormCond(Cond{V: iff.Cond, Pol: true})
		if !isRel {
			continue
		}
		ex, isEx := peel(rel.L).(*ssa.Extract)
		if !isEx || ex.Index != 0 {
			continue
		}
		c, isC := ex.Tuple.(*ssa.Call)
		if !isC || !isCallTo(c, "strconv.Atoi") {
			continue
		}
		if _, isK := constInt(rel.R); !isK {
			continue
		}
		if col := w.constOf(pkgFailsafe, "lastSessionColName"); col == nil || !strings.Contains(Path(ex), constant.StringVal(col)) {
			continue // another column
		}
		n++
		if !((rel.Op == "==" || rel.Op == "!=") && isIntConst(rel.R, -1)) {
			ok = false
		}
	}
	r.Check(ok && n == 1, rule, "ParseHAProxyStatsCSV/no-session-only-for-the-sentinel", f.Pos(), "lastsess is 'no session' exactly when it equals -1 (%d comparisons of a parsed column with a constant)", n)
}

// hrRevertUnmanageFlags: which update unmanages stale endpoints at once.
func hrRevertUnmanageFlags(w *World, r *Report, rule string) {
	for name, want := range map[string]bool{"RevertToLastLoaded": true, "RevertToDiagnosisFree": true, "ReloadFromFile": false, "UpdateRawData": false} {
		f := w.Fn(pkgConfig, "TxnPoliciesAccessor."+name)
		if f == nil {
			r.Undec(rule, name, token.NoPos, "function not found")
			continue
		}
		cs := CallsIn(f, false, "TxnPoliciesAccessor).UpdatePoliciesData")
		ok := len(cs) == 1
		if ok {
			b, isB := constBool(margs(cs[0])[1])
			ok = isB && b == want
		}
		r.Check(ok, rule, name+"/unmanage-immediately-flag", f.Pos(), "%s calls UpdatePoliciesData(..., %v): the fail-safe reverts take stale endpoints out of the proxy at once, an ordinary reload after the grace period", name, want)
	}
}

// ---------------------------------------------------------------------------
// part 7: ninth wave (small clean-ups of supporting functions, with a slip)

// hrConcurrentAllowed: a concurrent quota with a parent answers with its own admission first and
// then with the parent's verdict (never "true" past a parent, never the parent without its own check).
func hrConcurrentAllowed(w *World, r *Report, rule string) {
	f := w.Fn(pkgQuota, "concurrentStrategy.Allowed")
	if f == nil {
		r.Undec(rule, "concurrentStrategy.Allowed", token.NoPos, "function not found")
		return
	}
	okTrue, okParent, nParent, nTrue := true, true, 0, 0
	for _, alt := range ReturnAlts(f, 0) {
		own := condsHave(alt.Conds, true, func(v ssa.Value) bool { return isCallTo0(v, "concurrentStrategy).checkReqStatus") })
		if b, isB := constBool(alt.Val); isB {
			if !b {
				continue
			}
			nTrue++
			op, _ := FindRel(relsOfConds(alt.Conds), func(v ssa.Value) bool { return strings.HasSuffix(Path(v), "cs.parent") }, isNilConst)
			if op != "==" || !own {
				okTrue = false
			}
			continue
		}
		// the parent's own verdict
		if Derives(alt.Val, func(x ssa.Value) bool { return isCallTo0(x, "QuotaResourceI).Allowed", "ResourceAdmI).Allowed") }) {
			nParent++
			if !own {
				okParent = false
			}
		}
	}
	r.Check(okTrue && nTrue >= 1, rule, "concurrentStrategy.Allowed/true-only-without-a-parent", f.Pos(), "`true` is returned only when the own check passed and there is no parent (with a parent its verdict is the answer) (%d returns)", nTrue)
	r.Check(okParent && nParent >= 1, rule, "concurrentStrategy.Allowed/parent-asked-after-own-check", f.Pos(), "the parent's verdict is returned, and only after the own admission check passed (%d returns)", nParent)
}

// hrChildStrategyKeepsParent: every child strategy is built with the parent node it hangs under.
func hrChildStrategyKeepsParent(w *World, r *Report, rule string) {
	f := w.Fn(pkgQuota, "UsedStrategy.CreateChildStrategy")
	if f == nil {
		r.Undec(rule, "CreateChildStrategy", token.NoPos, "function not found")
		return
	}
	// the strategies that keep a link to their parent: their constructor reads its parent parameter
	var need []string
	for _, cn := range []string{"NewFixedStrategy", "NewConcurrentStrategy", "NewHeaderBasedStrategy"} {
		c := w.Fn(pkgQuota, cn)
		if c == nil {
			r.Undec(rule, cn, token.NoPos, "constructor not found")
			continue
		}
		last := c.Params[len(c.Params)-1]
		if last.Referrers() != nil && len(*last.Referrers()) > 0 {
			need = append(need, cn)
		}
	}
	var miss []string
	for _, cn := range need {
		cs := CallsIn(f, false, "quota."+cn)
		ok := len(cs) >= 1
		for _, c := range cs {
			a := c.Common().Args
			if Path(a[len(a)-1]) != "param:parent" {
				ok = false
			}
		}
		if !ok {
			miss = append(miss, cn)
		}
	}
	r.Check(len(miss) == 0 && len(need) >= 2, rule, "CreateChildStrategy/every-kind-built-under-its-parent", f.Pos(), "each strategy whose constructor uses its parent (%v) is constructed here with `parent` (not so: %v)", need, miss)
}

// hrOnErrorRecords: every status the proxy generates by itself is recorded as a failed transaction.
func hrOnErrorRecords(w *World, r *Report, rule string) {
	f := w.Fn(pkgSDisc, "OnError.RecordErrorTransactionIfNeeds")
	if f == nil {
		r.Undec(rule, "RecordErrorTransactionIfNeeds", token.NoPos, "function not found")
		return
	}
	n, ok := 0, true
	var why []string
	Instrs(f, func(in ssa.Instruction) {
		mu, isMU := in.(*ssa.MapUpdate)
		if !isMU || !strings.HasSuffix(Path(mu.Map), ".FailedTransactions") {
			return
		}
		n++
		eq := false
		for _, cd := range CondsOf(mu.Block()) {
			rel, isRel := NormCond(cd)
			if !isRel {
				ok = false
				why = append(why, condsString([]Cond{cd}))
				continue
			}
			l, rr := Path(rel.L), Path(rel.R)
			switch {
			case rel.Op == "==" && (l == "param:statusCode" && strings.Contains(rr, "HaproxyInternalErrors[") || rr == "param:statusCode" && strings.Contains(l, "HaproxyInternalErrors[")):
				eq = true
			case rel.Op == "<" && strings.HasPrefix(rr, "builtin.len(") && strings.HasSuffix(rr, "HaproxyInternalErrors)"):
				// index within the whole list (range loop or a search result)
			default:
				ok = false
				why = append(why, relsString([]Rel{rel}))
			}
		}
		if !eq {
			ok = false
		}
	})
	r.Check(ok && n == 1, rule, "RecordErrorTransactionIfNeeds/any-listed-status", f.Pos(), "the transaction is recorded exactly when statusCode equals an element of HaproxyInternalErrors, every index of the list being eligible (other conditions: %v)", why)
}

// hrToComparable: the key under which filters are told apart takes every field from its own source.
func hrToComparable(w *World, r *Report, rule string) {
	f := w.Fn(pkgSCfg, "Filter.ToComparable")
	if f == nil {
		r.Undec(rule, "Filter.ToComparable", token.NoPos, "function not found")
		return
	}
	fields := map[string]string{"URL": "URL", "QueryParams": "QueryParams", "Method": "Method", "Headers": "Headers", "StatusCode": "StatusCode"}
	n := 0
	for _, alt := range ReturnAlts(f, 0) {
		n++
		for dst, src := range fields {
			v := litField(alt.Val, dst)
			ok := v != nil
			var from []string
			if ok {
				Derives(v, func(x ssa.Value) bool {
					if tf := typedField(x); strings.HasPrefix(tf, "Filter.") {
						from = append(from, strings.TrimPrefix(tf, "Filter."))
					}
					return false
				})
				ok = len(from) >= 1
				for _, s := range from {
					if s != src {
						ok = false
					}
				}
			}
			r.Check(ok, rule, "Filter.ToComparable/"+dst, posOf(alt.Ret), "ComparableFilter.%s is built from Filter.%s only (from %v): two filters that differ in one field never compare equal", dst, src, from)
		}
	}
	if n != 1 {
		r.Undec(rule, "Filter.ToComparable/shape", f.Pos(), "expected one return, found %d", n)
	}
}

// stringListOf: the string constants of a list value: a slice literal, a clone of one, or a
// package variable initialised with one.
func stringListOf(w *World, v ssa.Value, depth int) map[string]bool {
	out := map[string]bool{}
	if depth > 4 || v == nil {
		return out
	}
	v = peel(unhelp(v))
	switch x := v.(type) {
	case *ssa.Slice:
		for _, st := range partStores(x.X, 2) {
			if s, isS := constString(st.Val); isS {
				out[s] = true
			}
		}
	case *ssa.Call:
		if isCallTo(x, "slices.Clone") && len(x.Call.Args) == 1 {
			return stringListOf(w, x.Call.Args[0], depth+1)
		}
		if b, isB := x.Call.Value.(*ssa.Builtin); isB && b.Name() == "append" {
			for _, a := range x.Call.Args {
				for s := range stringListOf(w, a, depth+1) {
					out[s] = true
				}
			}
		}
	case *ssa.UnOp:
		if g, isG := x.X.(*ssa.Global); isG && x.Op == token.MUL && g.Pkg != nil {
			if ini := g.Pkg.Func("init"); ini != nil {
				for _, b := range ini.Blocks {
					for _, in := range b.Instrs {
						if st, isSt := in.(*ssa.Store); isSt && st.Addr == ssa.Value(g) {
							for s := range stringListOf(w, st.Val, depth+1) {
								out[s] = true
							}
						}
					}
				}
			}
		}
	case *ssa.Phi:
		for _, e := range x.Edges {
			for s := range stringListOf(w, e, depth+1) {
				out[s] = true
			}
		}
	}
	return out
}

// defaultMethodsOf: the methods a filter without a method list stands for.
func defaultMethodsOf(w *World) (map[string]bool, *ssa.Function) {
	gs := w.Fn(pkgSCfg, "Filter.GetSupportedMethods")
	if gs == nil {
		return nil, nil
	}
	out := map[string]bool{}
	for _, alt := range ReturnAlts(gs, 0) {
		if strings.HasSuffix(Path(alt.Val), ".Method") {
			continue // the configured list
		}
		for s := range stringListOf(w, alt.Val, 0) {
			out[s] = true
		}
	}
	return out, gs
}

// hrDefaultMethods: a filter that names no method stands for at least the five methods it always stood for.
func hrDefaultMethods(w *World, r *Report, rule string) {
	def, gs := defaultMethodsOf(w)
	if gs == nil {
		r.Undec(rule, "Filter.GetSupportedMethods", token.NoPos, "function not found")
		return
	}
	var miss []string
	for _, m := range []string{"GET", "POST", "PUT", "DELETE", "PATCH"} {
		if !def[m] {
			miss = append(miss, m)
		}
	}
	r.Check(len(miss) == 0, rule, "Filter.GetSupportedMethods/default-covers-the-five-methods", gs.Pos(), "a filter without a method list stands for GET, POST, PUT, DELETE and PATCH (missing %v, found %v)", miss, keysOf(def))
}

// hrResumeNodeIsPerFlow: on the response leg only the flow that answered the request resumes after
// that node; the node is decided per flow, not carried over from the previous one.
func hrResumeNodeIsPerFlow(w *World, r *Report, rule string) {
	f := w.Fn(pkgStreams, "Stream.executeRes")
	if f == nil {
		r.Undec(rule, "executeRes", token.NoPos, "function not found")
		return
	}
	ok, n := true, 0
	isNode := func(v ssa.Value) bool { return strings.HasSuffix(Path(v), "shortCircuit.node") }
	for _, c := range CallsIn(f, false, "Stream).executeFlow") {
		inLoop := false
		for _, h := range loopHeadersOf(f) {
			if loopHas(h, c.Block()) {
				inLoop = true
			}
		}
		if !inLoop {
			continue
		}
		a := margs(c)
		start := a[len(a)-1]
		switch x := start.(type) {
		case *ssa.Phi:
			n++
			for _, e := range x.Edges {
				if !isNilConst(e) && !isNode(e) {
					ok = false
				}
			}
			for _, h := range loopHeadersOf(f) {
				if x.Block() == h {
					ok = false // carried around the loop
				}
			}
		default:
			if isNilConst(start) {
				n++
			} else if isNode(start) {
				n++
				op, _ := FindRel(Rels(c.Block()), func(v ssa.Value) bool { return strings.HasSuffix(Path(v), "shortCircuit") }, isNilConst)
				if op != "!=" {
					ok = false
				}
			} else if strings.Contains(Path(start), "shortCircuit") || strings.Contains(Path(start), "phi[") {
				n++
				ok = false
			}
		}
	}
	r.Check(ok && n >= 1, rule, "executeRes/resume-node-decided-per-flow", f.Pos(), "inside the loop over the matched flows executeFlow starts from shortCircuit.node for the answering flow and from nil for every other, decided within the iteration (%d calls)", n)
}

// hrFoundIsMonotone: GetFlow reports "found" when any node on the way has a valid flow.
func hrFoundIsMonotone(w *World, r *Report, rule string) {
	f := w.Fn(pkgFilter, "FilterTree.GetFlow")
	if f == nil {
		r.Undec(rule, "FilterTree.GetFlow", token.NoPos, "function not found")
		return
	}
	hs := loopHeadersOf(f)
	ok, n := len(hs) >= 1, 0
	var bad []string
	for _, alt := range ReturnAlts(f, 1) {
		ph, isPhi := peel(alt.Val).(*ssa.Phi)
		if !isPhi {
			continue
		}
		n++
		seen := map[*ssa.Phi]bool{}
		var walk func(p *ssa.Phi)
		walk = func(p *ssa.Phi) {
			if seen[p] {
				return
			}
			seen[p] = true
			for _, e := range p.Edges {
				switch x := e.(type) {
				case *ssa.Phi:
					walk(x)
				case *ssa.Const:
				default:
					ok = false
					bad = append(bad, Path(e))
				}
			}
		}
		walk(ph)
	}
	r.Check(ok && n >= 1, rule, "FilterTree.GetFlow/found-once-found", f.Pos(), "`found` only ever goes from false to true while the nodes are walked (a later node without a valid flow does not take it back; other values flowing in: %v)", bad)
}

// hrAddConnections: start keys are merged into the start list, end keys into the end list.
func hrAddConnections(w *World, r *Report, rule string) {
	f := w.Fn("lunar/engine/streams/resources/types", "ResourceProcessorLocation.AddConnections")
	if f == nil {
		r.Undec(rule, "AddConnections", token.NoPos, "function not found")
		return
	}
	src := func(v ssa.Value) string {
		s, e := false, false
		Derives(v, func(x ssa.Value) bool {
			if isCallTo0(x, "ResourceProcessorLocationI).GetStart") {
				s = true
			}
			if isCallTo0(x, "ResourceProcessorLocationI).GetEnd") {
				e = true
			}
			return false
		})
		switch {
		case s && !e:
			return "Start"
		case e && !s:
			return "End"
		case s && e:
			return "both"
		}
		return ""
	}
	fed := map[string]map[string]bool{"Start": {}, "End": {}}
	for _, c := range CallsIn(f, false, "ResourceProcessorLocation).AddToStart") {
		fed["Start"][src(margs(c)[0])] = true
	}
	for _, c := range CallsIn(f, false, "ResourceProcessorLocation).AddToEnd") {
		fed["End"][src(margs(c)[0])] = true
	}
	for _, fld := range []string{"Start", "End"} {
		for _, st := range fieldStores(f, fld) {
			if s := src(st.Val); s != "" {
				fed[fld][s] = true
			}
		}
	}
	ok := len(fed["Start"]) == 1 && fed["Start"]["Start"] && len(fed["End"]) == 1 && fed["End"]["End"]
	r.Check(ok, rule, "AddConnections/start-to-start-end-to-end", f.Pos(), "the other location's start keys go to Start and its end keys to End (Start fed by %v, End fed by %v)", keysOf(fed["Start"]), keysOf(fed["End"]))
}

// hrParsedURLAfterInit: the parsed URL of a request is used only after init() succeeded.
func hrParsedURLAfterInit(w *World, r *Report, rule string) {
	n := 0
	for _, name := range []string{"OnRequest.DoesQueryParamExist", "OnRequest.DoesQueryParamValueMatch"} {
		f := w.Fn(pkgStreamTypes, name)
		if f == nil {
			r.Undec(rule, name, token.NoPos, "function not found")
			continue
		}
		Instrs(f, func(in ssa.Instruction) {
			c, isC := in.(ssa.CallInstruction)
			if !isC || !strings.HasPrefix(calleeID(c), "(*net/url.URL).") || len(c.Common().Args) == 0 {
				return
			}
			if !strings.HasSuffix(Path(c.Common().Args[0]), ".ParsedURL") {
				return
			}
			n++
			ok := false
			for _, cd := range append(CondsOf(c.Block()), siteConds(c.Block(), 3)...) {
				rel, isRel := NormCond(cd)
				if isRel && rel.Op == "==" && isNilConst(rel.R) && isCallTo0(rel.L, "OnRequest).init") {
					ok = true
				}
				if cd.Pol && isCallTo0(cd.V, "OnRequest).DoesQueryParamExist") {
					ok = true // which itself returns true only after init() succeeded
				}
			}
			r.Check(ok, rule, shortFn(fnID(outermost(f)))+"/parsed-url-only-after-init", posOf(c), "req.ParsedURL is dereferenced only where init() returned nil (a URL that does not parse leaves it nil)")
		})
	}
	r.Check(n >= 2, rule, "OnRequest/parsed-url-uses", token.NoPos, "%d uses of req.ParsedURL inspected in the query-parameter accessors", n)
}

// hrEdgeEqualNilGuards: two edges are compared by target node only when both have one.
func hrEdgeEqualNilGuards(w *World, r *Report, rule string) {
	f := w.Fn(pkgFlow, "ConnectionEdge.equal")
	if f == nil {
		r.Undec(rule, "ConnectionEdge.equal", token.NoPos, "function not found")
		return
	}
	cs := CallsIn(f, false, "FlowGraphNode).equal")
	ok := len(cs) >= 1
	for _, c := range cs {
		rels := Rels(c.Block())
		for _, suf := range []string{"ce.node", "other.node"} {
			op, _ := FindRel(rels, func(v ssa.Value) bool { return strings.HasSuffix(Path(v), suf) }, isNilConst)
			if op != "!=" {
				ok = false
			}
		}
	}
	r.Check(ok, rule, "ConnectionEdge.equal/nodes-compared-only-when-both-present", f.Pos(), "node.equal(other.node) runs under ce.node != nil and other.node != nil (an edge to the stream end has no node)")
}

// hrListAssertionsGuarded: a list parameter's elements are asserted to T only after isListOf[T] held for the list.
func hrListAssertionsGuarded(w *World, r *Report, rule string) {
	f := w.Fn("lunar/engine/streams/public-types", "NewParamValue")
	if f == nil {
		r.Undec(rule, "NewParamValue", token.NoPos, "function not found")
		return
	}
	n := 0
	Instrs(f, func(in ssa.Instruction) {
		ta, isTA := in.(*ssa.TypeAssert)
		if !isTA || ta.CommaOk {
			return
		}
		if _, isIface := ta.AssertedType.Underlying().(*types.Interface); isIface {
			return
		}
		if _, isBasic := ta.AssertedType.Underlying().(*types.Basic); !isBasic {
			return
		}
		n++
		ok := false
		for _, cd := range CondsOf(ta.Block()) {
			c, isC := peel(cd.V).(*ssa.Call)
			if !isC || !cd.Pol {
				continue
			}
			callee := c.Call.StaticCallee()
			if callee == nil || !(strings.HasPrefix(callee.Name(), "isListOf") || strings.HasPrefix(callee.Name(), "isMapOf")) {
				continue
			}
			if targs := callee.TypeArgs(); len(targs) == 1 && types.Identical(targs[0], ta.AssertedType) {
				ok = true
			}
		}
		r.Check(ok, rule, "NewParamValue/element-assertion-after-its-list-check/"+ta.AssertedType.String(), posOf(ta), "v.(%s) on an element runs only where isListOf/isMapOf[%s](val) held (a collection of another element type must not reach it)", ta.AssertedType, ta.AssertedType)
	})
	r.Check(n >= 1, rule, "NewParamValue/element-assertions", f.Pos(), "%d unchecked element assertions inspected", n)
}

// hrQueueSizeParams: each size limit is read from the parameter of its own name.
func hrQueueSizeParams(w *World, r *Report, rule string) {
	f := w.Fn(pkgQProc, "queueProcessor.init")
	if f == nil {
		r.Undec(rule, "queueProcessor.init", token.NoPos, "function not found")
		return
	}
	want := map[string]string{"maxQueueSize": "queue_size", "maxRedisQueueSize": "redis_queue_size"}
	got := map[string]map[string]bool{}
	note := func(dst ssa.Value, name ssa.Value) {
		fa, isFA := peel(unhelp(dst)).(*ssa.FieldAddr)
		if !isFA {
			return
		}
		fld := fieldName(fa.X.Type(), fa.Field)
		if _, isW := want[fld]; !isW {
			return
		}
		if got[fld] == nil {
			got[fld] = map[string]bool{}
		}
		if s, isS := constString(name); isS {
			got[fld][s] = true
		} else {
			got[fld]["?"+Path(name)] = true
		}
	}
	// direct form: ExtractInt64Param(params, name, &p.field)
	for _, c := range CallsIn(f, false, "utils.ExtractInt64Param") {
		a := c.Common().Args
		note(a[2], a[1])
	}
	// table form: {name, &p.field} rows walked by a loop
	Instrs(f, func(in ssa.Instruction) {
		st, isSt := in.(*ssa.Store)
		if !isSt {
			return
		}
		if _, isFA := st.Val.(*ssa.FieldAddr); !isFA {
			return
		}
		dstSlot, isSlot := st.Addr.(*ssa.FieldAddr) // row.dst = &p.field
		if !isSlot {
			return
		}
		for _, ref := range *dstSlot.X.Referrers() {
			sib, isSib := ref.(*ssa.FieldAddr)
			if !isSib || sib.Field == dstSlot.Field {
				continue
			}
			for _, r2 := range *sib.Referrers() {
				if s2, isS2 := r2.(*ssa.Store); isS2 && s2.Addr == ssa.Value(sib) {
					note(st.Val, s2.Val)
				}
			}
		}
	})
	for fld, name := range want {
		ok := len(got[fld]) == 1 && got[fld][name]
		r.Check(ok, rule, "queueProcessor.init/"+fld+"-from-its-own-parameter", f.Pos(), "%s is read from parameter %q (found %v)", fld, name, keysOf(got[fld]))
	}
}

// hrEnvOfItsOwn: the timeout the TTL guard compares with is read from its own environment variable.
func hrEnvOfItsOwn(w *World, r *Report, rule string) {
	for fn, cn := range map[string]string{"GetSpoeProcessingTimeout": "spoeProcessingTimeoutSecEnvVar", "GetLuaRetryRequestTimeout": "LuaRetryRequestTimeoutSecEnvVar"} {
		f := w.Fn("lunar/engine/utils/environment", fn)
		if f == nil {
			r.Undec(rule, fn, token.NoPos, "function not found")
			continue
		}
		want := w.constOf("lunar/engine/utils/environment", cn)
		names := map[string]bool{}
		Instrs(f, func(in ssa.Instruction) {
			if c, isC := in.(ssa.CallInstruction); isC && isCallTo(c, "os.Getenv", "os.LookupEnv") {
				if s, isS := constString(c.Common().Args[0]); isS {
					names[s] = true
				} else {
					names["?"+Path(c.Common().Args[0])] = true
				}
			}
		})
		ok := want != nil && len(names) == 1 && names[constant.StringVal(want)]
		r.Check(ok, rule, "environment."+fn+"/reads-its-own-variable", f.Pos(), "%s reads exactly %s (found %v)", fn, cn, keysOf(names))
	}
}

// hrResponseHeadersCopied: the action's header edits are written into the response, not the other way round.
func hrResponseHeadersCopied(w *World, r *Report, rule string) {
	f := w.Fn(pkgActions, "ModifyResponseAction.EnsureResponseIsUpdated")
	if f == nil {
		r.Undec(rule, "EnsureResponseIsUpdated", token.NoPos, "function not found")
		return
	}
	isDst := func(v ssa.Value) bool { return strings.HasSuffix(Path(v), "onResponse.Headers") }
	isSrc := func(v ssa.Value) bool { return strings.HasSuffix(Path(v), "lunarAction.HeadersToSet") }
	n, ok := 0, true
	Instrs(f, func(in ssa.Instruction) {
		switch x := in.(type) {
		case *ssa.MapUpdate:
			n++
			if !isDst(x.Map) || !Derives(x.Value, func(v ssa.Value) bool { return isSrc(v) }) {
				ok = false
			}
		case ssa.CallInstruction:
			if isCallTo(x, "maps.Copy") {
				n++
				a := x.Common().Args
				if !isDst(a[0]) || !isSrc(a[1]) {
					ok = false
				}
			}
		}
	})
	r.Check(ok && n == 1, rule, "ModifyResponseAction.EnsureResponseIsUpdated/headers-into-the-response", f.Pos(), "every entry of HeadersToSet is written into onResponse.Headers (destination and source not exchanged)")
}

// hrRebuiltEarlyResponse: the early response rebuilt after the response remedies is the modified response.
func hrRebuiltEarlyResponse(w *World, r *Report, rule string) {
	f := w.Fn(pkgRunner, "obtainModifiedEarlyResponse")
	if f == nil {
		r.Undec(rule, "obtainModifiedEarlyResponse", token.NoPos, "function not found")
		return
	}
	n := 0
	Instrs(f, func(in ssa.Instruction) {
		a, isA := in.(*ssa.Alloc)
		if !isA || structOf(a.Type()) != "EarlyResponseAction" {
			return
		}
		n++
		for _, fld := range []string{"Status", "Headers", "Body"} {
			v := singleFieldStoreByName(a, fld)
			ok := false
			if u, isU := v.(*ssa.UnOp); isU && u.Op == token.MUL {
				if fa, isFA := u.X.(*ssa.FieldAddr); isFA {
					_, tn := namedOf(fa.X.Type())
					ok = tn == "OnResponse" && fieldName(fa.X.Type(), fa.Field) == fld
				}
			}
			r.Check(ok, rule, "obtainModifiedEarlyResponse/rebuilt-from-the-response-message/"+fld, a.Pos(), "EarlyResponseAction.%s is read from the same field of the OnResponse message handed to the response remedies (not from the request)", fld)
		}
	})
	r.Check(n == 1, rule, "obtainModifiedEarlyResponse/rebuilt-action", f.Pos(), "one rebuilt EarlyResponseAction (%d found)", n)
}

// hrCleanAll: everything a payload can write is wiped.
func hrCleanAll(w *World, r *Report, rule string) {
	f := w.Fn(pkgConfig, "FileSystemOperation.CleanAll")
	if f == nil {
		r.Undec(rule, "CleanAll", token.NoPos, "function not found")
		return
	}
	// form A: both tables are walked
	walked := map[string]bool{}
	for _, c := range CallsIn(f, false, "FileSystemOperation).cleanUpDirectory", "FileSystemOperation).cleanUpFile") {
		a := margs(c)
		p := Path(a[0])
		for _, t := range []string{"directories", "files"} {
			if strings.Contains(p, "fs."+t) {
				for _, h := range loopHeadersOf(f) {
					if loopHas(h, c.Block()) && len(loopBreaks(h)) == 0 {
						walked[t] = true
					}
				}
			}
		}
	}
	if walked["directories"] && walked["files"] {
		r.Hold(rule, "CleanAll/wipes-every-target", f.Pos(), 2, "every directory and every file of the operation's tables is cleaned (errors returned)")
		return
	}
	// form B: every Clean* wrapper is called
	named := w.Named(pkgConfig, "FileSystemOperation")
	var miss []string
	n := 0
	if named != nil {
		for i := 0; i < named.NumMethods(); i++ {
			m := named.Method(i)
			if !strings.HasPrefix(m.Name(), "Clean") || m.Name() == "CleanAll" {
				continue
			}
			n++
			if len(CallsIn(f, false, "FileSystemOperation)."+m.Name())) == 0 {
				miss = append(miss, m.Name())
			}
		}
	}
	r.Check(n >= 4 && len(miss) == 0, rule, "CleanAll/wipes-every-target", f.Pos(), "either both tables are walked or every one of the %d Clean* operations is called (not called: %v)", n, miss)
}

// hrAllLocksReleased: every function that takes a lock releases it on every way out.
func hrAllLocksReleased(w *World, r *Report, la *LockAn, rule string, pkgPrefixes ...string) {
	n := 0
	for _, f := range w.lunarFns {
		if f.Origin() != nil {
			continue
		}
		in := false
		for _, p := range pkgPrefixes {
			if strings.HasPrefix(fnPkgPath(f), p) {
				in = true
			}
		}
		if !in || strings.HasSuffix(w.Fset.Position(f.Pos()).Filename, "_test.go") {
			continue
		}
		has := false
		Instrs(f, func(ins ssa.Instruction) {
			if op, _ := lockOp(ins); op == "Lock" || op == "RLock" {
				has = true
			}
		})
		if !has {
			continue
		}
		n++
		var keys []string
		for _, l := range la.Leaks(f) {
			keys = append(keys, l.Key+" at "+w.Pos(l.Ret.Pos()))
		}
		r.Check(len(keys) == 0, rule, "lock-released-on-every-exit/"+shortFn(fnID(f)), f.Pos(), "every lock taken in the function is released (or its release deferred) on every return (still held: %v)", keys)
	}
	r.Check(n >= 1, rule, "lock-released-on-every-exit/instances", token.NoPos, "%d lock-taking functions inspected in %v", n, pkgPrefixes)
}

// hrRemedyChainWalksAll: the remedy (diagnosis) chain of a request is built from every enabled entry.
func hrRemedyChainWalksAll(w *World, r *Report, rule string) {
	for _, name := range []string{"appendEndpointRemedies", "appendGlobalRemedies", "appendEndpointDiagnoses", "appendGlobalDiagnoses"} {
		f := w.Fn(pkgRunner, name)
		if f == nil {
			continue
		}
		hs := loopHeadersOf(f)
		ok := len(hs) >= 1
		var ex []string
		for _, h := range hs {
			ex = append(ex, loopExits(h, false)...)
		}
		ok = ok && len(ex) == 0
		// the pointer kept for an entry is into the slice that is being walked
		Instrs(f, func(in ssa.Instruction) {
			ia, isIA := in.(*ssa.IndexAddr)
			if !isIA {
				return
			}
			for _, b := range f.Blocks {
				for _, in2 := range b.Instrs {
					if ib, isIB := in2.(*ssa.IndexAddr); isIB && ib != ia && ib.Index == ia.Index {
						if _, isParam := peel(ib.X).(*ssa.Parameter); isParam || true {
							if Path(ib.X) != Path(ia.X) && strings.Contains(ia.Type().String(), "Remedy") && strings.Contains(ib.Type().String(), "Remedy") {
								ok = false
								ex = append(ex, "index of "+Path(ib.X)+" used on "+Path(ia.X))
							}
						}
					}
				}
			}
		})
		r.Check(ok, rule, name+"/every-enabled-entry-considered", f.Pos(), "the loop over the configured entries is left only when they are exhausted, and an entry's pointer indexes the slice being walked (%v)", ex)
	}
}

// hrTooManyRequestsStatus: the rejection carries the configured status.
func hrTooManyRequestsStatus(w *World, r *Report, rule string) {
	f := w.Fn(pkgRemedies, "plainTextTooManyRequestsAction")
	if f == nil {
		r.Undec(rule, "plainTextTooManyRequestsAction", token.NoPos, "function not found")
		return
	}
	ok, n := true, 0
	for _, alt := range ReturnAlts(f, 0) {
		n++
		if v := litField(alt.Val, "Status"); v == nil || Path(v) != "param:statusCode" {
			ok = false
		}
	}
	r.Check(ok && n == 1, rule, "plainTextTooManyRequestsAction/status-is-the-argument", f.Pos(), "the rejection's Status is the statusCode it was asked for (response_status_code of the remedy)")
}

// hrTotalCountsAllGroups: the queue's occupancy is the sum over every priority group.
func hrTotalCountsAllGroups(w *World, r *Report, rule string) {
	f := w.Fn(pkgQueue, "DelayedPriorityQueue.totalQueueCount")
	if f == nil {
		r.Undec(rule, "totalQueueCount", token.NoPos, "function not found")
		return
	}
	hs := loopHeadersOf(f)
	var ex []string
	for _, h := range hs {
		ex = append(ex, loopExits(h, false)...)
	}
	r.Check(len(hs) == 1 && len(ex) == 0, rule, "totalQueueCount/sums-every-group", f.Pos(), "the loop over requestCounts is left only when every group was visited (early exits: %v)", ex)
}

// ---------------------------------------------------------------------------
// part 8: ninth wave, second half

// hrMessageArgsByName: each field of the on-request / on-response message is read from the SPOE argument of its own name.
func hrMessageArgsByName(w *World, r *Report, rule string) {
	want := map[string]string{"ID": "id", "SequenceID": "sequence_id", "Method": "method", "URL": "url", "Scheme": "scheme", "Path": "path", "Query": "query"}
	for _, fn := range []string{"readRequestArgs", "readResponseArgs"} {
		f := w.Fn(pkgRouting, fn)
		if f == nil {
			r.Undec(rule, fn, token.NoPos, "function not found")
			continue
		}
		n := 0
		var bad []string
		for fld, arg := range want {
			for _, st := range fieldStores(f, fld) {
				if _, tn := namedOf(deref(st.Addr.(*ssa.FieldAddr).X.Type())); tn != "OnRequest" && tn != "OnResponse" {
					continue
				}
				v := peel(unhelp(st.Val))
				c, isC := v.(*ssa.Call)
				if !isC || !isCallTo(c, "routing.extractArg") {
					continue
				}
				n++
				if s, isS := constString(c.Call.Args[0]); !isS || s != arg {
					bad = append(bad, fld+"<-"+s)
				}
			}
		}
		r.Check(len(bad) == 0 && n >= 4, rule, fn+"/fields-from-arguments-of-their-own-name", f.Pos(), "id, sequence_id, method, url (...) are each stored in the field of that name (%d stores; mismatches %v): the policy version of a transaction is pinned under its id", n, bad)
	}
}

// hrDiagnosisWorkerKey: a finished transaction is diagnosed with the policies pinned under the key it was queued with.
func hrDiagnosisWorkerKey(w *World, r *Report, rule string) {
	f := w.Fn(pkgRunner, "DiagnosisWorker.diagnosisWorker")
	if f == nil {
		r.Undec(rule, "diagnosisWorker", token.NoPos, "function not found")
		return
	}
	cs := CallsIn(f, false, "PoliciesAccessor).GetTxnPoliciesData")
	ok := len(cs) == 1
	if ok {
		a := margs(cs[0])
		ok = strings.Contains(Path(a[0]), "param:diagnosisTasks") && !strings.Contains(Path(a[0]), "SequenceID")
	}
	r.Check(ok, rule, "diagnosisWorker/policies-of-the-queued-transaction-id", f.Pos(), "GetTxnPoliciesData is asked with the key received from the task queue (the transaction id the pin was made under)")
}

// hrWriteErrorReturned: applying raw policies reports a failed write of the policies file.
func hrWriteErrorReturned(w *World, r *Report, rule string) {
	f := w.Fn(pkgConfig, "TxnPoliciesAccessor.UpdateRawData")
	if f == nil {
		r.Undec(rule, "UpdateRawData", token.NoPos, "function not found")
		return
	}
	cs := CallsIn(f, false, "os.WriteFile")
	ok := len(cs) == 1 && errReturned(f, cs[0])
	r.Check(ok, rule, "UpdateRawData/write-error-returned", f.Pos(), "the error of writing the policies file is what UpdateRawData returns (the handler reloads from that file next)")
}

// hrEarlyResponseMessage: the synthetic on-response message of an early response describes that response and that request.
func hrEarlyResponseMessage(w *World, r *Report, rule string) {
	f := w.Fn(pkgRunner, "obtainModifiedEarlyResponse")
	if f == nil {
		r.Undec(rule, "obtainModifiedEarlyResponse", token.NoPos, "function not found")
		return
	}
	fromReq := map[string]bool{"ID": true, "SequenceID": true, "Method": true, "URL": true}
	n := 0
	Instrs(f, func(in ssa.Instruction) {
		a, isA := in.(*ssa.Alloc)
		if !isA || structOf(a.Type()) != "OnResponse" {
			return
		}
		if singleFieldStoreByName(a, "URL") == nil {
			return // a copy, not where the message is built
		}
		n++
		for _, fld := range []string{"ID", "SequenceID", "Method", "URL", "Status", "Headers", "Body"} {
			v := singleFieldStoreByName(a, fld)
			p := pathOrNone(v)
			var ok bool
			if fromReq[fld] {
				ok = strings.HasSuffix(p, "onRequest."+fld)
			} else {
				ok = strings.HasPrefix(p, "assert(") && strings.HasSuffix(p, "."+fld)
			}
			r.Check(ok, rule, "obtainModifiedEarlyResponse/message/"+fld, a.Pos(), "OnResponse.%s <- %s (want %s)", fld, trunc(p, 80), map[bool]string{true: "the request's " + fld, false: "the early response's " + fld}[fromReq[fld]])
		}
	})
	r.Check(n == 1, rule, "obtainModifiedEarlyResponse/message", f.Pos(), "one synthetic OnResponse message built (%d found)", n)
}

// hrAnyEnabledDiagnosis: a transaction is diagnosed when any applicable diagnosis is enabled.
func hrAnyEnabledDiagnosis(w *World, r *Report, rule string) {
	f := w.Fn(pkgRunner, "shouldDiagnose")
	if f == nil {
		r.Undec(rule, "shouldDiagnose", token.NoPos, "function not found")
		return
	}
	some, all := 0, 0
	Instrs(f, func(in ssa.Instruction) {
		if c, isC := in.(ssa.CallInstruction); isC {
			id := calleeID(c)
			if strings.Contains(id, "lo.SomeBy") || strings.Contains(id, "slices.ContainsFunc") {
				some++
			}
			if strings.Contains(id, "lo.EveryBy") || strings.Contains(id, "lo.NoneBy") {
				all++
			}
		}
	})
	for _, alt := range ReturnAlts(f, 0) {
		if b, isB := constBool(alt.Val); isB && b {
			inLoop := false
			for _, h := range loopHeadersOf(f) {
				if loopHas(h, alt.Ret.Block()) || len(alt.Conds) > 0 && loopHas(h, alt.Conds[len(alt.Conds)-1].If.Block()) {
					inLoop = true
				}
			}
			if inLoop {
				some++
			}
		}
	}
	r.Check(some >= 2 && all == 0, rule, "shouldDiagnose/any-enabled-diagnosis", f.Pos(), "both the global and the endpoint list are asked whether ANY entry is enabled (%d any-tests, %d all/none-tests)", some, all)
}

// hrFreshElementPerIteration: what a loop appends by address is created inside that loop.
func hrFreshElementPerIteration(w *World, r *Report, rule string, pkg string, fns ...string) {
	n := 0
	for _, name := range fns {
		f := w.Fn(pkg, name)
		if f == nil {
			continue
		}
		hs := loopHeadersOf(f)
		ok := true
		var bad []string
		Instrs(f, func(in ssa.Instruction) {
			c, isC := in.(*ssa.Call)
			if !isC {
				return
			}
			b, isB := c.Call.Value.(*ssa.Builtin)
			if !isB || b.Name() != "append" || len(c.Call.Args) != 2 {
				return
			}
			var loop *ssa.BasicBlock
			for _, h := range hs {
				if loopHas(h, c.Block()) {
					loop = h
				}
			}
			if loop == nil {
				return
			}
			var base ssa.Value = c.Call.Args[1]
			if sl, isSl := base.(*ssa.Slice); isSl {
				base = sl.X
			}
			for _, st := range partStores(base, 2) {
				a, isA := st.Val.(*ssa.Alloc)
				if !isA || !a.Heap {
					continue
				}
				n++
				if !loopHas(loop, a.Block()) {
					ok = false
					bad = append(bad, w.Pos(a.Pos()))
				}
			}
		})
		r.Check(ok, rule, name+"/appended-element-is-created-in-the-iteration", f.Pos(), "every element appended by address inside the loop is a variable of that iteration (declared outside: %v)", bad)
	}
	r.Check(n >= 1, rule, "appended-elements/instances", token.NoPos, "%d by-address appends inspected in %v", n, fns)
}

// hrWildcardIsAWholePart: a URL part is the wildcard only when it is exactly "*".
func hrWildcardIsAWholePart(w *World, r *Report, rule string) {
	f := w.Fn(pkgURLTree, "validateURL")
	if f == nil {
		r.Undec(rule, "validateURL", token.NoPos, "function not found")
		return
	}
	eq, sub := 0, 0
	Instrs(f, func(in ssa.Instruction) {
		switch x := in.(type) {
		case *ssa.BinOp:
			if x.Op == token.EQL || x.Op == token.NEQ {
				if s, isS := constString(x.Y); isS && s == "*" {
					eq++
				}
				if s, isS := constString(x.X); isS && s == "*" {
					eq++
				}
			}
		case ssa.CallInstruction:
			if isCallTo(x, "strings.Contains", "strings.HasPrefix", "strings.HasSuffix", "strings.ContainsRune", "strings.Index") {
				for _, a := range x.Common().Args {
					if s, isS := constString(a); isS && s == "*" {
						sub++
					}
				}
			}
		}
	})
	r.Check(eq >= 1 && sub == 0, rule, "validateURL/wildcard-is-a-whole-part", f.Pos(), "a part counts as the wildcard by equality with \"*\" (%d tests), never by containing it (%d tests): `a*b` is a literal part", eq, sub)
}

// hrEveryRunResultParses: each run result the engine writes into the access log is read back.
func hrEveryRunResultParses(w *World, r *Report, rule string) {
	for _, e := range []struct{ fn, typ string }{{"ParseRemedyRespRunResult", "RemedyRespRunResult"}, {"ParseRemedyReqRunResult", "RemedyReqRunResult"}} {
		f := w.Fn("lunar/shared-model/actions", e.fn)
		named := w.Named("lunar/shared-model/actions", e.typ)
		if f == nil || named == nil {
			r.Undec(rule, e.fn, token.NoPos, "function or type not found")
			continue
		}
		// the constants of the type
		all := map[int64]string{}
		var max int64 = -1
		sc := named.Obj().Pkg().Scope()
		for _, nm := range sc.Names() {
			if c, isC := sc.Lookup(nm).(*types.Const); isC && types.Identical(c.Type(), named) {
				if v, isV := constant.Int64Val(c.Val()); isV {
					all[v] = nm
					if v > max {
						max = v
					}
				}
			}
		}
		got := map[int64]bool{}
		loopOK := false
		for _, alt := range ReturnAlts(f, 0) {
			if k, isK := constInt(alt.Val); isK {
				got[k] = true
				continue
			}
			// loop form: the returned value is the loop variable, bounded by the last constant inclusively
			for _, rel := range relsOfConds(alt.Conds) {
				ph, isPhi := peel(rel.L).(*ssa.Phi)
				if k, isK := constInt(rel.R); isK && isPhi && types.Identical(ph.Type(), named) && (rel.Op == "<=" && k == max || rel.Op == "<" && k == max+1) {
					for _, h := range loopHeadersOf(f) {
						if ph.Block() == h {
							loopOK = true
						}
					}
				}
			}
		}
		var miss []string
		for v, nm := range all {
			if !got[v] && !loopOK && nm != "RespUndefined" && nm != "ReqUndefined" && !strings.Contains(nm, "Undefined") {
				miss = append(miss, nm)
			}
		}
		sort.Strings(miss)
		r.Check(len(miss) == 0 && len(all) >= 3, rule, e.fn+"/every-value-parses", f.Pos(), "every %s constant can be the result (missing %v; loop over all values=%v)", e.typ, miss, loopOK)
	}
}

// hrDecodeKeepsAccumulated: a record that does not decode is skipped; what was decoded before it stays.
func hrDecodeKeepsAccumulated(w *World, r *Report, rule string) {
	f := w.Fn(pkgDisc, "DecodeRecords")
	if f == nil {
		r.Undec(rule, "DecodeRecords", token.NoPos, "function not found")
		return
	}
	ok, n := true, 0
	var bad []string
	seen := map[ssa.Value]bool{}
	var walk func(v ssa.Value, d int)
	walk = func(v ssa.Value, d int) {
		if v == nil || seen[v] || d > 12 {
			return
		}
		seen[v] = true
		switch x := v.(type) {
		case *ssa.Phi:
			for _, e := range x.Edges {
				walk(e, d+1)
			}
		case *ssa.Const:
			if x.Value == nil {
				ok = false
				bad = append(bad, "nil")
			}
		case *ssa.Call:
			if b, isB := x.Call.Value.(*ssa.Builtin); isB && b.Name() == "append" {
				walk(x.Call.Args[0], d+1)
			}
		case *ssa.Extract:
			if c, isC := x.Tuple.(*ssa.Call); isC {
				if h := helperCall(c); h != nil {
					for _, alt := range ReturnAlts(h.fn, x.Index) {
						walk(alt.Val, d+1)
					}
				}
			}
		case *ssa.Parameter:
			if u := unhelp(x); u != ssa.Value(x) {
				walk(u, d+1)
			}
		}
	}
	for _, alt := range ReturnAlts(f, 0) {
		n++
		walk(alt.Val, 0)
	}
	r.Check(ok && n >= 1, rule, "DecodeRecords/accumulated-records-survive-a-bad-one", f.Pos(), "the returned slice only ever grows by append; no path resets it (%v)", bad)
}

// hrObfuscationFlagAlwaysRead: whether obfuscation is on does not depend on the exclusions being given.
func hrObfuscationFlagAlwaysRead(w *World, r *Report, rule string) {
	f := w.Fn("lunar/engine/streams/processors/har-collector", "harCollectorProcessor.init")
	if f == nil {
		r.Undec(rule, "harCollectorProcessor.init", token.NoPos, "function not found")
		return
	}
	var flag ssa.CallInstruction
	for _, c := range CallsIn(f, false, "utils.ExtractBoolParam") {
		if strings.HasSuffix(Path(c.Common().Args[2]), ".obfuscateEnabled") {
			flag = c
		}
	}
	ok := flag != nil
	var dep []string
	if ok {
		for _, cd := range append(CondsOf(flag.Block()), siteConds(flag.Block(), 3)...) {
			if p := Path(cd.V); strings.Contains(p, "ExtractListOfStringParam") {
				ok = false
				dep = append(dep, trunc(p, 60))
			}
		}
		// and it is on the way to the successful return
		for _, alt := range ReturnAlts(f, 0) {
			if isNilConst(alt.Val) && !domInstr(flag, alt.Ret) {
				ok = false
				dep = append(dep, "a successful return not preceded by the read")
			}
		}
	}
	r.Check(ok, rule, "harCollectorProcessor.init/obfuscate-flag-read-on-every-successful-init", f.Pos(), "obfuscate_enabled is read whether or not obfuscate_exclusions is given (depends on: %v)", dep)
}

// hrDecompressFallsBackToRaw: a body that does not decompress is exported as it is (and obfuscated), not replaced.
func hrDecompressFallsBackToRaw(w *World, r *Report, rule string) {
	for _, loc := range []struct{ pkg, fn string }{{"lunar/engine/services/diagnoses", "ensureDecompressedBody"}} {
		f := w.Fn(loc.pkg, loc.fn)
		if f == nil {
			r.Undec(rule, loc.fn, token.NoPos, "function not found")
			continue
		}
		ok, n := true, 0
		for _, alt := range ReturnAlts(f, 0) {
			n++
			failed := condsHave(alt.Conds, true, func(v ssa.Value) bool {
				return strings.Contains(Path(v), "DecompressGZip(") && strings.HasSuffix(Path(v), "#1 != nil)")
			})
			for _, rel := range relsOfConds(alt.Conds) {
				if rel.Op == "!=" && isNilConst(rel.R) && strings.Contains(Path(rel.L), "DecompressGZip(") {
					failed = true
				}
			}
			succeeded := false
			for _, rel := range relsOfConds(alt.Conds) {
				if rel.Op == "==" && isNilConst(rel.R) && strings.Contains(Path(rel.L), "DecompressGZip(") {
					succeeded = true
				}
			}
			p := Path(alt.Val)
			if failed && p != "param:rawBody" {
				ok = false
			}
			if strings.Contains(p, "DecompressGZip(") && !succeeded {
				ok = false // the decompressor's result is used although it may have failed
			}
			if !failed && p != "param:rawBody" && !strings.Contains(p, "DecompressGZip(") {
				ok = false
			}
		}
		r.Check(ok && n >= 2, rule, loc.fn+"/raw-body-when-decompression-fails", f.Pos(), "the result is the decompressed body, or the raw body when there is nothing to decompress or decompression fails (%d returns)", n)
	}
}

// hrHARPluginHasher: the legacy HAR exporter hashes what it obfuscates.
func hrHARPluginHasher(w *World, r *Report, rule string) {
	n, ok := 0, true
	for _, cs := range w.CallSites("diagnoses.NewHARGeneratorPlugin") {
		if strings.HasSuffix(w.Fset.Position(cs.In.Pos()).Filename, "_test.go") {
			continue
		}
		n++
		found := false
		for _, a := range cs.In.Common().Args {
			if structOf(a.Type()) != "Obfuscator" {
				continue
			}
			h := litField(a, "Hasher")
			if h == nil {
				continue
			}
			if mi, isMI := peel(h).(*ssa.MakeInterface); isMI && structOf(mi.X.Type()) == "MD5Hasher" {
				found = true
			} else if structOf(peel(h).Type()) == "MD5Hasher" {
				found = true
			}
		}
		if !found {
			ok = false
		}
	}
	r.Check(ok && n >= 1, rule, "NewHARGeneratorPlugin/md5-hasher", token.NoPos, "the engine builds the HAR generator with Obfuscator{Hasher: MD5Hasher{}} (%d construction sites)", n)
}

// hrDuplicateEdgeByEquality: an edge is a duplicate when it equals an existing one, not when it is the same pointer.
func hrDuplicateEdgeByEquality(w *World, r *Report, rule string) {
	f := w.Fn(pkgFlow, "FlowGraphNode.addEdge")
	if f == nil {
		r.Undec(rule, "addEdge", token.NoPos, "function not found")
		return
	}
	byEqual := len(CallsIn(f, false, "ConnectionEdge).equal")) > 0
	ptr := 0
	Instrs(f, func(in ssa.Instruction) {
		switch x := in.(type) {
		case *ssa.MakeClosure:
			if fn, isFn := x.Fn.(*ssa.Function); isFn && strings.Contains(fn.Name(), "equal") {
				byEqual = true
			}
		case ssa.CallInstruction:
			if isCallTo(x, "slices.Contains", "slices.Index") {
				ptr++
			}
		case *ssa.BinOp:
			if x.Op == token.EQL && strings.Contains(x.X.Type().String(), "ConnectionEdge") {
				ptr++
			}
		}
	})
	r.Check(byEqual && ptr == 0, rule, "addEdge/duplicate-decided-by-equal", f.Pos(), "an edge is skipped when ConnectionEdge.equal says it already exists (by-equality=%v, pointer comparisons=%d): a Retry reached twice must not run twice", byEqual, ptr)
}

// hrCycleCheckSkippedOnlyWithoutRoot: only a response direction WITHOUT a root is exempt from the cycle check.
func hrCycleCheckSkippedOnlyWithoutRoot(w *World, r *Report, rule string) {
	n := 0
	for _, name := range []string{"validateDirection", "detectCircularConnections"} {
		f := w.Fn(pkgFlow, name)
		if f == nil {
			r.Undec(rule, name, token.NoPos, "function not found")
			continue
		}
		for _, alt := range ReturnAlts(f, 0) {
			if !isNilConst(alt.Val) {
				continue
			}
			isResp := condsHave(alt.Conds, true, func(v ssa.Value) bool { return isCallTo0(v, "StreamType).IsResponseType", "FlowType).IsResponseType") })
			if !isResp {
				continue
			}
			n++
			noRoot := condsHave(alt.Conds, false, func(v ssa.Value) bool { return isCallTo0(v, "FlowDirection).HasValidRoot") })
			r.Check(noRoot, rule, name+"/response-direction-exempt-only-without-root", posOf(alt.Ret), "a response direction leaves validation early only when it has no valid root (a rooted response graph is walked for cycles: a retry output routed back into Retry never ends)")
		}
	}
	r.Check(n >= 1, rule, "cycle-check/exemptions", token.NoPos, "%d early exits for response directions inspected", n)
}

// hrNewResponseKeepsIdentity: every response object built from a message carries its ids.
func hrNewResponseKeepsIdentity(w *World, r *Report, rule string) {
	f := w.Fn(pkgStreamTypes, "NewResponse")
	if f == nil {
		r.Undec(rule, "NewResponse", token.NoPos, "function not found")
		return
	}
	n := 0
	Instrs(f, func(in ssa.Instruction) {
		a, isA := in.(*ssa.Alloc)
		if !isA || structOf(a.Type()) != "OnResponse" || !a.Heap {
			return
		}
		if pk, _ := namedOf(deref(a.Type())); pk != pkgStreamTypes {
			return
		}
		n++
		var miss []string
		for _, fld := range []string{"ID", "SequenceID", "Method", "URL", "Status", "Headers"} {
			v := singleFieldStoreByName(a, fld)
			if v == nil || !strings.HasSuffix(Path(v), "onResponse."+fld) {
				miss = append(miss, fld)
			}
		}
		r.Check(len(miss) == 0, rule, "NewResponse/identity-fields-copied", a.Pos(), "ID, SequenceID, Method, URL, Status and Headers are copied from the message (missing %v): the retry counter is kept per sequence id", miss)
	})
	r.Check(n >= 1, rule, "NewResponse/literals", f.Pos(), "%d response objects built", n)
}

// hrTruncatingWrite: a snapshot file is replaced, not overwritten in place.
func hrTruncatingWrite(w *World, r *Report, rule string) {
	f := w.Fn("lunar/toolkit-core/configuration", "EncodeYAML")
	if f == nil {
		r.Undec(rule, "EncodeYAML", token.NoPos, "function not found")
		return
	}
	ok := len(CallsIn(f, false, "os.WriteFile")) == 1
	for _, c := range CallsIn(f, false, "os.OpenFile") {
		if k, isK := constInt(c.Common().Args[1]); isK && k&int64(os.O_TRUNC) != 0 && k&int64(os.O_APPEND) == 0 {
			ok = true
		} else {
			ok = false
		}
	}
	if len(CallsIn(f, false, "os.Create")) == 1 {
		ok = true
	}
	r.Check(ok, rule, "EncodeYAML/truncating-write", f.Pos(), "the file is written with os.WriteFile / os.Create / O_TRUNC (a shorter document must not keep the tail of the longer one before it)")
}

// hrHealthyIsConjunction: past the presence checks the predicate is rate == healthy AND last session > max.
func hrHealthyIsConjunction(w *World, r *Report, rule string) {
	f := w.Fn(pkgFailsafe, "areSPOEConnectionsHealthy")
	if f == nil {
		r.Undec(rule, "areSPOEConnectionsHealthy", token.NoPos, "function not found")
		return
	}
	// the two comparisons of a statistic with its configured value (not the error checks of reading that value)
	isRate := func(a string) bool {
		return strings.Contains(a, ".SessionRate") && strings.Contains(a, "HealthySessionRate()#0") && strings.Contains(a, " == ")
	}
	isLast := func(a string) bool {
		return strings.Contains(a, ".LastSession") && strings.Contains(a, "HealthyMaxLastSession()#0") && strings.Contains(a, " < ")
	}
	nT, nF, ok := 0, 0, true
	for _, c := range decisionOf(f, 0) {
		evaluated := false
		var rate, last *bool
		for a, pol := range c.lits {
			p := pol
			if strings.HasSuffix(a, ".LastSession == nil)") && !pol {
				evaluated = true
			}
			if isRate(a) {
				rate = &p
			}
			if isLast(a) {
				last = &p
			}
		}
		if !evaluated || (rate == nil && last == nil) {
			continue
		}
		switch c.val {
		case "true":
			nT++
			if rate == nil || last == nil || !*rate || !*last {
				ok = false
			}
		case "false":
			nF++
			if !(rate != nil && !*rate || last != nil && !*last) {
				ok = false
			}
		}
	}
	r.Check(ok && nT >= 1 && nF >= 1, rule, "areSPOEConnectionsHealthy/rate-and-last-session", f.Pos(), "with both statistics present the answer is true exactly when the session rate equals the healthy rate AND the last session is older than the maximum (%d true rows, %d false rows)", nT, nF)
}

// hrGlobalUnmanagedWithEndpoints: the immediate unmanage path drops manage-all whenever it has to, whatever the endpoint difference is.
func hrGlobalUnmanagedWithEndpoints(w *World, r *Report, rule string) {
	f := w.Fn(pkgConfig, "TxnPoliciesAccessor.UpdatePoliciesData")
	if f == nil {
		r.Undec(rule, "UpdatePoliciesData", token.NoPos, "function not found")
		return
	}
	cs := CallsIn(f, false, "config.unmanageGlobalVoided")
	ok := len(cs) >= 1
	var extra []string
	for _, c := range cs {
		for _, cd := range append(CondsOf(c.Block()), siteConds(c.Block(), 3)...) {
			p := Path(cd.V)
			switch {
			case p == "param:unmanageImmediately" && cd.Pol:
			case strings.Contains(p, "ManageAll"):
			case strings.Contains(p, "ManageHAProxyEndpoints(") || strings.Contains(p, "!= nil") && !cd.Pol:
			default:
				ok = false
				extra = append(extra, trunc(condsString([]Cond{cd}), 80))
			}
		}
	}
	r.Check(ok, rule, "UpdatePoliciesData/global-unmanaged-at-once-when-needed", f.Pos(), "unmanageGlobalVoided runs under unmanageImmediately and the manage-all difference only (further conditions: %v)", extra)
}

// ---------------------------------------------------------------------------
// part 9: tenth wave (tiny edits two or three calls away)

// hrWildcardConstant: the expression a trailing wildcard is registered as matches the bare prefix
// and everything below it (the URL tree accepts `host` for pattern `host/*`).
func hrWildcardConstant(w *World, r *Report, rule string) {
	c := w.constOf(pkgConfig, "RegexToReplaceWildcard")
	if c == nil {
		r.Undec(rule, "RegexToReplaceWildcard", token.NoPos, "constant not found")
		return
	}
	s := constant.StringVal(c)
	re, err := regexp.Compile("^prefix" + s + "$")
	ok := err == nil
	var miss []string
	if ok {
		for _, u := range []string{"prefix", "prefix/", "prefix/a", "prefix/a/b"} {
			if !re.MatchString(u) {
				ok = false
				miss = append(miss, u)
			}
		}
		if re.MatchString("prefixed") {
			ok = false
			miss = append(miss, "matches prefixed")
		}
	}
	r.Check(ok, rule, "RegexToReplaceWildcard/matches-prefix-and-everything-below", token.NoPos, "the wildcard is registered as %q: it matches the bare prefix and every path below it, nothing else (not so for %v)", s, miss)
}

// hrProcessorCallsOnlyItsOperation: the Inc (Dec) processor performs Inc (Dec) on the quota and nothing else
// (asking `Allowed` consumes the per-request memo of the quota and its ancestors).
func hrProcessorCallsOnlyItsOperation(w *World, r *Report, rule string) {
	for _, e := range []struct{ pkg, fn, op string }{
		{"lunar/engine/streams/processors/quota-processor-inc", "quotaProcessorInc.Execute", "Inc"},
		{"lunar/engine/streams/processors/quota-processor-dec", "quotaProcessorDec.Execute", "Dec"},
	} {
		f := w.Fn(e.pkg, e.fn)
		if f == nil {
			r.Undec(rule, e.fn, token.NoPos, "function not found")
			continue
		}
		ops := map[string]bool{}
		Instrs(f, func(in ssa.Instruction) {
			c, isC := in.(ssa.CallInstruction)
			if !isC {
				return
			}
			id := calleeID(c)
			for _, m := range []string{"Inc", "Dec", "Allowed", "Reset", "Update"} {
				if strings.HasSuffix(id, "QuotaResourceI)."+m) || strings.HasSuffix(id, "ResourceAdmI)."+m) {
					ops[m] = true
				}
			}
		})
		r.Check(len(ops) == 1 && ops[e.op], rule, e.fn+"/only-"+e.op, f.Pos(), "the processor calls %s on the quota and no other admission operation (found %v)", e.op, keysOf(ops))
	}
}

// hrSetInt64Stores: a counter write is a write, for every value.
func hrSetInt64Stores(w *World, r *Report, rule string) {
	f := w.Fn(pkgLctx, "memoryState.setInt64")
	if f == nil {
		r.Undec(rule, "memoryState.setInt64", token.NoPos, "function not found")
		return
	}
	cs := CallsIn(f, false, "ContextI).Set", "contextMemory).Set")
	ok := len(cs) == 1 && len(CondsOf(cs[0].Block())) == 0 && alwaysRuns(cs[0])
	if ok {
		a := margs(cs[0])
		ok = Path(a[0]) == "param:key" && Path(a[1]) == "param:value"
	}
	r.Check(ok, rule, "memoryState.setInt64/stores-every-value", f.Pos(), "setInt64 stores (key, value) unconditionally (a zero written over a full counter must replace it)")
}

// hrCacheFailureDoesNotFailTheTransaction: a response whose cache key cannot be built is passed on, not failed.
func hrCacheFailureDoesNotFailTheTransaction(w *World, r *Report, rule string) {
	f := w.Fn("lunar/engine/streams/processors/write-cache", "writeCacheProcessor.Execute")
	if f == nil {
		r.Undec(rule, "writeCacheProcessor.Execute", token.NoPos, "function not found")
		return
	}
	n, ok := 0, true
	for _, alt := range ReturnAlts(f, 1) {
		keyFailed := false
		for _, rel := range relsOfConds(alt.Conds) {
			if p := Path(rel.L); rel.Op == "!=" && isNilConst(rel.R) && strings.HasPrefix(p, "utils.BuildSharedMemoryKey(") && strings.HasSuffix(p, "#1") {
				keyFailed = true
			}
		}
		if keyFailed {
			n++
			if !isNilConst(alt.Val) {
				ok = false
			}
		}
	}
	r.Check(ok && n >= 1, rule, "writeCacheProcessor.Execute/unbuildable-key-is-not-an-error", f.Pos(), "when the cache key cannot be built the processor returns a no-op without an error (an error aborts the response walk and the quota's Dec never runs)")
}

// hrSetTypeStores: the stream's type is what it was last set to.
func hrSetTypeStores(w *World, r *Report, rule string) {
	f := w.Fn(pkgStreamTypes, "APIStream.SetType")
	if f == nil {
		r.Undec(rule, "APIStream.SetType", token.NoPos, "function not found")
		return
	}
	st := fieldStores(f, "streamType")
	ok := len(st) == 1 && len(CondsOf(st[0].Block())) == 0 && alwaysRuns(st[0]) && st[0].Val == ssa.Value(f.Params[1])
	r.Check(ok, rule, "APIStream.SetType/always-stores", f.Pos(), "SetType stores the given type unconditionally (executeReq switches an answered request to the response side before any response message exists)")
}

// hrSystemFlowsLookedUpAlways: a node's system flows do not depend on the node having a user flow.
func hrSystemFlowsLookedUpAlways(w *World, r *Report, rule string) {
	f := w.Fn(pkgFilter, "FilterNode.getFlow")
	if f == nil {
		r.Undec(rule, "FilterNode.getFlow", token.NoPos, "function not found")
		return
	}
	cs := CallsIn(f, false, "FilterNode).getSystemFlow")
	ok := len(cs) >= 2
	for _, c := range cs {
		for _, cd := range CondsOf(c.Block()) {
			if strings.Contains(Path(cd.V), "getUserFlow(") {
				ok = false
			}
		}
	}
	r.Check(ok, rule, "FilterNode.getFlow/system-flows-independent-of-user-flow", f.Pos(), "getSystemFlow(start/end) is evaluated whether or not the node has a valid user flow (%d calls): a quota's flows on host/* wrap a user flow declared on host/items", len(cs))
}

// hrFlowDataComplete: a resource's flow data, where a strategy has one, is complete.
func hrFlowDataComplete(w *World, r *Report, rule string) {
	n := 0
	for _, f := range w.lunarFns {
		if f.Origin() != nil || !strings.HasPrefix(fnPkgPath(f), "lunar/engine/streams/resources") || strings.HasSuffix(w.Fset.Position(f.Pos()).Filename, "_test.go") {
			continue
		}
		Instrs(f, func(in ssa.Instruction) {
			a, isA := in.(*ssa.Alloc)
			if !isA || structOf(a.Type()) != "ResourceFlowData" || !a.Heap {
				return
			}
			if singleFieldStoreByName(a, "ID") == nil && singleFieldStoreByName(a, "Filter") == nil {
				return
			}
			n++
			pc := singleFieldStoreByName(a, "ProcessorsConnections")
			r.Check(pc != nil && !isNilConst(pc), rule, "ResourceFlowData/"+shortFn(fnID(outermost(f)))+"/connections-initialised", a.Pos(), "a ResourceFlowData that is filled in has its ProcessorsConnections set (addSystemFlow calls it for every resource that has flow data)")
		})
	}
	r.Check(n >= 1, rule, "ResourceFlowData/literals", token.NoPos, "%d flow-data literals inspected", n)
}

// hrFirstElementOnlyWhenPresent: arr[0] is read only where the array has an element.
func hrFirstElementOnlyWhenPresent(w *World, r *Report, rule string) {
	f := w.Fn("lunar/engine/streams/processors/utils", "BuildSharedMemoryKey")
	if f == nil {
		r.Undec(rule, "BuildSharedMemoryKey", token.NoPos, "function not found")
		return
	}
	n := 0
	Instrs(f, func(in ssa.Instruction) {
		ia, isIA := in.(*ssa.IndexAddr)
		if !isIA || !isIntConst(ia.Index, 0) {
			return
		}
		if _, isSlice := ia.X.Type().Underlying().(*types.Slice); !isSlice {
			return
		}
		n++
		ok := false
		for _, rel := range Rels(ia.Block()) {
			l, isLen := peel(rel.L).(*ssa.Call)
			if !isLen {
				continue
			}
			if b, isB := l.Call.Value.(*ssa.Builtin); !isB || b.Name() != "len" || !sameVal(l.Call.Args[0], ia.X) {
				continue
			}
			k, isK := constInt(rel.R)
			if !isK {
				continue
			}
			switch rel.Op {
			case "==":
				ok = ok || k >= 1
			case ">":
				ok = ok || k >= 0
			case ">=":
				ok = ok || k >= 1
			case "!=":
				ok = ok || k == 0
			}
		}
		r.Check(ok, rule, "BuildSharedMemoryKey/first-element-only-of-a-non-empty-list", posOf(ia), "x[0] is read under a condition that makes the list non-empty")
	})
	r.Check(n >= 1, rule, "BuildSharedMemoryKey/first-element-reads", f.Pos(), "%d reads of a first element inspected", n)
}

// hrLabelMapNeverNil: the label map handed to the metric attribute builders is a map on every path.
func hrLabelMapNeverNil(w *World, r *Report, rule string) {
	f := w.Fn("lunar/engine/metrics", "LabelManager.GetAPICallAttributes")
	if f == nil {
		r.Undec(rule, "GetAPICallAttributes", token.NoPos, "function not found")
		return
	}
	ok, n := true, 0
	for _, alt := range ReturnAlts(f, 1) {
		n++
		if _, isMk := peel(unhelp(alt.Val)).(*ssa.MakeMap); !isMk {
			ok = false
		}
	}
	r.Check(ok && n >= 1, rule, "GetAPICallAttributes/label-map-is-a-map-on-every-return", f.Pos(), "every return gives a made map (GetProcessorMetricsFullAttributes writes the gateway id into it)")
}

// hrQueuedRequestIdentity: a waiting request is known to the queue by its own id.
func hrQueuedRequestIdentity(w *World, r *Report, rule string) {
	f := w.Fn(pkgQProc, "Request.GetID")
	if f == nil {
		r.Undec(rule, "queue.Request.GetID", token.NoPos, "function not found")
		return
	}
	ok, n := true, 0
	for _, alt := range ReturnAlts(f, 0) {
		n++
		if !isCallTo0(alt.Val, "APIStreamI).GetID") {
			ok = false
		}
	}
	r.Check(ok && n == 1, rule, "queue.Request.GetID/own-transaction-id", f.Pos(), "the key of a waiting request is apiStream.GetID() (two requests of one sequence wait side by side)")
}

// hrOutputParamsWrittenInPlace: an Extract*Param helper fills the object it was given.
func hrOutputParamsWrittenInPlace(w *World, r *Report, rule string) {
	f := w.Fn("lunar/engine/streams/processors/utils", "ExtractMapOfInt64Param")
	if f == nil {
		r.Undec(rule, "ExtractMapOfInt64Param", token.NoPos, "function not found")
		return
	}
	ok, n := true, 0
	Instrs(f, func(in ssa.Instruction) {
		if mu, isMU := in.(*ssa.MapUpdate); isMU {
			n++
			m := mu.Map
			if u, isU := m.(*ssa.UnOp); isU && u.Op == token.MUL {
				if a, isA := u.X.(*ssa.Alloc); isA { // the parameter, spilled because its address is taken
					if sv := singleStore(a); sv != nil {
						m = sv
					} else {
						m = nil // assigned again inside the helper
					}
				}
			}
			if _, isP := m.(*ssa.Parameter); !isP {
				ok = false
			}
		}
	})
	r.Check(ok && n >= 1, rule, "ExtractMapOfInt64Param/fills-the-callers-map", f.Pos(), "the values are written into the map parameter itself (a map made inside the helper is lost: priority groups would silently be empty)")
}

// hrHeadersAliasing: two places rely on the action and the message sharing one header map.
func hrHeadersAliasing(w *World, r *Report, rule string) {
	if f := w.Fn("lunar/engine/services/authentication", "OAuth.OnRequest"); f == nil {
		r.Undec(rule, "OAuth.OnRequest", token.NoPos, "function not found")
	} else {
		ok, n := true, 0
		for _, alt := range ReturnAlts(f, 0) {
			if isNilConst(alt.Val) || structOf(peel(alt.Val).Type()) != "GenerateRequestAction" {
				continue
			}
			n++
			hs := litField(alt.Val, "HeadersToSet")
			rm := litField(alt.Val, "HeadersToRemove")
			if hs == nil || !strings.HasSuffix(Path(hs), "onRequest.Headers") || rm == nil {
				ok = false
			}
			if c, isC := peel(hs).(*ssa.Call); isC && c != nil {
				ok = false
			}
		}
		r.Check(ok && n >= 1, rule, "OAuth.OnRequest/headers-to-set-is-the-request-map", f.Pos(), "GenerateRequestAction.HeadersToSet is onRequest.Headers itself: HeadersToRemove takes effect by deleting from that shared map when the request is updated")
	}
	if f := w.Fn(pkgRunner, "getOnResponseRunResult"); f == nil {
		r.Undec(rule, "getOnResponseRunResult", token.NoPos, "function not found")
	} else {
		cs := CallsIn(f, false, "runner.runOnResponse")
		ok := len(cs) == 1 && Path(cs[0].Common().Args[0]) == "param:onResponse"
		if ok {
			if _, isC := peel(cs[0].Common().Args[0]).(*ssa.Call); isC {
				ok = false
			}
		}
		r.Check(ok, rule, "getOnResponseRunResult/remedies-see-the-callers-message", f.Pos(), "runOnResponse is given onResponse itself (its header map is the one the rebuilt early response is read from)")
	}
	if f := w.Fn(pkgRemedies, "plainTextTooManyRequestsAction"); f != nil {
		ok, n := true, 0
		for _, alt := range ReturnAlts(f, 0) {
			n++
			h := litField(alt.Val, "Headers")
			if _, isMk := peel(h).(*ssa.MakeMap); h == nil || !isMk {
				ok = false
			}
		}
		r.Check(ok && n == 1, rule, "plainTextTooManyRequestsAction/fresh-header-map", f.Pos(), "every rejection gets its own header map (response remedies write their edits into it)")
	}
}

// hrNotifyHubInBackground: waiting for the Hub does not hold up a reload.
func hrNotifyHubInBackground(w *World, r *Report, rule string) {
	f := w.Fn(pkgStreams, "Stream.notifyHub")
	if f == nil {
		r.Undec(rule, "Stream.notifyHub", token.NoPos, "function not found")
		return
	}
	nGo, nCall := 0, 0
	Instrs(f, func(in ssa.Instruction) {
		switch x := in.(type) {
		case *ssa.Go:
			if strings.Contains(calleeID(x), "notifyHubWhenAvailable") {
				nGo++
			}
		case *ssa.Call:
			if strings.Contains(calleeID(x), "notifyHubWhenAvailable") {
				nCall++
			}
		}
	})
	r.Check(nGo >= 1 && nCall == 0, rule, "Stream.notifyHub/waits-in-the-background", f.Pos(), "notifyHubWhenAvailable is started with `go` (%d) and never called inline (%d): initializeStreams must return so that the new endpoints are registered and the handler answers", nGo, nCall)
}

// hrBackupChecksumKeys: the checksum of a backed-up file is kept under the key of its content.
func hrBackupChecksumKeys(w *World, r *Report, rule string) {
	f := w.Fn(pkgConfig, "FileSystemBackUp.SetMD5OfStorage")
	if f == nil {
		r.Undec(rule, "SetMD5OfStorage", token.NoPos, "function not found")
		return
	}
	ok, n := true, 0
	Instrs(f, func(in ssa.Instruction) {
		mu, isMU := in.(*ssa.MapUpdate)
		if !isMU || !strings.HasSuffix(Path(mu.Map), ".dataMD5") {
			return
		}
		n++
		k := peel(mu.Key)
		ex, isEx := k.(*ssa.Extract)
		if !isEx || ex.Index != 1 {
			ok = false
			return
		}
		if nx, isNx := ex.Tuple.(*ssa.Next); !isNx || !strings.HasSuffix(Path(nx.Iter.(*ssa.Range).X), ".data") {
			ok = false
		}
	})
	r.Check(ok && n == 1, rule, "SetMD5OfStorage/checksum-under-the-content-key", f.Pos(), "dataMD5[key] for the very key of data being walked (GetDiff looks the two maps up with one key)")
}

// hrArrivalTimestampExact: a waiter's arrival time is the clock reading, unrounded.
func hrArrivalTimestampExact(w *World, r *Report, rule string) {
	f := w.Fn(pkgQueue, "NewRequest")
	if f == nil {
		r.Undec(rule, "queue.NewRequest", token.NoPos, "function not found")
		return
	}
	ok, n := true, 0
	for _, alt := range ReturnAlts(f, 0) {
		n++
		ts := litField(alt.Val, "timestamp")
		if ts == nil || !isCallTo0(ts, "Clock).Now") {
			ok = false
		}
	}
	r.Check(ok && n == 1, rule, "queue.NewRequest/arrival-is-the-clock-reading", f.Pos(), "timestamp is clock.Now() as read (rounded arrivals tie, and ties are broken by heap position, not by arrival)")
}

// hrFilterExtendDedupAgainstItself: a value is added to a filter unless that filter already has it.
func hrFilterExtendDedupAgainstItself(w *World, r *Report, rule string) {
	f := w.Fn(pkgSCfg, "Filter.Extend")
	if f == nil {
		r.Undec(rule, "Filter.Extend", token.NoPos, "function not found")
		return
	}
	n, ok := 0, true
	var bad []string
	Instrs(f, func(in ssa.Instruction) {
		c, isC := in.(ssa.CallInstruction)
		if !isC || !(isCallTo(c, "slices.Contains") || strings.Contains(calleeID(c), "ContainsKeyValue")) {
			return
		}
		n++
		p := Path(c.Common().Args[0])
		if !strings.HasPrefix(p, "param:f.") {
			ok = false
			bad = append(bad, p)
		}
	})
	r.Check(ok && n >= 4, rule, "Filter.Extend/duplicate-test-against-the-extended-filter", f.Pos(), "each of the %d membership tests looks in the filter being extended, not in the one it is extended from (%v)", n, bad)
}

// ---------------------------------------------------------------------------
// part 10: tenth wave, second half

// hrManageSendsEverything: what the engine computed is what the proxy is told.
func hrManageSendsEverything(w *World, r *Report, rule string) {
	if f := w.Fn(pkgConfig, "ManageHAProxyEndpoints"); f == nil {
		r.Undec(rule, "ManageHAProxyEndpoints", token.NoPos, "function not found")
	} else {
		cs := CallsIn(f, false, "config.updateHAProxyEndpoints")
		r.Check(len(cs) == 1 && alwaysRuns(cs[0]), rule, "ManageHAProxyEndpoints/always-updates-the-proxy", f.Pos(), "updateHAProxyEndpoints runs for every request (a configuration with only global plugins has no endpoint list but sets manage-all)")
	}
	if f := w.Fn(pkgConfig, "updateHAProxyEndpoints"); f == nil {
		r.Undec(rule, "updateHAProxyEndpoints", token.NoPos, "function not found")
	} else {
		n, ok := 0, true
		var extra []string
		for _, c := range CallsIn(f, false, "config.operateEndpoint") {
			a := c.Common().Args
			if len(a) < 3 || !strings.HasSuffix(Path(a[2]), "haproxyManagedEndpointURL") && !strings.Contains(Path(a[2]), "managed_endpoint") {
				continue
			}
			n++
			for _, cd := range CondsOf(c.Block()) {
				p := Path(cd.V)
				if strings.HasSuffix(p, ".ManageAll") && !cd.Pol {
					continue
				}
				if strings.Contains(p, "phi[") && strings.Contains(p, "builtin.len(") {
					continue // the loop over the endpoints
				}
				ok = false
				extra = append(extra, trunc(condsString([]Cond{cd}), 80))
			}
		}
		r.Check(ok && n == 1, rule, "updateHAProxyEndpoints/every-endpoint-is-put", f.Pos(), "every managed endpoint is PUT to the proxy on every update, unless manage-all replaces them (further conditions: %v)", extra)
	}
	if f := w.Fn(pkgConfig, "EndpointsToUnmanage"); f == nil {
		r.Undec(rule, "EndpointsToUnmanage", token.NoPos, "function not found")
	} else {
		ok := true
		for _, alt := range ReturnAlts(f, 0) {
			for _, cd := range alt.Conds {
				if p := Path(cd.V); strings.Contains(p, "builtin.len(param:current)") && !strings.Contains(p, "phi[") {
					ok = false
				}
			}
		}
		r.Check(ok, rule, "EndpointsToUnmanage/difference-for-every-current-list", f.Pos(), "no return depends on the current list being empty (when nothing stays managed, everything previously managed is to be unmanaged)")
	}
}

// hrDelayedUnmanageWaitsRetention: the proxy keeps forwarding an endpoint as long as a superseded version can still be pinned.
func hrDelayedUnmanageWaitsRetention(w *World, r *Report, rule string) {
	want := w.constOf(pkgConfig, "staleVersionTTL")
	for _, name := range []string{"ScheduleUnmanageHAProxyEndpoints", "scheduleUnmanageHAProxyGlobal"} {
		f := w.Fn(pkgConfig, name)
		if f == nil {
			r.Undec(rule, name, token.NoPos, "function not found")
			continue
		}
		n, ok := 0, want != nil
		for _, af := range Anons(f) {
			for _, c := range CallsIn(af, false, "Clock).Sleep", "Clock).After") {
				n++
				a := margs(c)
				k, isK := peel(a[0]).(*ssa.Const)
				if !isK || k.Value == nil || want == nil || !constant.Compare(k.Value, token.EQL, want) {
					ok = false
				}
			}
		}
		r.Check(ok && n == 1, rule, name+"/waits-the-retention-period", f.Pos(), "the delayed unmanage sleeps staleVersionTTL, the time a superseded policies version stays pinned")
	}
}

// hrFoldOrder: the actions of a chain are folded left to right: accumulated.Prioritize(next).
func hrFoldOrder(w *World, r *Report, rule string) {
	for _, e := range []struct{ fn, method, producer string }{
		{"runOnRequest", "ReqLunarAction).ReqPrioritize", "runner.remedyOnRequest"},
		{"runOnResponse", "RespLunarAction).RespPrioritize", "runner.remedyOnResponse"},
	} {
		f := w.Fn(pkgRunner, e.fn)
		if f == nil {
			r.Undec(rule, e.fn, token.NoPos, "function not found")
			continue
		}
		cs := CallsIn(f, false, e.method)
		ok := len(cs) == 1
		if ok {
			c := cs[0]
			recv := c.Common().Value
			arg := c.Common().Args[0]
			_, recvIsPhi := peel(recv).(*ssa.Phi)
			argFromRemedy := Derives(arg, func(x ssa.Value) bool { return isCallTo0(x, e.producer) })
			recvFromRemedy := false
			if !recvIsPhi {
				recvFromRemedy = Derives(recv, func(x ssa.Value) bool { return isCallTo0(x, e.producer) })
			}
			ok = recvIsPhi && argFromRemedy && !recvFromRemedy
		}
		r.Check(ok, rule, e.fn+"/accumulated-prioritises-next", f.Pos(), "the fold calls accumulated.Prioritize(action of this remedy): the earlier remedy of the chain is the receiver")
	}
}

// hrCfgURLVariable (haproxy.cfg): the URL the engine sees keeps the path as sent.
func hrCfgURLVariable(w *World, r *Report, rule string) {
	cfg, err := loadHAProxyCfg(w.Repo)
	if err != nil {
		r.Undec(rule, "haproxy.cfg", token.NoPos, "cannot read %s: %v", haproxyCfgPath, err)
		return
	}
	fe := cfg.section("frontend", "http-in")
	if fe == nil {
		r.Undec(rule, "haproxy.cfg/frontend/http-in", token.NoPos, "frontend http-in not found")
		return
	}
	ds := fe.find("http-request", "set-var(txn.url)")
	ok := len(ds) == 1 && len(ds[0].Words) == 3
	expr := ""
	if ok {
		expr = ds[0].Words[2]
		i := strings.Index(expr, "concat(")
		ok = i >= 0 && strings.Contains(expr[i:], "txn.path") && !strings.Contains(expr[i:], "lower") && !strings.Contains(expr[i:], "upper")
	}
	ps := fe.find("http-request", "set-var(txn.path)")
	ok = ok && len(ps) == 1 && len(ps[0].Words) == 3 && ps[0].Words[2] == "path"
	cfgCheck(r, ok, rule, "haproxy.cfg/http-in/txn.url-keeps-the-path-as-sent", cfg, fe.Line, "txn.url = host,concat(,txn.path) with no case conversion after the path is appended (found %q): two URLs that differ in case are two keys", expr)
}

// hrCfgSPOEBackendName: the statistics row the health predicate reads is the backend the SPOE agent uses.
func hrCfgSPOEBackendName(w *World, r *Report, rule string) {
	want := w.constOf(pkgFailsafe, "spoeBackendProxyName")
	cfg, err := loadHAProxyCfg(w.Repo)
	if err != nil || want == nil {
		r.Undec(rule, "haproxy.cfg", token.NoPos, "cannot read %s or constant spoeBackendProxyName: %v", haproxyCfgPath, err)
		return
	}
	name := constant.StringVal(want)
	cfgCheck(r, cfg.section("backend", name) != nil, rule, "haproxy.cfg/backend-of-the-spoe-agent", cfg, 0, "haproxy.cfg has a backend named %q, the proxy name areSPOEConnectionsHealthy looks for in the statistics", name)
	raw, err := os.ReadFile(filepath.Join(w.Repo, "proxy/rootfs/etc/haproxy/spoe/lunar.conf"))
	if err != nil {
		r.Undec(rule, "spoe/lunar.conf", token.NoPos, "cannot read: %v", err)
		return
	}
	n, ok := 0, true
	for _, line := range strings.Split(string(raw), "\n") {
		ws := cfgWords(line)
		if len(ws) == 2 && ws[0] == "use-backend" {
			n++
			if ws[1] != name {
				ok = false
			}
		}
	}
	r.Check(ok && n >= 1, rule, "spoe/lunar.conf/use-backend-is-the-watched-backend", token.NoPos, "the SPOE agent's use-backend is %q (%d directives)", name, n)
}

// hrFreshDecodeTarget: every access-log line is decoded into a variable of its own.
func hrFreshDecodeTarget(w *World, r *Report, rule string) {
	f := w.Fn(pkgDisc, "decodeMessage")
	if f == nil {
		r.Undec(rule, "decodeMessage", token.NoPos, "function not found")
		return
	}
	n, ok := 0, true
	Instrs(f, func(in ssa.Instruction) {
		c, isC := in.(ssa.CallInstruction)
		if !isC || !strings.HasSuffix(calleeID(c), "json.Unmarshal") && !strings.HasSuffix(calleeID(c), ".Unmarshal") {
			return
		}
		a := c.Common().Args
		if len(a) != 2 {
			return
		}
		n++
		t := a[1]
		if mi, isMI := t.(*ssa.MakeInterface); isMI {
			t = mi.X
		}
		if al, isA := t.(*ssa.Alloc); !isA || al.Parent() == nil {
			ok = false
		}
	})
	r.Check(ok && n == 1, rule, "decodeMessage/decodes-into-a-fresh-variable", f.Pos(), "json.Unmarshal fills a variable local to the call (a key missing in one line must not inherit the previous line's value)")
}

// hrTrimBothEnds: the URL tree trims the same characters from both ends of every URL.
func hrTrimBothEnds(w *World, r *Report, rule string) {
	f := w.Fn(pkgURLTree, "trimURL")
	if f == nil {
		r.Undec(rule, "trimURL", token.NoPos, "function not found")
		return
	}
	ok, n := true, 0
	for _, alt := range ReturnAlts(f, 0) {
		n++
		c, isC := peel(alt.Val).(*ssa.Call)
		if !isC || !isCallTo(c, "strings.Trim") || Path(c.Call.Args[0]) != "param:url" {
			ok = false
		}
	}
	r.Check(ok && n == 1, rule, "trimURL/both-ends-one-cut-set", f.Pos(), "trimURL is strings.Trim(url, cutset): every leading and trailing character of the cut-set goes, on both sides alike")
}

// hrPersistedKeysAllRead: every persisted endpoint is read back.
func hrPersistedKeysAllRead(w *World, r *Report, rule string) {
	f := w.Fn(pkgSDisc, "ConvertEndpointsFromPersisted")
	if f == nil {
		r.Undec(rule, "ConvertEndpointsFromPersisted", token.NoPos, "function not found")
		return
	}
	n, ok := 0, true
	var extra []string
	Instrs(f, func(in ssa.Instruction) {
		mu, isMU := in.(*ssa.MapUpdate)
		if !isMU || !strings.Contains(mu.Map.Type().String(), "EndpointAgg") {
			return
		}
		n++
		for _, cd := range CondsOf(mu.Block()) {
			p := Path(cd.V)
			if strings.HasPrefix(p, "next(range(") {
				continue
			}
			ok = false
			extra = append(extra, trunc(p, 60))
		}
	})
	r.Check(ok && n == 1, rule, "ConvertEndpointsFromPersisted/every-key-restored", f.Pos(), "each persisted endpoint is stored in the result, under no condition (%v)", extra)
}

// hrQueryParamKey: the key of a query-parameter exclusion is what follows the query_param prefix.
func hrQueryParamKey(w *World, r *Report, rule string) {
	f := w.Fn("lunar/engine/streams/processors/har-collector", "extractQueryParamKeyFromJSONPath")
	if f == nil {
		r.Undec(rule, "extractQueryParamKeyFromJSONPath", token.NoPos, "function not found")
		return
	}
	pre := ""
	ok := true
	for _, c := range CallsIn(f, false, "strings.HasPrefix", "strings.TrimPrefix", "strings.CutPrefix") {
		s, isS := constString(c.Common().Args[1])
		if !isS || Path(c.Common().Args[0]) != "param:jsonPath" {
			ok = false
			continue
		}
		if pre != "" && pre != s {
			ok = false
		}
		pre = s
	}
	ok = ok && strings.HasSuffix(pre, "query_param.") && len(CallsIn(f, false, "strings.LastIndex", "strings.Split", "strings.Index")) == 0
	r.Check(ok, rule, "extractQueryParamKeyFromJSONPath/key-after-the-query-param-prefix", f.Pos(), "the key is the exclusion with the prefix %q removed, and only exclusions that start with it yield a key (an exclusion for a body path never names a query parameter)", pre)
}

// hrHeaderExclusionLists: request headers are checked against the request list, response headers against the response list.
func hrHeaderExclusionLists(w *World, r *Report, rule string) {
	for fn, fld := range map[string]string{"ShouldObfuscateRequestHeader": "RequestHeaders", "ShouldObfuscateResponseHeader": "ResponseHeaders"} {
		f := w.Fn(pkgConfig, fn)
		if f == nil {
			r.Undec(rule, fn, token.NoPos, "function not found")
			continue
		}
		fields := map[string]bool{}
		for _, af := range Anons(f) {
			Instrs(af, func(in ssa.Instruction) {
				switch x := in.(type) {
				case *ssa.FieldAddr:
					if n := fieldName(x.X.Type(), x.Field); strings.HasSuffix(n, "Headers") {
						fields[n] = true
					}
				case *ssa.Field:
					if n := fieldName(x.X.Type(), x.Field); strings.HasSuffix(n, "Headers") {
						fields[n] = true
					}
				}
			})
		}
		r.Check(len(fields) == 1 && fields[fld], rule, fn+"/its-own-exclusion-list", f.Pos(), "%s reads Exclusions.%s only (found %v)", fn, fld, keysOf(fields))
	}
}

// hrDestroyDoesNotRecreate: ending a transaction's context leaves the flow context (and its retry counters) alone.
func hrDestroyDoesNotRecreate(w *World, r *Report, rule string) {
	f := w.Fn(pkgLctx, "ContextManager.DestroyTransactionalContext")
	if f == nil {
		r.Undec(rule, "DestroyTransactionalContext", token.NoPos, "function not found")
		return
	}
	n := len(CallsIn(f, true, "ContextManager).WithFlowContext", "ContextManager).WithGlobalContext", "LunarAdminContextI).SetFlowContext", "LunarAdminContextI).SetGlobalContext"))
	r.Check(n == 0, rule, "DestroyTransactionalContext/flow-context-survives", f.Pos(), "destroying the transactional context does not re-create the flow context (%d re-creating calls)", n)
}

// hrDeepCopyAlwaysCopies: a deep copy never hands back its argument.
func hrDeepCopyAlwaysCopies(w *World, r *Report, rule string) {
	f := w.Fn("lunar/engine/utils", "DeepCopyHeaders")
	if f == nil {
		r.Undec(rule, "DeepCopyHeaders", token.NoPos, "function not found")
		return
	}
	ok, n := true, 0
	for _, alt := range ReturnAlts(f, 0) {
		n++
		if _, isMk := peel(alt.Val).(*ssa.MakeMap); !isMk {
			ok = false
		}
	}
	r.Check(ok && n >= 1, rule, "DeepCopyHeaders/always-a-new-map", f.Pos(), "every return is a map made in the function (the background diagnosis worker keeps the copy while the transaction path goes on writing the original)")
}

// hrGlobalRegistryUnderItsLock: a package-level registry is read and written under its package-level lock.
func hrGlobalRegistryUnderItsLock(w *World, r *Report, la *LockAn, rule string) {
	f := w.Fn(pkgLctx, "GetExpireWatcher")
	if f == nil {
		r.Undec(rule, "GetExpireWatcher", token.NoPos, "function not found")
		return
	}
	n, ok := 0, true
	Instrs(f, func(in ssa.Instruction) {
		var m ssa.Value
		switch x := in.(type) {
		case *ssa.Lookup:
			m = x.X
		case *ssa.MapUpdate:
			m = x.Map
		default:
			return
		}
		if !strings.HasSuffix(Path(m), "ewInstances") {
			return
		}
		n++
		held := false
		for k := range la.HeldAt(in) {
			if strings.HasSuffix(k, "ewGetterLock") {
				held = true
			}
		}
		if !held {
			ok = false
		}
	})
	r.Check(ok && n >= 2, rule, "GetExpireWatcher/registry-accessed-under-ewGetterLock", f.Pos(), "every read and write of ewInstances (%d) holds ewGetterLock (the first transactions of two kinds register concurrently)", n)
}

// hrParamSegmentNonEmpty: an empty segment is not a value of a path parameter for the proxy (or not for the tree).
func hrParamSegmentNonEmpty(w *World, r *Report, rule string) {
	repl := ""
	if c := w.constOf(pkgConfig, "RegexToReplacePathParameters"); c != nil {
		repl = constant.StringVal(c)
	}
	re, err := regexp.Compile("^" + repl + "$")
	needsChar := err == nil && repl != "" && !re.MatchString("/") && !re.MatchString("") && re.MatchString("/x") && re.MatchString("/john.doe") && re.MatchString("/a%20b") && !re.MatchString("/a/b")
	r.Check(needsChar, rule, "RegexToReplacePathParameters/needs-a-character", token.NoPos, "a path parameter is registered as %q: exactly one segment of at least one character, whatever the characters (the URL tree itself follows a parameter node for any segment, so this is the only guard against users//posts being served as users/{id}/posts)", repl)
}

// hrStoredResponseOwnsItsHeaders: a response kept in memory, and each replay of it, has a header map of its
// own. The response remedies of the same chain write their header edits into the message's map
// (EnsureResponseIsUpdated) - a stored alias of that map keeps e.g. the retry remedy's
// x-lunar-retry-after, and every replay asks the client to retry again, attempts used up or not.
func hrStoredResponseOwnsItsHeaders(w *World, r *Report, rule string) {
	n := 0
	for _, name := range []string{"ResponseBasedThrottlingPlugin.OnResponse", "ResponseBasedThrottlingPlugin.OnRequest", "CachingPlugin.OnResponse", "CachingPlugin.OnRequest"} {
		f := w.Fn(pkgRemedies, name)
		if f == nil {
			r.Undec(rule, name, token.NoPos, "function not found")
			continue
		}
		Instrs(f, func(in ssa.Instruction) {
			a, isA := in.(*ssa.Alloc)
			if !isA {
				return
			}
			st := structOf(a.Type())
			if st != "CachedResponse" && st != "EarlyResponseAction" && st != "ResponseBasedThrottlingState" && !strings.Contains(st, "Response") {
				return
			}
			v := singleFieldStoreByName(a, "Headers")
			if v == nil {
				return
			}
			n++
			own := false
			switch x := peel(v).(type) {
			case *ssa.MakeMap:
				own = true
			case *ssa.Call:
				own = isCallTo(x, "utils.DeepCopyHeaders", "maps.Clone")
			case *ssa.Extract:
				// getUpdatedHeaders builds the replayed header map anew (C12.R6 checks that it does)
				if c, isC := x.Tuple.(*ssa.Call); isC && isCallTo(c, "remedies.getUpdatedHeaders") && x.Index == 0 {
					own = true
					if g := w.Fn(pkgRemedies, "getUpdatedHeaders"); g != nil {
						for _, alt := range ReturnAlts(g, 0) {
							switch y := peel(alt.Val).(type) {
							case *ssa.MakeMap:
							case *ssa.Const:
							case *ssa.Call:
								if !isCallTo(y, "utils.DeepCopyHeaders", "maps.Clone") {
									own = false
								}
							default:
								own = false // the stored map itself
							}
						}
					}
				}
			case *ssa.Phi, *ssa.UnOp:
				// a local map: made in this function, not read from a message or from the store
				own = Derives(v, func(y ssa.Value) bool { _, isMk := y.(*ssa.MakeMap); return isMk }) &&
					!strings.HasSuffix(Path(v), ".Headers")
			}
			r.Check(own, rule, shortFn(fnID(outermost(f)))+"/"+st+"/header-map-of-its-own", a.Pos(), "%s.Headers is a copy or a freshly made map (found %s)", st, trunc(Path(v), 70))
		})
	}
	r.Check(n >= 3, rule, "stored-responses/header-maps", token.NoPos, "%d stored or replayed responses inspected", n)
}

// ---------------------------------------------------------------------------
// part 11: eleventh wave (C01-C10 only)

// hrNotFoundOnlyWhenAbsent: "not yet seen" matches only a request that has no entry.
func hrNotFoundOnlyWhenAbsent(w *World, r *Report, rule string) {
	f := w.Fn(pkgQuota, "concurrentStrategy.checkReqStatusNoLock")
	nf := w.constOf(pkgQuota, "reqNotFound")
	if f == nil || nf == nil {
		r.Undec(rule, "checkReqStatusNoLock", token.NoPos, "function or constant reqNotFound not found")
		return
	}
	n, ok := 0, true
	Instrs(f, func(in ssa.Instruction) {
		b, isB := in.(*ssa.BinOp)
		if !isB || b.Op != token.EQL || !(isConstVal(b.Y, nf) || isConstVal(b.X, nf)) {
			return
		}
		n++
		isFound := func(v ssa.Value) bool {
			e, isE := peel(v).(*ssa.Extract)
			if !isE || e.Index != 1 {
				return false
			}
			_, isLk := e.Tuple.(*ssa.Lookup)
			return isLk
		}
		// (a) the comparison is made only where the request has no entry, or
		absent := false
		for _, cd := range CondsOf(b.Block()) {
			if isFound(cd.V) && !cd.Pol {
				absent = true
			}
		}
		// (b) its true edge goes on to test "no entry" before anything is returned
		if iff := blockIf(b.Block()); !absent && iff != nil && iff.Cond == ssa.Value(b) {
			t := b.Block().Succs[0]
			if tif := blockIf(t); tif != nil && len(t.Instrs) == 1 {
				retTrue := func(x *ssa.BasicBlock) bool {
					if len(x.Instrs) == 0 {
						return false
					}
					rt, isRet := x.Instrs[len(x.Instrs)-1].(*ssa.Return)
					if !isRet || len(rt.Results) != 1 {
						return false
					}
					v, isB := constBool(rt.Results[0])
					return isB && v
				}
				c, pol := tif.Cond, true
				if u, isNot := c.(*ssa.UnOp); isNot && u.Op == token.NOT {
					c, pol = u.X, false
				}
				if isFound(c) {
					onAbsent := t.Succs[1]
					if !pol {
						onAbsent = t.Succs[0]
					}
					other := t.Succs[0]
					if onAbsent == other {
						other = t.Succs[1]
					}
					absent = retTrue(onAbsent) && !retTrue(other)
				}
			}
		}
		if !absent {
			ok = false
		}
	})
	r.Check(ok && n == 1, rule, "checkReqStatusNoLock/not-found-matches-only-an-absent-request", f.Pos(), "the expected status reqNotFound is compared only where the request has no entry (Inc's already-processed guard must fire for a request that has one)")
}

// hrOnErrorWireFormat: the report of failed transactions is marshalled whole.
func hrOnErrorWireFormat(w *World, r *Report, rule string) {
	f := w.Fn(pkgSDisc, "OnError.JSONMarshal")
	if f == nil {
		r.Undec(rule, "OnError.JSONMarshal", token.NoPos, "function not found")
		return
	}
	cs := CallsIn(f, false, "json.Marshal")
	ok := len(cs) == 1
	if ok {
		a := cs[0].Common().Args[0]
		if mi, isMI := a.(*ssa.MakeInterface); isMI {
			a = mi.X
		}
		ok = a == ssa.Value(f.Params[0])
	}
	r.Check(ok, rule, "OnError.JSONMarshal/marshals-the-report-itself", f.Pos(), "json.Marshal(o): the engine's handler decodes an OnError object, not one of its fields")
}

// hrEarlyReturnTypes: which request actions end the request path.
func hrEarlyReturnTypes(w *World, r *Report, rule string) {
	want := map[string]bool{"NoOpAction": false, "ModifyRequestAction": false, "ModifyHeadersAction": false, "GenerateRequestAction": true, "EarlyResponseAction": true}
	for tn, v := range want {
		f := w.Fn(pkgActions, tn+".IsEarlyReturnType")
		if f == nil {
			r.Undec(rule, tn+".IsEarlyReturnType", token.NoPos, "function not found")
			continue
		}
		ok, n := true, 0
		for _, alt := range ReturnAlts(f, 0) {
			n++
			if b, isB := constBool(alt.Val); !isB || b != v {
				ok = false
			}
		}
		r.Check(ok && n == 1, rule, tn+".IsEarlyReturnType/is-"+map[bool]string{true: "true", false: "false"}[v], f.Pos(), "%s ends the request path: %v (an action that only rewrites the request must not make the engine drop the request's quota slot)", tn, v)
	}
}

// hrStatusArgIsInt64: the response status is read with the type the SPOE library decodes integers to.
func hrStatusArgIsInt64(w *World, r *Report, rule string) {
	f := w.Fn(pkgRouting, "readResponseArgs")
	if f == nil {
		r.Undec(rule, "readResponseArgs", token.NoPos, "function not found")
		return
	}
	n, ok := 0, true
	Instrs(f, func(in ssa.Instruction) {
		c, isC := in.(*ssa.Call)
		if !isC || !isCallTo(c, "routing.extractArg") {
			return
		}
		if s, isS := constString(c.Call.Args[0]); !isS || s != "status" {
			return
		}
		n++
		callee := c.Call.StaticCallee()
		if callee == nil || len(callee.TypeArgs()) != 1 || callee.TypeArgs()[0].String() != "int64" {
			ok = false
		}
	})
	r.Check(ok && n == 1, rule, "readResponseArgs/status-read-as-int64", f.Pos(), "extractArg[int64](\"status\"): HAProxy integers arrive as int64, any other assertion yields status 0 for every response")
}

// hrInternalLimitFilter: an internal limit's node carries that limit's own filter.
func hrInternalLimitFilter(w *World, r *Report, rule string) {
	f := w.Fn(pkgQuota, "quotaResource.init")
	if f == nil {
		r.Undec(rule, "quotaResource.init", token.NoPos, "function not found")
		return
	}
	n := 0
	Instrs(f, func(in ssa.Instruction) {
		a, isA := in.(*ssa.Alloc)
		if !isA || structOf(a.Type()) != "NodeConfig" {
			return
		}
		id, fl := singleFieldStoreByName(a, "ID"), singleFieldStoreByName(a, "Filter")
		if id == nil || fl == nil || !strings.Contains(Path(id), "internalLimit") && !strings.Contains(Path(id), "InternalLimits") {
			return
		}
		n++
		base := func(p string) string {
			if i := strings.LastIndex(p, "."); i >= 0 {
				return p[:i]
			}
			return p
		}
		r.Check(base(Path(id)) == base(Path(fl)) && strings.HasSuffix(Path(fl), ".Filter"), rule, "quotaResource.init/internal-limit-node-has-its-own-filter", a.Pos(), "NodeConfig{ID: x.ID, Filter: x.Filter} for one and the same internal limit x (ID from %s, Filter from %s)", trunc(Path(id), 50), trunc(Path(fl), 50))
	})
	r.Check(n >= 1, rule, "quotaResource.init/internal-limit-nodes", f.Pos(), "%d internal-limit node configurations inspected", n)
}

// hrScriptRestoresResponse: after a script changed the stored request and the response, the stream is a response again.
func hrScriptRestoresResponse(w *World, r *Report, rule string) {
	f := w.Fn("lunar/engine/streams/processors/custom-script", "customScriptProcessor.storeResponseChanges")
	if f == nil {
		r.Undec(rule, "storeResponseChanges", token.NoPos, "function not found")
		return
	}
	sets := CallsIn(f, false, "APIStreamI).SetResponse")
	ok := len(sets) >= 1
	for _, alt := range ReturnAlts(f, 0) {
		if !isNilConst(alt.Val) {
			continue
		}
		changed := false // the return after the script's response was written back
		for _, rel := range relsOfConds(alt.Conds) {
			if rel.Op == "==" && isNilConst(rel.R) && strings.Contains(Path(rel.L), "json.Unmarshal(") {
				changed = true
			}
		}
		if !changed {
			continue
		}
		dom := false
		for _, s := range sets {
			if domInstr(s, alt.Ret) {
				dom = true
			}
		}
		if !dom {
			ok = false
		}
	}
	r.Check(ok, rule, "storeResponseChanges/ends-with-SetResponse", f.Pos(), "the return after the script's response was written back is preceded by apiStream.SetResponse (SetRequest, if it ran, had switched the stream to the request side)")
}

// hrGenerateResponseHandsOver: the processor that answers a request says so by typing its output as a response.
func hrGenerateResponseHandsOver(w *World, r *Report, rule string) {
	f := w.Fn("lunar/engine/streams/processors/generate-response", "generateResponseProcessor.onRequest")
	want := w.constOf("lunar/engine/streams/public-types", "StreamTypeResponse")
	if f == nil || want == nil {
		r.Undec(rule, "generateResponseProcessor.onRequest", token.NoPos, "function or constant not found")
		return
	}
	n, ok := 0, true
	for _, alt := range ReturnAlts(f, 0) {
		act := litField(alt.Val, "ReqAction")
		if act == nil || isNilConst(act) {
			continue
		}
		n++
		if t := litField(alt.Val, "Type"); t == nil || !isConstVal(t, want) {
			ok = false
		}
	}
	r.Check(ok && n >= 1, rule, "generateResponseProcessor.onRequest/output-typed-as-response", f.Pos(), "the output that carries the early-response action has Type StreamTypeResponse (that is what makes the walk stop and hand over to the response path)")
}

// hrConcurrentLocations: the concurrency quota counts at the start of the request and releases at the end of the response.
func hrConcurrentLocations(w *World, r *Report, rule string) {
	f := w.Fn(pkgQuota, "concurrentStrategy.getProcessorsLocation")
	if f == nil {
		r.Undec(rule, "getProcessorsLocation", token.NoPos, "function not found")
		return
	}
	set := func(v ssa.Value, fld string) bool {
		x := litField(v, fld)
		return x != nil && !isNilConst(x) && Derives(x, func(y ssa.Value) bool { _, isC := y.(*ssa.Call); return isC })
	}
	n := 0
	for _, alt := range ReturnAlts(f, 0) {
		req, resp := litField(alt.Val, "Request"), litField(alt.Val, "Response")
		if req == nil || resp == nil {
			continue
		}
		n++
		r.Check(set(req, "Start") && !set(req, "End") && set(resp, "End") && !set(resp, "Start"), rule, "concurrentStrategy.getProcessorsLocation/inc-first-dec-last", posOf(alt.Ret), "Request.Start and Response.End carry a processor, Request.End and Response.Start none (the release runs after the user's response flows)")
	}
	r.Check(n >= 1, rule, "concurrentStrategy.getProcessorsLocation/literal", f.Pos(), "%d location literals inspected", n)
}

// hrNodeValueOnlyWhenPresent: a tree node's value is dereferenced only where the node has one.
func hrNodeValueOnlyWhenPresent(w *World, r *Report, rule string) {
	f := w.Fn(pkgURLTree, "lookupFlow")
	if f == nil {
		r.Undec(rule, "lookupFlow", token.NoPos, "function not found")
		return
	}
	n := 0
	Instrs(f, func(in ssa.Instruction) {
		u, isU := in.(*ssa.UnOp)
		if !isU || u.Op != token.MUL {
			return
		}
		inner, isIn := u.X.(*ssa.UnOp)
		if !isIn || inner.Op != token.MUL {
			return
		}
		fa, isFA := inner.X.(*ssa.FieldAddr)
		if !isFA || fieldName(fa.X.Type(), fa.Field) != "Value" {
			return
		}
		n++
		node := Path(fa.X)
		ok := false
		for _, cd := range expandConds(CondsOf(u.Block())) {
			c, isC := peel(cd.V).(*ssa.Call)
			if isC && cd.Pol && isCallTo(c, "Node).hasValue") && Path(c.Call.Args[0]) == node {
				ok = true
			}
		}
		r.Check(ok, rule, "lookupFlow/value-read-only-of-a-node-that-has-one", posOf(u), "*%s.Value is read under %s.hasValue()", trunc(node, 50), trunc(node, 50))
	})
	r.Check(n >= 2, rule, "lookupFlow/value-reads", f.Pos(), "%d reads of a node's value inspected", n)
}

// hrExpressionGuards: the parsed expression is dereferenced only where it exists.
func hrExpressionGuards(w *World, r *Report, rule string) {
	for _, name := range []string{"Filter.GetReqExpressions", "Filter.GetResExpressions"} {
		f := w.Fn(pkgSCfg, name)
		if f == nil {
			r.Undec(rule, name, token.NoPos, "function not found")
			continue
		}
		ok := false
		for _, alt := range ReturnAlts(f, 0) {
			if !isNilConst(alt.Val) {
				continue
			}
			for _, rel := range relsOfConds(alt.Conds) {
				if rel.Op == "==" && isNilConst(rel.R) && strings.HasSuffix(Path(rel.L), ".expression") {
					ok = true
				}
			}
		}
		r.Check(ok, rule, name+"/nil-when-the-parsed-expression-is-absent", f.Pos(), "returns nil exactly when f.expression (the parsed form that is dereferenced below) is nil")
	}
}

// hrWatcherAlwaysStarts: every queue has its time-to-live watcher.
func hrWatcherAlwaysStarts(w *World, r *Report, rule string) {
	f := w.Fn(pkgQProc, "NewRequestsWatcher")
	if f == nil {
		r.Undec(rule, "NewRequestsWatcher", token.NoPos, "function not found")
		return
	}
	n, ok := 0, true
	Instrs(f, func(in ssa.Instruction) {
		if g, isG := in.(*ssa.Go); isG && strings.Contains(calleeID(g), "manageTTLs") {
			n++
			if !alwaysRuns(g) {
				ok = false
			}
		}
	})
	r.Check(ok && n == 1, rule, "NewRequestsWatcher/ttl-watcher-started-for-every-queue", f.Pos(), "go manageTTLs() runs for every watcher (a queue whose waiters are never timed out gives a refused request no verdict)")
}

// hrResponseActionAvailable: a response action is available when there is one.
func hrResponseActionAvailable(w *World, r *Report, rule string) {
	f := w.Fn(pkgStreamTypes, "ProcessorIO.IsResponseActionAvailable")
	if f == nil {
		r.Undec(rule, "IsResponseActionAvailable", token.NoPos, "function not found")
		return
	}
	rows := decisionOf(f, 0)
	ok := len(rows) >= 2
	for _, c := range rows {
		if len(c.lits) != 1 {
			ok = false
		}
		for a := range c.lits {
			if !strings.Contains(a, ".RespAction") || !strings.HasSuffix(a, "== nil)") {
				ok = false
			}
		}
	}
	r.Check(ok, rule, "IsResponseActionAvailable/decided-by-the-action-alone", f.Pos(), "true exactly when RespAction is not nil, whatever the output's type (the Retry processor returns its action typed as a request)")
}

// hrSetResponseSwitchesBothTypes: a stream given its response is a response for selection and for execution.
func hrSetResponseSwitchesBothTypes(w *World, r *Report, rule string) {
	want := w.constOf("lunar/engine/streams/public-types", "StreamTypeResponse")
	f := w.Fn(pkgStreamTypes, "APIStream.SetResponse")
	if f == nil || want == nil {
		r.Undec(rule, "APIStream.SetResponse", token.NoPos, "function or constant not found")
		return
	}
	for _, fld := range []string{"actionType", "streamType"} {
		st := fieldStores(f, fld)
		ok := len(st) == 1 && isConstVal(st[0].Val, want) && alwaysRuns(st[0])
		r.Check(ok, rule, "APIStream.SetResponse/"+fld+"-becomes-response", f.Pos(), "SetResponse sets %s to StreamTypeResponse, always", fld)
	}
}

// hrMetricsPathIsTheConfiguredFile: the user's metrics file is used whenever it exists.
func hrMetricsPathIsTheConfiguredFile(w *World, r *Report, rule string) {
	f := w.Fn("lunar/engine/utils/environment", "GetMetricsConfigFilePath")
	if f == nil {
		r.Undec(rule, "GetMetricsConfigFilePath", token.NoPos, "function not found")
		return
	}
	n, ok := 0, true
	var extra []string
	for _, alt := range ReturnAlts(f, 0) {
		if !strings.Contains(Path(alt.Val), "os.Getenv(") {
			continue
		}
		n++
		for _, cd := range alt.Conds {
			rel, isRel := NormCond(cd)
			if isRel && rel.Op == "==" && isNilConst(rel.R) && strings.Contains(Path(rel.L), "os.Stat(") {
				continue
			}
			ok = false
			extra = append(extra, trunc(condsString([]Cond{cd}), 70))
		}
	}
	r.Check(ok && n == 1, rule, "GetMetricsConfigFilePath/existing-user-file-wins", f.Pos(), "the configured path is returned whenever os.Stat succeeds, under no further condition (%v): backup and save must agree on the file", extra)
}

// hrKnownEndpointsAlwaysWritten: the generated known-endpoints file is rewritten on every load.
func hrKnownEndpointsAlwaysWritten(w *World, r *Report, rule string) {
	f := w.Fn("lunar/engine/streams/resources/path_params", "PathParams.writePathParams")
	if f == nil {
		r.Undec(rule, "writePathParams", token.NoPos, "function not found")
		return
	}
	ok := true
	var extra []string
	for _, alt := range ReturnAlts(f, 0) {
		if !isNilConst(alt.Val) {
			continue
		}
		// a nil return that is not the result of the write itself
		ok = false
		extra = append(extra, condsString(alt.Conds))
	}
	cs := CallsIn(f, false, "path_params.createYAMLFile", "pathparams.createYAMLFile", "createYAMLFile")
	r.Check(ok && len(cs) == 1, rule, "writePathParams/file-rewritten-for-every-configuration", f.Pos(), "the only successful way out is the write itself, also for an empty list (a restored configuration without URLs must replace the rejected payload's file) (other nil returns: %v)", extra)
}

// hrCfgEngineHeadersKept (haproxy.cfg): headers the engine reads are still there when the SPOE message is built.
func hrCfgEngineHeadersKept(w *World, r *Report, rule string) {
	cfg, err := loadHAProxyCfg(w.Repo)
	if err != nil {
		r.Undec(rule, "haproxy.cfg", token.NoPos, "cannot read %s: %v", haproxyCfgPath, err)
		return
	}
	fe := cfg.section("frontend", "http-in")
	if fe == nil {
		r.Undec(rule, "haproxy.cfg/frontend/http-in", token.NoPos, "frontend http-in not found")
		return
	}
	firstSend := 1 << 30
	for _, d := range fe.find("http-request", "send-spoe-group") {
		if d.Line < firstSend {
			firstSend = d.Line
		}
	}
	var bad []string
	n := 0
	for _, d := range fe.find("http-request", "del-header") {
		if d.Line > firstSend || len(d.Words) < 3 {
			continue
		}
		n++
		h := strings.ToLower(d.Words[2])
		// transport details of the interceptor; everything else the remedies may group or filter by
		if h != "x-lunar-scheme" && h != "x-lunar-interceptor" && h != "x-lunar-host" {
			bad = append(bad, h)
		}
	}
	cfgCheck(r, len(bad) == 0, rule, "haproxy.cfg/http-in/no-engine-visible-header-deleted-before-the-spoe-message", cfg, fe.Line, "before the request SPOE groups only the interceptor's transport headers are deleted (%d del-header rules; others: %v): x-lunar-consumer-tag and the like are read by the remedies", n, bad)
}

// hrCfgAgentTimeout (haproxy.cfg): the SPOE backend waits as long as the engine may take.
func hrCfgAgentTimeout(w *World, r *Report, rule string) {
	cfg, err := loadHAProxyCfg(w.Repo)
	if err != nil {
		r.Undec(rule, "haproxy.cfg", token.NoPos, "cannot read %s: %v", haproxyCfgPath, err)
		return
	}
	name := "lunar"
	if c := w.constOf(pkgFailsafe, "spoeBackendProxyName"); c != nil {
		name = constant.StringVal(c)
	}
	be := cfg.section("backend", name)
	if be == nil {
		r.Undec(rule, "haproxy.cfg/backend/"+name, token.NoPos, "backend not found")
		return
	}
	ds := be.find("timeout", "server")
	envName := ""
	if c := w.constOf("lunar/engine/utils/environment", "spoeProcessingTimeoutSecEnvVar"); c != nil {
		envName = constant.StringVal(c)
	}
	ok := len(ds) == 1 && len(ds[0].Words) == 3 && envName != "" && strings.Contains(ds[0].Words[2], "${"+envName+"}")
	cfgCheck(r, ok, rule, "haproxy.cfg/backend/"+name+"/timeout-server-is-the-processing-timeout", cfg, be.Line, "timeout server expands ${%s}, the value queue TTLs are validated against", envName)
}

// hrQueueTTLAtLeastOneSecond: the queue remedy's TTL is validated to be a whole second at least.
func hrQueueTTLAtLeastOneSecond(w *World, r *Report, rule string) {
	named := w.Named("lunar/shared-model/config", "StrategyBasedQueueConfig")
	if named == nil {
		r.Undec(rule, "StrategyBasedQueueConfig", token.NoPos, "type not found")
		return
	}
	st, _ := named.Underlying().(*types.Struct)
	ok := false
	tag := ""
	for i := 0; st != nil && i < st.NumFields(); i++ {
		if st.Field(i).Name() == "TTLSeconds" {
			tag = reflect.StructTag(st.Tag(i)).Get("validate")
			for _, part := range strings.Split(tag, ",") {
				if part == "gte=1" || part == "min=1" {
					ok = true
				}
			}
		}
	}
	r.Check(ok, rule, "StrategyBasedQueueConfig.TTLSeconds/validated-gte-1", named.Obj().Pos(), "validate tag %q demands ttl_seconds >= 1 (OnRequest truncates the value to whole seconds: 0.5 would be a TTL of 0)", tag)
}

// hrEveryMatchingEdgeFollowed: the walk follows every edge whose condition matches, not only the first.
func hrEveryMatchingEdgeFollowed(w *World, r *Report, rule string) {
	f := w.Fn(pkgStream, "Stream.ExecuteFlow")
	if f == nil {
		r.Undec(rule, "stream.ExecuteFlow", token.NoPos, "function not found")
		return
	}
	var loop *ssa.BasicBlock
	for _, c := range CallsIn(f, false, "stream.Stream).ExecuteFlow") {
		for _, h := range loopHeadersOf(f) {
			if loopHas(h, c.Block()) {
				loop = h
			}
		}
	}
	if loop == nil {
		r.Undec(rule, "stream.ExecuteFlow/edge-loop", f.Pos(), "the recursive call is not inside a loop over the edges")
		return
	}
	ok := len(loopBreaks(loop)) == 0
	var bad []string
	for _, b := range f.Blocks {
		if b == loop || !loopHas(loop, b) || len(b.Instrs) == 0 {
			continue
		}
		ret, isRet := b.Instrs[len(b.Instrs)-1].(*ssa.Return)
		if !isRet {
			continue
		}
		failed := false
		for _, rel := range Rels(b) {
			if rel.Op == "!=" && isNilConst(rel.R) && isErrorType(rel.L.Type()) {
				failed = true
			}
		}
		if !failed {
			ok = false
			bad = append(bad, w.Pos(ret.Pos()))
		}
	}
	r.Check(ok, rule, "stream.ExecuteFlow/every-matching-edge-followed", f.Pos(), "the loop over a node's edges is left early only with an error (returns without one: %v): a processor with two matching connections runs both branches", bad)
}

// hrCounterParsedAsDecimal: a counter value taken from a header or body is a decimal number.
func hrCounterParsedAsDecimal(w *World, r *Report, rule string) {
	f := w.Fn(pkgQuota, "buildExtractCountFromCounterValuePath")
	if f == nil {
		r.Undec(rule, "buildExtractCountFromCounterValuePath", token.NoPos, "function not found")
		return
	}
	n, ok := 0, true
	for _, af := range Anons(f) {
		for _, c := range CallsIn(af, false, "strconv.ParseInt") {
			n++
			if !isIntConst(c.Common().Args[1], 10) {
				ok = false
			}
		}
		n += len(CallsIn(af, false, "strconv.Atoi"))
	}
	r.Check(ok && n >= 1, rule, "buildExtractCountFromCounterValuePath/decimal", f.Pos(), "the counter value is parsed in base 10 (base 0 reads \"010\" as 8 and \"0x10\" as 16)")
}

// ---------------------------------------------------------------------------
// part 12: eleventh wave, second half

// hrCfgIdentifiers (haproxy.cfg + spoe/lunar.conf): a transaction's id and its sequence id reach the engine as such.
func hrCfgIdentifiers(w *World, r *Report, rule string) {
	cfg, err := loadHAProxyCfg(w.Repo)
	if err != nil {
		r.Undec(rule, "haproxy.cfg", token.NoPos, "cannot read %s: %v", haproxyCfgPath, err)
		return
	}
	if fe := cfg.section("frontend", "http-in"); fe == nil {
		r.Undec(rule, "haproxy.cfg/frontend/http-in", token.NoPos, "frontend http-in not found")
	} else {
		// the sequence id defaults to the unique id, which HAProxy fixes at its first evaluation:
		// the request id (the unique-id format) must be set before that
		firstReq, firstSeq, uid := 1<<30, 1<<30, 1<<30
		for _, d := range fe.find("http-request", "set-var(txn.lunar_request_id)") {
			if d.Line < firstReq {
				firstReq = d.Line
			}
		}
		for _, d := range fe.find("http-request", "set-var(txn.lunar_sequence_id)") {
			if d.Line < firstSeq {
				firstSeq = d.Line
			}
		}
		for _, d := range fe.find("unique-id-format") {
			if d.Line < uid {
				uid = d.Line
			}
		}
		cfgCheck(r, firstReq < firstSeq && uid < firstSeq && firstSeq < 1<<30, rule, "haproxy.cfg/http-in/request-id-set-before-the-sequence-id-reads-unique-id", cfg, fe.Line, "set-var(txn.lunar_request_id) and unique-id-format come before the first set-var(txn.lunar_sequence_id) (lines %d, %d, %d)", firstReq, uid, firstSeq)
	}
	raw, err := os.ReadFile(filepath.Join(w.Repo, "proxy/rootfs/etc/haproxy/spoe/lunar.conf"))
	if err != nil {
		r.Undec(rule, "spoe/lunar.conf", token.NoPos, "cannot read: %v", err)
		return
	}
	n := 0
	msg := ""
	for _, line := range strings.Split(string(raw), "\n") {
		ws := cfgWords(line)
		if len(ws) >= 2 && ws[0] == "spoe-message" {
			msg = ws[1]
		}
		if len(ws) < 2 || ws[0] != "args" || !strings.HasPrefix(msg, "lunar-on-") {
			continue
		}
		n++
		args := map[string]string{}
		for _, a := range ws[1:] {
			if i := strings.Index(a, "="); i > 0 {
				args[a[:i]] = a[i+1:]
			}
		}
		ok := args["id"] == "unique-id" && args["sequence_id"] == "var(txn.lunar_sequence_id)" && args["url"] == "var(txn.url)" && args["method"] == "capture.req.method"
		r.Check(ok, rule, "spoe/lunar.conf/"+msg+"/id-and-sequence-id", token.NoPos, "message %s passes id=unique-id and sequence_id=var(txn.lunar_sequence_id) (found id=%s sequence_id=%s)", msg, args["id"], args["sequence_id"])
	}
	r.Check(n == 4, rule, "spoe/lunar.conf/messages", token.NoPos, "four engine messages (%d found)", n)
	// the Lua retry re-sends under the sequence id of the call
	lua, err := os.ReadFile(filepath.Join(w.Repo, "proxy/rootfs/etc/haproxy/lua/lunar.lua"))
	if err != nil {
		r.Undec(rule, "lua/lunar.lua", token.NoPos, "cannot read: %v", err)
		return
	}
	nl, okl := 0, true
	for _, line := range strings.Split(string(lua), "\n") {
		if i := strings.Index(line, "--"); i >= 0 {
			line = line[:i]
		}
		if strings.Contains(line, `"x-lunar-sequence-id"`) && strings.Contains(line, "=") {
			nl++
			if !strings.Contains(line, "lunar_sequence_id") {
				okl = false
			}
		}
	}
	r.Check(okl && nl >= 1, rule, "lua/lunar.lua/retry-carries-the-sequence-id", token.NoPos, "the re-sent request's x-lunar-sequence-id is txn.lunar_sequence_id (%d assignments)", nl)
}

// hrCfgGatewayErrorsMarked (haproxy.cfg): every answer the gateway produces by itself carries x-lunar-error.
func hrCfgGatewayErrorsMarked(w *World, r *Report, rule string) {
	cfg, err := loadHAProxyCfg(w.Repo)
	if err != nil {
		r.Undec(rule, "haproxy.cfg", token.NoPos, "cannot read %s: %v", haproxyCfgPath, err)
		return
	}
	n := 0
	var bad []string
	for _, s := range cfg.Sections {
		if s.Kind != "frontend" || (s.Name != "http-in" && s.Name != "http-async-in") {
			continue
		}
		for _, d := range s.Dirs {
			isDeny := len(d.Words) >= 2 && d.Words[0] == "http-request" && d.Words[1] == "deny"
			isErr := len(d.Words) >= 1 && d.Words[0] == "http-error"
			if !isDeny && !isErr {
				continue
			}
			hasBody := false
			for _, wd := range d.Words {
				if wd == "lf-string" || wd == "string" {
					hasBody = true
				}
			}
			if !hasBody {
				continue // a bare deny (allow/block list): the reason travels in txn.x_lunar_error
			}
			n++
			marked := false
			for i, wd := range d.Words {
				if wd == "hdr" && i+1 < len(d.Words) && strings.EqualFold(d.Words[i+1], "x-lunar-error") {
					marked = true
				}
			}
			if !marked {
				bad = append(bad, haproxyCfgPath+":"+strconv.Itoa(d.Line))
			}
		}
	}
	r.Check(len(bad) == 0 && n >= 6, rule, "haproxy.cfg/gateway-generated-answers-carry-x-lunar-error", token.NoPos, "each of the %d answers with a body that the gateway generates itself has `hdr x-lunar-error <n>` (not so: %v): the interceptor counts a gateway failure by that header", n, bad)
}

// hrUnmanageGlobalIsDelete: the engine un-manages "all" with the method the proxy routes.
func hrUnmanageGlobalIsDelete(w *World, r *Report, rule string) {
	f := w.Fn(pkgConfig, "unmanageGlobal")
	if f == nil {
		r.Undec(rule, "unmanageGlobal", token.NoPos, "function not found")
		return
	}
	cs := CallsIn(f, false, "config.applyAllRequest")
	ok := len(cs) == 1
	m := ""
	if ok {
		m, _ = constString(cs[0].Common().Args[0])
		ok = m == "DELETE"
	}
	r.Check(ok, rule, "unmanageGlobal/sends-DELETE", f.Pos(), "unmanageGlobal sends DELETE (found %q): the proxy routes /unmanage_global only for method_delete (hrCfgManagedProtocol)", m)
}

// hrParamNamePattern: whatever the URL tree takes for a {parameter} is rewritten in the registered expression.
func hrParamNamePattern(w *World, r *Report, rule string) {
	pat := ""
	if ssaPkg := w.SSAPkg[pkgConfig]; ssaPkg != nil {
		if ini := ssaPkg.Func("init"); ini != nil {
			Instrs(ini, func(in ssa.Instruction) {
				if st, ok := in.(*ssa.Store); ok && strings.HasSuffix(Path(st.Addr), "global:regexToFindPathParameters") {
					if c, ok := peel(st.Val).(*ssa.Call); ok && isCallTo(c, "regexp.MustCompile") {
						pat, _ = constString(c.Call.Args[0])
					}
				}
			})
		}
	}
	re, err := regexp.Compile(pat)
	ok := err == nil && pat != ""
	var miss []string
	if ok {
		for _, s := range []string{"/{id}", "/{team-id}", "/{tenant.name}", "/{a_b}"} {
			if re.FindString("api.com"+s+"/x") != s {
				ok = false
				miss = append(miss, s)
			}
		}
	}
	r.Check(ok, rule, "regexToFindPathParameters/any-braced-segment", token.NoPos, "the registration recognises every `/{...}` segment as a parameter, like urltree.TryExtractPathParameter (pattern %q, not recognised: %v)", pat, miss)
}

// hrBodyLengthDecides: an apply request carries new policies when it has a body.
func hrBodyLengthDecides(w *World, r *Report, rule string) {
	f := w.Fn(pkgRouting, "HandleApplyPolicies")
	if f == nil {
		r.Undec(rule, "HandleApplyPolicies", token.NoPos, "function not found")
		return
	}
	n := 0
	for _, af := range Anons(f) {
		for _, c := range CallsIn(af, false, "TxnPoliciesAccessor).UpdateRawData") {
			n++
			ok := false
			for _, rel := range Rels(c.Block()) {
				isLen := func(v ssa.Value) bool {
					return strings.HasPrefix(Path(v), "builtin.len(") && strings.Contains(Path(v), "io.ReadAll(")
				}
				if isLen(rel.L) && (rel.Op == ">" && isIntConst(rel.R, 0) || rel.Op == "!=" && isIntConst(rel.R, 0) || rel.Op == ">=" && isIntConst(rel.R, 1)) {
					ok = true
				}
				if isLen(rel.R) && (rel.Op == "<" && isIntConst(rel.L, 0) || rel.Op == "!=" && isIntConst(rel.L, 0) || rel.Op == "<=" && isIntConst(rel.L, 1)) {
					ok = true
				}
			}
			for _, cd := range CondsOf(c.Block()) {
				if strings.Contains(Path(cd.V), "ContentLength") {
					ok = false
				}
			}
			r.Check(ok, rule, "HandleApplyPolicies/body-read-decides", posOf(c), "the pushed policies are applied when the body that was read is non-empty (not when a Content-Length was announced: a chunked request has none)")
		}
	}
	r.Check(n == 1, rule, "HandleApplyPolicies/apply-site", f.Pos(), "one UpdateRawData site (%d)", n)
}

// hrEarlyResponseBodyAlwaysSet: a replayed response without a body still tells the proxy so.
func hrEarlyResponseBodyAlwaysSet(w *World, r *Report, rule string) {
	f := w.Fn(pkgActions, "EarlyResponseAction.ReqToSpoeActions")
	if f == nil {
		r.Undec(rule, "EarlyResponseAction.ReqToSpoeActions", token.NoPos, "function not found")
		return
	}
	n, ok := 0, true
	for _, c := range CallsIn(f, false, "action.Actions).SetVar") {
		n++
		if len(CondsOf(c.Block())) != 0 || !alwaysRuns(c) {
			ok = false
		}
	}
	r.Check(ok && n >= 3, rule, "EarlyResponseAction.ReqToSpoeActions/every-variable-always-set", f.Pos(), "all %d variables of an early response are set unconditionally (lua.mock_response sends the body variable as it is)", n)
}

// hrResponseClosedOnlyWhenPresent: the plugin's report to the engine survives an unreachable engine.
func hrResponseClosedOnlyWhenPresent(w *World, r *Report, rule string) {
	f := w.Fn(pkgDisc, "notifyErrorRecord")
	if f == nil {
		r.Undec(rule, "notifyErrorRecord", token.NoPos, "function not found")
		return
	}
	n, ok := 0, true
	Instrs(f, func(in ssa.Instruction) {
		var recv ssa.Value
		switch x := in.(type) {
		case *ssa.Defer:
			if strings.HasSuffix(calleeID(x), ".Close") {
				recv = x.Call.Value
				if recv == nil && len(x.Call.Args) > 0 {
					recv = x.Call.Args[0]
				}
			}
		}
		if recv == nil || !strings.Contains(Path(recv), ".Body") {
			return
		}
		n++
		guarded := false
		for _, rel := range Rels(in.Block()) {
			if rel.Op == "==" && isNilConst(rel.R) && isErrorType(rel.L.Type()) && strings.Contains(Path(rel.L), ").Do(") {
				guarded = true
			}
		}
		if !guarded {
			ok = false
		}
	})
	r.Check(ok && n >= 1, rule, "notifyErrorRecord/body-closed-only-after-a-successful-call", f.Pos(), "resp.Body.Close is deferred only where client.Do returned no error (with the engine unreachable resp is nil)")
}

// hrFlushDoesNotRedeliver: a chunk discovery has already ingested is not handed back for redelivery.
func hrFlushDoesNotRedeliver(w *World, r *Report, rule string) {
	f := w.Fn("lunar/aggregation-plugin", "FLBPluginFlushCtx")
	if f == nil {
		r.Undec(rule, "FLBPluginFlushCtx", token.NoPos, "function not found")
		return
	}
	runs := CallsIn(f, false, "discovery.Run")
	ok := len(runs) == 1
	n := 0
	if ok {
		for _, alt := range ReturnAlts(f, 0) {
			if !domInstr(runs[0], alt.Ret) {
				continue
			}
			n++
			if k, isK := constInt(alt.Val); !isK || k == 2 { // output.FLB_RETRY
				ok = false
			}
		}
	}
	r.Check(ok && n >= 2, rule, "FLBPluginFlushCtx/no-retry-after-discovery-ran", f.Pos(), "after discovery.Run no return asks fluent-bit to deliver the chunk again (FLB_RETRY would count it twice) (%d returns)", n)
}

// hrFreshMapPerIteration: what a loop stores under each key is made in that iteration.
func hrFreshMapPerIteration(w *World, r *Report, rule string, pkg, fn string) {
	f := w.Fn(pkg, fn)
	if f == nil {
		r.Undec(rule, fn, token.NoPos, "function not found")
		return
	}
	n, ok := 0, true
	hs := loopHeadersOf(f)
	Instrs(f, func(in ssa.Instruction) {
		mu, isMU := in.(*ssa.MapUpdate)
		if !isMU {
			return
		}
		mk, isMk := peel(mu.Value).(*ssa.MakeMap)
		if !isMk {
			return
		}
		for _, h := range hs {
			if loopHas(h, mu.Block()) {
				n++
				if !loopHas(h, mk.Block()) {
					ok = false
				}
			}
		}
	})
	r.Check(ok && n >= 1, rule, fn+"/inner-map-made-per-key", f.Pos(), "the map stored under each key is made inside the loop that stores it (one shared map would give every consumer the union of all)")
}

// hrObfuscationLookups: small lookups of the header/path obfuscation.
func hrObfuscationLookups(w *World, r *Report, rule string) {
	if f := w.Fn(pkgConfig, "shouldObfuscate"); f == nil {
		r.Undec(rule, "shouldObfuscate", token.NoPos, "function not found")
	} else {
		lin := len(CallsIn(f, false, "slices.Contains", "slices.Index", "slices.ContainsFunc")) + len(loopHeadersOf(f))
		bin := len(CallsIn(f, false, "slices.BinarySearch", "sort.SearchStrings", "sort.Search"))
		r.Check(lin >= 1 && bin == 0, rule, "shouldObfuscate/exclusions-searched-as-an-unsorted-list", f.Pos(), "the exclusion list is scanned (it comes from the policies file in the user's order), not binary-searched")
	}
	if f := w.Fn("lunar/engine/streams/processors/har-collector", "apiStreamObfuscator.ObfuscateURLPath"); f == nil {
		r.Undec(rule, "ObfuscateURLPath", token.NoPos, "function not found")
	} else {
		ok, n := true, 0
		for _, c := range CallsIn(f, false, "strings.Split") {
			n++
			p := Path(c.Common().Args[0])
			if !strings.HasSuffix(p, "parsedURL.Path") {
				ok = false
			}
		}
		r.Check(ok && n >= 1, rule, "ObfuscateURLPath/segments-of-the-decoded-path", f.Pos(), "the path is split on parsedURL.Path (decoded), the form the exclusions are written in")
	}
	if f := w.Fn("lunar/engine/streams/processors/har-collector", "apiStreamObfuscator.isPathSegmentExcluded"); f != nil {
		n := len(CallsIn(f, true, "fmt.Sprint", "fmt.Sprintf"))
		r.Check(n == 0, rule, "isPathSegmentExcluded/compares-strings-only", f.Pos(), "a path segment is excluded when an excluded value IS that string (no formatting of numbers or booleans into strings: %d Sprint calls)", n)
	}
}

// hrExpireRearmed: adding a key that is already watched moves its deadline.
func hrExpireRearmed(w *World, r *Report, rule string) {
	f := w.Fn(pkgLctx, "ExpireWatcher.AddKey")
	if f == nil {
		r.Undec(rule, "ExpireWatcher.AddKey", token.NoPos, "function not found")
		return
	}
	n, ok := 0, true
	Instrs(f, func(in ssa.Instruction) {
		if mu, isMU := in.(*ssa.MapUpdate); isMU && strings.HasSuffix(Path(mu.Map), ".keysToRemove") {
			n++
			if len(CondsOf(mu.Block())) != 0 || !alwaysRuns(mu) {
				ok = false
			}
		}
	})
	r.Check(ok && n == 1, rule, "ExpireWatcher.AddKey/deadline-always-rearmed", f.Pos(), "keysToRemove[key] is set on every call (a retry that stores its request again under the sequence key must not lose it to the first transaction's deadline)")
}

// hrPutErrorsReturned: a registration the proxy refused fails the update.
func hrPutErrorsReturned(w *World, r *Report, rule string) {
	f := w.Fn(pkgConfig, "updateHAProxyEndpoints")
	if f == nil {
		r.Undec(rule, "updateHAProxyEndpoints", token.NoPos, "function not found")
		return
	}
	n, ok := 0, true
	for _, c := range CallsIn(f, false, "config.operateEndpoint") {
		n++
		if !errReturned(f, c) {
			ok = false
		}
	}
	r.Check(ok && n >= 1, rule, "updateHAProxyEndpoints/registration-errors-returned", f.Pos(), "the error of every PUT to the proxy is returned (%d calls): the engine must not switch to policies the proxy does not forward", n)
}

// hrRestoreBeforeFallbackReload: after a failed apply the files are restored before the engine reloads from them.
func hrRestoreBeforeFallbackReload(w *World, r *Report, rule string) {
	f := w.Fn(pkgRouting, "HandlingDataManager.handleApplyFlows")
	if f == nil {
		r.Undec(rule, "handleApplyFlows", token.NoPos, "function not found")
		return
	}
	n := 0
	for _, af := range Anons(f) {
		reloads := CallsIn(af, false, "HandlingDataManager).reloadFlows")
		for _, c := range reloads {
			// a fallback reload: it runs where an earlier reload has failed
			fallback := false
			for _, rel := range Rels(c.Block()) {
				if rel.Op == "!=" && isNilConst(rel.R) && strings.Contains(Path(rel.L), "reloadFlows(") {
					fallback = true
				}
			}
			if !fallback {
				continue
			}
			n++
			restored := false
			Instrs(af, func(in ssa.Instruction) {
				if call, isCall := in.(*ssa.Call); isCall && isCallTo(call, "FileSystemOperation).Restore") && domInstr(call, c) {
					restored = true
				}
			})
			r.Check(restored, rule, "handleApplyFlows/restore-before-the-fallback-reload", posOf(c), "the reload that follows a failed apply is preceded by an executed (not deferred) Restore(): it must load the previous files, not the rejected ones")
		}
	}
	r.Check(n >= 1, rule, "handleApplyFlows/fallback-reloads", f.Pos(), "%d fallback reloads inspected", n)
}

// hrMemoryStateOwnStore: every shared state has a store of its own.
func hrMemoryStateOwnStore(w *World, r *Report, rule string) {
	f := w.Fn(pkgLctx, "NewMemoryState")
	if f == nil {
		r.Undec(rule, "NewMemoryState", token.NoPos, "function not found")
		return
	}
	n, ok := 0, true
	for _, alt := range ReturnAlts(f, 0) {
		n++
		cm := litField(alt.Val, "contextMemory")
		if cm == nil || !isCallTo0(cm, "lunar-context.NewContext") {
			ok = false
		}
	}
	r.Check(ok && n == 1, rule, "NewMemoryState/store-of-its-own", f.Pos(), "contextMemory is a NewContext() made for this state (a store shared by all states lets two quotas whose key strings coincide share a window)")
}

// ---------------------------------------------------------------------------
// part 13: twelfth wave (ten properties, 25 minutes per author)

// indexGuarded: x[k] with a constant k is read only where len(x) is known to exceed k.
func indexGuarded(w *World, r *Report, rule string, f *ssa.Function, name string, minSites int) {
	n := 0
	Instrs(f, func(in ssa.Instruction) {
		ia, isIA := in.(*ssa.IndexAddr)
		if !isIA {
			return
		}
		k, isK := constInt(ia.Index)
		if !isK {
			return
		}
		if _, isSlice := ia.X.Type().Underlying().(*types.Slice); !isSlice {
			return
		}
		if _, isAlloc := ia.X.(*ssa.Slice); isAlloc {
			if _, lit := ia.X.(*ssa.Slice).X.(*ssa.Alloc); lit {
				return // a literal being filled in
			}
		}
		n++
		ok := false
		if c, isC := peel(ia.X).(*ssa.Call); isC && k == 0 && isCallTo(c, "strings.Split", "strings.SplitN") {
			ok = true // strings.Split returns at least one element
		}
		for _, rel := range Rels(ia.Block()) {
			var lenSide, other ssa.Value
			op := rel.Op
			if c, isC := peel(rel.L).(*ssa.Call); isC {
				if b, isB := c.Call.Value.(*ssa.Builtin); isB && b.Name() == "len" && sameVal(c.Call.Args[0], ia.X) {
					lenSide, other = rel.L, rel.R
				}
			}
			if lenSide == nil {
				if c, isC := peel(rel.R).(*ssa.Call); isC {
					if b, isB := c.Call.Value.(*ssa.Builtin); isB && b.Name() == "len" && sameVal(c.Call.Args[0], ia.X) {
						lenSide, other, op = rel.R, rel.L, flipOp(rel.Op)
					}
				}
			}
			if lenSide == nil {
				continue
			}
			m, isM := constInt(other)
			if !isM {
				continue
			}
			switch op {
			case "==":
				ok = ok || m > k
			case ">":
				ok = ok || m >= k
			case ">=":
				ok = ok || m > k
			case "!=":
				ok = ok || (m == 0 && k == 0)
			}
		}
		r.Check(ok, rule, name+"/constant-index-within-the-known-length", posOf(ia), "x[%d] is read under a condition that gives the list more than %d elements", k, k)
	})
	r.Check(n >= minSites, rule, name+"/constant-index-reads", f.Pos(), "%d reads at a constant index inspected", n)
}

func hrExtractDomainIndexes(w *World, r *Report, rule string) {
	f := w.Fn("lunar/engine/streams/processors/utils", "ExtractDomainAndPath")
	if f == nil {
		r.Undec(rule, "ExtractDomainAndPath", token.NoPos, "function not found")
		return
	}
	indexGuarded(w, r, rule, f, "ExtractDomainAndPath", 1)
}

// hrWholeCollectionProbed: the element-type probes look at every element.
func hrWholeCollectionProbed(w *World, r *Report, rule string) {
	for _, name := range []string{"isListOf", "isMapOf"} {
		f := w.Fn("lunar/engine/streams/public-types", name)
		if f == nil {
			r.Undec(rule, name, token.NoPos, "function not found")
			continue
		}
		sliced := 0
		Instrs(f, func(in ssa.Instruction) {
			if _, isSl := in.(*ssa.Slice); isSl {
				sliced++
			}
		})
		ok := sliced == 0 && len(loopHeadersOf(f)) == 1
		for _, h := range loopHeadersOf(f) {
			if len(loopBreaks(h)) != 0 {
				ok = false
			}
		}
		r.Check(ok, rule, name+"/every-element-probed", f.Pos(), "the probe ranges over the whole collection (no sub-slice, no break): NewParamValue asserts every element to the probed type without a check")
	}
}

// hrAlwaysAMap: header helpers hand back a map, never nil.
func hrAlwaysAMap(w *World, r *Report, rule string) {
	f := w.Fn("lunar/engine/utils", "MakeHeadersLowercase")
	if f == nil {
		r.Undec(rule, "MakeHeadersLowercase", token.NoPos, "function not found")
		return
	}
	ok, n := true, 0
	for _, alt := range ReturnAlts(f, 0) {
		n++
		if _, isMk := peel(alt.Val).(*ssa.MakeMap); !isMk {
			ok = false
		}
	}
	r.Check(ok && n >= 1, rule, "MakeHeadersLowercase/always-a-map", f.Pos(), "every return is a made map (SetBody and UpdateBodyFromBodyMap write content-length into the headers of a message that came without any)")
}

// hrIsEmptyLooksAtAllThree: a filter result is empty only when it has no user, start or end flow.
func hrIsEmptyLooksAtAllThree(w *World, r *Report, rule string) {
	f := w.Fn(pkgFilter, "FilterResult.IsEmpty")
	if f == nil {
		r.Undec(rule, "FilterResult.IsEmpty", token.NoPos, "function not found")
		return
	}
	seen := map[string]bool{}
	Instrs(f, func(in ssa.Instruction) {
		if fa, isFA := in.(*ssa.FieldAddr); isFA {
			if n := fieldName(fa.X.Type(), fa.Field); n == "UserFlow" || n == "SystemFlowStart" || n == "SystemFlowEnd" {
				seen[n] = true
			}
		}
	})
	r.Check(len(seen) == 3, rule, "FilterResult.IsEmpty/all-three-kinds", f.Pos(), "IsEmpty reads UserFlow, SystemFlowStart and SystemFlowEnd (read: %v)", keysOf(seen))
}

// hrMemberDelimiter: the separator of a concurrency member cannot be mistaken for part of an id.
func hrMemberDelimiter(w *World, r *Report, rule string) {
	c := w.constOf(pkgQuota, "memberDelimiter")
	if c == nil {
		r.Undec(rule, "memberDelimiter", token.NoPos, "constant not found")
		return
	}
	s := constant.StringVal(c)
	r.Check(len(s) >= 2, rule, "memberDelimiter/not-a-single-character", token.NoPos, "members are split on %q: at least two characters, because transaction ids (HAProxy's unique-id, client-supplied ids) contain single ':' and the expiry collector skips a member that does not split into three parts", s)
}

// hrWatcherGetsTheQueueTTL: the time-to-live watcher works with the configured TTL.
func hrWatcherGetsTheQueueTTL(w *World, r *Report, rule string) {
	f := w.Fn(pkgQProc, "NewProcessor")
	if f == nil {
		r.Undec(rule, "queue.NewProcessor", token.NoPos, "function not found")
		return
	}
	cs := CallsIn(f, false, "queue.NewRequestsWatcher")
	ok := len(cs) == 1 && strings.HasSuffix(Path(cs[0].Common().Args[0]), ".queueTTL")
	r.Check(ok, rule, "queue.NewProcessor/watcher-built-with-queueTTL", f.Pos(), "NewRequestsWatcher(proc.queueTTL, ...): a waiter's verdict is due at its TTL, not at some other period")
}

// hrOneScopePerEncoder: all variables of one encoded action live in one scope.
func hrOneScopePerEncoder(w *World, r *Report, rule string) {
	for _, e := range []struct{ typ, method string }{
		{"ModifyRequestAction", "ReqToSpoeActions"}, {"ModifyHeadersAction", "ReqToSpoeActions"}, {"GenerateRequestAction", "ReqToSpoeActions"},
		{"EarlyResponseAction", "ReqToSpoeActions"}, {"ModifyResponseAction", "RespToSpoeActions"}, {"RetryRequestAction", "RespToSpoeActions"},
	} {
		f := w.Fn(pkgActions, e.typ+"."+e.method)
		if f == nil {
			continue
		}
		scopes := map[string]bool{}
		for _, c := range CallsIn(f, false, "action.Actions).SetVar") {
			if k, isK := constInt(c.Common().Args[1]); isK {
				scopes[strconv.FormatInt(k, 10)] = true
			} else {
				scopes["?"] = true
			}
		}
		r.Check(len(scopes) == 1, rule, e.typ+"/one-variable-scope", f.Pos(), "every SetVar of %s.%s uses the same scope (%v): the Lua side reads all of them under one prefix", e.typ, e.method, keysOf(scopes))
	}
}

// hrTokenLookupAsWritten: a header an earlier remedy set is found under the name it was set with.
func hrTokenLookupAsWritten(w *World, r *Report, rule string) {
	f := w.Fn(pkgRemedies, "modifyRequestToUseAccount")
	if f == nil {
		r.Undec(rule, "modifyRequestToUseAccount", token.NoPos, "function not found")
		return
	}
	n, ok := 0, true
	Instrs(f, func(in ssa.Instruction) {
		lk, isLk := in.(*ssa.Lookup)
		if !isLk || !strings.HasSuffix(Path(lk.X), ".Headers") {
			return
		}
		n++
		if _, isCall := peel(lk.Index).(*ssa.Call); isCall || !strings.HasSuffix(Path(lk.Index), "Header.Name") {
			ok = false
		}
	})
	r.Check(ok && n >= 1, rule, "modifyRequestToUseAccount/header-looked-up-by-its-configured-name", f.Pos(), "the 'token already present' test looks the header up under token.Header.Name as configured (%d lookups)", n)
}

// hrPayloadDecodeErrorsReturned: an entry of a pushed configuration that does not decode rejects the payload.
func hrPayloadDecodeErrorsReturned(w *World, r *Report, rule string) {
	n := 0
	for _, name := range []string{"parseFlows", "parseQuotas", "parsePathParams", "parseGatewayConfig", "parseMetricsConfig"} {
		f := w.Fn(pkgSCfg, "ConfigurationPayload."+name)
		if f == nil {
			continue
		}
		for _, c := range CallsIn(f, false, "Encoding).DecodeString", "yaml.Unmarshal", "config.DecodeYAML", "streamconfig.decodeBase64") {
			n++
			r.Check(errReturned(f, c), rule, name+"/decode-error-returned/"+calleeShort(calleeID(c)), posOf(c), "a part that does not decode makes %s return the error (a payload is applied whole or not at all)", name)
		}
	}
	r.Check(n >= 3, rule, "payload/decode-sites", token.NoPos, "%d decode sites inspected", n)
}

// hrApplyFlowsWipesEverything: /apply_flows replaces the configuration: everything a payload can write is wiped first.
func hrApplyFlowsWipesEverything(w *World, r *Report, rule string) {
	f := w.Fn(pkgSCfg, "ConfigurationPayload.CleanUpGatewayDirectories")
	if f == nil {
		r.Undec(rule, "CleanUpGatewayDirectories", token.NoPos, "function not found")
		return
	}
	ok := len(CallsIn(f, false, "FileSystemOperation).CleanAll")) == 1 && len(CallsIn(f, false, "ConfigurationPayload).MakeCleanUpsByContent")) == 0
	r.Check(ok, rule, "CleanUpGatewayDirectories/cleans-all", f.Pos(), "CleanUpGatewayDirectories is CleanAll (the by-content clean-up is for partial updates)")
}

// hrDefaultTimeoutMatchesTheImage: the engine's fallback for the SPOE processing timeout is the image's default.
func hrDefaultTimeoutMatchesTheImage(w *World, r *Report, rule string) {
	c := w.constOf(pkgConfig, "defaultProcessingTimeout")
	raw, err := os.ReadFile(filepath.Join(w.Repo, "proxy/Dockerfile"))
	if c == nil || err != nil {
		r.Undec(rule, "defaultProcessingTimeout", token.NoPos, "constant or proxy/Dockerfile not found (%v)", err)
		return
	}
	img := ""
	for _, line := range strings.Split(string(raw), "\n") {
		ws := strings.Fields(line)
		for _, wd := range ws {
			if strings.HasPrefix(wd, "LUNAR_SPOE_PROCESSING_TIMEOUT_SEC=") {
				img = strings.Trim(strings.TrimPrefix(wd, "LUNAR_SPOE_PROCESSING_TIMEOUT_SEC="), `"'`)
			}
		}
	}
	ns, _ := constant.Int64Val(constant.ToInt(c))
	sec, perr := strconv.ParseInt(img, 10, 64)
	r.Check(perr == nil && ns == sec*1_000_000_000, rule, "defaultProcessingTimeout/equals-the-image-default", token.NoPos, "config.defaultProcessingTimeout (%d ns) is the LUNAR_SPOE_PROCESSING_TIMEOUT_SEC=%s of proxy/Dockerfile: the value HAProxy uses when the variable is not overridden", ns, img)
}

// hrTimestampParsedAsUTC: persisted timestamps are read back in UTC, as they were written.
func hrTimestampParsedAsUTC(w *World, r *Report, rule string) {
	f := w.Fn("lunar/shared-model/actions", "TimestampFromStringToInt64")
	if f == nil {
		r.Undec(rule, "TimestampFromStringToInt64", token.NoPos, "function not found")
		return
	}
	ok := len(CallsIn(f, false, "time.Parse")) == 1
	for _, c := range CallsIn(f, false, "time.ParseInLocation") {
		ok = strings.HasSuffix(Path(c.Common().Args[2]), "time.UTC")
	}
	r.Check(ok, rule, "TimestampFromStringToInt64/utc", f.Pos(), "the layout has no zone: it is parsed with time.Parse (UTC) or ParseInLocation(..., time.UTC), never in the host's zone")
}

// hrHistogramKeptWhole: every status bucket is persisted, the "no response" ones included.
func hrHistogramKeptWhole(w *World, r *Report, rule string) {
	f := w.Fn(pkgDisc, "convertMapOfCountToInt")
	if f == nil {
		r.Undec(rule, "convertMapOfCountToInt", token.NoPos, "function not found")
		return
	}
	n, ok := 0, true
	Instrs(f, func(in ssa.Instruction) {
		if mu, isMU := in.(*ssa.MapUpdate); isMU {
			n++
			for _, cd := range CondsOf(mu.Block()) {
				if !strings.HasPrefix(Path(cd.V), "next(range(") {
					ok = false
				}
			}
		}
	})
	r.Check(ok && n == 1, rule, "convertMapOfCountToInt/every-bucket", f.Pos(), "every (status, count) pair is copied, under no condition")
}

// hrObfuscateStringHashes: a string handed to the obfuscator comes back hashed, whatever it looks like.
func hrObfuscateStringHashes(w *World, r *Report, rule string) {
	f := w.Fn(pkgObf, "Obfuscator.ObfuscateString")
	if f == nil {
		r.Undec(rule, "Obfuscator.ObfuscateString", token.NoPos, "function not found")
		return
	}
	ok, n := true, 0
	for _, alt := range ReturnAlts(f, 0) {
		n++
		if !isCallTo0(alt.Val, "Hasher).HashBytes") || len(alt.Conds) != 0 {
			ok = false
		}
	}
	r.Check(ok && n == 1, rule, "Obfuscator.ObfuscateString/always-hashed", f.Pos(), "ObfuscateString returns Hasher.HashBytes(raw) on its only path (a value that looks like a digest is a value)")
}

// hrHeaderKeyOnlyFromBracketForm: a header exclusion names its header in the ["..."] form only.
func hrHeaderKeyOnlyFromBracketForm(w *World, r *Report, rule string) {
	f := w.Fn("lunar/engine/streams/processors/har-collector", "extractHeaderKeyFromJSONPath")
	if f == nil {
		r.Undec(rule, "extractHeaderKeyFromJSONPath", token.NoPos, "function not found")
		return
	}
	ok := len(CallsIn(f, false, "strings.LastIndex", "strings.Split")) == 0
	hasEmpty := false
	for _, alt := range ReturnAlts(f, 0) {
		if s, isS := constString(alt.Val); isS && s == "" {
			hasEmpty = true
		}
	}
	r.Check(ok && hasEmpty, rule, "extractHeaderKeyFromJSONPath/no-key-from-other-exclusions", f.Pos(), "an exclusion that is not of the [\"name\"] form yields no header key (a body or query exclusion must not name a header)")
}

// hrLimiterSharesItsVacuumsLock: the limiter and the vacuum of its slots use one lock.
func hrLimiterSharesItsVacuumsLock(w *World, r *Report, rule string) {
	f := w.Fn("lunar/engine/utils/limit/concurrency", "NewLimiter")
	if f == nil {
		r.Undec(rule, "concurrency.NewLimiter", token.NoPos, "function not found")
		return
	}
	vs := CallsIn(f, false, "vacuum.NewMapVacuum")
	ok := len(vs) == 1
	if ok {
		a := vs[0].Common().Args
		vm := a[len(a)-1]
		found := false
		for _, alt := range ReturnAlts(f, 0) {
			if m := litField(alt.Val, "mutex"); m != nil && sameVal(m, vm) {
				found = true
			}
		}
		ok = found
	}
	r.Check(ok, rule, "concurrency.NewLimiter/one-lock-for-limiter-and-vacuum", f.Pos(), "Limiter.mutex is the very mutex handed to NewMapVacuum (the vacuum deletes from the slots map the limiter reads and writes)")
}
