package main

import (
	"sort"
	"strings"

	"golang.org/x/tools/go/callgraph"
	"golang.org/x/tools/go/callgraph/cha"
	"golang.org/x/tools/go/ssa"
)

// CG is a lunar/*-restricted call graph (generic instantiations collapsed to
// their origin). Static: direct calls, go/defer, closures created in the
// caller. Dynamic: interface invokes resolved by CHA.
type CG struct {
	Static  map[*ssa.Function]map[*ssa.Function]bool
	Dynamic map[*ssa.Function]map[*ssa.Function]bool
}

func isLunar(f *ssa.Function) bool { return f != nil && strings.HasPrefix(fnPkgPath(f), "lunar/") }

func (w *World) CallGraph() *CG {
	cg := &CG{Static: map[*ssa.Function]map[*ssa.Function]bool{}, Dynamic: map[*ssa.Function]map[*ssa.Function]bool{}}
	add := func(m map[*ssa.Function]map[*ssa.Function]bool, a, b *ssa.Function) {
		a, b = origin(a), origin(b)
		if !isLunar(a) || !isLunar(b) {
			return
		}
		if m[a] == nil {
			m[a] = map[*ssa.Function]bool{}
		}
		m[a][b] = true
	}
	for _, f := range w.lunarFns {
		if f.Synthetic != "" && f.Origin() != nil {
			continue // instantiation wrappers / thunks: their edge is represented by origin(callee) at the caller
		}
		Instrs(f, func(in ssa.Instruction) {
			if c, ok := in.(ssa.CallInstruction); ok {
				if callee := c.Common().StaticCallee(); callee != nil {
					add(cg.Static, f, callee)
				}
			}
			if mc, ok := in.(*ssa.MakeClosure); ok {
				if fn, ok := mc.Fn.(*ssa.Function); ok {
					add(cg.Static, f, fn)
				}
			}
			// functions passed as values (callbacks) are potential callees
			for _, op := range in.Operands(nil) {
				if g, ok := (*op).(*ssa.Function); ok {
					if c, isCall := in.(ssa.CallInstruction); isCall && c.Common().Value == g {
						continue
					}
					add(cg.Dynamic, f, g)
				}
			}
		})
	}
	g := cha.CallGraph(w.Prog)
	_ = callgraph.GraphVisitEdges(g, func(e *callgraph.Edge) error {
		if e.Site != nil && e.Site.Common().IsInvoke() {
			add(cg.Dynamic, e.Caller.Func, e.Callee.Func)
		}
		return nil
	})
	return cg
}

// Reach returns the functions reachable from roots (static and dynamic edges).
func (cg *CG) Reach(roots []*ssa.Function, dynamic bool) map[*ssa.Function]bool {
	seen := map[*ssa.Function]bool{}
	var st []*ssa.Function
	for _, r := range roots {
		if r != nil {
			st = append(st, origin(r))
		}
	}
	for len(st) > 0 {
		f := st[len(st)-1]
		st = st[:len(st)-1]
		if seen[f] {
			continue
		}
		seen[f] = true
		for c := range cg.Static[f] {
			st = append(st, c)
		}
		if dynamic {
			for c := range cg.Dynamic[f] {
				st = append(st, c)
			}
		}
	}
	return seen
}

// SCCs returns the non-trivial strongly connected components (size > 1 or
// self-recursive) of the static graph restricted to `within`.
func (cg *CG) SCCs(within map[*ssa.Function]bool) [][]*ssa.Function {
	index := map[*ssa.Function]int{}
	low := map[*ssa.Function]int{}
	on := map[*ssa.Function]bool{}
	var stack []*ssa.Function
	var out [][]*ssa.Function
	n := 0
	var nodes []*ssa.Function
	for f := range within {
		nodes = append(nodes, f)
	}
	sort.Slice(nodes, func(i, j int) bool { return fnID(nodes[i])+nodes[i].Name() < fnID(nodes[j])+nodes[j].Name() })
	var strong func(v *ssa.Function)
	strong = func(v *ssa.Function) {
		index[v], low[v] = n, n
		n++
		stack = append(stack, v)
		on[v] = true
		for c := range cg.Static[v] {
			if !within[c] {
				continue
			}
			if _, seen := index[c]; !seen {
				strong(c)
				if low[c] < low[v] {
					low[v] = low[c]
				}
			} else if on[c] && index[c] < low[v] {
				low[v] = index[c]
			}
		}
		if low[v] == index[v] {
			var comp []*ssa.Function
			for {
				x := stack[len(stack)-1]
				stack = stack[:len(stack)-1]
				on[x] = false
				comp = append(comp, x)
				if x == v {
					break
				}
			}
			if len(comp) > 1 || cg.Static[v][v] {
				sort.Slice(comp, func(i, j int) bool { return fnID(comp[i])+comp[i].Name() < fnID(comp[j])+comp[j].Name() })
				out = append(out, comp)
			}
		}
	}
	for _, v := range nodes {
		if _, seen := index[v]; !seen {
			strong(v)
		}
	}
	return out
}
