package main

import (
	"bufio"
	"go/token"
	"os"
	"path/filepath"
	"strconv"
	"strings"
)

// The proxy half of the engine/proxy protocol lives in haproxy.cfg. The rules
// below read it as what it is - sections of directives, each an action with an
// optional `if`/`unless` list of ACL terms - never as text: terms may be
// reordered, lines moved within their section, comments and blanks changed.

const haproxyCfgPath = "proxy/rootfs/etc/haproxy/haproxy.cfg"

type cfgDirective struct {
	Line   int
	Words  []string // the directive up to the condition keyword
	Unless bool
	Conds  []string // ACL terms of the condition; an anonymous ACL `{ ... }` is one term, `!` is glued to its term
}

type cfgSection struct {
	Kind, Name string
	Line       int
	Dirs       []cfgDirective
}

type haproxyCfg struct {
	Path     string
	Sections []*cfgSection
}

// cfgWords splits a line into words: quotes group, `#` outside quotes starts a comment.
func cfgWords(line string) []string {
	var out []string
	cur := strings.Builder{}
	has := false
	var quote rune
	flush := func() {
		if has {
			out = append(out, cur.String())
			cur.Reset()
			has = false
		}
	}
	for _, c := range line {
		switch {
		case quote != 0:
			cur.WriteRune(c)
			if c == quote {
				quote = 0
			}
		case c == '"' || c == '\'':
			quote = c
			cur.WriteRune(c)
			has = true
		case c == '#':
			flush()
			return out
		case c == ' ' || c == '\t':
			flush()
		default:
			cur.WriteRune(c)
			has = true
		}
	}
	flush()
	return out
}

// cfgTerms turns the words after `if`/`unless` into terms.
func cfgTerms(ws []string) []string {
	var out []string
	neg := false
	for i := 0; i < len(ws); i++ {
		t := ws[i]
		if t == "!" {
			neg = !neg
			continue
		}
		if strings.HasPrefix(t, "!") && t != "!{" {
			neg = !neg
			t = t[1:]
		}
		if t == "{" || t == "!{" {
			if t == "!{" {
				neg = !neg
			}
			j := i + 1
			var in []string
			for j < len(ws) && ws[j] != "}" {
				in = append(in, ws[j])
				j++
			}
			i = j
			t = "{" + strings.Join(in, " ") + "}"
		}
		if neg {
			t = "!" + t
		}
		neg = false
		out = append(out, t)
	}
	return out
}

func loadHAProxyCfg(repo string) (*haproxyCfg, error) {
	p := filepath.Join(repo, haproxyCfgPath)
	f, err := os.Open(p)
	if err != nil {
		return nil, err
	}
	defer f.Close()
	cfg := &haproxyCfg{Path: p}
	var cur *cfgSection
	sc := bufio.NewScanner(f)
	sc.Buffer(make([]byte, 1<<20), 1<<20)
	n := 0
	for sc.Scan() {
		n++
		ws := cfgWords(sc.Text())
		if len(ws) == 0 {
			continue
		}
		switch ws[0] {
		case "global", "defaults", "frontend", "backend", "listen", "resolvers", "userlist", "peers", "cache", "program":
			cur = &cfgSection{Kind: ws[0], Line: n}
			if len(ws) > 1 {
				cur.Name = ws[1]
			}
			cfg.Sections = append(cfg.Sections, cur)
			continue
		}
		if cur == nil {
			continue
		}
		d := cfgDirective{Line: n, Words: ws}
		if ws[0] != "acl" { // an acl line has no condition of its own
			for i, t := range ws {
				if i > 0 && (t == "if" || t == "unless") {
					d.Words, d.Unless, d.Conds = ws[:i], t == "unless", cfgTerms(ws[i+1:])
					break
				}
			}
		}
		cur.Dirs = append(cur.Dirs, d)
	}
	return cfg, sc.Err()
}

func (c *haproxyCfg) section(kind, name string) *cfgSection {
	for _, s := range c.Sections {
		if s.Kind == kind && s.Name == name {
			return s
		}
	}
	return nil
}

// find returns the directives of the section whose words start with the given ones.
func (s *cfgSection) find(words ...string) []cfgDirective {
	var out []cfgDirective
	for _, d := range s.Dirs {
		if len(d.Words) < len(words) {
			continue
		}
		ok := true
		for i, w := range words {
			if d.Words[i] != w {
				ok = false
			}
		}
		if ok {
			out = append(out, d)
		}
	}
	return out
}

func (d cfgDirective) has(term string) bool {
	for _, t := range d.Conds {
		if t == term {
			return true
		}
	}
	return false
}

func cfgPos(cfg *haproxyCfg, line int) string {
	return haproxyCfgPath + ":" + strconv.Itoa(line)
}

// cfgCheck records one obligation on the configuration file (no token.Pos: the file is not Go).
func cfgCheck(r *Report, ok bool, rule, key string, cfg *haproxyCfg, line int, format string, a ...any) {
	r.Check(ok, rule, key, token.NoPos, "["+cfgPos(cfg, line)+"] "+format, a...)
}

// hrCfgManagedProtocol (C14): the proxy side of "registered as managed".
//   - registering one expression or manage-all lifts the skip-all state a crashed
//     engine left behind, and writes the map / variable that `is_managed` reads;
//   - `is_managed` is the union of manage-all and a regular-expression match of
//     METHOD:::url on the endpoints map;
//   - every SPOE group is sent for managed traffic, suppressed only by skip_all.
func hrCfgManagedProtocol(w *World, r *Report, rule string) {
	cfg, err := loadHAProxyCfg(w.Repo)
	if err != nil {
		r.Undec(rule, "haproxy.cfg", token.NoPos, "cannot read %s: %v", haproxyCfgPath, err)
		return
	}
	// the map file is whatever is_managed looks the expression up in
	epMap := ""
	if fe := cfg.section("frontend", "http-in"); fe != nil {
		for _, d := range fe.find("acl", "is_managed") {
			for _, wd := range d.Words[2:] {
				if i := strings.Index(wd, "map_reg("); i >= 0 {
					if j := strings.Index(wd[i:], ")"); j > 0 {
						epMap = wd[i+len("map_reg") : i+j+1]
					}
				}
			}
		}
	}
	if epMap == "" {
		r.Undec(rule, "haproxy.cfg/http-in/is_managed", token.NoPos, "no map_reg(...) definition of is_managed found in frontend http-in")
		return
	}
	type want struct {
		backend string
		acts    [][]string // each: words that some http-request directive must start with
	}
	for _, wt := range []want{
		{"manage_endpoint", [][]string{{"http-request", "unset-var(proc.skip_all)"}, {"http-request", "set-map" + epMap, "%[req.body]"}}},
		{"manage_all", [][]string{{"http-request", "unset-var(proc.skip_all)"}, {"http-request", "set-var(proc.manage_all)"}}},
		{"unmanage_endpoint", [][]string{{"http-request", "del-map" + epMap, "%[req.body]"}}},
		{"unmanage_all", [][]string{{"http-request", "unset-var(proc.manage_all)"}, {"http-request", "set-var(proc.skip_all)"}, {"http-request", "del-map" + epMap, "."}}},
		{"unmanage_global", [][]string{{"http-request", "unset-var(proc.manage_all)"}}},
	} {
		s := cfg.section("backend", wt.backend)
		if s == nil {
			r.Undec(rule, "haproxy.cfg/backend/"+wt.backend, token.NoPos, "backend not found in %s", haproxyCfgPath)
			continue
		}
		for _, act := range wt.acts {
			ds := s.find(act...)
			ok := len(ds) >= 1
			for _, d := range ds {
				if len(d.Conds) != 0 {
					ok = false // the state change is unconditional
				}
			}
			cfgCheck(r, ok, rule, "haproxy.cfg/backend/"+wt.backend+"/"+act[1], cfg, s.Line, "backend %s runs `%s` unconditionally (found %d)", wt.backend, strings.Join(act, " "), len(ds))
		}
	}
	// the management routes reach those backends
	if fe := cfg.section("frontend", "endpoints"); fe == nil {
		r.Undec(rule, "haproxy.cfg/frontend/endpoints", token.NoPos, "frontend endpoints not found")
	} else {
		for be, terms := range map[string][]string{
			"manage_endpoint":   {"method_put", "path_managed_endpoint"},
			"manage_all":        {"method_put", "path_manage_all"},
			"unmanage_endpoint": {"method_delete", "path_managed_endpoint"},
			"unmanage_all":      {"method_put", "path_unmanage_all"},
			"unmanage_global":   {"method_delete", "path_unmanage_global"},
		} {
			ds := fe.find("use_backend", be)
			ok := len(ds) == 1 && !ds[0].Unless
			if ok {
				for _, t := range terms {
					ok = ok && ds[0].has(t)
				}
			}
			cfgCheck(r, ok, rule, "haproxy.cfg/frontend/endpoints/route/"+be, cfg, fe.Line, "use_backend %s if %s", be, strings.Join(terms, " "))
		}
		for name, path := range map[string]string{"path_managed_endpoint": "/managed_endpoint", "path_manage_all": "/manage_all", "path_unmanage_all": "/unmanage_all", "path_unmanage_global": "/unmanage_global"} {
			ds := fe.find("acl", name)
			ok := len(ds) == 1 && len(ds[0].Words) == 4 && ds[0].Words[2] == "path" && ds[0].Words[3] == path
			cfgCheck(r, ok, rule, "haproxy.cfg/frontend/endpoints/acl/"+name, cfg, fe.Line, "acl %s path %s", name, path)
		}
		for name, m := range map[string]string{"method_put": "PUT", "method_delete": "DELETE"} {
			ds := fe.find("acl", name)
			ok := len(ds) == 1 && len(ds[0].Words) == 4 && ds[0].Words[2] == "method" && ds[0].Words[3] == m
			cfgCheck(r, ok, rule, "haproxy.cfg/frontend/endpoints/acl/"+name, cfg, fe.Line, "acl %s method %s", name, m)
		}
	}
	fe := cfg.section("frontend", "http-in")
	if fe == nil {
		r.Undec(rule, "haproxy.cfg/frontend/http-in", token.NoPos, "frontend http-in not found")
		return
	}
	// is_managed: manage-all OR the regex map looked up under METHOD:::url
	var byAll, byMap int
	for _, d := range fe.find("acl", "is_managed") {
		rest := strings.Join(d.Words[2:], " ")
		switch {
		case rest == "var(proc.manage_all) -m found":
			byAll++
		case rest == `capture.req.method,concat(":::",txn.url),map_reg`+epMap+" -m found":
			byMap++
		default:
			cfgCheck(r, false, rule, "haproxy.cfg/http-in/is_managed/unknown-source", cfg, d.Line, "unexpected definition of is_managed: %s", rest)
		}
	}
	cfgCheck(r, byAll == 1 && byMap == 1, rule, "haproxy.cfg/http-in/is_managed/union-of-manage-all-and-regex-map", cfg, fe.Line, "is_managed = var(proc.manage_all) found OR map_reg(endpoints.map) of METHOD:::url found (%d/%d)", byAll, byMap)
	ds := fe.find("acl", "skip_all")
	okSkip := len(ds) == 1 && strings.Join(ds[0].Words[2:], " ") == "var(proc.skip_all) -m found"
	cfgCheck(r, okSkip, rule, "haproxy.cfg/http-in/skip_all/reads-proc.skip_all", cfg, fe.Line, "acl skip_all var(proc.skip_all) -m found")
	// the url the map is matched against is set from the request
	n := 0
	for _, kw := range []string{"http-request", "http-response"} {
		for _, d := range fe.find(kw, "send-spoe-group", "lunar") {
			n++
			grp := "?"
			if len(d.Words) > 3 {
				grp = d.Words[3]
			}
			ok := !d.Unless && d.has("is_managed") && d.has("!skip_all")
			full := strings.Contains(grp, "full")
			ok = ok && (full && d.has("body_required") || !full && d.has("!body_required"))
			cfgCheck(r, ok, rule, "haproxy.cfg/http-in/send-spoe-group/"+grp, cfg, d.Line, "%s is sent if is_managed and !skip_all, the full group exactly when body_required (terms: %s)", grp, strings.Join(d.Conds, " "))
		}
	}
	cfgCheck(r, n == 4, rule, "haproxy.cfg/http-in/send-spoe-group/count", cfg, fe.Line, "two request groups and two response groups (%d found)", n)
}

// hrCfgEarlyResponseNotFedBack (C12): a response that the engine itself produced from
// memory is not sent back to the engine as a provider response (it would be stored again
// with a fresh time-to-live).
func hrCfgEarlyResponseNotFedBack(w *World, r *Report, rule string) {
	cfg, err := loadHAProxyCfg(w.Repo)
	if err != nil {
		r.Undec(rule, "haproxy.cfg", token.NoPos, "cannot read %s: %v", haproxyCfgPath, err)
		return
	}
	fe := cfg.section("frontend", "http-in")
	if fe == nil {
		r.Undec(rule, "haproxy.cfg/frontend/http-in", token.NoPos, "frontend http-in not found")
		return
	}
	ds := fe.find("acl", "is_early_response")
	okAcl := len(ds) == 1 && strings.Join(ds[0].Words[2:], " ") == "var(txn.lunar.return_early_response) -m bool"
	cfgCheck(r, okAcl, rule, "haproxy.cfg/http-in/is_early_response/reads-the-engine-flag", cfg, fe.Line, "acl is_early_response var(txn.lunar.return_early_response) -m bool")
	n := 0
	for _, d := range fe.find("http-response", "send-spoe-group", "lunar") {
		n++
		grp := "?"
		if len(d.Words) > 3 {
			grp = d.Words[3]
		}
		cfgCheck(r, !d.Unless && d.has("!is_early_response"), rule, "haproxy.cfg/http-in/response-group-not-for-early-responses/"+grp, cfg, d.Line, "%s is sent only if !is_early_response (terms: %s)", grp, strings.Join(d.Conds, " "))
	}
	cfgCheck(r, n == 2, rule, "haproxy.cfg/http-in/response-groups", cfg, fe.Line, "two response groups (%d found)", n)
	mk := fe.find("http-request", "use-service", "lua.mock_response")
	cfgCheck(r, len(mk) == 1 && mk[0].has("is_early_response") && !mk[0].Unless, rule, "haproxy.cfg/http-in/early-response-served-by-mock", cfg, fe.Line, "lua.mock_response serves the request if is_early_response")
}
