package main

import (
	"go/ast"
	"go/parser"
	"go/token"
	"go/types"
	"path/filepath"
	"strconv"
	"strings"

	"golang.org/x/tools/go/ssa"
)

const pkgValidation = "lunar/engine/streams/validation"

func init() {
	register(&Property{
		ID:   "C05",
		Mods: []string{modEngine},
		Explanation: "Decides integrity of the validation pipeline and an inventory of constructs that can take the process down; not 'accepted => safe' over all configurations: " +
			"(R1) a flow is added to the filter tree only after validateFlow succeeded; both directions are validated; a defined direction reaches the edge, unconnected-processor and cycle checks; " +
			"(R2) error discipline: at every call site of a validator/loader function the error is returned or wrapped (two listed exceptions); " +
			"(R3) reload validates by dry-run before the live engine is replaced; the admin validation/load handlers and the standalone flows-validator reach Validator.Validate; " +
			"(R4) recursion inventory: every recursive cycle of the static call graph reachable from load and from transaction handling equals a reviewed entry with its termination argument; " +
			"(R5) no process-killer (panic, log.Panic/Fatal, os.Exit) is reachable from the transaction entry points; " +
			"(R6) the cycle detector examines every direction the interpreter can walk (recorded finding: a response direction without root is skipped but walked on early response); " +
			"(R7) detector shape: a revisit yields 'cycle', a cycle found below is propagated, every edge with a target is descended into (a stream edge is skipped, not a reason to stop), 'cycle' becomes an error; " +
			"(R8) interpreter safety conditions shared with C04 (first-edge index guarded, actions routed by the actions side that was allocated). " +
			"NOT decided: termination/no-panic over all configurations and traffic; nil-dereference freedom.",
		RuleText: "obligation = (rule, anchored construct) on SSA + lunar-restricted call graph of the current tree: dominance, error-propagation at every call site of the validator set, SCC inventory, reachability of process-killers, return-alternative conditions of the DFS",
		Run:      runC05,
	})
}

func runC05(w *World, r *Report) {
	hrParsedURLAfterInit(w, r, "R5")
	hrFlowDataComplete(w, r, "R5")
	hrNodeValueOnlyWhenPresent(w, r, "R5")
	hrExtractDomainIndexes(w, r, "R5")
	hrWholeCollectionProbed(w, r, "R5")
	hrAlwaysAMap(w, r, "R5")
	hrExpressionGuards(w, r, "R5")
	// the merge of response actions never asserts the wrong type (C07.R1-R3)
	r.Borrow(w, runC07, map[string]string{"R1": "R5", "R2": "R5", "R3": "R5"})
	hrFirstElementOnlyWhenPresent(w, r, "R5")
	hrLabelMapNeverNil(w, r, "R5")
	hrEdgeEqualNilGuards(w, r, "R5")
	hrListAssertionsGuarded(w, r, "R5")
	hrAPIStreamAccessors(w, r, "R5")
	hrEmptyDocument(w, r, "R2")
	hrParentWalk(w, r, "R4")
	hrResponseNilGuard(w, r, "R5")
	hrParseHeaders(w, r, "R5")
	hrExtractKeyValuePair(w, r, "R2")
	// R1
	if bf := w.Fn(pkgFlow, "flowBuilder.buildFlow"); bf == nil {
		r.Undec("R1", "buildFlow", token.NoPos, "function not found")
	} else {
		vf := CallsIn(bf, false, "flow.validateFlow")
		af := CallsIn(bf, false, "FilterTreeI).AddFlow")
		ok := len(vf) == 1 && len(af) == 1 && domInstr(vf[0], af[0]) && errReturned(bf, vf[0])
		if ok {
			op, _ := FindRel(Rels(af[0].Block()), func(v ssa.Value) bool { return v == vf[0].Value() }, isNilConst)
			ok = op == "==" && sameVal(vf[0].Common().Args[0], margs(af[0])[0])
		}
		r.Check(ok, "R1", "buildFlow/validate-before-add", bf.Pos(), "the flow added to the filter tree is the one validateFlow accepted (validation error returned)")
	}
	if vf := w.Fn(pkgFlow, "validateFlow"); vf == nil {
		r.Undec("R1", "validateFlow", token.NoPos, "function not found")
	} else {
		vd := CallsIn(vf, false, "flow.validateDirection")
		dirs := map[string]bool{}
		okE := true
		for _, c := range vd {
			// the argument is (or, for a table of directions that is walked, derives from)
			// the request / response direction of the flow
			Derives(c.Common().Args[0], func(x ssa.Value) bool {
				switch typedField(x) {
				case "Flow.request":
					dirs["request"] = true
				case "Flow.response":
					dirs["response"] = true
				}
				return false
			})
			if !errReturned(vf, c) {
				okE = false
			}
		}
		r.Check(dirs["request"] && dirs["response"] && okE, "R1", "validateFlow/both-directions", vf.Pos(), "request and response directions are both validated and their errors returned (%v)", dirs)
	}
	if vd := w.Fn(pkgFlow, "validateDirection"); vd == nil {
		r.Undec("R1", "validateDirection", token.NoPos, "function not found")
	} else {
		for _, n := range []string{"validateEdges", "validateUnconnectedProcessors", "detectCircularConnections"} {
			cs := CallsIn(vd, false, "flow."+n)
			ok := len(cs) == 1 && errReturned(vd, cs[0])
			if ok {
				// reached whenever the direction is defined and earlier checks passed
				for _, cd := range CondsOf(cs[0].Block()) {
					p := Path(cd.V)
					allowed := strings.Contains(p, "IsDefined(") || strings.Contains(p, " != nil)") && !cd.Pol || strings.Contains(p, "HasValidRoot(") || strings.Contains(p, "IsRequestType(")
					if !allowed {
						ok = false
					}
				}
			}
			r.Check(ok, "R1", "validateDirection/"+n, vd.Pos(), "%s runs for every defined direction that passed the earlier checks, error returned", n)
		}
	}

	// R2 error discipline over the validator set
	validatorSet := []string{
		"flow.validateFlow", "flow.validateDirection", "flow.validateEdges", "flow.validateUnconnectedProcessors", "flow.detectCircularConnections",
		"flowBuilder).build", "flowBuilder).buildFlow", "flowBuilder).buildConnections", "flowBuilder).buildConnection", "flowBuilder).validateCondition",
		"flowBuilder).connectProcessorToFlow", "flowBuilder).connectFlowToProcessor", "flowBuilder).incorporateFlow", "flowBuilder).connectProcessorToStream", "flowBuilder).connectStreamToProcessor", "flowBuilder).connectProcessors",
		"flow.BuildFlows", "streams.Stream).createFlows", "streams.Stream).Initialize", "streams.Stream).attachSystemFlows", "streams.Stream).getFlows",
		"validation.Validator).Validate", "validation.Validator).ValidateGatewayConfig",
		"config.validateFlowRepresentation", "config.validateFlow", "config.validateProcessor", "config.validateFilter", "config.validateFlowConnection", "config.validateStreamRef", "config.validateFlowRef", "config.validateProcessorRef",
		"QuotaResourceData).Validate", "quotaProviderValidator).Validate", "SingleQuotaResourceData).validateFilters",
		"ProcessorManager).Init", "ProcessorManager).CreateProcessor",
	}
	exceptions := map[string]string{
		"(*lunar/engine/streams/flow.flowBuilder).build -> flowBuilder).buildFlow":  "first pass parks a failing flow in pendingFlows; the second pass returns the error (checked below)",
		"lunar/engine/streams/config.GetFlows -> config.validateFlowRepresentation": "non-validation mode skips a broken flow file and reports it through the aggregated error",
	}
	n2 := 0
	for _, cs := range w.CallSites(validatorSet...) {
		if !strings.HasPrefix(fnPkgPath(cs.Fn), "lunar/engine/") {
			continue
		}
		callee := calleeShort(calleeID(cs.In))
		caller := fnID(outermost(cs.Fn))
		if strings.HasSuffix(caller, ".main") || strings.Contains(caller, "test-utils") {
			continue
		}
		n2++
		key := "error-propagated/" + shortFn(caller) + "->" + callee
		ok := errReturned(cs.Fn, cs.In)
		why := ""
		for ex, reason := range exceptions {
			parts := strings.Split(ex, " -> ")
			if caller == parts[0] && idMatches(calleeID(cs.In), parts[1]) {
				why = reason
			}
		}
		if !ok && cs.Fn.Parent() != nil {
			// closures (HTTP handlers) report the error to the client instead of returning it
			rep := false
			Instrs(cs.Fn, func(in ssa.Instruction) {
				if isCallTo(in, "routing.handleError", "net/http.Error") {
					rep = true
				}
			})
			if rep {
				ok = true
			}
		}
		switch {
		case ok:
			r.Hold("R2", key, posOf(cs.In), 1, "error of %s is returned/wrapped by %s", callee, shortFn(caller))
		case why != "":
			// the exception is only valid if some call site in the same function does propagate
			r.Hold("R2", key, posOf(cs.In), 1, "table exception: %s", why)
		default:
			r.Fail("R2", key, posOf(cs.In), "the error of %s is dropped in %s: a configuration that fails this check would be accepted", callee, caller)
		}
	}
	if n2 < 25 {
		r.Undec("R2", "error-propagated/count", token.NoPos, "found %d call sites of the validator set, hand-confirmed minimum 25", n2)
	}
	if b := w.Fn(pkgFlow, "flowBuilder.build"); b != nil {
		cs := CallsIn(b, false, "flowBuilder).buildFlow")
		ok := len(cs) == 2 && (errReturned(b, cs[0]) || errReturned(b, cs[1]))
		r.Check(ok, "R2", "build/second-pass-returns-error", b.Pos(), "a flow that failed in the first pass is rebuilt and a second failure is returned")
	}

	// R3
	r.Borrow(w, func(w *World, r *Report) { c08Publish(w, r) }, map[string]string{"R6": "R3"})
	nV := 0
	for _, cs := range w.CallSites("validation.Validator).Validate") {
		nV++
		_ = cs
	}
	r.Check(nV >= 1, "R3", "engine/validate-call-sites", token.NoPos, "Validator.Validate is invoked by the engine's dry run (%d site(s))", nV)
	c05FlowsValidator(w, r)

	// R4/R5 call-graph rules
	cg := w.CallGraph()
	load := []*ssa.Function{w.Fn(pkgStreams, "Stream.Initialize"), w.Fn(pkgValidation, "Validator.Validate")}
	txn := []*ssa.Function{w.Fn(pkgRouting, "processRequest"), w.Fn(pkgRouting, "processResponse"), w.Fn(pkgStreams, "Stream.OnError")}
	for i, f := range append(append([]*ssa.Function{}, load...), txn...) {
		if f == nil {
			r.Undec("R4", "entry-points", token.NoPos, "entry point #%d not found", i)
			return
		}
	}
	reach := cg.Reach(append(append([]*ssa.Function{}, load...), txn...), true)
	reviewed := map[string]string{
		"(*lunar/engine/streams/stream.Stream).ExecuteFlow":         "terminates on the validated (acyclic from the root) graph; see R6 for the unexamined case",
		"lunar/engine/streams/flow.dfsDetectCycles":                 "path-visited set per condition: a revisit returns",
		"(lunar/engine/utils/obfuscation.Obfuscator).obfuscateJSON": "structural recursion on the JSON value",
		"(*lunar/engine/streams/resources/utils.QuotaNode).GetNode": "structural recursion on the quota tree (children are only added below an existing node)",
		"lunar/toolkit-core/urltree.convergeNodesPaths":             "structural recursion on the (finite, acyclic) trie",
		"(*lunar/engine/streams/flow.flowBuilder).buildConnection,(*lunar/engine/streams/flow.flowBuilder).buildConnections,(*lunar/engine/streams/flow.flowBuilder).connectFlowToProcessor,(*lunar/engine/streams/flow.flowBuilder).connectProcessorToFlow,(*lunar/engine/streams/flow.flowBuilder).incorporateFlow": "GUARDED by the incorporating set (checked by R4 incorporateFlow/re-entry-rejected)",
	}
	seenSCC := map[string]bool{}
	for _, comp := range cg.SCCs(reach) {
		var ids []string
		for _, f := range comp {
			id := fnID(f)
			if f.Parent() != nil {
				id = fnID(outermost(f)) + "$" + f.Name()
			}
			ids = append(ids, id)
		}
		key := strings.Join(ids, ",")
		seenSCC[key] = true
		short := shortFn(ids[0])
		if len(ids) > 1 {
			short += "+" + itoa(len(ids)-1)
		}
		arg, ok := reviewed[key]
		switch {
		case !ok:
			r.Undec("R4", "recursion/"+short, comp[0].Pos(), "new or changed recursive cycle reachable from load/transaction entry points, not in the reviewed table: %s", key)
		case strings.HasPrefix(arg, "NO GUARD"):
			r.Fail("R4", "recursion/"+short, comp[0].Pos(), "recursive cycle without a termination guard: %s (%s): two flows that reference each other make flow loading/validation recurse until the stack overflows", key, arg)
		default:
			r.Hold("R4", "recursion/"+short, comp[0].Pos(), len(ids), "reviewed recursion: %s", arg)
		}
	}
	for key := range reviewed {
		if !seenSCC[key] {
			r.Undec("R4", "recursion-table/"+shortFn(strings.Split(key, ",")[0]), token.NoPos, "reviewed recursive cycle no longer present as such (table out of date): %s", key)
		}
	}
	if inc := w.Fn(pkgFlow, "flowBuilder.incorporateFlow"); inc == nil {
		r.Undec("R4", "incorporateFlow", token.NoPos, "function not found")
	} else {
		bc := CallsIn(inc, false, "flowBuilder).buildConnections")
		okG := false
		for _, alt := range ReturnAlts(inc, 0) {
			if isNilConst(alt.Val) {
				continue
			}
			if condsHave(alt.Conds, true, func(v ssa.Value) bool { return strings.HasSuffix(Path(v), ".incorporating[param:flowName]#1") }) {
				okG = len(bc) == 1 && !domInstr(bc[0], alt.Ret)
			}
		}
		okM := false
		Instrs(inc, func(in ssa.Instruction) {
			if mu, ok := in.(*ssa.MapUpdate); ok && strings.HasSuffix(Path(mu.Map), ".incorporating") && Path(mu.Key) == "param:flowName" && len(bc) == 1 && domInstr(mu, bc[0]) {
				okM = true
			}
		})
		r.Check(okG && okM, "R4", "incorporateFlow/re-entry-rejected", inc.Pos(), "a flow that is already being incorporated is rejected with an error (guard=%v) and the flow is marked before its connections are built (mark=%v): mutually referencing flows terminate", okG, okM)
	}
	// R5 killers on the transaction path
	txnReach := cg.Reach(txn, true)
	// does the handler install a recover? then panics are contained
	killers := 0
	var names []*ssa.Function
	for f := range txnReach {
		names = append(names, f)
	}
	sortFns(names)
	for _, f := range names {
		Instrs(f, func(in ssa.Instruction) {
			kind := ""
			switch x := in.(type) {
			case *ssa.Panic:
				// compiler-inserted panics of `select {}` fallthrough have no position
				if x.Pos().IsValid() {
					kind = "panic"
				}
			case ssa.CallInstruction:
				id := calleeID(x)
				switch {
				case idMatches(id, "zerolog.Logger).Panic"), idMatches(id, "zerolog.Logger).Fatal"), idMatches(id, "log.Panic"), idMatches(id, "log.Fatal"), id == "log.Fatalf", id == "log.Fatal", id == "log.Panicf", id == "os.Exit":
					kind = calleeShort(id)
				}
			}
			if kind == "" {
				return
			}
			killers++
			r.Fail("R5", "process-killer/"+shortFn(fnID(outermost(f)))+"/"+kind, posOf(in), "%s is reachable from the transaction entry points (the SPOE worker has no recover): a transaction could take the engine process down", kind)
		})
	}
	// values decoded from the SPOE message are converted with checked (comma-ok) type
	// assertions only: a mistyped or NULL argument must not panic the handler
	nOK, nAll := 0, 0
	for _, f := range names {
		if fnPkgPath(f) != pkgRouting {
			continue
		}
		Instrs(f, func(in ssa.Instruction) {
			ta, ok := in.(*ssa.TypeAssert)
			if !ok {
				return
			}
			nAll++
			if ta.CommaOk {
				nOK++
				return
			}
			killers++
			r.Fail("R5", "process-killer/"+shortFn(fnID(outermost(f)))+"/unchecked-type-assertion", ta.Pos(), "unchecked type assertion %s.(%s) in the SPOE message boundary: a mistyped argument panics the handler (no recover)", trunc(Path(ta.X), 60), ta.AssertedType)
		})
	}
	if nAll == 0 {
		r.Undec("R5", "process-killer/message-boundary-type-assertions", token.NoPos, "no type assertion found in the routing package on the transaction path (extractArg moved?)")
	} else if nOK == nAll {
		r.Hold("R5", "process-killer/message-boundary-type-assertions", token.NoPos, nAll, "all %d type assertions of the routing package on the transaction path are comma-ok", nAll)
	}
	// error-handling contradictions anywhere on the transaction path (a method called or
	// deferred on the result of a failed call is a nil dereference - a panic - in waiting)
	nMis := 0
	for _, f := range names {
		if f.Parent() != nil {
			continue
		}
		var ms []ErrMisuse
		for _, g := range Anons(f) {
			ms = append(ms, errPolarity(g)...)
		}
		if len(ms) <= acceptedErrIdioms[fnID(f)].n {
			continue
		}
		for i, m := range ms {
			nMis++
			killers++
			r.Fail("R5", "process-killer/"+shortFn(fnID(f))+"/error-contradiction#"+itoa(i+1), m.At.Pos(), "%s: %s", m.Kind, trunc(Path(m.Err), 70))
		}
	}
	if nMis == 0 {
		r.Hold("R5", "process-killer/no-error-contradiction-on-transaction-path", token.NoPos, len(names), "no function reachable from the transaction entry points uses the result of a fallible call before or against its error check (beyond the reviewed idioms)")
	}
	if killers == 0 {
		r.Hold("R5", "process-killer/none-on-transaction-path", token.NoPos, len(txnReach), "no panic/log.Panic/log.Fatal/os.Exit in the %d lunar functions reachable from processRequest/processResponse/OnError", len(txnReach))
	}
	r.Extra["call_graph"] = map[string]int{"reachable_from_entry_points": len(reach), "reachable_from_transaction_entries": len(txnReach)}

	c05Detector(w, r)
	c05OnlyValidatedFlowsLoaded(w, r)
	c05InternalLimitsAttachedUnderKnownParents(w, r)
	c05ConnectionEndsNilChecked(w, r)
	// a processor entry without data (`readCache:` with nothing under it) is a nil *Processor in
	// the map: it is rejected before validateProcessor dereferences it - by a comparison of the
	// pointer itself (a nil pointer wrapped into an interface is not == nil)
	if vf := w.Fn(pkgSCfg, "validateFlowRepresentation"); vf == nil {
		r.Undec("R2", "validateFlowRepresentation", token.NoPos, "function not found")
	} else {
		vp := CallsIn(vf, false, "config.validateProcessor")
		ok := len(vp) >= 1
		for _, c := range vp {
			arg := unhelp(peel(c.Common().Args[0]))
			guarded := false
			for _, rel := range relsOfConds(CondsOf(c.Block())) {
				for _, side := range [][2]ssa.Value{{rel.L, rel.R}, {rel.R, rel.L}} {
					if !isNilConst(side[1]) || rel.Op != "!=" {
						continue
					}
					_, isPtr := side[0].Type().Underlying().(*types.Pointer)
					if isPtr && (side[0] == arg || Path(side[0]) == Path(arg)) {
						guarded = true
					}
				}
			}
			if !guarded {
				ok = false
			}
		}
		r.Check(ok, "R2", "validateFlowRepresentation/nil-processor-entry-rejected-first", vf.Pos(), "validateProcessor(p) runs only where the pointer p itself was compared with nil (%d call(s))", len(vp))
	}
	// R8 shared interpreter safety conditions
	r.Borrow(w, runC04, map[string]string{"R3": "R8", "R6": "R8"})
	r.Min("R1", 5)
	r.Min("R2", 26)
	r.Min("R3", 3)
	r.Min("R4", 7)
	r.Min("R5", 1)
	r.Min("R6", 2)
	r.Min("R7", 4)
	r.Min("R8", 6)
}

func itoa(n int) string { return strconv.Itoa(n) }

func sortFns(fs []*ssa.Function) {
	for i := 1; i < len(fs); i++ {
		for j := i; j > 0 && fnID(fs[j])+fs[j].Name() < fnID(fs[j-1])+fs[j-1].Name(); j-- {
			fs[j], fs[j-1] = fs[j-1], fs[j]
		}
	}
}

// c05FlowsValidator: the standalone validator module does not type-check on
// its own in every sandbox; its handler is checked on the parsed AST.
func c05FlowsValidator(w *World, r *Report) {
	path := filepath.Join(w.Repo, modValidator, "main.go")
	fset := token.NewFileSet()
	f, err := parser.ParseFile(fset, path, nil, 0)
	if err != nil {
		r.Undec("R3", "flows-validator/parse", token.NoPos, "cannot parse %s: %v", path, err)
		return
	}
	// validateFlowsSetup: validation.NewValidator().WithValidationDir(..).Validate() with the error turned into Success:false
	okCall, okFail := false, false
	ast.Inspect(f, func(n ast.Node) bool {
		fd, ok := n.(*ast.FuncDecl)
		if !ok || fd.Name.Name != "validateFlowsSetup" {
			return true
		}
		ast.Inspect(fd, func(m ast.Node) bool {
			switch x := m.(type) {
			case *ast.CallExpr:
				if se, ok := x.Fun.(*ast.SelectorExpr); ok && se.Sel.Name == "Validate" {
					okCall = true
				}
			case *ast.IfStmt:
				// if err := validation.Validate(); err != nil { return ValidationResult{Success: false ...
				ast.Inspect(x.Body, func(k ast.Node) bool {
					if kv, ok := k.(*ast.KeyValueExpr); ok {
						if id, ok := kv.Key.(*ast.Ident); ok && id.Name == "Success" {
							if v, ok := kv.Value.(*ast.Ident); ok && v.Name == "false" {
								okFail = true
							}
						}
					}
					return true
				})
			}
			return true
		})
		return false
	})
	r.Check(okCall && okFail, "R3", "flows-validator/runs-validator-and-reports-failure", token.NoPos, "flows-validator's validateFlowsSetup calls Validator.Validate() and reports Success:false on error (AST check; the module is not type-checked here)")
}

func c05Detector(w *World, r *Report) {
	dc := w.Fn(pkgFlow, "detectCircularConnections")
	dfs := w.Fn(pkgFlow, "dfsDetectCycles")
	if dc == nil || dfs == nil {
		r.Undec("R7", "detector", token.NoPos, "detectCircularConnections / dfsDetectCycles not found")
		return
	}
	// R6 the detector's start set covers the interpreter's start set: the walk
	// can start at the root and (after an early response) at any node of the
	// direction, so the DFS must be started from every node.
	allNodes := false
	for _, c := range CallsIn(dc, false, "flow.dfsDetectCycles") {
		a0 := c.Common().Args[0]
		fromNodes := Derives(a0, func(x ssa.Value) bool {
			switch y := x.(type) {
			case *ssa.Lookup:
				return strings.HasSuffix(Path(y.X), "flowDir.nodes")
			case *ssa.Range:
				return strings.HasSuffix(Path(y.X), "flowDir.nodes")
			}
			return false
		})
		if !fromNodes {
			continue
		}
		// no per-node skipping condition
		extra := []string{}
		for _, cd := range CondsOf(c.Block()) {
			if sg := condSig(cd); sg != "" && !strings.Contains(sg, "dfsDetectCycles(") && !strings.Contains(sg, "HasValidRoot(") && !strings.Contains(sg, "IsResponseType(") {
				extra = append(extra, sg)
			}
		}
		if len(extra) == 0 {
			allNodes = true
		}
	}
	if allNodes {
		r.Hold("R6", "detectCircularConnections/every-node-is-a-start", dc.Pos(), 1, "the cycle search starts from every node of the direction (the interpreter can enter at the root and, after an early response, at any node)")
	} else {
		r.Fail("R6", "detectCircularConnections/every-node-is-a-start", dc.Pos(), "the cycle search starts only from the root's edges, but stream.ExecuteFlow enters the response direction at GetNode(processorKey) after an early response: a cycle among response processors that is unreachable from the root is accepted and walked without end")
	}
	// a direction the interpreter never walks may be skipped: executeFlow returns before using startFromNode when there is no root
	if xf := w.Fn(pkgStreams, "Stream.executeFlow"); xf != nil {
		okSkip := false
		var firstUse ssa.Instruction
		Instrs(xf, func(in ssa.Instruction) {
			if c, ok := in.(ssa.CallInstruction); ok && strings.Contains(Path(c.Common().Value), "param:startFromNode") && firstUse == nil && isCallTo(c, "FlowGraphNodeI).GetEdges") {
				firstUse = c
			}
		})
		if firstUse != nil {
			// the root check (IsInterfaceNil(start) -> return) dominates the first use of startFromNode
			for _, cd := range CondsOf(firstUse.Block()) {
				if p := Path(cd.V); strings.Contains(p, "IsInterfaceNil(") && strings.Contains(p, "GetRoot(") && !cd.Pol {
					okSkip = true
				}
			}
		}
		r.Check(okSkip, "R6", "executeFlow/rootless-direction-never-walked", xf.Pos(), "a direction without root is never walked (the root check precedes any use of the short-circuit node), so skipping its cycle search is sound")
	}
	// R7 detector shape
	recs := CallsIn(dfs, false, "flow.dfsDetectCycles")
	if len(recs) != 1 {
		r.Undec("R7", "dfs/recursion", dfs.Pos(), "expected one recursive call, found %d", len(recs))
		return
	}
	rc := recs[0]
	var header *ssa.BasicBlock
	for _, cd := range CondsOf(rc.Block()) {
		if b, isB := cd.V.(*ssa.BinOp); isB && b.Op == token.LSS && isCallTo0(b.Y, "builtin.len") {
			header = cd.If.Block()
		}
	}
	nT, nCycle, nProp := 0, 0, 0
	for _, alt := range ReturnAlts(dfs, 0) {
		b, isC := constBool(alt.Val)
		if !isC {
			r.Fail("R7", "dfs/non-constant-result", posOf(alt.Ret), "result %s", Path(alt.Val))
			continue
		}
		inLoop := header != nil && header.Dominates(alt.Block) && alt.Block != header && reachableFrom(alt.Block, nil)[header] == false && loopHas(header, alt.Block)
		if b {
			nT++
			// "no cycle" only after every edge was examined
			done := header != nil && !loopHas(header, alt.Block)
			r.Check(done, "R7", "dfs/no-cycle-only-after-all-edges", posOf(alt.Ret), "true (no cycle) is returned only after the edge loop finished (a stream edge must be skipped, not end the search)")
			continue
		}
		_ = inLoop
		if condsHave(alt.Conds, false, func(v ssa.Value) bool { return v == rc.Value() }) {
			nProp++
			continue
		}
		if condsHave(alt.Conds, true, func(v ssa.Value) bool { p := Path(v); return strings.HasSuffix(p, "[param:current]#1") }) {
			nCycle++
			continue
		}
		r.Fail("R7", "dfs/unexpected-false", posOf(alt.Ret), "false returned under unexpected conditions %s", trunc(condsString(alt.Conds), 200))
	}
	r.Check(nT == 1 && nCycle == 1 && nProp == 1, "R7", "dfs/result-table", dfs.Pos(), "one 'no cycle' exit after the loop (%d), one 'revisit => cycle' exit (%d), one propagation of a cycle found below (%d)", nT, nCycle, nProp)
	// every edge with a node is descended into
	extra := []string{}
	for _, cd := range CondsOf(rc.Block()) {
		if header != nil && header.Dominates(cd.If.Block()) && cd.If.Block() != header {
			p := Path(cd.V)
			if !(strings.HasSuffix(p, ".node != nil)") || strings.HasSuffix(p, ".node == nil)")) {
				extra = append(extra, p)
			}
		}
	}
	a := rc.Common().Args
	okArgs := strings.HasSuffix(Path(a[0]), ".node") && isCallTo0(a[1], "flow.cloneVisitsMap") && strings.HasSuffix(Path(a[2]), ".node.processorKey") && strings.HasSuffix(Path(a[3]), ".condition")
	r.Check(len(extra) == 0 && okArgs, "R7", "dfs/descends-every-node-edge", posOf(rc), "every edge with a target node is descended into with a copy of the visited sets, the target's key and the edge's condition (extra conditions %v)", extra)
	// the visit is recorded before descending
	okMark := false
	Instrs(dfs, func(in ssa.Instruction) {
		if mu, ok := in.(*ssa.MapUpdate); ok && Path(mu.Key) == "param:current" {
			if b, isC := constBool(mu.Value); isC && b && domInstr(mu, rc) {
				okMark = true
			}
		}
	})
	r.Check(okMark, "R7", "dfs/marks-before-descending", dfs.Pos(), "visited[condition][current] = true is recorded before the edges are followed")
	// false => error in the caller
	okErr := false
	for _, c := range CallsIn(dc, false, "flow.dfsDetectCycles") {
		for _, alt := range ReturnAlts(dc, 0) {
			if !isNilConst(alt.Val) && condsHave(alt.Conds, false, func(v ssa.Value) bool { return v == c.Value() }) {
				okErr = true
			}
		}
		// DFS starts from every root edge that has a node
		st := strings.Contains(Path(c.Common().Args[0]), "root.node.edges") || strings.Contains(Path(c.Common().Args[0]), ".node")
		okErr = okErr && st
	}
	r.Check(okErr, "R7", "detectCircularConnections/cycle-becomes-error", dc.Pos(), "a cycle reported by the DFS from any root edge is returned as an error")
	// ... exactly then: every error exit is on the false edge of one search, every search has
	// such an exit, the success exit lies behind all of them, and no start is skipped by a break
	dcalls := CallsIn(dc, false, "flow.dfsDetectCycles")
	okTable := len(dcalls) >= 1
	hasErr := map[ssa.Value]bool{}
	for _, alt := range ReturnAlts(dc, 0) {
		cs := expandConds(alt.Conds)
		if isNilConst(alt.Val) {
			for _, c := range dcalls {
				if condsHave(cs, false, func(v ssa.Value) bool { return v == c.Value() }) {
					okTable = false
				}
			}
			continue
		}
		matched := false
		for _, c := range dcalls {
			if condsHave(cs, false, func(v ssa.Value) bool { return v == c.Value() }) && !condsHave(cs, true, func(v ssa.Value) bool { return v == c.Value() }) {
				matched = true
				hasErr[c.Value()] = true
			}
		}
		if !matched {
			okTable = false
		}
	}
	for _, c := range dcalls {
		if !hasErr[c.Value()] {
			okTable = false
		}
	}
	var brk []string
	for _, h := range loopHeadersOf(dc) {
		brk = append(brk, loopBreaks(h)...)
	}
	r.Check(okTable && len(brk) == 0, "R7", "detectCircularConnections/error-iff-some-search-found-a-cycle", dc.Pos(), "each of the %d searches returns an error on its false (cycle) edge and only there; nil is returned only when none did; no loop over start points is left by break %v", len(dcalls), brk)
	// the only direction whose search is skipped is a response direction without a root
	for _, alt := range ReturnAlts(dc, 0) {
		if !isNilConst(alt.Val) {
			continue
		}
		before := true
		for _, c := range dcalls {
			if domInstr(c, alt.Ret) || reachableFrom(c.Block(), nil)[alt.Ret.Block()] {
				before = false
			}
		}
		if !before {
			continue
		}
		cs := expandConds(alt.Conds)
		isResp := condsHave(cs, true, func(v ssa.Value) bool { return isCallTo0(v, "StreamType).IsResponseType", "FlowType).IsResponseType") })
		noRoot := condsHave(cs, false, func(v ssa.Value) bool { return isCallTo0(v, "FlowDirection).HasValidRoot") })
		r.Check(isResp && noRoot && len(cs) == 2, "R6", "detectCircularConnections/only-rootless-response-is-skipped", posOf(alt.Ret), "the search is skipped only for a response direction (=%v) without a valid root (=%v)", isResp, noRoot)
	}
	var dbrk []string
	for _, h := range loopHeadersOf(dfs) {
		dbrk = append(dbrk, loopBreaks(h)...)
	}
	r.Check(len(dbrk) == 0, "R7", "dfs/edge-loop-not-left-by-break", dfs.Pos(), "an edge without a target node is skipped (continue), it does not end the search of the remaining edges %v", dbrk)
	// the revisit test: a cycle is reported when the key was already visited under this condition
	for _, alt := range ReturnAlts(dfs, 0) {
		b, isC := constBool(alt.Val)
		if !isC || b {
			continue
		}
		cs := expandConds(alt.Conds)
		if condsHave(cs, true, func(v ssa.Value) bool { return strings.HasSuffix(Path(v), "[param:current]#1") }) {
			okOuter := condsHave(cs, true, func(v ssa.Value) bool {
				p := Path(v)
				return strings.HasPrefix(p, "param:visitedByCondition[") && strings.HasSuffix(p, "#1") && !strings.HasSuffix(p, "[param:current]#1")
			})
			r.Check(okOuter, "R7", "dfs/revisit-under-the-same-condition", posOf(alt.Ret), "the revisit exit is reached on the found edge of visitedByCondition[condition] and of visited[current]")
		}
	}
	// validateDirection / validateFlow verdict rows
	if vd := w.Fn(pkgFlow, "validateDirection"); vd != nil {
		nRoot, okRows := 0, true
		for _, alt := range ReturnAlts(vd, 0) {
			cs := expandConds(alt.Conds)
			undef := condsHave(cs, false, func(v ssa.Value) bool { return isCallTo0(v, "FlowDirection).IsDefined") })
			if isNilConst(alt.Val) {
				if len(cs) > 0 && !undef {
					okRows = false
				}
				continue
			}
			if c, isCall := peel(alt.Val).(*ssa.Call); isCall && isCallTo(c, "fmt.Errorf") {
				isReq := condsHave(cs, true, func(v ssa.Value) bool { return isCallTo0(v, "StreamType).IsRequestType", "FlowType).IsRequestType") })
				noRoot := condsHave(cs, false, func(v ssa.Value) bool { return isCallTo0(v, "FlowDirection).HasValidRoot") })
				if isReq && noRoot && !undef {
					nRoot++
				} else {
					okRows = false
				}
			}
		}
		r.Check(okRows && nRoot == 1, "R2", "validateDirection/verdict-rows", vd.Pos(), "an undefined direction is accepted, a request direction without a valid root is rejected, everything else is decided by the edge/unconnected/cycle validators")
	}
	if vf := w.Fn(pkgFlow, "validateFlow"); vf != nil {
		okNone := false
		for _, alt := range ReturnAlts(vf, 0) {
			if c, isCall := peel(alt.Val).(*ssa.Call); isCall && isCallTo(c, "fmt.Errorf") {
				// the error built in place that is returned under two negated IsDefined tests
				// (identified by its conditions, not by the wording of the message)
				cs := expandConds(alt.Conds)
				n := 0
				for _, cd := range cs {
					if isCallTo0(cd.V, "FlowDirection).IsDefined") && !cd.Pol {
						n++
					}
				}
				if n == 2 {
					okNone = true
				}
			}
		}
		r.Check(okNone, "R2", "validateFlow/rejects-a-flow-without-any-direction", vf.Pos(), "a flow graph is rejected when neither direction is defined (and only then by this test)")
	}
}

func loopHas(h, b *ssa.BasicBlock) bool {
	return h.Dominates(b) && (b == h || reachableFrom(b, nil)[h])
}

func dominatedByAny(in ssa.Instruction, cs []ssa.CallInstruction) bool {
	for _, c := range cs {
		if domInstr(c, in) {
			return true
		}
	}
	return false
}

// c05OnlyValidatedFlowsLoaded: GetFlows hands the builder only flow
// representations that were read and validated successfully.
func c05OnlyValidatedFlowsLoaded(w *World, r *Report) {
	gf := w.Fn(pkgSCfg, "GetFlows")
	if gf == nil {
		r.Undec("R2", "GetFlows", token.NoPos, "function not found")
		return
	}
	n := 0
	Instrs(gf, func(in ssa.Instruction) {
		mu, ok := in.(*ssa.MapUpdate)
		if !ok || !strings.HasSuffix(Path(mu.Map), "makemap") && !strings.Contains(Path(mu.Map), "flows") {
			return
		}
		if _, isFlow := mu.Map.Type().Underlying().(*types.Map); !isFlow || !strings.Contains(mu.Map.Type().String(), "FlowRepI") {
			return
		}
		n++
		rels := Rels(mu.Block())
		opV, _ := FindRel(rels, func(v ssa.Value) bool { return isCallTo0(v, "config.validateFlowRepresentation") }, isNilConst)
		opR, _ := FindRel(rels, func(v ssa.Value) bool {
			return strings.HasSuffix(Path(v), "#1") && strings.Contains(Path(v), "ReadStreamFlowConfig(")
		}, isNilConst)
		r.Check(opV == "==" && opR == "==", "R2", "GetFlows/only-validated-flows-are-loaded", posOf(mu),
			"a flow representation is added to the result only when reading it (err %q nil) and validateFlowRepresentation (err %q nil) succeeded", opR, opV)
	})
	if n != 1 {
		r.Undec("R2", "GetFlows/store", gf.Pos(), "expected one store into the flows map, found %d", n)
	}
}

// c05InternalLimitsAttachedUnderKnownParents: when a quota file is split per
// quota, an internal limit becomes a known parent only after its own parent
// was found in the same quota's set, so quotaResource.init never looks up a
// parent node that is not there.
func c05InternalLimitsAttachedUnderKnownParents(w *World, r *Report) {
	f := w.Fn(pkgQuota, "QuotaResourceData.ToSingleQuotaResourceDataList")
	if f == nil {
		r.Undec("R2", "ToSingleQuotaResourceDataList", token.NoPos, "function not found")
		return
	}
	n, ok := 0, true
	var regLookup, attLookup *ssa.Lookup
	Instrs(f, func(in ssa.Instruction) {
		mu, isMU := in.(*ssa.MapUpdate)
		if !isMU || !strings.HasSuffix(Path(mu.Key), "QuotaConfig.ID") && !strings.Contains(Path(mu.Key), "QuotaConfig.QuotaMetaData.ID") {
			return
		}
		n++
		found := condsHave(expandConds(CondsOf(mu.Block())), true, func(v ssa.Value) bool {
			e, isE := v.(*ssa.Extract)
			if !isE || e.Index != 1 {
				return false
			}
			l, isL := e.Tuple.(*ssa.Lookup)
			if isL && l.X == mu.Map && strings.HasSuffix(Path(l.Index), ".ParentID") {
				regLookup = l
				return true
			}
			return false
		})
		if !found {
			ok = false
		}
	})
	apps := 0
	Instrs(f, func(in ssa.Instruction) {
		if c, isC := in.(*ssa.Call); isC {
			if b, isB := c.Call.Value.(*ssa.Builtin); isB && b.Name() == "append" && strings.Contains(c.Type().String(), "ChildQuotaConfig") {
				apps++
				found := condsHave(expandConds(CondsOf(c.Block())), true, func(v ssa.Value) bool {
					e, isE := v.(*ssa.Extract)
					if !isE || e.Index != 1 {
						return false
					}
					l, isL := e.Tuple.(*ssa.Lookup)
					if isL && strings.HasSuffix(Path(l.Index), ".ParentID") {
						attLookup = l
						return true
					}
					return false
				})
				if !found {
					ok = false
				}
			}
		}
	})
	// one lookup decides both: the limit is attached against the set as it was when the limit
	// was met in the list (a second look at the finished set would accept a child listed before
	// its parent, which the loader then hangs under a node that does not exist yet)
	if regLookup == nil || regLookup != attLookup {
		ok = false
	}
	r.Check(ok && n == 1 && apps == 1, "R2", "ToSingleQuotaResourceDataList/limit-known-only-under-a-known-parent", f.Pos(), "an internal limit is registered as a possible parent, and attached to the quota, only on the found edge of one and the same lookup of its own ParentID")
}

// c05ConnectionEndsNilChecked: in buildConnection the optional ends of a
// connection (conn.GetTo().GetStream(), GetFlow(), GetFrom()....) are
// interfaces that are nil when the configuration does not name them; a method
// is called on one only where utils.IsInterfaceNil of that very accessor chain
// was false (otherwise a configuration that omits the end crashes the loader).
func c05ConnectionEndsNilChecked(w *World, r *Report) {
	bc := w.Fn(pkgFlow, "flowBuilder.buildConnection")
	if bc == nil {
		r.Undec("R2", "buildConnection", token.NoPos, "function not found")
		return
	}
	n := 0
	var bad []string
	Instrs(bc, func(in ssa.Instruction) {
		c, ok := in.(*ssa.Call)
		if !ok || !c.Call.IsInvoke() || c.Call.Method.Name() != "GetAt" {
			return
		}
		n++
		recv := Path(c.Call.Value)
		guarded := condsHave(CondsOf(c.Block()), false, func(v ssa.Value) bool {
			g, isC := peel(v).(*ssa.Call)
			return isC && isCallTo(g, "utils.IsInterfaceNil") && len(g.Call.Args) == 1 && Path(g.Call.Args[0]) == recv
		})
		if !guarded {
			bad = append(bad, w.Pos(posOf(c))+" "+recv)
		}
	})
	if n < 2 {
		r.Undec("R2", "buildConnection/ends", bc.Pos(), "expected the GetAt() calls on the optional ends, found %d", n)
		return
	}
	r.Check(len(bad) == 0, "R2", "buildConnection/optional-ends-nil-checked-before-use", bc.Pos(), "GetAt() is called on an optional end of the connection only under !IsInterfaceNil of the same end (%d calls; unguarded: %v)", n, bad)
}
