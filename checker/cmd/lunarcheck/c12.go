package main

import (
	"go/constant"
	"go/token"
	"go/types"
	"strings"

	"golang.org/x/tools/go/ssa"
)

const pkgUtils = "lunar/engine/utils"

func init() {
	register(&Property{
		ID:   "C12",
		Mods: []string{modEngine},
		Explanation: "Decides structural necessary conditions of 'replayed only for the same key and only while fresh', not the behaviour over histories: " +
			"(R1) a cache hit is returned only on the found edge and the not-expired edge, expiry is now > expiration; (R2) expiration = now + ttl, the cleanup goroutine sleeps the same ttl and clears the same key, every Set stores the new value unconditionally; " +
			"(R3) the key built on the response side equals the key built on the request side field by field, the path-parameter component encodes name:value of the selected parameters; " +
			"(R4) a response is stored only when no entry exists for the key (throttling: only for relevant statuses and a readable retry-after, with that value as TTL; caching: configured TTL); " +
			"(R5) the insertion and the size accounting are in one critical section that re-validates current+item <= max, size is added on every insert and subtracted on delete; " +
			"(R6) a replayed throttling response carries a fresh header map whose retry-after is calcNewRetryAfter(stored retry-after, now - creation time), which refuses when lapsed >= retryAfter and otherwise returns the difference; replay returns the stored status/body; the two response SPOE groups of haproxy.cfg exclude early responses, an unknown retry_after_type is an error; " +
			"(R7) a response the engine replayed from memory is not offered to the store again as if the provider had sent it (static reachability of the caching store from the early-response branch of DispatchOnRequest and the guard of that store). " +
			"NOT decided: interaction of stale sleepers with re-stores, hash collisions.",
		RuleText: "obligation = (rule, anchored construct) on SSA of the current tree: return-alternative conditions, must-lockset, literal field comparison of sibling key constructions, provenance of TTL and header values",
		Run:      runC12,
	})
}

// cacheCore checks MemoryCache itself (shared by C12 and C17).
func cacheCore(w *World, r *Report, la *LockAn, full bool) {
	get := w.Fn(pkgUtils, "MemoryCache.Get")
	has := w.Fn(pkgUtils, "MemoryCache.Has")
	set := w.Fn(pkgUtils, "MemoryCache.Set")
	ve := w.Fn(pkgUtils, "valueExpired")
	ck := w.Fn(pkgUtils, "clearKey")
	for n, f := range map[string]*ssa.Function{"Get": get, "Has": has, "Set": set, "valueExpired": ve, "clearKey": ck} {
		if f == nil {
			r.Undec("R1", "cache/"+n, token.NoPos, "utils.MemoryCache %s not found", n)
		}
	}
	if get == nil || has == nil || set == nil || ve == nil || ck == nil {
		return
	}
	isFound := func(v ssa.Value) bool { return Path(v) == "param:cache.cache[param:key]#1" }
	fromLookup := func(v ssa.Value) bool {
		return Derives(v, func(x ssa.Value) bool {
			l, ok := x.(*ssa.Lookup)
			return ok && Path(l.X) == "param:cache.cache" && Path(l.Index) == "param:key"
		})
	}
	isExp := func(v ssa.Value) bool {
		c, ok := peel(v).(*ssa.Call)
		return ok && isCallTo(c, "utils.valueExpired") && strings.HasSuffix(Path(c.Call.Args[2]), ".expirationTimeNano") && fromLookup(c.Call.Args[2])
	}
	if full {
		// R1 Get
		nHit := 0
		for _, alt := range ReturnAlts(get, 1) {
			b, isC := constBool(alt.Val)
			if !isC {
				r.Fail("R1", "cache.Get/hit-flag", posOf(alt.Ret), "hit flag is not a constant: %s", Path(alt.Val))
				continue
			}
			if b {
				nHit++
				okV := false
				for _, a0 := range ReturnAlts(get, 0) {
					if a0.Ret == alt.Ret && strings.HasSuffix(Path(a0.Val), ".value") && fromLookup(a0.Val) {
						okV = true
					}
				}
				r.Check(condsHave(alt.Conds, true, isFound) && condsHave(alt.Conds, false, isExp) && okV, "R1", "cache.Get/hit-only-when-found-and-fresh", posOf(alt.Ret),
					"(value,true) returned only on found=%v and valueExpired==false=%v, value is the stored one=%v", condsHave(alt.Conds, true, isFound), condsHave(alt.Conds, false, isExp), okV)
			}
		}
		if nHit != 1 {
			r.Undec("R1", "cache.Get/hit-count", get.Pos(), "expected one hit return, found %d", nHit)
		}
		// Has
		// fresh: valueExpired(...) is false, or the same test written out (now <= expiration of the looked-up entry)
		freshAt := func(cs []Cond) bool {
			if condsHave(cs, false, isExp) {
				return true
			}
			op, rel := FindRel(relsOfConds(cs), func(v ssa.Value) bool {
				return strings.HasPrefix(Path(v), "(time.Time).UnixNano((clock.Clock).Now(")
			}, func(v ssa.Value) bool { return strings.HasSuffix(Path(v), ".expirationTimeNano") })
			if op != "<=" || rel == nil {
				return false
			}
			return fromLookup(rel.L) || fromLookup(rel.R)
		}
		for _, alt := range ReturnAlts(has, 0) {
			if b, isC := constBool(alt.Val); isC {
				r.Check(!b || condsHave(alt.Conds, true, isFound) && freshAt(alt.Conds), "R1", "cache.Has/constant-result", posOf(alt.Ret), "constant result %v (true only when found and not expired)", b)
			} else {
				r.Check(isFound(alt.Val) && condsHave(alt.Conds, false, isExp), "R1", "cache.Has/found-and-fresh", posOf(alt.Ret), "Has returns found (%s) only when not expired", Path(alt.Val))
			}
		}
		// valueExpired
		for _, alt := range ReturnAlts(ve, 0) {
			b, isC := constBool(alt.Val)
			op, _ := FindRel(relsOfConds(alt.Conds), func(v ssa.Value) bool {
				return strings.HasPrefix(Path(v), "(time.Time).UnixNano((clock.Clock).Now(")
			}, pathRe(`^param:expirationTimeNano$`))
			want := map[bool]string{true: ">", false: "<="}[b]
			r.Check(isC && op == want, "R1", "valueExpired/"+map[bool]string{true: "expired", false: "fresh"}[b], posOf(alt.Ret), "returns %v under now %q expiration (want %s)", b, op, want)
		}
	}
	// Set
	var mu *ssa.MapUpdate
	Instrs(set, func(in ssa.Instruction) {
		if m, ok := in.(*ssa.MapUpdate); ok && Path(m.Map) == "param:cache.cache" {
			mu = m
		}
	})
	if mu == nil {
		r.Undec("R2", "cache.Set/store", set.Pos(), "map store not found")
		return
	}
	// no condition other than the size check decides whether the new value is stored
	extra := []string{}
	for _, rel := range Rels(mu.Block()) {
		p := Path(rel.L) + " " + rel.Op + " " + Path(rel.R)
		if strings.Contains(p, "currentCacheSize") || strings.Contains(p, "calculateCacheSize") || strings.Contains(p, "calculateSizeFunc") {
			continue
		}
		extra = append(extra, p)
	}
	for _, alt := range ReturnAlts(set, 0) {
		if isNilConst(alt.Val) && !domInstr(mu, alt.Ret) {
			extra = append(extra, "a nil (success) return at "+w.Pos(posOf(alt.Ret))+" is not preceded by the store")
		}
	}
	okKey := Path(mu.Key) == "param:key" && Path(litField(mu.Value, "value")) == "param:value"
	r.Check(len(extra) == 0 && okKey, "R2", "cache.Set/stores-unconditionally", posOf(mu), "cache[key] = {value, expiry} executes on every admitted Set (no condition on an existing entry): extra conditions %v", extra)
	exp := litField(mu.Value, "expirationTimeNano")
	okExp := exp != nil && Path(exp) == "((time.Time).UnixNano((clock.Clock).Now(param:cache.clock)) + (time.Duration).Nanoseconds((1000000000 * param:ttlSec)))"
	r.Check(okExp, "R2", "cache.Set/expiration-is-now-plus-ttl", posOf(mu), "expiration = %s", Path(exp))
	_, held := la.HeldAt(mu)["param:cache.mutex"]
	r.Check(held, "R5", "cache.Set/store-under-lock", posOf(mu), "map store under cache.mutex")
	if full {
		// sleeper
		okSl := false
		for _, a := range set.AnonFuncs {
			sl := CallsIn(a, false, "clock.Clock).Sleep")
			cl := CallsIn(a, false, "utils.clearKey")
			if len(sl) == 1 && len(cl) == 1 && domInstr(sl[0], cl[0]) {
				// bindings: ttlDuration local and key
				okSl = strings.HasSuffix(Path(sl[0].Common().Args[0]), "free:ttlDuration") && strings.HasSuffix(Path(cl[0].Common().Args[1]), "free:key") && strings.HasSuffix(Path(cl[0].Common().Args[0]), "free:cache")
			}
		}
		nGo := 0
		Instrs(set, func(in ssa.Instruction) {
			if _, ok := in.(*ssa.Go); ok {
				nGo++
			}
		})
		r.Check(okSl && nGo == 1, "R2", "cache.Set/sleeper-same-ttl-same-key", set.Pos(), "Set starts one goroutine that sleeps ttlDuration and then clears the same key")
		// R5 size bound
		isSum := func(v ssa.Value) bool {
			b, ok := v.(*ssa.BinOp)
			return ok && b.Op == token.ADD && Path(b.X) == "param:cache.currentCacheSize"
		}
		isMaxS := pathRe(`^param:cache\.maxCacheSize$`)
		// the deciding comparison must be evaluated with the lock held
		lockedCheck := false
		for _, rel := range Rels(mu.Block()) {
			if (isSum(rel.L) && isMaxS(rel.R) && rel.Op == "<=") || (isSum(rel.R) && isMaxS(rel.L) && rel.Op == ">=") {
				if _, h := la.HeldAt(rel.Src.If)["param:cache.mutex"]; h && !unlockOnPath(rel.Src.If, mu) {
					lockedCheck = true
				}
			}
		}
		// if sizes are not calculated the check is vacuous: the locked check may be guarded by calculateCacheSize
		if !lockedCheck {
			// accept the form `if calc && cur+item > max {unlock; return}`: the store block is reached on !calc or cur+item<=max
			for _, b := range set.Blocks {
				i := blockIf(b)
				if i == nil {
					continue
				}
				// the comparison may sit in a small helper called here: it is read with this call's arguments
				cond := i.Cond
				var site ssa.CallInstruction
				if c, isC := cond.(*ssa.Call); isC {
					if h := helperCall(c); h != nil {
						if rv := helperResult(h, 0); rv != nil {
							cond, site = rv, c
						}
					}
				}
				argOf := func(v ssa.Value) ssa.Value {
					if p, isP := v.(*ssa.Parameter); isP && site != nil {
						for k, q := range p.Parent().Params {
							if q == p && k < len(site.Common().Args) {
								return site.Common().Args[k]
							}
						}
					}
					return v
				}
				// a live read: the field itself is loaded while the lock is held (a local filled before the
				// lock was taken has the same provenance but is a stale snapshot)
				live := func(v ssa.Value) bool {
					v = argOf(v)
					for k := 0; k < 3; k++ {
						u, isU := v.(*ssa.UnOp)
						if !isU || u.Op != token.MUL {
							return false
						}
						if a, isA := u.X.(*ssa.Alloc); isA {
							sv := singleStore(a)
							if sv == nil {
								return false
							}
							v = sv
							continue
						}
						if _, isFA := u.X.(*ssa.FieldAddr); isFA {
							_, held := la.HeldAt(u)["param:cache.mutex"]
							return held && !unlockOnPath(u, i) // read in the critical section of the test itself
						}
						return false
					}
					return false
				}
				isSum := func(v ssa.Value) bool {
					b, ok := v.(*ssa.BinOp)
					return ok && b.Op == token.ADD && Path(argOf(b.X)) == "param:cache.currentCacheSize" && live(b.X)
				}
				isMaxS := func(v ssa.Value) bool { return Path(argOf(v)) == "param:cache.maxCacheSize" && live(v) }
				rel, ok := NormCond(Cond{V: cond, Pol: true})
				if ok {
					rel, ok = rel.Facing(isSum)
				}
				if ok && isSum(rel.L) && isMaxS(rel.R) && rel.Op == ">" {
					if _, h := la.HeldAt(i)["param:cache.mutex"]; h && b.Succs[1].Dominates(mu.Block()) || b.Succs[1] == mu.Block() {
						if _, h2 := la.HeldAt(i)["param:cache.mutex"]; h2 && !unlockOnPath(i, mu) {
							lockedCheck = true
						}
					}
				}
			}
		}
		r.Check(lockedCheck, "R5", "cache.Set/size-check-in-critical-section", posOf(mu), "current+item > max is (re-)evaluated under cache.mutex in the same critical section as the insertion")
		// accounting
		st := fieldStores(set, "currentCacheSize")
		okAcc := len(st) == 1
		if okAcc {
			b, ok := st[0].Val.(*ssa.BinOp)
			okAcc = ok && b.Op == token.ADD && Path(b.X) == "param:cache.currentCacheSize" && domInstr(mu, st[0]) && !unlockOnPath(mu, st[0])
			for _, c := range CondsOf(st[0].Block()) {
				p := Path(c.V)
				if !strings.Contains(p, "calculateCacheSize") && !strings.Contains(p, "currentCacheSize") && !strings.Contains(p, "calculateSizeFunc") {
					okAcc = false
				}
			}
		}
		var item ssa.Value
		if okAcc {
			item = st[0].Val.(*ssa.BinOp).Y
			// accounted exactly when sizes are calculated (positive polarity)
			for _, c := range CondsOf(st[0].Block()) {
				if strings.HasSuffix(Path(c.V), "calculateCacheSize") && !c.Pol {
					okAcc = false
				}
			}
		}
		r.Check(okAcc, "R5", "cache.Set/size-accounted-on-every-insert", set.Pos(), "currentCacheSize += itemSize accompanies every insertion (conditioned only on calculateCacheSize being set)")
		// the accounted size is the entry's own size whenever sizes are calculated, and the
		// same value decides the locked admission check
		okItem, okSame := false, item != nil
		if phi, ok := peel(item).(*ssa.Phi); ok && len(phi.Edges) == 2 {
			var call *ssa.Call
			zero := false
			for _, e := range phi.Edges {
				if c, ok := e.(*ssa.Const); ok && c.Value != nil && constant.Sign(c.Value) == 0 {
					zero = true
				}
				if c, ok := e.(*ssa.Call); ok {
					call = c
				}
			}
			if call != nil && zero && len(call.Call.Args) == 2 {
				okItem = Path(call.Call.Value) == "param:cache.calculateSizeFunc" && Path(call.Call.Args[0]) == "param:key" && Path(call.Call.Args[1]) == "param:value" &&
					condsHave(expandConds(CondsOf(call.Block())), true, func(v ssa.Value) bool { return Path(v) == "param:cache.calculateCacheSize" }) &&
					!condsHave(expandConds(CondsOf(call.Block())), false, func(v ssa.Value) bool { return Path(v) == "param:cache.calculateCacheSize" })
			}
		} else if call, ok := peel(item).(*ssa.Call); ok && len(call.Call.Args) == 2 {
			okItem = Path(call.Call.Value) == "param:cache.calculateSizeFunc" && Path(call.Call.Args[0]) == "param:key" && Path(call.Call.Args[1]) == "param:value"
		}
		Instrs(set, func(in ssa.Instruction) {
			if b, ok := in.(*ssa.BinOp); ok && isSum(b) {
				if m, h := la.HeldAt(b)["param:cache.mutex"]; h && m == 'W' && b.Y != item {
					okSame = false
				}
			}
		})
		r.Check(okItem && okSame, "R5", "cache.Set/item-size-is-the-entry-size", set.Pos(),
			"the size added to currentCacheSize is calculateSizeFunc(key, value) whenever calculateCacheSize is set (0 otherwise)=%v, and the same value is used by the check under the lock=%v", okItem, okSame)
		// error return
		for _, alt := range ReturnAlts(set, 0) {
			if isNilConst(alt.Val) {
				continue
			}
			op, _ := FindRel(relsOfConds(alt.Conds), isSum, isMaxS)
			r.Check(op == ">", "R5", "cache.Set/refuse-only-when-over", posOf(alt.Ret), "Set refuses under current+item %q max (want >)", op)
		}
		// clearKey
		var del *ssa.Call
		Instrs(ck, func(in ssa.Instruction) {
			if c, ok := in.(*ssa.Call); ok {
				if b, ok := c.Call.Value.(*ssa.Builtin); ok && b.Name() == "delete" && Path(c.Call.Args[0]) == "param:cache.cache" && Path(c.Call.Args[1]) == "param:key" {
					del = c
				}
			}
		})
		okDel := del != nil
		if okDel {
			_, okDel = la.HeldAt(del)["param:cache.mutex"]
			// unconditional, or only skipped when the key is not there (nothing to delete then)
			for _, cd := range CondsOf(del.Block()) {
				if !(cd.Pol && Path(cd.V) == "param:cache.cache[param:key]#1") {
					okDel = false
				}
			}
		}
		sub := fieldStores(ck, "currentCacheSize")
		okSub := len(sub) == 1
		if okSub {
			b, ok := sub[0].Val.(*ssa.BinOp)
			okSub = ok && b.Op == token.SUB && condsHave(CondsOf(sub[0].Block()), true, func(v ssa.Value) bool { return Path(v) == "param:cache.cache[param:key]#1" })
			// un-accounted exactly when sizes are calculated, by the stored entry's own size
			cs := CondsOf(sub[0].Block())
			okSub = okSub && condsHave(cs, true, func(v ssa.Value) bool { return Path(v) == "param:cache.calculateCacheSize" }) && len(cs) == 2
			if okSub {
				c, isCall := peel(b.Y).(*ssa.Call)
				okSub = isCall && len(c.Call.Args) == 2 && Path(c.Call.Value) == "param:cache.calculateSizeFunc" && Path(c.Call.Args[0]) == "param:key" &&
					Derives(c.Call.Args[1], func(x ssa.Value) bool { return Path(x) == "param:cache.cache[param:key]#0" }) && Path(b.X) == "param:cache.currentCacheSize"
			}
		}
		r.Check(okDel && okSub, "R5", "clearKey/delete-and-unaccount", ck.Pos(), "clearKey deletes the key unconditionally under the lock=%v and subtracts its size when present=%v", okDel, okSub)
		checkGB(w, r, la, "R5", []GuardRow{{Pkg: pkgUtils, Struct: "MemoryCache", Fields: []string{"cache", "currentCacheSize", "calculateCacheSize", "calculateSizeFunc", "maxCacheSize"}, Mutex: "mutex", MinSites: 20}})
	}
}

func runC12(w *World, r *Report) {
	c12ReplayNotStoredAgain(w, r)
	hrRetryAfterTypeLiteral(w, r, "R6")
	hrEarlyResponseMessage(w, r, "R6")
	hrFoldOrder(w, r, "R6")
	hrDeepCopyAlwaysCopies(w, r, "R6")
	hrEarlyResponseBodyAlwaysSet(w, r, "R6")
	hrStoredResponseOwnsItsHeaders(w, r, "R6")
	hrCfgURLVariable(w, r, "R3")
	hrCfgEarlyResponseNotFedBack(w, r, "R6")
	hrRetryAfterHelpers(w, r, "R6")
	la := NewLockAn(w)
	cacheCore(w, r, la, true)
	c12Extra(w, r)
	c12SizeArithmetic(w, r)

	// R3 key agreement
	sameKey := func(rule, name string, reqFn, respFn *ssa.Function, cacheField string, reqVar, respVar string) (ssa.Value, ssa.Value) {
		find := func(fn *ssa.Function, method string) ssa.Value {
			for _, c := range CallsIn(fn, false, "utils.Cache)."+method) {
				return margs(c)[0]
			}
			return nil
		}
		uh := func(v ssa.Value) ssa.Value {
			if v == nil {
				return nil
			}
			return unhelp(v)
		}
		rk, sk := uh(find(reqFn, "Get")), uh(find(respFn, "Set"))
		hk := uh(find(respFn, "Has"))
		if rk == nil || sk == nil || hk == nil {
			r.Undec(rule, name+"/key-sites", reqFn.Pos(), "Get/Has/Set key sites not found")
			return nil, nil
		}
		st, ok := rk.Type().Underlying().(*types.Struct)
		if !ok {
			r.Undec(rule, name+"/key-type", reqFn.Pos(), "key is not a struct")
			return nil, nil
		}
		for i := 0; i < st.NumFields(); i++ {
			fn := st.Field(i).Name()
			a, b, h := Path(litField(rk, fn)), Path(litField(sk, fn)), Path(litField(hk, fn))
			a2 := strings.ReplaceAll(a, reqVar, respVar)
			r.Check(a2 == b && b == h && a != "nil", rule, name+"/key-field/"+fn, valuePos(sk), "request side %s ; response side %s ; Has %s", trunc(a, 120), trunc(b, 120), trunc(h, 60))
		}
		return rk, sk
	}
	cReq, cResp := w.Fn(pkgRemedies, "CachingPlugin.OnRequest"), w.Fn(pkgRemedies, "CachingPlugin.OnResponse")
	tReq, tResp := w.Fn(pkgRemedies, "ResponseBasedThrottlingPlugin.OnRequest"), w.Fn(pkgRemedies, "ResponseBasedThrottlingPlugin.OnResponse")
	if cReq == nil || cResp == nil || tReq == nil || tResp == nil {
		r.Undec("R3", "plugins", token.NoPos, "caching / throttling plugin functions not found")
		return
	}
	sameKey("R3", "caching", cReq, cResp, "responseCache", "onRequest", "onResponse")
	sameKey("R3", "throttling", tReq, tResp, "responseCache", "onRequest", "onResponse")
	// key components
	for _, fn := range []*ssa.Function{cReq, tReq} {
		for _, c := range CallsIn(fn, false, "utils.Cache).Get") {
			k := margs(c)[0]
			st := k.Type().Underlying().(*types.Struct)
			m, u := Path(litField(k, st.Field(0).Name())), Path(litField(k, st.Field(1).Name()))
			r.Check(strings.HasSuffix(m, "onRequest.Method") && strings.HasSuffix(u, "onRequest.URL"), "R3", shortFn(fnID(fn))+"/key-method-url", posOf(c), "key = {%s, %s, ...}", m, u)
		}
	}
	if eh := w.Fn(pkgRemedies, "extractHashedPathParams"); eh == nil {
		r.Undec("R3", "extractHashedPathParams", token.NoPos, "function not found")
	} else {
		n := 0
		Instrs(eh, func(in ssa.Instruction) {
			c, ok := in.(*ssa.Call)
			if !ok || !isCallTo(c, "builtin.append") {
				return
			}
			n++
			el := c.Call.Args[1]
			name := Derives(el, func(x ssa.Value) bool { return strings.HasSuffix(Path(x), "key.Path") })
			val := Derives(el, func(x ssa.Value) bool {
				l, ok := x.(*ssa.Lookup)
				return ok && Path(l.X) == "param:pathParams" && strings.HasSuffix(Path(l.Index), "key.Path")
			})
			fm := Derives(el, func(x ssa.Value) bool { s, ok := constString(x); return ok && s == "%s:%s" })
			r.Check(name && val && fm, "R3", "extractHashedPathParams/name-and-value", posOf(c), "hashed component encodes name:value of the selected path parameter (name=%v value=%v)", name, val)
		})
		if n != 1 {
			r.Undec("R3", "extractHashedPathParams/append", eh.Pos(), "expected one append, found %d", n)
		}
		for _, alt := range ReturnAlts(eh, 0) {
			ok := Derives(alt.Val, func(x ssa.Value) bool { return isCallTo0(x, "crypto/sha256.Sum256") }) && Derives(alt.Val, func(x ssa.Value) bool { return isCallTo0(x, "strings.Join") })
			r.Check(ok, "R3", "extractHashedPathParams/hash-of-all-values", posOf(alt.Ret), "result = hex(sha256(join(values)))")
		}
	}

	// R4 store only when absent
	for _, p := range []struct {
		name string
		fn   *ssa.Function
		thr  bool
	}{{"caching", cResp, false}, {"throttling", tResp, true}} {
		sets := CallsIn(p.fn, false, "utils.Cache).Set")
		if len(sets) != 1 {
			r.Undec("R4", p.name+"/set", p.fn.Pos(), "expected one Set, found %d", len(sets))
			continue
		}
		s := sets[0]
		cs := CondsOf(s.Block())
		key := margs(s)[0]
		absent := condsHave(cs, false, func(v ssa.Value) bool {
			c, ok := peel(v).(*ssa.Call)
			return ok && isCallTo(c, "utils.Cache).Has") && samePathLit(margs(c)[0], key)
		})
		ok := absent
		detail := ""
		ttl := Path(margs(s)[2])
		if p.thr {
			rel := condsHave(cs, true, func(v ssa.Value) bool {
				return isCallTo0(v, "slices.Contains") && strings.Contains(Path(v), "RelevantStatuses") && strings.HasSuffix(Path(v), "onResponse.Status)")
			})
			op, _ := FindRel(relsOfConds(cs), func(v ssa.Value) bool {
				return strings.HasPrefix(Path(v), "remedies.readRetryAfter(") && strings.HasSuffix(Path(v), "#1")
			}, isNilConst)
			okTTL := strings.HasPrefix(ttl, "remedies.readRetryAfter(local:onResponse.Headers") && strings.HasSuffix(ttl, "#0")
			ok = ok && rel && op == "==" && okTTL
			detail = "relevant status=" + boolS(rel) + " retry-after err " + op + " nil ttl=" + trunc(ttl, 70)
		} else {
			okTTL := strings.HasSuffix(ttl, "remedyConfig.TTLSeconds")
			ok = ok && okTTL
			detail = "ttl=" + ttl
		}
		v := margs(s)[1]
		okVal := strings.HasSuffix(Path(litField(v, "Body")), "onResponse.Body") && strings.HasSuffix(Path(litField(v, "Status")), "onResponse.Status") && strings.HasSuffix(Path(uncopied(litField(v, "Headers"))), "onResponse.Headers") &&
			isCallTo0(litField(v, "CreationTime"), "clock.Clock).Now")
		r.Check(ok && okVal, "R4", p.name+"/store-only-when-absent", posOf(s), "Set executes only when Has(key)==false=%v; %s; stored value is this response=%v", absent, detail, okVal)
	}

	// R6 replay
	for _, p := range []struct {
		name string
		fn   *ssa.Function
		thr  bool
	}{{"caching", cReq, false}, {"throttling", tReq, true}} {
		gets := CallsIn(p.fn, false, "utils.Cache).Get")
		if len(gets) != 1 {
			r.Undec("R6", p.name+"/get", p.fn.Pos(), "expected one Get, found %d", len(gets))
			continue
		}
		g := gets[0].Value()
		isHit := func(v ssa.Value) bool {
			e, ok := v.(*ssa.Extract)
			return ok && e.Tuple == ssa.Value(g) && e.Index == 1
		}
		nEarly := 0
		for _, alt := range ReturnAlts(p.fn, 0) {
			a, isAlloc := peel(alt.Val).(*ssa.Alloc)
			if !isAlloc {
				continue
			}
			switch structOf(a.Type()) {
			case "EarlyResponseAction":
				nEarly++
				fromCache := func(f string) bool {
					v := uncopied(litField(a, f)) // the stored headers may be handed out as a copy
					return v != nil && strings.HasSuffix(Path(v), "."+f) && Derives(v, func(x ssa.Value) bool { return x == ssa.Value(g) })
				}
				okH := fromCache("Headers")
				if p.thr {
					hv := litField(a, "Headers")
					okH = hv != nil && strings.HasPrefix(Path(hv), "remedies.getUpdatedHeaders(") && strings.HasSuffix(Path(hv), "#0")
					op, _ := FindRel(relsOfConds(alt.Conds), func(v ssa.Value) bool {
						return strings.HasPrefix(Path(v), "remedies.getUpdatedHeaders(") && strings.HasSuffix(Path(v), "#1")
					}, isNilConst)
					okH = okH && op == "=="
				}
				r.Check(condsHave(alt.Conds, true, isHit) && fromCache("Status") && fromCache("Body") && okH, "R6", p.name+"/replay-only-on-hit", posOf(alt.Ret),
					"early response returned only on a cache hit=%v with the stored status/body and %s headers=%v", condsHave(alt.Conds, true, isHit), map[bool]string{true: "updated", false: "stored"}[p.thr], okH)
			case "NoOpAction":
			default:
				r.Fail("R6", p.name+"/unexpected-action", posOf(alt.Ret), "unexpected action type %s", structOf(a.Type()))
			}
		}
		if nEarly != 1 {
			r.Undec("R6", p.name+"/early-count", p.fn.Pos(), "expected one early-response return, found %d", nEarly)
		}
	}
	if gh := w.Fn(pkgRemedies, "getUpdatedHeaders"); gh == nil {
		r.Undec("R6", "getUpdatedHeaders", token.NoPos, "function not found")
	} else {
		var mm *ssa.MakeMap
		Instrs(gh, func(in ssa.Instruction) {
			if m, ok := in.(*ssa.MakeMap); ok {
				mm = m
			}
		})
		// the map that is served: a new map filled by the copy loop, or a clone of the stored
		// headers (maps.Clone / DeepCopyHeaders copies every entry, so there is no loop to check)
		var freshMap ssa.Value
		cloned := false
		if mm != nil {
			freshMap = mm
		}
		Instrs(gh, func(in ssa.Instruction) {
			if mu, ok := in.(*ssa.MapUpdate); ok && mm == nil {
				if c, isC := peel(mu.Map).(*ssa.Call); isC && uncopied(c) != ssa.Value(c) && Path(uncopied(c)) == "local:cachedResponse.Headers" {
					freshMap, cloned = mu.Map, true
				}
			}
		})
		nUpd := 0
		Instrs(gh, func(in ssa.Instruction) {
			mu, ok := in.(*ssa.MapUpdate)
			if !ok {
				return
			}
			fresh := freshMap != nil && mu.Map == freshMap
			if !fresh {
				r.Fail("R6", "getUpdatedHeaders/writes-fresh-map", posOf(mu), "header written into %s, which is not a fresh map (the stored response must not be modified in place)", Path(mu.Map))
				return
			}
			isRA := func(pol bool) bool {
				op, _ := FindRel(Rels(mu.Block()), func(v ssa.Value) bool {
					return strings.HasPrefix(Path(v), "next(range(") && strings.HasSuffix(Path(v), "#1")
				}, pathRe(`^param:remedyConfig\.RetryAfterHeader$`))
				return (op == "==") == pol && op != ""
			}
			p := Path(mu.Value)
			if cloned {
				// the only write into a clone is the recomputed value under the configured header
				isRA = func(pol bool) bool { return pol && Path(mu.Key) == "param:remedyConfig.RetryAfterHeader" }
			}
			if strings.HasPrefix(p, "remedies.calcNewRetryAfter(") {
				nUpd++
				c := peel(mu.Value).(*ssa.Extract).Tuple.(*ssa.Call)
				a0, a1 := Path(c.Call.Args[0]), Path(c.Call.Args[1])
				okArgs := strings.HasPrefix(a0, "remedies.readRetryAfter(local:cachedResponse.Headers") && strings.HasSuffix(a0, "#0") &&
					strings.HasPrefix(a1, "(time.Time).Sub((clock.Clock).Now(param:clock), local:cachedResponse.CreationTime)")
				r.Check(isRA(true) && okArgs, "R6", "getUpdatedHeaders/retry-after-decremented", posOf(mu), "retry-after header := calcNewRetryAfter(stored retry-after, now - creation time) on the matching key only (args %s ; %s)", trunc(a0, 80), trunc(a1, 90))
			} else {
				r.Check(isRA(false) && strings.HasPrefix(p, "next(range(") && strings.HasSuffix(p, "#2"), "R6", "getUpdatedHeaders/other-headers-copied", posOf(mu), "other headers are copied verbatim")
			}
		})
		// every stored header reaches the replayed response: the copy loop only ends at exhaustion
		var hdr *ssa.BasicBlock
		Instrs(gh, func(in ssa.Instruction) {
			if n, ok := in.(*ssa.Next); ok && strings.HasPrefix(Path(n.Iter), "range(local:cachedResponse.Headers") {
				hdr = n.Block()
			}
		})
		if cloned {
			r.Hold("R6", "getUpdatedHeaders/copy-loop-runs-to-exhaustion", gh.Pos(), 1, "the stored headers are copied by a library clone (every entry)")
		} else if hdr == nil {
			r.Undec("R6", "getUpdatedHeaders/copy-loop", gh.Pos(), "range over the stored headers not found")
		} else {
			ex := loopExits(hdr, false)
			r.Check(len(ex) == 0, "R6", "getUpdatedHeaders/copy-loop-runs-to-exhaustion", hdr.Instrs[0].Pos(), "the loop over the stored headers has no exit other than exhaustion (extra exits: %v)", ex)
		}
		if nUpd != 1 {
			r.Undec("R6", "getUpdatedHeaders/update-site", gh.Pos(), "expected one retry-after update, found %d", nUpd)
		}
		errOf := func(callee string) VP {
			return func(v ssa.Value) bool {
				return strings.HasPrefix(Path(v), "remedies."+callee+"(") && strings.HasSuffix(Path(v), "#1")
			}
		}
		for _, alt := range ReturnAlts(gh, 0) {
			rels := relsOfConds(alt.Conds)
			op1, _ := FindRel(rels, errOf("readRetryAfter"), isNilConst)
			op2, _ := FindRel(rels, errOf("calcNewRetryAfter"), isNilConst)
			if isNilConst(peel(alt.Val)) {
				r.Check(op1 == "!=" || (op1 == "==" && op2 == "!="), "R6", "getUpdatedHeaders/nil-only-on-error", posOf(alt.Ret),
					"no headers are returned only when reading (%q nil) or recomputing (%q nil) the retry-after value failed", op1, op2)
				continue
			}
			if freshMap != nil && alt.Val == freshMap {
				r.Check(op1 == "==" && op2 == "==", "R6", "getUpdatedHeaders/fresh-map-on-success", posOf(alt.Ret),
					"the updated headers are returned when both readRetryAfter (err %q nil) and calcNewRetryAfter (err %q nil) succeeded", op1, op2)
			}
			ok := freshMap != nil && alt.Val == freshMap || Path(uncopied(alt.Val)) == "local:cachedResponse.Headers" && condsHave(alt.Conds, true, func(v ssa.Value) bool { return strings.Contains(Path(v), "RetryAfterType != ") })
			r.Check(ok, "R6", "getUpdatedHeaders/returns", posOf(alt.Ret), "returns the fresh map (or the stored headers when the retry-after type is not relative): %s", trunc(Path(alt.Val), 60))
		}
	}
	if cn := w.Fn(pkgRemedies, "calcNewRetryAfter"); cn == nil {
		r.Undec("R6", "calcNewRetryAfter", token.NoPos, "function not found")
	} else {
		isLapsed := func(v ssa.Value) bool { return strings.HasPrefix(Path(v), "(time.Duration).Seconds(param:lapsedTime)") }
		isRA := pathRe(`^param:retryAfterSeconds$`)
		for _, alt := range ReturnAlts(cn, 1) {
			op, _ := FindRel(relsOfConds(alt.Conds), isLapsed, isRA)
			if isNilConst(alt.Val) {
				okV := false
				for _, a0 := range ReturnAlts(cn, 0) {
					if a0.Ret == alt.Ret {
						okV = Derives(a0.Val, func(x ssa.Value) bool {
							b, ok := x.(*ssa.BinOp)
							return ok && b.Op == token.SUB && isRA(b.X) && isLapsed(b.Y)
						})
					}
				}
				r.Check(op == "<" && okV, "R6", "calcNewRetryAfter/difference", posOf(alt.Ret), "returns retryAfter - lapsed under lapsed %q retryAfter (want <)", op)
			} else {
				r.Check(op == ">=", "R6", "calcNewRetryAfter/refuses-when-passed", posOf(alt.Ret), "refuses under lapsed %q retryAfter (want >=)", op)
			}
		}
	}
	r.Min("R1", 5)
	r.Min("R2", 3)
	r.Min("R3", 8)
	r.Min("R4", 2)
	r.Min("R5", 6)
	r.Min("R6", 8)
}

func boolS(b bool) string {
	if b {
		return "true"
	}
	return "false"
}

// samePathLit: two struct-literal values have identical field paths.
func samePathLit(a, b ssa.Value) bool {
	if a == b {
		return true
	}
	st, ok := a.Type().Underlying().(*types.Struct)
	if !ok {
		return Path(a) == Path(b)
	}
	// the same local reloaded
	if Path(a) == Path(b) && !strings.HasPrefix(Path(a), "*local:") {
		return true
	}
	for i := 0; i < st.NumFields(); i++ {
		fa, fb := litField(a, st.Field(i).Name()), litField(b, st.Field(i).Name())
		if fa == nil || fb == nil || Path(fa) != Path(fb) {
			return false
		}
	}
	return true
}

// c12Extra: the caching plugin bounds its cache before every store, and the
// hashed part of the key is made of exactly the configured path parameters
// that are present.
func c12Extra(w *World, r *Report) {
	on := w.Fn(pkgRemedies, "CachingPlugin.OnResponse")
	if on == nil {
		r.Undec("R5", "CachingPlugin.OnResponse", token.NoPos, "function not found")
	} else {
		sets := CallsIn(on, false, "utils.Cache).Set", "MemoryCache).Set")
		wm := CallsIn(on, false, "utils.Cache).WithMaxCacheSize", "MemoryCache).WithMaxCacheSize")
		ok := len(sets) >= 1 && len(wm) >= 1
		for _, s := range sets {
			dom := false
			for _, c := range wm {
				a := margs(c)
				if domInstr(c, s) && len(a) == 2 &&
					Derives(a[1], func(x ssa.Value) bool { return strings.HasSuffix(Path(x), "remedyConfig.MaxCacheSizeMegabytes") }) &&
					strings.HasSuffix(Path(a[0]), "remedies.calculateSize") {
					dom = true
				}
			}
			ok = ok && dom
		}
		pos := on.Pos()
		if len(sets) > 0 {
			pos = posOf(sets[0])
		}
		r.Check(ok, "R5", "CachingPlugin.OnResponse/bound-configured-before-store", pos,
			"every responseCache.Set is dominated by WithMaxCacheSize(calculateSize, remedyConfig.MaxCacheSizeMegabytes): the store is bounded by the configured size")
	}
	// WithMaxCacheSize switches the bound on with exactly what it was given
	if wm := w.Fn(pkgUtils, "MemoryCache.WithMaxCacheSize"); wm == nil {
		r.Undec("R5", "MemoryCache.WithMaxCacheSize", token.NoPos, "function not found")
	} else {
		want := map[string]func(ssa.Value) bool{
			"calculateCacheSize": func(v ssa.Value) bool { b, isC := constBool(v); return isC && b },
			"calculateSizeFunc":  func(v ssa.Value) bool { return v == ssa.Value(wm.Params[1]) },
			"maxCacheSize":       func(v ssa.Value) bool { return v == ssa.Value(wm.Params[2]) },
		}
		ok := len(wm.Params) == 3
		var why []string
		for f, pred := range want {
			st := fieldStores(wm, f)
			if len(st) != 1 || !pred(st[0].Val) || len(CondsOf(st[0].Block())) != 0 {
				ok = false
				why = append(why, f)
			}
		}
		r.Check(ok, "R5", "WithMaxCacheSize/switches-the-bound-on", wm.Pos(), "WithMaxCacheSize stores calculateCacheSize=true, the given size function and the given maximum, unconditionally (wrong: %v)", why)
	}
	ex := w.Fn(pkgRemedies, "extractHashedPathParams")
	if ex == nil {
		r.Undec("R3", "extractHashedPathParams", token.NoPos, "function not found")
		return
	}
	var apps []*ssa.Call
	Instrs(ex, func(in ssa.Instruction) {
		if c, ok := in.(*ssa.Call); ok {
			if b, ok := c.Call.Value.(*ssa.Builtin); ok && b.Name() == "append" {
				apps = append(apps, c)
			}
		}
	})
	isLookup := func(v ssa.Value) bool {
		v = peel(v)
		if ex, isEx := v.(*ssa.Extract); isEx && ex.Index == 0 {
			v = ex.Tuple // value, found := pathParams[key.Path]
		}
		l, ok := v.(*ssa.Lookup)
		return ok && Path(l.X) == "param:pathParams" && strings.HasSuffix(Path(l.Index), ".Path")
	}
	isPath := func(v ssa.Value) bool { return strings.HasSuffix(Path(v), ".Path") && !isLookup(v) }
	ok := len(apps) == 1
	if ok {
		a := apps[0]
		el := a.Call.Args[1]
		rels := Rels(a.Block())
		opT, _ := FindRel(rels, func(v ssa.Value) bool { return strings.HasSuffix(Path(v), ".PayloadType") },
			func(v ssa.Value) bool { return strings.Contains(Path(v), "(config.Payload).String(") })
		opV, _ := FindRel(rels, isLookup, func(v ssa.Value) bool { s, isS := constString(v); return isS && s == "" })
		ok = Derives(el, isLookup) && Derives(el, isPath) && opT == "==" && opV == "!="
		// the hash covers the collected values
		for _, alt := range ReturnAlts(ex, 0) {
			ok = ok && Derives(alt.Val, func(x ssa.Value) bool { return isCallTo0(x, "crypto/sha256.Sum256") }) &&
				Derives(alt.Val, func(x ssa.Value) bool { return x == ssa.Value(a) })
		}
		// every configured entry is looked at: the loop is not left early
		var brk []string
		for _, h := range loopHeadersOf(ex) {
			brk = append(brk, loopBreaks(h)...)
		}
		r.Check(len(brk) == 0, "R3", "extractHashedPathParams/every-entry-visited", ex.Pos(), "the loop over the configured entries is never left by break (an absent or foreign entry is skipped, not the rest of the list): %v", brk)
		r.Check(ok, "R3", "extractHashedPathParams/selected-present-path-params", posOf(a),
			"the hashed key part collects path:value for each configured path-parameter entry (payload type == path params %q) that is present (value %q \"\"), and the returned digest derives from the collected list", opT, opV)
	} else {
		r.Undec("R3", "extractHashedPathParams/append", ex.Pos(), "expected one append site, found %d", len(apps))
	}
}

// c12SizeArithmetic: the size of a record is converted to a floating point
// number BEFORE it is scaled to megabytes (an integer division would count
// every record under 1 KiB as 0 and the bound would never be reached).
func c12SizeArithmetic(w *World, r *Report) {
	f := w.Fn(pkgRemedies, "calculateSize")
	if f == nil {
		r.Undec("R5", "calculateSize", token.NoPos, "function not found")
		return
	}
	nQ, intQ := 0, 0
	Instrs(f, func(in ssa.Instruction) {
		if b, ok := in.(*ssa.BinOp); ok && (b.Op == token.QUO || b.Op == token.SHR) {
			nQ++
			if bt, isB := b.X.Type().Underlying().(*types.Basic); !isB || bt.Info()&types.IsFloat == 0 {
				intQ++
			}
		}
	})
	okRet := true
	for _, alt := range ReturnAlts(f, 0) {
		if !Derives(alt.Val, func(x ssa.Value) bool {
			c, isC := x.(*ssa.Convert)
			return isC && strings.Contains(c.X.Type().String(), "int")
		}) {
			okRet = false
		}
	}
	r.Check(nQ >= 1 && intQ == 0 && okRet, "R5", "calculateSize/scaled-in-floating-point", f.Pos(), "%d divisions, %d of them on integers; the byte count is converted to float64 first", nQ, intQ)
}

// c12ReplayNotStoredAgain (R7): a response the engine produced from memory is not offered to the
// store as if the provider had sent it. The engine runs the response remedies on every early
// response inside DispatchOnRequest (obtainModifiedEarlyResponse); the caching remedy's OnResponse
// reads the clock again, and when the entry expired between the two readings the replayed body
// is stored with a fresh time-to-live. Decided structurally: the store is reachable from the
// early-response branch by static calls, and nothing on the way tells a replay from a provider
// response (the store's guard is exactly "small enough" and "absent").
func c12ReplayNotStoredAgain(w *World, r *Report) {
	e := w.Fn(pkgRunner, "obtainModifiedEarlyResponse")
	s := w.Fn(pkgRemedies, "CachingPlugin.OnResponse")
	if e == nil || s == nil {
		r.Undec("R7", "replay-not-stored-again", token.NoPos, "obtainModifiedEarlyResponse / CachingPlugin.OnResponse not found")
		return
	}
	const key = "obtainModifiedEarlyResponse/replayed-response-is-not-stored-again"
	reach := w.CallGraph().Reach([]*ssa.Function{e}, false)
	if !reach[origin(s)] {
		r.Hold("R7", key, e.Pos(), 1, "the caching remedy's OnResponse is not reachable from the early-response branch")
		return
	}
	sets := CallsIn(s, false, "Cache).Set", "MemoryCache).Set")
	if len(sets) != 1 {
		r.Undec("R7", key, s.Pos(), "expected one store in CachingPlugin.OnResponse, found %d", len(sets))
		return
	}
	var extra []string
	for _, cd := range CondsOf(sets[0].Block()) {
		p := Path(cd.V)
		switch {
		case strings.Contains(p, "MaxRecordSizeBytes"): // small enough
		case strings.Contains(p, "Cache).Has(") && !cd.Pol: // absent
		default:
			extra = append(extra, condsString([]Cond{cd}))
		}
	}
	if len(extra) > 0 {
		r.Hold("R7", key, posOf(sets[0]), 1, "the store is guarded beyond size and absence (%v): taken as the guard that keeps replays out", extra)
		return
	}
	r.Fail("R7", key, posOf(sets[0]), "CachingPlugin.OnResponse (store guarded only by size and absence) is reached from obtainModifiedEarlyResponse for every replayed response: an entry that expires between the replay's two clock readings is stored again with a fresh time-to-live")
}

// valuePos: a position for a value that may be a parameter.
func valuePos(v ssa.Value) token.Pos {
	if in, ok := v.(ssa.Instruction); ok {
		return posOf(in)
	}
	return v.Pos()
}

// uncopied: the argument of a header copy (utils.DeepCopyHeaders / maps.Clone), or v itself.
func uncopied(v ssa.Value) ssa.Value {
	if v == nil {
		return nil
	}
	if c, ok := peel(v).(*ssa.Call); ok && isCallTo(c, "utils.DeepCopyHeaders", "maps.Clone") && len(c.Call.Args) == 1 {
		return c.Call.Args[0]
	}
	return v
}
