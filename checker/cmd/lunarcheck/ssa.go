package main

import (
	"fmt"
	"go/constant"
	"go/token"
	"go/types"
	"regexp"
	"sort"
	"strings"

	"golang.org/x/tools/go/ssa"
)

var reTypeArgs = regexp.MustCompile(`\[[^\[\]]*\]`)

func stripTypeArgs(s string) string {
	for {
		t := reTypeArgs.ReplaceAllString(s, "")
		if t == s {
			return s
		}
		s = t
	}
}

// calleeID names the resolved callee of a call instruction:
// static functions/methods by their types.Func full name (generic
// instantiations by their origin), interface invokes by the interface
// method's full name, builtins as "builtin.<name>", closures by the ssa
// name of the anonymous function, anything else "dynamic".
func calleeID(c ssa.CallInstruction) string {
	cc := c.Common()
	if cc.IsInvoke() {
		return stripTypeArgs(cc.Method.FullName())
	}
	switch v := cc.Value.(type) {
	case *ssa.Function:
		return fnID(v)
	case *ssa.Builtin:
		return "builtin." + v.Name()
	case *ssa.MakeClosure:
		if f, ok := v.Fn.(*ssa.Function); ok {
			return fnID(f)
		}
	}
	return "dynamic"
}

func fnID(f *ssa.Function) string {
	f = origin(f)
	if id, ok := renamedAs[f]; ok {
		return id
	}
	if o := f.Object(); o != nil {
		if fo, ok := o.(*types.Func); ok {
			return stripTypeArgs(fo.FullName())
		}
	}
	return stripTypeArgs(f.String())
}

// idMatches reports whether a resolved callee id ends with pat at a name
// boundary, e.g. pat "memoryState).AtomicIncWindow" or "time.Since".
func idMatches(id, pat string) bool {
	if id == pat {
		return true
	}
	if !strings.HasSuffix(id, pat) {
		return false
	}
	c := id[len(id)-len(pat)-1]
	return c == '.' || c == '/' || c == '(' || c == '*'
}

func isCallTo(in ssa.Instruction, pats ...string) bool {
	c, ok := in.(ssa.CallInstruction)
	if !ok {
		return false
	}
	id := calleeID(c)
	for _, p := range pats {
		if idMatches(id, p) {
			return true
		}
	}
	return false
}

// Instrs iterates over all instructions of fn (not nested closures).
func Instrs(fn *ssa.Function, f func(ssa.Instruction)) {
	if len(helpers) > 0 {
		setRoot(fn)
		// bodies of transparent helpers (adopt.go) count as part of the function
		instrsWithHelpers(fn, f, map[*ssa.Function]bool{})
		return
	}
	for _, b := range fn.Blocks {
		for _, in := range b.Instrs {
			f(in)
		}
	}
}

// CallsIn returns the call instructions (call, go, defer) in fn whose callee
// matches one of pats; deep=true also searches nested anonymous functions.
func CallsIn(fn *ssa.Function, deep bool, pats ...string) []ssa.CallInstruction {
	var out []ssa.CallInstruction
	fns := []*ssa.Function{fn}
	if deep {
		fns = Anons(fn)
	}
	for _, f := range fns {
		Instrs(f, func(in ssa.Instruction) {
			if isCallTo(in, pats...) {
				out = append(out, in.(ssa.CallInstruction))
			}
		})
	}
	return out
}

// CallSite is a call instruction together with its enclosing function.
type CallSite struct {
	In ssa.CallInstruction
	Fn *ssa.Function
}

// CallSites returns every call site in lunar/* code whose resolved callee id
// matches pat (static callee or interface method).
func (w *World) CallSites(pats ...string) []CallSite {
	var out []CallSite
	for _, f := range w.lunarFns {
		if f.Origin() != nil { // analyse generic bodies once
			continue
		}
		if helperFor(f) != nil {
			continue // calls made by a transparent helper belong to its callers (adopt.go)
		}
		Instrs(f, func(in ssa.Instruction) {
			if isCallTo(in, pats...) {
				out = append(out, CallSite{in.(ssa.CallInstruction), f})
			}
		})
	}
	return out
}

// outermost returns the named function enclosing f.
func outermost(f *ssa.Function) *ssa.Function {
	for f.Parent() != nil {
		f = f.Parent()
	}
	return f
}

// ---------------------------------------------------------------------
// dominance on edges

// Cond is a branch condition together with the polarity of the edge taken.
type Cond struct {
	V   ssa.Value
	Pol bool
	If  *ssa.If
}

func blockIf(b *ssa.BasicBlock) *ssa.If {
	if len(b.Instrs) == 0 {
		return nil
	}
	i, _ := b.Instrs[len(b.Instrs)-1].(*ssa.If)
	return i
}

// edgeDominates: does edge d->s dominate block b (b executes only after the
// edge was taken)?
func edgeDominates(d, s, b *ssa.BasicBlock) bool {
	if !s.Dominates(b) {
		return false
	}
	for _, p := range s.Preds {
		if p == d {
			continue
		}
		if !s.Dominates(p) {
			return false
		}
	}
	return true
}

// CondsOf lists the branch conditions whose taken edge dominates b.
func CondsOf(b *ssa.BasicBlock) []Cond {
	out := condsLocal(b)
	if len(helpers) > 0 {
		out = append(out, siteConds(b, 4)...)
		out = append(out, calleeConds(b)...)
	}
	return out
}

// condsLocal: the conditions inside b's own function.
func condsLocal(b *ssa.BasicBlock) []Cond {
	var out []Cond
	for d := b.Idom(); d != nil; d = d.Idom() {
		i := blockIf(d)
		if i == nil || d.Succs[0] == d.Succs[1] {
			continue
		}
		if edgeDominates(d, d.Succs[0], b) {
			out = append(out, Cond{i.Cond, true, i})
		} else if edgeDominates(d, d.Succs[1], b) {
			out = append(out, Cond{i.Cond, false, i})
		}
	}
	return expandConds(out)
}

// CondsOfEdge: conditions known on the edge p->s (used for phi edges).
func CondsOfEdge(p, s *ssa.BasicBlock) []Cond {
	out := CondsOf(p)
	if i := blockIf(p); i != nil && p.Succs[0] != p.Succs[1] {
		if p.Succs[0] == s {
			out = append(out, expandConds([]Cond{{i.Cond, true, i}})...)
		} else if p.Succs[1] == s {
			out = append(out, expandConds([]Cond{{i.Cond, false, i}})...)
		}
	}
	return out
}

// expandConds unwraps !x and bool phis of constants (a && b stored in a value).
func expandConds(cs []Cond) []Cond {
	var out []Cond
	for _, c := range cs {
		for {
			u, ok := c.V.(*ssa.UnOp)
			if !ok || u.Op != token.NOT {
				break
			}
			c = Cond{u.X, !c.Pol, c.If}
		}
		out = append(out, c)
		// a test extracted into a transparent helper (adopt.go): `if isX(a, b)` with
		// `func isX(..) bool { return p && q }` is the test p && q
		if h, idx := helperValue(c.V); h != nil && isBool(c.V.Type()) {
			if rets := allReturns(h.fn); len(rets) == 1 && idx < len(rets[0].Results) {
				out = append(out, expandConds([]Cond{{rets[0].Results[idx], c.Pol, c.If}})...)
			}
		}
		// x := a && b ; if x  ==> phi [false (from a-false), b]
		if ph, ok := c.V.(*ssa.Phi); ok && isBool(ph.Type()) {
			// when polarity true and all other edges are const false, every
			// non-const edge value was true and the conditions of its edge hold
			var nonConst []int
			allOther := true
			for i, e := range ph.Edges {
				if k, ok := e.(*ssa.Const); ok {
					if constant.BoolVal(k.Value) == c.Pol {
						allOther = false
					}
				} else {
					nonConst = append(nonConst, i)
				}
			}
			// all edges constant: the condition pins down which edge was taken
			if len(nonConst) == 0 {
				match := -1
				n := 0
				for i, e := range ph.Edges {
					if k, ok := e.(*ssa.Const); ok && constant.BoolVal(k.Value) == c.Pol {
						match = i
						n++
					}
				}
				if n == 1 {
					out = append(out, CondsOfEdge(ph.Block().Preds[match], ph.Block())...)
				}
			}
			if allOther && len(nonConst) == 1 {
				i := nonConst[0]
				out = append(out, expandConds([]Cond{{ph.Edges[i], c.Pol, c.If}})...)
				out = append(out, CondsOfEdge(ph.Block().Preds[i], ph.Block())...)
			}
		}
	}
	return out
}

func isBool(t types.Type) bool {
	b, ok := t.Underlying().(*types.Basic)
	return ok && b.Info()&types.IsBoolean != 0
}

// ---------------------------------------------------------------------
// comparison normal form

// Rel is "L Op R" known to hold.
type Rel struct {
	L, R ssa.Value
	Op   string // < <= == != > >=
	Src  Cond
}

func negOp(op string) string {
	switch op {
	case "<":
		return ">="
	case "<=":
		return ">"
	case ">":
		return "<="
	case ">=":
		return "<"
	case "==":
		return "!="
	case "!=":
		return "=="
	}
	return "?"
}

func flipOp(op string) string {
	switch op {
	case "<":
		return ">"
	case "<=":
		return ">="
	case ">":
		return "<"
	case ">=":
		return "<="
	}
	return op
}

// NormCond brings a condition to a relation between two values. Handles
// integer/float/string/pointer comparisons, !x, time.Time After/Before/Equal/
// Compare, and plain booleans (x == true).
func NormCond(c Cond) (Rel, bool) {
	v := c.V
	pol := c.Pol
	for {
		if u, ok := v.(*ssa.UnOp); ok && u.Op == token.NOT {
			v, pol = u.X, !pol
			continue
		}
		break
	}
	fin := func(l, r ssa.Value, op string) (Rel, bool) {
		if !pol {
			op = negOp(op)
		}
		return Rel{L: unhelp(l), R: unhelp(r), Op: op, Src: c}, true
	}
	switch x := v.(type) {
	case *ssa.BinOp:
		switch x.Op {
		case token.LSS, token.LEQ, token.GTR, token.GEQ, token.EQL, token.NEQ:
			l, r, op := x.X, x.Y, x.Op.String()
			// t.Compare(u) op 0
			if call, ok := peel(l).(*ssa.Call); ok && isCallTo(call, "time.Time).Compare") && isIntConst(r, 0) {
				return fin(call.Call.Args[0], call.Call.Args[1], op)
			}
			return fin(l, r, op)
		}
	case *ssa.Call:
		switch {
		case isCallTo(x, "time.Time).After"):
			return fin(x.Call.Args[0], x.Call.Args[1], ">")
		case isCallTo(x, "time.Time).Before"):
			return fin(x.Call.Args[0], x.Call.Args[1], "<")
		case isCallTo(x, "time.Time).Equal"):
			return fin(x.Call.Args[0], x.Call.Args[1], "==")
		}
	}
	if isBool(v.Type()) {
		t := ssa.NewConst(constant.MakeBool(true), v.Type())
		return fin(v, t, "==")
	}
	return Rel{}, false
}

// constOfValue: the constant v is, also when v is the parameter of a transparent helper
// that receives a constant at its call site in focus, or the single value a carrier field holds.
func constOfValue(v ssa.Value) (*ssa.Const, bool) {
	if k, ok := peel(v).(*ssa.Const); ok {
		return k, true
	}
	k, ok := peel(unhelp(peel(v))).(*ssa.Const)
	return k, ok
}

func isIntConst(v ssa.Value, n int64) bool {
	k, ok := constOfValue(v)
	if !ok || k.Value == nil || k.Value.Kind() != constant.Int {
		return false
	}
	i, ok := constant.Int64Val(k.Value)
	return ok && i == n
}

func isNilConst(v ssa.Value) bool {
	k, ok := v.(*ssa.Const)
	return ok && k.Value == nil
}

func constBool(v ssa.Value) (bool, bool) {
	k, ok := constOfValue(v)
	if !ok || k.Value == nil || k.Value.Kind() != constant.Bool {
		return false, false
	}
	return constant.BoolVal(k.Value), true
}

func constString(v ssa.Value) (string, bool) {
	k, ok := constOfValue(v)
	if !ok || k.Value == nil || k.Value.Kind() != constant.String {
		return "", false
	}
	return constant.StringVal(k.Value), true
}

func constInt(v ssa.Value) (int64, bool) {
	k, ok := constOfValue(v)
	if !ok || k.Value == nil || k.Value.Kind() != constant.Int {
		return 0, false
	}
	return constant.Int64Val(k.Value)
}

// Rels lists the normalised relations guaranteed at block b.
func Rels(b *ssa.BasicBlock) []Rel {
	var out []Rel
	for _, c := range CondsOf(b) {
		if r, ok := NormCond(c); ok {
			out = append(out, r)
		}
	}
	return out
}

func relsOfConds(cs []Cond) []Rel {
	var out []Rel
	for _, c := range cs {
		if r, ok := NormCond(c); ok {
			out = append(out, r)
		}
	}
	return out
}

// VP is a predicate over SSA values.
type VP func(ssa.Value) bool

// FindRel searches rels for "L op R" with l(L), r(R) — in either operand
// order — and returns the operator oriented as l-side op r-side.
func FindRel(rels []Rel, l, r VP) (string, *Rel) {
	for i := range rels {
		x := &rels[i]
		if l(x.L) && r(x.R) {
			return x.Op, x
		}
		if l(x.R) && r(x.L) {
			return flipOp(x.Op), x
		}
	}
	return "", nil
}

// Facing returns the relation written with the operand satisfying l on the
// left (`a > b` and `b < a` are the same relation).
func (x Rel) Facing(l VP) (Rel, bool) {
	if l(x.L) {
		return x, true
	}
	if l(x.R) {
		return Rel{L: x.R, R: x.L, Op: flipOp(x.Op), Src: x.Src}, true
	}
	return x, false
}

func relsString(rels []Rel) string {
	var s []string
	for _, r := range rels {
		s = append(s, fmt.Sprintf("%s %s %s", Path(r.L), r.Op, Path(r.R)))
	}
	sort.Strings(s)
	return "{" + strings.Join(s, "; ") + "}"
}

// ---------------------------------------------------------------------
// value paths (structural names for values; go/ssa has no CSE)

// peel strips value-preserving conversions.
func peel(v ssa.Value) ssa.Value {
	for {
		switch x := v.(type) {
		case *ssa.ChangeType:
			v = x.X
		case *ssa.Convert:
			v = x.X
		case *ssa.MakeInterface:
			v = x.X
		case *ssa.ChangeInterface:
			v = x.X
		default:
			return v
		}
	}
}

func fieldName(t types.Type, idx int) string {
	if p, ok := t.Underlying().(*types.Pointer); ok {
		t = p.Elem()
	}
	st, ok := t.Underlying().(*types.Struct)
	if !ok || idx >= st.NumFields() {
		return fmt.Sprintf("#%d", idx)
	}
	return st.Field(idx).Name()
}

// Path renders a structural access path / expression for a value.
func Path(v ssa.Value) string { return pathD(v, 10) }

func pathD(v ssa.Value, d int) string {
	if v == nil {
		return "nil"
	}
	if d <= 0 {
		return "…"
	}
	switch x := v.(type) {
	case *ssa.Parameter:
		if p, ok := helperParamPath(x, d); ok {
			return p
		}
		return "param:" + canonParam(x)
	case *ssa.FreeVar:
		return "free:" + canonFree(x)
	case *ssa.Const:
		if x.Value == nil {
			return "nil"
		}
		return x.Value.ExactString()
	case *ssa.Global:
		return "global:" + x.Name()
	case *ssa.Function:
		return "func:" + fnID(x)
	case *ssa.Builtin:
		return "builtin." + x.Name()
	case *ssa.ChangeType, *ssa.Convert, *ssa.MakeInterface, *ssa.ChangeInterface:
		return pathD(peel(v), d)
	case *ssa.FieldAddr:
		return "&" + strings.TrimPrefix(pathD(x.X, d-1), "&") + "." + fieldName(x.X.Type(), x.Field)
	case *ssa.Field:
		return pathD(x.X, d-1) + "." + fieldName(x.X.Type(), x.Field)
	case *ssa.UnOp:
		if x.Op == token.MUL {
			// a field of a local struct that is written exactly once (a carrier struct
			// filled field by field) is the value written
			if fa, ok := x.X.(*ssa.FieldAddr); ok {
				if a, isA := fa.X.(*ssa.Alloc); isA {
					if sv := singleFieldStore(a, fa.Field); sv != nil {
						return pathD(sv, d-1)
					}
				}
			}
			// a variable captured by a closure that is analysed as part of its enclosing
			// function (adopt.go) is that function's variable
			if fv, ok := x.X.(*ssa.FreeVar); ok && helperFor(fv.Parent()) != nil {
				if b := freeVarBinding(fv); b != nil {
					if a, isA := b.(*ssa.Alloc); isA {
						if sv := singleStore(a); sv != nil {
							return pathD(sv, d-1)
						}
						if a.Comment != "" {
							return "local:" + canonLocal(a)
						}
					}
				}
			}
			p := pathD(x.X, d)
			if strings.HasPrefix(p, "&") {
				return p[1:]
			}
			if a, ok := x.X.(*ssa.Alloc); ok {
				if sv := singleStore(a); sv != nil {
					return pathD(sv, d-1)
				}
			}
			return "*" + p
		}
		return x.Op.String() + pathD(x.X, d-1)
	case *ssa.BinOp:
		return "(" + pathD(x.X, d-1) + " " + x.Op.String() + " " + pathD(x.Y, d-1) + ")"
	case *ssa.Call:
		if h := helperCall(x); h != nil && h.fn.Signature.Results().Len() == 1 {
			if rv := helperResult(h, 0); rv != nil {
				return pathD(rv, d-1)
			}
		}
		var a []string
		if x.Call.IsInvoke() {
			a = append(a, pathD(x.Call.Value, d-1))
		}
		for _, arg := range x.Call.Args {
			a = append(a, pathD(arg, d-1))
		}
		return calleeShort(calleeID(x)) + "(" + strings.Join(a, ", ") + ")"
	case *ssa.Extract:
		if c, ok := x.Tuple.(*ssa.Call); ok {
			if h := helperCall(c); h != nil {
				if rv := helperResult(h, x.Index); rv != nil {
					return pathD(rv, d-1)
				}
			}
		}
		return pathD(x.Tuple, d) + fmt.Sprintf("#%d", x.Index)
	case *ssa.Alloc:
		if x.Comment != "" {
			return "local:" + canonLocal(x)
		}
		return "alloc:" + x.Name()
	case *ssa.Phi:
		var e []string
		for _, ed := range x.Edges {
			e = append(e, pathD(ed, d-3))
		}
		sort.Strings(e)
		return "phi[" + strings.Join(e, " | ") + "]"
	case *ssa.Lookup:
		return pathD(x.X, d-1) + "[" + pathD(x.Index, d-1) + "]"
	case *ssa.IndexAddr:
		return "&" + strings.TrimPrefix(pathD(x.X, d-1), "&") + "[" + pathD(x.Index, d-1) + "]"
	case *ssa.Index:
		return pathD(x.X, d-1) + "[" + pathD(x.Index, d-1) + "]"
	case *ssa.TypeAssert:
		return "assert(" + pathD(x.X, d-1) + ")"
	case *ssa.Slice:
		return pathD(x.X, d-1) + "[:]"
	case *ssa.MakeClosure:
		return "closure:" + x.Fn.Name()
	case *ssa.MakeMap:
		return "makemap"
	case *ssa.MakeSlice:
		return "makeslice"
	case *ssa.MakeChan:
		return "makechan"
	case *ssa.Next:
		return "next(" + pathD(x.Iter, d-1) + ")"
	case *ssa.Range:
		return "range(" + pathD(x.X, d-1) + ")"
	case *ssa.Select:
		return "select"
	}
	return fmt.Sprintf("%T:%s", v, v.Name())
}

func calleeShort(id string) string {
	// drop the package directory part for readability, keep type and name
	if i := strings.LastIndex(id, "/"); i >= 0 {
		pre := ""
		if strings.HasPrefix(id, "(*") {
			pre = "(*"
		} else if strings.HasPrefix(id, "(") {
			pre = "("
		}
		return pre + id[i+1:]
	}
	return id
}

// singleStore returns the stored value if the alloc has exactly one store.
func singleStore(a *ssa.Alloc) ssa.Value {
	var sv ssa.Value
	n := 0
	for _, r := range *a.Referrers() {
		if st, ok := r.(*ssa.Store); ok && st.Addr == a {
			sv = st.Val
			n++
		}
	}
	if n == 1 {
		return sv
	}
	return nil
}

// storesTo lists the values stored into an alloc.
func storesTo(a *ssa.Alloc) []*ssa.Store {
	var out []*ssa.Store
	for _, r := range *a.Referrers() {
		if st, ok := r.(*ssa.Store); ok && st.Addr == a {
			out = append(out, st)
		}
	}
	return out
}

// pathRe builds a value predicate from a regexp over Path(v).
func pathRe(re string) VP {
	r := regexp.MustCompile(re)
	return func(v ssa.Value) bool { return r.MatchString(Path(v)) }
}

func anyVal(ssa.Value) bool { return true }

// ---------------------------------------------------------------------
// provenance

// Derives reports whether v (transitively, within its function) depends on a
// value satisfying pred. Loads of locals follow the stores to the local;
// calls depend on their arguments and receiver; loads of fields depend on
// the base object.
func Derives(v ssa.Value, pred VP) bool {
	seen := map[ssa.Value]bool{}
	var rec func(v ssa.Value, d int) bool
	rec = func(v ssa.Value, d int) bool {
		if v == nil || seen[v] || d == 0 {
			return false
		}
		seen[v] = true
		if pred(v) {
			return true
		}
		// through a transparent helper (adopt.go): the result of its call derives from
		// what it returns, its parameters from the arguments at its call sites
		if h, idx := helperValue(v); h != nil {
			for _, ret := range allReturns(h.fn) {
				if idx < len(ret.Results) && rec(ret.Results[idx], d-1) {
					return true
				}
			}
		}
		if p, isP := v.(*ssa.Parameter); isP {
			if h := helperFor(p.Parent()); h != nil {
				for i, q := range p.Parent().Params {
					if q != p {
						continue
					}
					for _, s := range sitesInContext(h) {
						if i < len(s.Common().Args) && rec(s.Common().Args[i], d-1) {
							return true
						}
					}
				}
			}
		}
		switch x := v.(type) {
		case *ssa.UnOp:
			if a, ok := x.X.(*ssa.Alloc); ok && x.Op == token.MUL {
				for _, st := range storesTo(a) {
					if rec(st.Val, d-1) {
						return true
					}
				}
				// stores through field/index addresses of the local
				for _, r := range *a.Referrers() {
					switch fa := r.(type) {
					case *ssa.FieldAddr:
						for _, rr := range *fa.Referrers() {
							if st, ok := rr.(*ssa.Store); ok && st.Addr == fa && rec(st.Val, d-1) {
								return true
							}
						}
					}
				}
				return false
			}
			return rec(x.X, d-1)
		case *ssa.Alloc:
			for _, st := range storesTo(x) {
				if rec(st.Val, d-1) {
					return true
				}
			}
			// stores into parts of the local (fields of elements of a literal table, ...)
			for _, st := range partStores(x, 4) {
				if rec(st.Val, d-1) {
					return true
				}
			}
			return false
		}
		if in, ok := v.(ssa.Instruction); ok {
			for _, op := range in.Operands(nil) {
				if *op != nil && rec(*op, d-1) {
					return true
				}
			}
		}
		return false
	}
	return rec(v, 40)
}

// ---------------------------------------------------------------------
// returns

// RetSite is one way a function returns: the result values with locals and
// phis resolved to (value, conditions) alternatives.
type RetAlt struct {
	Val   ssa.Value
	Conds []Cond
	Block *ssa.BasicBlock
	Ret   *ssa.Return
}

// ReturnAlts expands result #idx of every return of fn into alternatives:
// a phi result is split per incoming edge (with the edge's conditions); a
// result spilled to a local because of defer is resolved to the stores.
func ReturnAlts(fn *ssa.Function, idx int) []RetAlt {
	setRoot(fn)
	var out []RetAlt
	for _, b := range fn.Blocks {
		if len(b.Instrs) == 0 || b == fn.Recover {
			continue
		}
		ret, ok := b.Instrs[len(b.Instrs)-1].(*ssa.Return)
		if !ok || idx >= len(ret.Results) {
			continue
		}
		out = append(out, expandAlt(ret.Results[idx], CondsOf(b), b, ret, 6)...)
	}
	if len(helpers) > 0 {
		out = splitByHelperReturns(out)
	}
	return out
}

// splitByHelperReturns: an alternative reached under a condition on the result
// of a transparent helper (`n, done := pick(a, b); if done { return x }`) is one
// alternative per return of the helper that is consistent with the condition,
// each with the conditions on the way to that return (adopt.go).
func splitByHelperReturns(alts []RetAlt) []RetAlt {
	var out []RetAlt
	for _, a := range alts {
		split := false
		if a.Block != nil {
			f := a.Block.Parent()
			for _, blk := range f.Blocks {
				if split || (blk != a.Block && !blk.Dominates(a.Block)) {
					continue
				}
				for _, in := range blk.Instrs {
					h := helperCall(in)
					if h == nil {
						continue
					}
					rets := consistentReturns(h, in.(ssa.CallInstruction), a.Block)
					if len(rets) < 2 || len(rets) == len(allReturns(h.fn)) {
						continue
					}
					for _, hr := range rets {
						cs := append(append([]Cond{}, a.Conds...), condsLocal(hr.Block())...)
						out = append(out, RetAlt{a.Val, cs, a.Block, a.Ret})
					}
					split = true
					break
				}
			}
		}
		if !split {
			out = append(out, a)
		}
	}
	return out
}

func expandAlt(v ssa.Value, conds []Cond, b *ssa.BasicBlock, ret *ssa.Return, depth int) []RetAlt {
	if depth == 0 {
		return []RetAlt{{v, conds, b, ret}}
	}
	// a returned call of a transparent helper: the helper's own ways of returning
	if mi, isMI := v.(*ssa.MakeInterface); isMI && len(helpers) > 0 {
		if hv, _ := helperValue(mi.X); hv != nil {
			return expandAlt(mi.X, conds, b, ret, depth)
		}
	}
	if hv, idx := helperValue(v); hv != nil {
		var out []RetAlt
		for _, hb := range hv.fn.Blocks {
			if len(hb.Instrs) == 0 || hb == hv.fn.Recover {
				continue
			}
			hret, ok := hb.Instrs[len(hb.Instrs)-1].(*ssa.Return)
			if !ok || idx >= len(hret.Results) {
				continue
			}
			for _, a := range expandAlt(hret.Results[idx], condsLocal(hb), hb, hret, depth-1) {
				cs := append(append([]Cond{}, conds...), a.Conds...)
				out = append(out, RetAlt{a.Val, cs, b, ret})
			}
		}
		if len(out) > 0 {
			return out
		}
	}
	switch x := v.(type) {
	case *ssa.Phi:
		var out []RetAlt
		for i, e := range x.Edges {
			p := x.Block().Preds[i]
			out = append(out, expandAlt(e, CondsOfEdge(p, x.Block()), p, ret, depth-1)...)
		}
		return out
	case *ssa.UnOp:
		if a, ok := x.X.(*ssa.Alloc); ok && x.Op == token.MUL && !a.Heap {
			// defer-spilled result: the store preceding the load in the same
			// block, else every store to the local is an alternative
			if x.Block() == b {
				var last *ssa.Store
				for _, in := range b.Instrs {
					if in == ssa.Instruction(x) {
						break
					}
					if st, ok := in.(*ssa.Store); ok && st.Addr == a {
						last = st
					}
				}
				if last != nil {
					return expandAlt(last.Val, conds, b, ret, depth-1)
				}
			}
			var out []RetAlt
			for _, st := range storesTo(a) {
				out = append(out, expandAlt(st.Val, CondsOf(st.Block()), st.Block(), ret, depth-1)...)
			}
			if len(out) > 0 {
				return out
			}
		}
	}
	return []RetAlt{{v, conds, b, ret}}
}

// condsHave reports whether conds contain value-predicate p with polarity pol.
func condsHave(conds []Cond, pol bool, p VP) bool {
	for _, c := range conds {
		if c.Pol == pol && (p(c.V) || len(helpers) > 0 && p(unhelp(c.V))) {
			return true
		}
	}
	return false
}

func condsString(cs []Cond) string {
	var s []string
	for _, c := range cs {
		n := ""
		if !c.Pol {
			n = "!"
		}
		s = append(s, n+Path(c.V))
	}
	sort.Strings(s)
	return "{" + strings.Join(s, "; ") + "}"
}

// ---------------------------------------------------------------------
// misc helpers

// instrIndex returns the index of in within its block.
func instrIndex(in ssa.Instruction) int {
	for i, x := range in.Block().Instrs {
		if x == in {
			return i
		}
	}
	return -1
}

// domInstr: does instruction a dominate instruction b (same function)?
func domInstr(a, b ssa.Instruction) bool {
	if a.Parent() != b.Parent() {
		return domAcross(a, b, 4) // across the call of a transparent helper (adopt.go)
	}
	return domLocal(a, b)
}

// reachableFrom returns the blocks reachable from b (excluding b unless on a cycle).
func reachableFrom(b *ssa.BasicBlock, stop func(*ssa.BasicBlock) bool) map[*ssa.BasicBlock]bool {
	seen := map[*ssa.BasicBlock]bool{}
	var walk func(x *ssa.BasicBlock)
	walk = func(x *ssa.BasicBlock) {
		for _, s := range x.Succs {
			if seen[s] {
				continue
			}
			seen[s] = true
			if stop != nil && stop(s) {
				continue
			}
			walk(s)
		}
	}
	walk(b)
	return seen
}

// fieldStores lists stores in fn whose address is a FieldAddr of the named field.
func fieldStores(fn *ssa.Function, field string) []*ssa.Store {
	var out []*ssa.Store
	Instrs(fn, func(in ssa.Instruction) {
		if st, ok := in.(*ssa.Store); ok {
			if fa, ok := st.Addr.(*ssa.FieldAddr); ok && fieldName(fa.X.Type(), fa.Field) == field {
				out = append(out, st)
			}
		}
	})
	return out
}

func structOf(t types.Type) string {
	if p, ok := t.Underlying().(*types.Pointer); ok {
		t = p.Elem()
	}
	if n, ok := t.(*types.Named); ok {
		return n.Obj().Name()
	}
	return ""
}

func posOf(in ssa.Instruction) token.Pos {
	if in.Pos().IsValid() {
		return in.Pos()
	}
	// fall back to the nearest positioned instruction in the block
	for _, x := range in.Block().Instrs {
		if x.Pos().IsValid() {
			return x.Pos()
		}
	}
	return in.Parent().Pos()
}

// margs returns the logical method arguments of a call (without the receiver),
// for static method calls and interface invokes alike.
func margs(c ssa.CallInstruction) []ssa.Value {
	cc := c.Common()
	if cc.IsInvoke() {
		return cc.Args
	}
	if f := cc.StaticCallee(); f != nil && f.Signature.Recv() != nil && len(cc.Args) > 0 {
		return cc.Args[1:]
	}
	return cc.Args
}

// resolve follows loads of single-store locals and value-preserving conversions.
func resolve(v ssa.Value) ssa.Value {
	for i := 0; i < 8; i++ {
		v = peel(v)
		u, ok := v.(*ssa.UnOp)
		if !ok || u.Op != token.MUL {
			return v
		}
		a, ok := u.X.(*ssa.Alloc)
		if !ok {
			return v
		}
		sv := singleStore(a)
		if sv == nil {
			return v
		}
		v = sv
	}
	return v
}

// sameVal: identical SSA value after resolving locals, or identical access
// path for values that are not fresh allocations.
func sameVal(a, b ssa.Value) bool {
	if a == nil || b == nil {
		return false
	}
	ra, rb := resolve(a), resolve(b)
	if ra == rb {
		return true
	}
	switch ra.(type) {
	case *ssa.MakeMap, *ssa.MakeSlice, *ssa.MakeChan, *ssa.Alloc, *ssa.Call:
		return false
	}
	return Path(ra) == Path(rb)
}

// condSig renders a condition compactly for frozen signature tables: loop
// counters and log plumbing are dropped, local-variable indirections resolved.
func condSig(c Cond) string {
	p := Path(c.V)
	if strings.Contains(p, "phi[") && strings.Contains(p, "builtin.len(") && strings.Contains(p, " < ") {
		return "" // rangeindex loop condition
	}
	if strings.HasPrefix(p, "next(range(") && strings.HasSuffix(p, "#0") {
		return "" // map range loop condition
	}
	if !c.Pol {
		return "!" + p
	}
	return p
}

// retSigs: one signature per return alternative of result idx: "<value> <= cond; cond".
func retSigs(fn *ssa.Function, idx int) []string {
	var out []string
	for _, alt := range ReturnAlts(fn, idx) {
		var cs []string
		for _, c := range alt.Conds {
			if s := condSig(c); s != "" {
				cs = append(cs, s)
			}
		}
		sort.Strings(cs)
		out = append(out, Path(alt.Val)+" <= "+strings.Join(cs, " ; "))
	}
	sort.Strings(out)
	return out
}

// normSig removes loop-counter noise: "[(phi[...] + 1)]" -> "[i]", any other "phi[...]" index chains collapse.
func normSig(s string) string {
	for {
		i := strings.Index(s, "[(phi[")
		if i < 0 {
			break
		}
		depth, j := 0, i
		for ; j < len(s); j++ {
			if s[j] == '[' {
				depth++
			} else if s[j] == ']' {
				depth--
				if depth == 0 {
					break
				}
			}
		}
		if j >= len(s) {
			break
		}
		s = s[:i] + "[i]" + s[j+1:]
	}
	return s
}

// checkSigs compares the return-alternative signatures of result idx of fn
// with a frozen, hand-reviewed table: a missing or additional way of
// returning a value is reported with the signature itself.
func checkSigs(r *Report, rule, key string, fn *ssa.Function, idx int, want []string) {
	got := map[string]int{}
	for _, s := range retSigs(fn, idx) {
		got[normSig(s)]++
	}
	wantSet := map[string]bool{}
	for _, s := range want {
		wantSet[s] = true
		if got[s] == 0 {
			r.Fail(rule, key+"/missing:"+sigKey(s), fn.Pos(), "the function no longer returns [%s]", trunc(s, 400))
		} else {
			r.Hold(rule, key+"/"+sigKey(s), fn.Pos(), 1, "returns [%s]", trunc(s, 300))
		}
	}
	var extra []string
	for s := range got {
		if !wantSet[s] {
			extra = append(extra, s)
		}
	}
	sort.Strings(extra)
	for _, s := range extra {
		r.Fail(rule, key+"/unexpected:"+sigKey(s), fn.Pos(), "new way of returning a result, not in the reviewed table: [%s]", trunc(s, 500))
	}
}

func sigKey(s string) string {
	// short stable key: value + hash of the conditions
	h := uint32(2166136261)
	for i := 0; i < len(s); i++ {
		h = (h ^ uint32(s[i])) * 16777619
	}
	v := s
	if i := strings.Index(s, " <= "); i >= 0 {
		v = s[:i]
	}
	return fmt.Sprintf("%s#%08x", trunc(v, 40), h)
}

// loopExits lists the edges that leave the natural loop of header h from a
// block other than h itself, except edges into a block that returns a non-nil error.
func loopExits(h *ssa.BasicBlock, allowErrorReturn bool) []string {
	body := map[*ssa.BasicBlock]bool{h: true}
	for _, b := range h.Parent().Blocks {
		if b != h && h.Dominates(b) && (b == h || reachableFrom(b, nil)[h]) {
			body[b] = true
		}
	}
	var out []string
	for b := range body {
		for _, su := range b.Succs {
			if body[su] || b == h {
				continue
			}
			if allowErrorReturn {
				if ret, ok := su.Instrs[len(su.Instrs)-1].(*ssa.Return); ok && len(ret.Results) > 0 {
					last := ret.Results[len(ret.Results)-1]
					if types.Identical(last.Type(), types.Universe.Lookup("error").Type()) && !isNilConst(resolveRet(last, su)) {
						continue
					}
				}
			}
			out = append(out, fmt.Sprintf("block %d (%s) -> block %d (%s)", b.Index, b.Comment, su.Index, su.Comment))
		}
	}
	sort.Strings(out)
	return out
}

// resolveRet resolves a defer-spilled result (load of a local) to the value stored in the same block.
func resolveRet(v ssa.Value, b *ssa.BasicBlock) ssa.Value {
	if u, ok := v.(*ssa.UnOp); ok && u.Op == token.MUL {
		if a, ok := u.X.(*ssa.Alloc); ok {
			var last ssa.Value
			for _, in := range b.Instrs {
				if st, ok := in.(*ssa.Store); ok && st.Addr == ssa.Value(a) {
					last = st.Val
				}
			}
			if last != nil {
				return last
			}
		}
	}
	return v
}

// loopHeadersOf returns the headers of the natural loops of fn (targets of
// back edges: a successor that dominates its predecessor).
func loopHeadersOf(fn *ssa.Function) []*ssa.BasicBlock {
	seen := map[*ssa.BasicBlock]bool{}
	var out []*ssa.BasicBlock
	for _, b := range fn.Blocks {
		for _, s := range b.Succs {
			if s.Dominates(b) && !seen[s] {
				seen[s] = true
				out = append(out, s)
			}
		}
	}
	sort.Slice(out, func(i, j int) bool { return out[i].Index < out[j].Index })
	return out
}

// loopBreaks lists edges from inside the loop of header h (not from h itself)
// to the block the header exits to: `break` statements. Returns from inside
// the loop are not listed.
func loopBreaks(h *ssa.BasicBlock) []string {
	body := map[*ssa.BasicBlock]bool{h: true}
	for _, b := range h.Parent().Blocks {
		if b != h && h.Dominates(b) && reachableFrom(b, nil)[h] {
			body[b] = true
		}
	}
	var exit *ssa.BasicBlock
	for _, s := range h.Succs {
		if !body[s] {
			exit = s
		}
	}
	var out []string
	if exit == nil {
		return out
	}
	for b := range body {
		if b == h {
			continue
		}
		for _, s := range b.Succs {
			if s == exit {
				out = append(out, fmt.Sprintf("block %d (%s) -> block %d (%s)", b.Index, b.Comment, s.Index, s.Comment))
			}
		}
	}
	sort.Strings(out)
	return out
}

// helperValue: v is the (idx-th) result of a call of a transparent helper.
func helperValue(v ssa.Value) (*helper, int) {
	if len(helpers) == 0 {
		return nil, 0
	}
	switch x := v.(type) {
	case *ssa.Call:
		if h := helperCall(x); h != nil && h.fn.Signature.Results().Len() == 1 {
			return h, 0
		}
	case *ssa.Extract:
		if c, ok := x.Tuple.(*ssa.Call); ok {
			if h := helperCall(c); h != nil {
				return h, x.Index
			}
		}
	}
	return nil, 0
}

// unhelp: the value behind a call of a transparent helper that has a single way of returning it.
func unhelp(v ssa.Value) ssa.Value {
	// a field of a local carrier struct that is written exactly once: the value written
	for i := 0; i < 3; i++ {
		u, ok := v.(*ssa.UnOp)
		if !ok || u.Op != token.MUL {
			break
		}
		fa, ok := u.X.(*ssa.FieldAddr)
		if !ok {
			break
		}
		a, ok := fa.X.(*ssa.Alloc)
		if !ok {
			break
		}
		sv := singleFieldStore(a, fa.Field)
		if sv == nil {
			break
		}
		v = sv
	}
	for i := 0; i < 4 && len(helpers) > 0; i++ {
		// a parameter of a transparent helper with one call site: the argument
		if p, isP := v.(*ssa.Parameter); isP {
			h := helperFor(p.Parent())
			if h == nil {
				break
			}
			sites := sitesInContext(h)
			if len(sites) != 1 {
				break
			}
			moved := false
			for j, q := range p.Parent().Params {
				if q == p && j < len(sites[0].Common().Args) {
					v = sites[0].Common().Args[j]
					moved = true
				}
			}
			if !moved {
				break
			}
			continue
		}
		h, idx := helperValue(v)
		if h == nil {
			break
		}
		rv := helperResult(h, idx)
		if rv == nil {
			break
		}
		v = rv
		// a result spilled to a local because of a defer: the value stored there
		if u, ok := v.(*ssa.UnOp); ok && u.Op == token.MUL {
			if a, isA := u.X.(*ssa.Alloc); isA {
				if sv := singleStore(a); sv != nil {
					v = sv
				}
			}
		}
	}
	return v
}

// typedField: "<named struct type>.<field>" when v is (a load of) a field of a
// named struct, "" otherwise. Identifies a value by what it is a part of
// rather than by the name of the variable that holds the struct.
func typedField(v ssa.Value) string {
	v = peel(v)
	if u, ok := v.(*ssa.UnOp); ok && u.Op == token.MUL {
		v = u.X
	}
	switch x := v.(type) {
	case *ssa.FieldAddr:
		_, n := namedOf(x.X.Type())
		return n + "." + fieldName(x.X.Type(), x.Field)
	case *ssa.Field:
		_, n := namedOf(x.X.Type())
		return n + "." + fieldName(x.X.Type(), x.Field)
	}
	return ""
}

// singleFieldStore: the value stored into field f of local struct a when the
// field is written exactly once in the function, the struct is never written
// as a whole after its zero initialisation, and its address does not escape
// through a call.
func singleFieldStore(a *ssa.Alloc, f int) ssa.Value {
	var sv ssa.Value
	n := 0
	for _, r := range *a.Referrers() {
		switch x := r.(type) {
		case *ssa.FieldAddr:
			if x.Field != f {
				continue
			}
			for _, rr := range *x.Referrers() {
				switch y := rr.(type) {
				case *ssa.Store:
					if y.Addr == ssa.Value(x) {
						n++
						sv = y.Val
					}
				case *ssa.UnOp:
				default:
					return nil // address of the field passed on
				}
			}
		case *ssa.Store:
			if x.Addr == ssa.Value(a) {
				if _, zero := x.Val.(*ssa.Const); !zero {
					return nil
				}
			}
		case *ssa.UnOp, *ssa.DebugRef:
		case ssa.CallInstruction:
			return nil
		}
	}
	if n != 1 {
		return nil
	}
	return sv
}

// partStores: the stores into addresses derived from v by field and index steps.
func partStores(v ssa.Value, depth int) []*ssa.Store {
	var out []*ssa.Store
	if depth == 0 || v.Referrers() == nil {
		return nil
	}
	for _, r := range *v.Referrers() {
		var sub ssa.Value
		switch fa := r.(type) {
		case *ssa.FieldAddr:
			sub = fa
		case *ssa.IndexAddr:
			sub = fa
		case *ssa.Slice:
			sub = fa
		}
		if sub == nil || sub.Referrers() == nil {
			continue
		}
		for _, rr := range *sub.Referrers() {
			if st, ok := rr.(*ssa.Store); ok && st.Addr == sub {
				out = append(out, st)
			}
		}
		out = append(out, partStores(sub, depth-1)...)
	}
	return out
}

// freeVarBinding: the value bound to the captured variable where the closure is made.
func freeVarBinding(fv *ssa.FreeVar) ssa.Value {
	f := fv.Parent()
	if f == nil || f.Parent() == nil {
		return nil
	}
	idx := -1
	for i, x := range f.FreeVars {
		if x == fv {
			idx = i
		}
	}
	if idx < 0 {
		return nil
	}
	for _, b := range f.Parent().Blocks {
		for _, in := range b.Instrs {
			if mc, ok := in.(*ssa.MakeClosure); ok && mc.Fn == ssa.Value(f) && idx < len(mc.Bindings) {
				return mc.Bindings[idx]
			}
		}
	}
	return nil
}
