package main

import (
	"fmt"
	"go/constant"
	"go/token"
	"go/types"
	"sort"
	"strings"

	"golang.org/x/tools/go/ssa"
)

// GuardRow is one row of the frozen guarded-by table (DESIGN §3 S1).
type GuardRow struct {
	Pkg    string
	Struct string
	Fields []string
	Mutex  string
	// Except: function id suffix -> reason (one named symbol each).
	Except map[string]string
	// MinSites: hand-confirmed minimum number of access sites.
	MinSites int
	// NoEscape: a guarded map/slice field must not be returned (it would be
	// used outside the critical section).
	NoEscape bool
	// Only: if set, the row applies only to functions whose id satisfies it.
	Only func(fnID string) bool
}

func (w *World) interfaces() []*types.Interface {
	var out []*types.Interface
	for _, p := range w.Pkgs {
		sc := p.Types.Scope()
		for _, n := range sc.Names() {
			if tn, ok := sc.Lookup(n).(*types.TypeName); ok {
				if it, ok := tn.Type().Underlying().(*types.Interface); ok {
					if _, isTP := tn.Type().(*types.TypeParam); !isTP {
						out = append(out, it)
					}
				}
			}
		}
	}
	return out
}

func typesImplements(t types.Type, it *types.Interface) (ok bool) {
	defer func() {
		if recover() != nil {
			ok = true
		}
	}()
	if it.NumMethods() == 0 {
		return false
	}
	if n, isN := deref(t).(*types.Named); isN && n.TypeParams().Len() > 0 {
		// generic receiver: decide by method names (conservative)
		ms := types.NewMethodSet(types.NewPointer(n))
		for i := 0; i < it.NumMethods(); i++ {
			if ms.Lookup(it.Method(i).Pkg(), it.Method(i).Name()) == nil {
				return false
			}
		}
		return true
	}
	if types.Implements(t, it) {
		return true
	}
	if _, isPtr := t.(*types.Pointer); !isPtr {
		return types.Implements(types.NewPointer(t), it)
	}
	return false
}

func deref(t types.Type) types.Type {
	if p, ok := t.Underlying().(*types.Pointer); ok {
		return p.Elem()
	}
	return t
}

// namedOf returns pkgpath and name of the (pointer to) named struct type.
func namedOf(t types.Type) (string, string) {
	t = deref(t)
	if n, ok := t.(*types.Named); ok {
		n = n.Origin()
		if n.Obj().Pkg() != nil {
			return n.Obj().Pkg().Path(), n.Obj().Name()
		}
		return "", n.Obj().Name()
	}
	return "", ""
}

// access is one use of a guarded field.
type access struct {
	In    ssa.Instruction
	Fn    *ssa.Function
	Write bool
	Base  ssa.Value
	Field string
	Kind  string
}

// fieldAccesses enumerates every access in lunar/* code to the given fields
// of struct pkg.name.
func (w *World) fieldAccesses(pkg, name string, fields []string) []access {
	want := map[string]bool{}
	for _, f := range fields {
		want[f] = true
	}
	var out []access
	for _, f := range w.lunarFns {
		if f.Origin() != nil {
			continue
		}
		if helperFor(f) != nil {
			continue // a transparent helper is visited as part of each of its callers (adopt.go)
		}
		Instrs(f, func(in ssa.Instruction) {
			fa, ok := in.(*ssa.FieldAddr)
			if !ok {
				return
			}
			p, n := namedOf(fa.X.Type())
			if p != pkg || n != name {
				return
			}
			fld := fieldName(fa.X.Type(), fa.Field)
			if !want[fld] {
				return
			}
			refs := fa.Referrers()
			if refs == nil {
				return
			}
			for _, rr := range *refs {
				switch x := rr.(type) {
				case *ssa.Store:
					if x.Addr == fa {
						out = append(out, access{x, f, true, fa.X, fld, "store"})
					}
				case *ssa.UnOp:
					if x.Op != token.MUL {
						continue
					}
					out = append(out, access{x, f, false, fa.X, fld, "load"})
					// uses of the loaded value that touch shared map/slice storage
					if x.Referrers() != nil {
						for _, u := range *x.Referrers() {
							switch y := u.(type) {
							case *ssa.MapUpdate:
								if y.Map == x {
									out = append(out, access{y, f, true, fa.X, fld, "mapupdate"})
								}
							case *ssa.Lookup:
								if y.X == x {
									out = append(out, access{y, f, false, fa.X, fld, "lookup"})
								}
							case *ssa.Range:
								out = append(out, access{y, f, false, fa.X, fld, "range"})
							case *ssa.Call:
								if b, ok := y.Call.Value.(*ssa.Builtin); ok && b.Name() == "delete" && len(y.Call.Args) > 0 && y.Call.Args[0] == x {
									out = append(out, access{y, f, true, fa.X, fld, "mapdelete"})
								}
							}
						}
					}
				case *ssa.Call:
					// address passed to sync/atomic is its own synchronisation
					if strings.HasPrefix(calleeID(x), "sync/atomic.") {
						continue
					}
					out = append(out, access{x, f, true, fa.X, fld, "addr-escapes-to-" + calleeShort(calleeID(x))})
				case *ssa.MakeInterface:
					// &x.field converted to an interface and handed to a callee (heap.Interface)
					if x.Referrers() != nil {
						for _, u := range *x.Referrers() {
							if c, ok := u.(*ssa.Call); ok {
								out = append(out, access{c, f, true, fa.X, fld, "addr-escapes-to-" + calleeShort(calleeID(c))})
							}
						}
					}
				case *ssa.FieldAddr, *ssa.IndexAddr:
					// nested field of a guarded struct field: treat as load+store site
					out = append(out, access{rr, f, false, fa.X, fld, "subfield"})
					if v, ok := rr.(ssa.Value); ok && v.Referrers() != nil {
						for _, u := range *v.Referrers() {
							if st, ok := u.(*ssa.Store); ok && st.Addr == v {
								out = append(out, access{st, f, true, fa.X, fld, "subfield-store"})
							}
						}
					}
				}
			}
		})
	}
	return out
}

func isFreshBase(v ssa.Value) bool {
	switch x := peel(v).(type) {
	case *ssa.Alloc:
		return true
	case *ssa.Parameter:
		// parameter of a transparent helper: fresh when every call passes a fresh object
		if h := helperFor(x.Parent()); h != nil && len(h.sites) > 0 {
			for i, q := range x.Parent().Params {
				if q != x {
					continue
				}
				for _, s := range h.sites {
					if i >= len(s.Common().Args) || !isFreshBase(s.Common().Args[i]) {
						return false
					}
				}
				return true
			}
		}
	case *ssa.UnOp:
		// load of a local that holds a fresh allocation
		if a, ok := x.X.(*ssa.Alloc); ok {
			if sv := singleStore(a); sv != nil {
				return isFreshBase(sv)
			}
		}
	}
	return false
}

// checkGB evaluates the guarded-by rule for the given rows.
func checkGB(w *World, r *Report, la *LockAn, rule string, rows []GuardRow) {
	for _, row := range rows {
		if w.Named(row.Pkg, row.Struct) == nil {
			r.Undec(rule, "GB/"+row.Struct, token.NoPos, "guarded struct %s.%s not found", row.Pkg, row.Struct)
			continue
		}
		accs := w.fieldAccesses(row.Pkg, row.Struct, row.Fields)
		type agg struct {
			n    int
			bad  []string
			pos  token.Pos
			excl string
		}
		per := map[string]*agg{}
		var order []string
		total := 0
		for _, a := range accs {
			if isFreshBase(a.Base) {
				continue // constructor: object not yet shared
			}
			if row.Only != nil && !row.Only(fnID(outermost(a.Fn))) {
				continue
			}
			total++
			fid := fnID(outermost(a.Fn))
			if a.Fn.Parent() != nil {
				fid += "$" + a.Fn.Name()
			}
			key := fmt.Sprintf("GB/%s.%s/%s", row.Struct, a.Field, shortFn(fid))
			g := per[key]
			if g == nil {
				g = &agg{pos: posOf(a.In)}
				per[key] = g
				order = append(order, key)
			}
			g.n++
			for suf, why := range row.Except {
				if idMatches(fnID(outermost(a.Fn)), suf) {
					g.excl = why
				}
			}
			if row.NoEscape && a.Kind == "load" {
				if v, ok := a.In.(ssa.Value); ok && v.Referrers() != nil {
					switch v.Type().Underlying().(type) {
					case *types.Map, *types.Slice:
						for _, u := range *v.Referrers() {
							esc := false
							switch y := u.(type) {
							case *ssa.Return:
								esc = true
							case *ssa.Store:
								if al, isA := y.Addr.(*ssa.Alloc); isA && y.Val == v && !al.Heap {
									// result spill local (defer): stored value is returned
									for _, rr := range *al.Referrers() {
										if ld, isL := rr.(*ssa.UnOp); isL && ld.Referrers() != nil {
											for _, r2 := range *ld.Referrers() {
												if _, isRet := r2.(*ssa.Return); isRet {
													esc = true
												}
											}
										}
									}
								}
							}
							if esc {
								g.bad = append(g.bad, fmt.Sprintf("guarded %s is returned at %s: callers iterate it outside the critical section while writers mutate it under the lock", a.Field, w.Pos(posOf(u))))
							}
						}
					}
				}
			}
			need := strings.TrimPrefix(Path(a.Base), "&") + "." + row.Mutex
			held := la.HeldAt(a.In)
			mode, ok := held[need]
			if !ok {
				g.bad = append(g.bad, fmt.Sprintf("%s of %s at %s without %s (held %s)", a.Kind, a.Field, w.Pos(posOf(a.In)), need, held))
			} else if a.Write && mode == 'R' {
				g.bad = append(g.bad, fmt.Sprintf("%s of %s at %s under read lock only", a.Kind, a.Field, w.Pos(posOf(a.In))))
			}
		}
		sort.Strings(order)
		for _, key := range order {
			g := per[key]
			switch {
			case len(g.bad) == 0:
				r.Hold(rule, key, g.pos, g.n, "%d access(es) all under %s", g.n, row.Mutex)
			case g.excl != "":
				r.Hold(rule, key, g.pos, g.n, "table exception: %s", g.excl)
			default:
				r.Fail(rule, key, g.pos, "guarded-by violated: %s", strings.Join(g.bad, "; "))
			}
		}
		// pairing: every function that takes the row's mutex releases it on
		// every return (directly, by defer, or it is an acquiring wrapper used
		// as such by its callers - none exists on the reviewed tree)
		nAcq := 0
		for _, f := range w.lunarFns {
			if f.Origin() != nil || !acquiresMutexOf(f, row.Pkg, row.Struct, row.Mutex) {
				continue
			}
			nAcq++
			fid := fnID(outermost(f))
			if f.Parent() != nil {
				fid += "$" + f.Name()
			}
			key := fmt.Sprintf("pairing/%s.%s/%s", row.Struct, row.Mutex, shortFn(fid))
			var bad []string
			for _, l := range la.Leaks(f) {
				if strings.HasSuffix(l.Key, "."+row.Mutex) {
					bad = append(bad, fmt.Sprintf("return at %s with %s still held", w.Pos(l.Ret.Pos()), l.Key))
				}
			}
			if len(bad) == 0 {
				r.Hold(rule, key, f.Pos(), 1, "every return of the function is reached with %s released (or released by a defer)", row.Mutex)
			} else {
				r.Fail(rule, key, f.Pos(), "lock not released on every exit: %s - the next operation on the same object blocks forever", strings.Join(bad, "; "))
			}
		}
		if nAcq == 0 {
			r.Undec(rule, "pairing/"+row.Struct+"."+row.Mutex, token.NoPos, "no function acquires %s.%s", row.Struct, row.Mutex)
		}
		if total < row.MinSites {
			r.Undec(rule, "GB/"+row.Struct+"/count", token.NoPos, "found %d access sites of %s.%v, hand-confirmed minimum %d", total, row.Struct, row.Fields, row.MinSites)
		}
	}
}

func shortFn(id string) string {
	if i := strings.LastIndex(id, "/"); i >= 0 {
		pre := ""
		if strings.HasPrefix(id, "(*") {
			pre = "(*"
		} else if strings.HasPrefix(id, "(") {
			pre = "("
		}
		return pre + id[i+1:]
	}
	return id
}

// litField: for a value that is a load of a composite-literal local (or a
// pointer to one), return the value stored into the named field.
func litField(v ssa.Value, field string) ssa.Value {
	out := litField0(v, field)
	if out == nil && len(helpers) > 0 {
		out = litField0(unhelp(peel(v)), field) // the literal is built by a transparent helper
	}
	if _, isP := out.(*ssa.Parameter); isP && len(helpers) > 0 {
		out = unhelp(out) // a helper's parameter: the argument of the call in focus
	}
	return out
}

func litField0(v ssa.Value, field string) ssa.Value {
	v = peel(v)
	var a *ssa.Alloc
	switch x := v.(type) {
	case *ssa.UnOp:
		a, _ = x.X.(*ssa.Alloc)
	case *ssa.Alloc:
		a = x
	}
	if a == nil || a.Referrers() == nil {
		return nil
	}
	var out ssa.Value
	for _, rr := range *a.Referrers() {
		fa, ok := rr.(*ssa.FieldAddr)
		if !ok || fieldName(fa.X.Type(), fa.Field) != field || fa.Referrers() == nil {
			continue
		}
		for _, u := range *fa.Referrers() {
			if st, ok := u.(*ssa.Store); ok && st.Addr == fa {
				out = st.Val
			}
		}
	}
	if out == nil && len(helpers) > 0 {
		// the object is handed to a transparent helper that sets the field (adopt.go): the
		// value stored there, a parameter of the helper being the argument of this call
		for _, rr := range *a.Referrers() {
			c, ok := rr.(ssa.CallInstruction)
			if !ok {
				continue
			}
			h := helperCall(c)
			if h == nil {
				continue
			}
			for i, arg := range c.Common().Args {
				if arg != ssa.Value(a) || i >= len(h.fn.Params) {
					continue
				}
				p := h.fn.Params[i]
				for _, pr := range *p.Referrers() {
					fa, ok := pr.(*ssa.FieldAddr)
					if !ok || fieldName(fa.X.Type(), fa.Field) != field || fa.Referrers() == nil {
						continue
					}
					for _, u := range *fa.Referrers() {
						if st, ok := u.(*ssa.Store); ok && st.Addr == fa {
							out = st.Val
							if q, isP := st.Val.(*ssa.Parameter); isP {
								for j, hp := range h.fn.Params {
									if hp == q && j < len(c.Common().Args) {
										out = c.Common().Args[j]
									}
								}
							}
						}
					}
				}
			}
		}
	}
	return out
}

// constOf returns the value of a package-level constant.
func (w *World) constOf(pkg, name string) constant.Value {
	p := w.ByPath[pkg]
	if p == nil {
		return nil
	}
	c, ok := p.Types.Scope().Lookup(name).(*types.Const)
	if !ok {
		return nil
	}
	return c.Val()
}

func isConstVal(v ssa.Value, c constant.Value) bool {
	k, ok := peel(v).(*ssa.Const)
	if !ok || k.Value == nil || c == nil {
		return false
	}
	return constant.Compare(k.Value, token.EQL, c)
}
