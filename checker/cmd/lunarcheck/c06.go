package main

import (
	"go/token"
	"go/types"
	"regexp"
	"strings"

	"golang.org/x/tools/go/ssa"
)

const pkgQProc = "lunar/engine/streams/processors/queue"

func init() {
	register(&Property{
		ID:   "C06",
		Mods: []string{modEngine},
		Explanation: "Decides structural necessary conditions of the flows-mode queue processor, not latency or admission order over interleavings: " +
			"(R1) single-signal typestate: the wait-group is released only by SetProcessedSuccess/SetProcessedTimeout, under the request's mutex, and each call site of those two holds the StartProcessing() licence of the same request (StartProcessing grants it only from state 'enqueued'); " +
			"(R2) success is signalled only when the quota admitted the request, a blocked head is re-enqueued, Dec'd and un-licensed; in drain mode nothing is admitted; " +
			"(R3) a request is registered only under localSize < maxQueueSize (the known non-atomic check-then-add is a recorded finding), registration precedes the heap enqueue; " +
			"(R4) heap order = (score, timestamp) ascending and every mutation of the heap slice goes through container/heap; (R5) the ordering timestamp of a re-enqueued request (recorded finding: stamped at re-enqueue); " +
			"(R6) the asynchronous clean-up is registered only after the request was accepted, and removes it from the watch list and the heap; " +
			"(R7) TTL goroutine and processing goroutine are started, expired = now after expireAt, cancellation drains and returns; queue state fields only under their mutexes; (R8) verdict encoding success/timeout -> Wait -> allowed/blocked. " +
			"NOT decided: latency, order of admissions over interleavings, liveness of the 100 ms loop.",
		RuleText: "obligation = (rule, anchored construct) on SSA of the current tree: who-calls inventory, licence condition at each call site, edge conditions, must-lockset, heap-mutation inventory, defer registration dominance",
		Run:      runC06,
	})
}

func runC06(w *World, r *Report) {
	hrQueueSizeParams(w, r, "R8")
	hrQueuedRequestIdentity(w, r, "R8")
	hrWatcherAlwaysStarts(w, r, "R7")
	hrWatcherGetsTheQueueTTL(w, r, "R7")
	hrOutputParamsWrittenInPlace(w, r, "R8")
	hrEnvOfItsOwn(w, r, "R8")
	hrTimeoutAboveTTL(w, r, "R8")
	hrScoreIsPriority(w, r, "R5")
	hrAddRequestCountsFirst(w, r, "R3")
	hrQueuePriority(w, r, "R5")
	hrWatchListCount(w, r, "R6")
	la := NewLockAn(w)
	checkGB(w, r, la, "R7", []GuardRow{
		{Pkg: pkgQProc, Struct: "Request", Fields: []string{"state", "result"}, Mutex: "inProcessMutex", MinSites: 6,
			Except: map[string]string{"Request).Wait": "result is read after waitGroup.Wait(); the writer stores it before waitGroup.Done() under the mutex, so the WaitGroup orders the accesses"}},
		{Pkg: pkgQProc, Struct: "RequestWatcher", Fields: []string{"requests"}, Mutex: "requestsMapMutex", MinSites: 4},
		{Pkg: pkgQProc, Struct: "RequestWatcher", Fields: []string{"requestsExpireAt"}, Mutex: "expireMapMutex", MinSites: 4},
		{Pkg: pkgLctx, Struct: "memoryQueue", Fields: []string{"queue"}, Mutex: "mutex", MinSites: 5},
	})

	// R1 typestate
	for _, cs := range w.CallSites("queue.Request).setSignal", "sync.WaitGroup).Done") {
		if fnPkgPath(cs.Fn) != pkgQProc {
			continue
		}
		id := fnID(outermost(cs.Fn))
		if isCallTo(cs.In, "sync.WaitGroup).Done") {
			r.Check(idMatches(id, "Request).setSignal"), "R1", "callers(waitGroup.Done)/"+shortFn(id), posOf(cs.In), "the wait group is released in %s (allowed: setSignal)", id)
			continue
		}
		ok := idMatches(id, "Request).SetProcessedSuccess") || idMatches(id, "Request).SetProcessedTimeout")
		_, held := la.HeldAt(cs.In)["param:r.inProcessMutex"]
		r.Check(ok && held, "R1", "callers(setSignal)/"+shortFn(id), posOf(cs.In), "setSignal called from %s under the request mutex=%v", id, held)
	}
	nSig := 0
	for _, cs := range w.CallSites("queue.Request).SetProcessedSuccess", "queue.Request).SetProcessedTimeout") {
		nSig++
		req := cs.In.Common().Args[0]
		lic := condsHave(CondsOf(cs.In.Block()), true, func(v ssa.Value) bool {
			c, ok := peel(v).(*ssa.Call)
			return ok && isCallTo(c, "queue.Request).StartProcessing") && sameVal(c.Call.Args[0], req)
		})
		id := fnID(outermost(cs.Fn))
		r.Check(lic, "R1", "signal-needs-licence/"+shortFn(id)+"/"+cs.In.Common().StaticCallee().Name(), posOf(cs.In),
			"%s is called only after StartProcessing() of the same request returned true (otherwise a request that was already signalled gets a second WaitGroup.Done: panic 'negative WaitGroup counter')", cs.In.Common().StaticCallee().Name())
	}
	if nSig < 3 {
		r.Undec("R1", "signal-sites", token.NoPos, "expected the 3 confirmed signal sites (processing loop, TTL watcher, drain), found %d", nSig)
	}
	enq, procg := w.constOf(pkgQProc, "requestEnqueued"), w.constOf(pkgQProc, "requestProcessing")
	if sp := w.Fn(pkgQProc, "Request.StartProcessing"); sp == nil {
		r.Undec("R1", "StartProcessing", token.NoPos, "function not found")
	} else {
		isState := pathRe(`^param:r\.state$`)
		for _, alt := range ReturnAlts(sp, 0) {
			b, isC := constBool(alt.Val)
			op, _ := FindRel(relsOfConds(alt.Conds), isState, func(v ssa.Value) bool { return isConstVal(v, enq) })
			st := fieldStores(sp, "state")
			stored := false
			for _, s := range st {
				if domInstr(s, alt.Ret) && isConstVal(s.Val, procg) {
					stored = true
				}
			}
			if isC && b {
				r.Check(op == "==" && stored, "R1", "StartProcessing/grants-only-from-enqueued", posOf(alt.Ret), "true is returned under state %q requestEnqueued (want ==) after state := requestProcessing=%v", op, stored)
			} else {
				r.Check(isC && op == "!=" && !stored, "R1", "StartProcessing/refuses-otherwise", posOf(alt.Ret), "false is returned under state %q requestEnqueued without changing the state", op)
			}
		}
	}
	succ, tmo := w.constOf(pkgQProc, "requestSuccess"), w.constOf(pkgQProc, "requestTimeout")
	for _, p := range []struct {
		fn  string
		val interface{ ExactString() string }
	}{{"SetProcessedSuccess", succ}, {"SetProcessedTimeout", tmo}} {
		f := w.Fn(pkgQProc, "Request."+p.fn)
		if f == nil {
			r.Undec("R8", p.fn, token.NoPos, "function not found")
			continue
		}
		rs := fieldStores(f, "result")
		sig := CallsIn(f, false, "queue.Request).setSignal")
		ok := len(rs) == 1 && len(sig) == 1 && domInstr(rs[0], sig[0])
		if ok {
			k, isK := peel(rs[0].Val).(*ssa.Const)
			ok = isK && k.Value != nil && p.val != nil && k.Value.ExactString() == p.val.ExactString()
		}
		r.Check(ok, "R8", p.fn+"/stores-its-result-before-signal", f.Pos(), "%s stores its own result constant before releasing the waiter, exactly once", p.fn)
	}
	if wt := w.Fn(pkgQProc, "Request.Wait"); wt != nil {
		ok := false
		for _, alt := range ReturnAlts(wt, 0) {
			if rel, isRel := NormCond(Cond{V: alt.Val, Pol: true}); isRel && rel.Op == "==" && Path(rel.L) == "param:r.result" && isConstVal(rel.R, succ) {
				ok = len(CallsIn(wt, false, "sync.WaitGroup).Wait")) == 1 || c06LatchWait(wt) != ""
			}
		}
		r.Check(ok, "R8", "Wait/true-iff-success", wt.Pos(), "Wait blocks on the wait group and returns result == requestSuccess")
	}

	qp := func(n string) *ssa.Function { return w.Fn(pkgQProc, "queueProcessor."+n) }
	// R2
	if tp := qp("tryProcessQueueItems"); tp == nil {
		r.Undec("R2", "tryProcessQueueItems", token.NoPos, "function not found")
	} else {
		ss := CallsIn(tp, false, "queue.Request).SetProcessedSuccess")
		pq := CallsIn(tp, false, "queueProcessor).processQueueItem")
		stp := CallsIn(tp, false, "queue.Request).StopProcessing")
		ok := len(ss) == 1 && len(pq) == 1 && len(stp) == 1
		if ok {
			ok = condsHave(CondsOf(ss[0].Block()), true, func(v ssa.Value) bool { return v == pq[0].Value() }) &&
				condsHave(CondsOf(stp[0].Block()), false, func(v ssa.Value) bool { return v == pq[0].Value() }) &&
				sameVal(pq[0].Common().Args[1], ss[0].Common().Args[0]) && sameVal(stp[0].Common().Args[0], ss[0].Common().Args[0])
		}
		r.Check(ok, "R2", "tryProcessQueueItems/success-only-when-admitted", tp.Pos(), "SetProcessedSuccess on the processQueueItem==true edge, StopProcessing (licence returned) on the false edge, all on the same request")
	}
	if pi := qp("processQueueItem"); pi == nil {
		r.Undec("R2", "processQueueItem", token.NoPos, "function not found")
	} else {
		ck := CallsIn(pi, false, "queueProcessor).checkIfAllowed")
		re := CallsIn(pi, false, "SharedQueueI).Enqueue")
		ok := len(ck) == 1 && len(re) == 1
		if ok {
			isAl := func(v ssa.Value) bool {
				e, isE := v.(*ssa.Extract)
				return isE && e.Tuple == ck[0].Value() && e.Index == 0
			}
			for _, alt := range ReturnAlts(pi, 0) {
				b, isC := constBool(alt.Val)
				if !isC || !condsHave(alt.Conds, b, isAl) {
					ok = false
				}
				if isC && !b && !domInstr(re[0], alt.Ret) {
					ok = false
				}
			}
			ok = ok && condsHave(CondsOf(re[0].Block()), false, isAl) && strings.HasSuffix(Path(margs(re[0])[0]), "GetID(param:request)") && strings.HasSuffix(Path(margs(re[0])[1]), "GetPriority(param:request)")
		}
		r.Check(ok, "R2", "processQueueItem/true-iff-allowed-else-reenqueue", pi.Pos(), "returns true exactly when checkIfAllowed allowed; a blocked request is re-enqueued with its own id and priority before false is returned")
	}
	if ca := qp("checkIfAllowed"); ca == nil {
		r.Undec("R2", "checkIfAllowed", token.NoPos, "function not found")
	} else {
		al := CallsIn(ca, false, "QuotaResourceI).Allowed")
		dec := CallsIn(ca, false, "QuotaResourceI).Dec")
		ok := len(al) == 1 && len(dec) == 1
		if ok {
			isAl := func(v ssa.Value) bool {
				e, isE := v.(*ssa.Extract)
				return isE && e.Tuple == al[0].Value() && e.Index == 0
			}
			for _, alt := range ReturnAlts(ca, 0) {
				if b, isC := constBool(alt.Val); isC {
					if b {
						ok = false // true must be the quota's own verdict
					}
				} else if !isAl(alt.Val) {
					ok = false
				}
			}
			drain := false
			for _, alt := range ReturnAlts(ca, 0) {
				if b, isC := constBool(alt.Val); isC && !b && condsHave(alt.Conds, true, func(v ssa.Value) bool { return Path(v) == "param:p.inDrainMode" }) {
					drain = true
				}
			}
			ok = ok && drain && condsHave(CondsOf(dec[0].Block()), false, isAl) && condsHave(CondsOf(al[0].Block()), false, func(v ssa.Value) bool { return Path(v) == "param:p.inDrainMode" })
		}
		r.Check(ok, "R2", "checkIfAllowed/quota-verdict", ca.Pos(), "the verdict is the quota's Allowed() result, false in drain mode and on errors; a refused request gives its slot back (Dec)")
	}
	if pr := qp("prepareQuotaForNextAttempt"); pr != nil {
		inc := CallsIn(pr, false, "QuotaResourceI).Inc")
		r.Check(len(inc) == 1, "R2", "prepareQuotaForNextAttempt/inc", pr.Pos(), "each attempt is counted by quota.Inc before Allowed is consulted")
	}

	// R3 bound
	if es := qp("enqueueIfSlotAvailable"); es == nil {
		r.Undec("R3", "enqueueIfSlotAvailable", token.NoPos, "function not found")
	} else {
		add := CallsIn(es, false, "RequestWatcher).AddRequest")
		hq := CallsIn(es, false, "SharedQueueI).Enqueue")
		if len(add) != 1 || len(hq) != 1 {
			r.Undec("R3", "enqueueIfSlotAvailable/calls", es.Pos(), "expected one AddRequest and one Enqueue, found %d/%d", len(add), len(hq))
		} else {
			rels := Rels(add[0].Block())
			isCount := func(v ssa.Value) bool { return isCallTo0(v, "RequestWatcher).GetCount") }
			op, rel := FindRel(rels, isCount, pathRe(`^param:p\.maxQueueSize$`))
			r.Check(op == "<", "R3", "enqueueIfSlotAvailable/add-guard", posOf(add[0]), "AddRequest executes under GetCount() %q maxQueueSize (want <)", op)
			okShared := false
			for _, alt := range ReturnAlts(es, 0) {
				if b, isC := constBool(alt.Val); isC && !b {
					rl := relsOfConds(alt.Conds)
					a, _ := FindRel(rl, pathRe(`^param:p\.maxRedisQueueSize$`), func(v ssa.Value) bool { return isCallTo0(v, "SharedQueueI).Size") })
					bnd, _ := FindRel(rl, pathRe(`^param:p\.maxRedisQueueSize$`), func(v ssa.Value) bool { return isIntConst(v, -1) })
					if a == "<=" && bnd == ">" {
						okShared = true
					}
				}
			}
			// ... and no path on which the shared queue is bounded and full reaches the registration
			fullReaches := false
			nFull := 0
			for _, b := range es.Blocks {
				rl := Rels(b)
				a, _ := FindRel(rl, pathRe(`^param:p\.maxRedisQueueSize$`), func(v ssa.Value) bool { return isCallTo0(v, "SharedQueueI).Size") })
				bnd, _ := FindRel(rl, pathRe(`^param:p\.maxRedisQueueSize$`), func(v ssa.Value) bool { return isIntConst(v, -1) })
				if a == "<=" && bnd == ">" {
					nFull++
					if canReach(b, add[0].Block()) {
						fullReaches = true
					}
				}
			}
			okShared = okShared && nFull > 0 && !fullReaches
			r.Check(okShared, "R3", "enqueueIfSlotAvailable/shared-guard", posOf(add[0]), "a bounded shared queue (maxRedisQueueSize > -1) refuses when maxRedisQueueSize <= Size(), and no block where that holds reaches AddRequest")
			// `true` means: registered with the watcher and placed in the heap
			okTrue := true
			for _, alt := range ReturnAlts(es, 0) {
				b, isC := constBool(alt.Val)
				if !isC {
					okTrue = false
					continue
				}
				if b {
					op, _ := FindRel(relsOfConds(alt.Conds), func(v ssa.Value) bool { return v == hq[0].Value() }, isNilConst)
					if !domInstr(add[0], alt.Ret) || !domInstr(hq[0], alt.Ret) || op != "==" {
						okTrue = false
					}
				}
			}
			r.Check(okTrue, "R3", "enqueueIfSlotAvailable/true-only-when-enqueued", es.Pos(), "the function reports success only after AddRequest and a successful Enqueue (a request told to wait is always watched for its TTL)")
			r.Check(domInstr(add[0], hq[0]) && margs(hq[0])[0] != nil && strings.HasSuffix(Path(margs(hq[0])[0]), "GetID(param:req)") && Path(add[0].Common().Args[1]) == "param:req", "R3", "enqueueIfSlotAvailable/register-then-enqueue", posOf(hq[0]), "the request is registered with the watcher before its id enters the heap")
			// atomicity of check and increment
			atomic := false
			if rel != nil {
				if h := la.HeldAt(rel.Src.If); len(h) > 0 {
					for k := range h {
						if _, still := la.HeldAt(add[0])[k]; still && !unlockOnPath(rel.Src.If, add[0]) {
							atomic = true
						}
					}
				}
			}
			if atomic {
				r.Hold("R3", "enqueueIfSlotAvailable/check-and-add-atomic", posOf(add[0]), 1, "size check and registration are in one critical section")
			} else {
				r.Fail("R3", "enqueueIfSlotAvailable/check-and-add-atomic", posOf(add[0]), "GetCount() is compared with maxQueueSize and AddRequest increments the counter later, with no common lock: N concurrent arrivals at size max-1 all pass the check and the queue holds max-1+N waiters")
			}
		}
	}
	// R4 heap order and mutation ownership
	if less := w.Fn(pkgLctx, "PriorityQueue.Less"); less == nil {
		r.Undec("R4", "Less", token.NoPos, "function not found")
	} else {
		// lower score first, ties by earlier arrival: decided over the nine orderings (comparator.go)
		checkLessByOrderings(w, r, "R4", less, "score", "timestamp")
	}
	for _, a := range w.fieldAccesses(pkgLctx, "memoryQueue", []string{"queue"}) {
		if isFreshBase(a.Base) {
			continue
		}
		switch {
		case a.Kind == "store" || a.Kind == "subfield-store":
			r.Fail("R4", "heap-mutation/"+shortFn(fnID(outermost(a.Fn))), posOf(a.In), "the heap slice is written directly (%s): heap order is only maintained by container/heap operations", a.Kind)
		case strings.HasPrefix(a.Kind, "addr-escapes-to-"):
			ok := strings.Contains(a.Kind, "heap.")
			r.Check(ok, "R4", "heap-mutation/"+shortFn(fnID(outermost(a.Fn)))+"/"+strings.TrimPrefix(a.Kind, "addr-escapes-to-"), posOf(a.In), "&q.queue is handed only to container/heap (%s)", a.Kind)
		}
	}
	for _, f := range []string{"memoryQueue.Remove", "memoryQueue.Enqueue", "memoryQueue.DequeueIfValueRelevant"} {
		fn := w.Fn(pkgLctx, f)
		if fn == nil {
			r.Undec("R4", f, token.NoPos, "function not found")
			continue
		}
		bad := 0
		Instrs(fn, func(in ssa.Instruction) {
			if st, ok := in.(*ssa.Store); ok {
				if _, isIA := st.Addr.(*ssa.IndexAddr); isIA && strings.Contains(Path(st.Addr), "q.queue") {
					bad++
				}
			}
		})
		want := map[string]string{"memoryQueue.Remove": "container/heap.Remove", "memoryQueue.Enqueue": "container/heap.Push", "memoryQueue.DequeueIfValueRelevant": "container/heap.Pop"}[f]
		r.Check(bad == 0 && len(CallsIn(fn, false, want)) == 1, "R4", f+"/uses-"+want[strings.LastIndex(want, ".")+1:], fn.Pos(), "%s changes the heap through %s only (direct element stores: %d)", f, want, bad)
	}
	// R5 re-enqueue keeps arrival order
	if me := w.Fn(pkgLctx, "memoryQueue.Enqueue"); me != nil {
		for _, c := range CallsIn(me, false, "container/heap.Push") {
			ts := litField(c.Common().Args[1], "timestamp")
			fresh := ts != nil && Derives(ts, func(x ssa.Value) bool { return isCallTo0(x, "time.Now", "clock.Clock).Now") })
			if fresh {
				r.Fail("R5", "Enqueue/ordering-timestamp-is-enqueue-time", posOf(c), "the heap's tie-break timestamp is taken when the item is (re-)enqueued (%s): a blocked head that is re-enqueued goes behind later arrivals of its priority", trunc(Path(ts), 60))
			} else {
				r.Hold("R5", "Enqueue/ordering-timestamp-from-caller", posOf(c), 1, "the tie-break timestamp is supplied by the caller")
			}
		}
	}
	// R6 cleanup registration
	if en := qp("enqueue"); en == nil {
		r.Undec("R6", "enqueue", token.NoPos, "function not found")
	} else {
		slot := CallsIn(en, false, "queueProcessor).enqueueIfSlotAvailable")
		var def *ssa.Defer
		Instrs(en, func(in ssa.Instruction) {
			if d, ok := in.(*ssa.Defer); ok {
				def = d
			}
		})
		ok := len(slot) == 1 && def != nil
		if ok {
			ok = domInstr(slot[0], def) && condsHave(CondsOf(def.Block()), true, func(v ssa.Value) bool { return v == slot[0].Value() })
			// the deferred closure starts removeRequest for this request
			okRm := false
			if mc, isMC := def.Call.Value.(*ssa.MakeClosure); isMC {
				for _, g := range CallsIn(mc.Fn.(*ssa.Function), false, "queueProcessor).removeRequest") {
					if _, isGo := g.(*ssa.Go); isGo {
						okRm = true
					}
				}
			}
			waits := CallsIn(en, false, "queue.Request).Wait")
			ok = ok && okRm && len(waits) == 1 && domInstr(def, waits[0])
		}
		// ... and nowhere else in enqueue: every removeRequest (called, deferred or started as a
		// goroutine, also from a closure) lies behind the acceptance
		if len(slot) == 1 {
			var stray []string
			for _, g := range Anons(en) {
				for _, c := range CallsIn(g, false, "queueProcessor).removeRequest") {
					anchor := ssa.Instruction(c)
					if g != en {
						// a closure: what matters is where the closure is created/deferred
						Instrs(en, func(in ssa.Instruction) {
							if mc, isMC := in.(*ssa.MakeClosure); isMC && mc.Fn == ssa.Value(g) {
								anchor = mc
							}
						})
					}
					if !condsHave(expandConds(CondsOf(anchor.Block())), true, func(v ssa.Value) bool { return v == slot[0].Value() }) {
						stray = append(stray, w.Pos(c.Pos()))
					}
				}
			}
			ok = ok && len(stray) == 0
			_ = stray
		}
		r.Check(ok, "R6", "enqueue/cleanup-registered-after-acceptance", en.Pos(), "the deferred removeRequest is registered only on the enqueueIfSlotAvailable()==true edge and before Wait(): a rejected arrival must not decrement the waiter count")
		for _, alt := range ReturnAlts(en, 0) {
			if b, isC := constBool(alt.Val); isC {
				isW := func(v ssa.Value) bool { return isCallTo0(v, "queue.Request).Wait") }
				isSlot := func(v ssa.Value) bool { return len(slot) == 1 && v == slot[0].Value() }
				okV := b && condsHave(alt.Conds, true, isW) || !b && (condsHave(alt.Conds, false, isW) || condsHave(alt.Conds, false, isSlot))
				r.Check(okV, "R8", "enqueue/result/"+boolS(b), posOf(alt.Ret), "enqueue returns %v exactly on Wait()==%v (or on a rejected slot)", b, b)
			}
		}
	}
	if rm := qp("removeRequest"); rm != nil {
		a := CallsIn(rm, false, "RequestWatcher).RemoveFromWatchList")
		b := CallsIn(rm, false, "SharedQueueI).Remove")
		ok := len(a) == 1 && len(b) == 1 && Path(a[0].Common().Args[1]) == "param:reqID" && Path(margs(b[0])[0]) == "param:reqID"
		r.Check(ok, "R6", "removeRequest/watcher-and-heap", rm.Pos(), "removeRequest removes the id from the watch list and from the heap")
	}
	if ex := qp("Execute"); ex != nil {
		okM := true
		n := 0
		for _, alt := range ReturnAlts(ex, 0) {
			nm, _ := constString(litField(alt.Val, "Name"))
			isE := func(v ssa.Value) bool { return isCallTo0(v, "queueProcessor).enqueue") }
			switch nm {
			case "allowed":
				n++
				okM = okM && condsHave(alt.Conds, true, isE)
			case "blocked":
				n++
				okM = okM && condsHave(alt.Conds, false, isE)
			default:
				okM = false
			}
		}
		r.Check(okM && n == 2, "R8", "Execute/allowed-blocked-mapping", ex.Pos(), "Execute emits 'allowed' exactly when enqueue() returned true and 'blocked' otherwise")
	}

	// R7 wiring
	if np := w.Fn(pkgQProc, "NewProcessor"); np != nil {
		n := 0
		Instrs(np, func(in ssa.Instruction) {
			if g, ok := in.(*ssa.Go); ok && isCallTo(g, "queueProcessor).process") {
				n++
			}
		})
		r.Check(n == 1, "R7", "NewProcessor/starts-process", np.Pos(), "the processing goroutine is started once")
	}
	if nw := w.Fn(pkgQProc, "NewRequestsWatcher"); nw != nil {
		n := 0
		Instrs(nw, func(in ssa.Instruction) {
			if g, ok := in.(*ssa.Go); ok && isCallTo(g, "RequestWatcher).manageTTLs") {
				n++
			}
		})
		r.Check(n == 1, "R7", "NewRequestsWatcher/starts-ttl", nw.Pos(), "the TTL goroutine is started once")
	}
	if pc := qp("process"); pc != nil {
		dr := CallsIn(pc, false, "queueProcessor).drainQueue")
		tp := CallsIn(pc, false, "queueProcessor).tryProcessQueueItems")
		ok := len(dr) == 1 && len(tp) == 1
		if ok {
			isErr := func(cs []Cond, pol bool) bool {
				for _, rel := range relsOfConds(cs) {
					if strings.HasSuffix(Path(rel.L), ".Err(") || strings.Contains(Path(rel.L), "Context).Err(") {
						if (rel.Op == "!=") == pol && isNilConst(rel.R) {
							return true
						}
					}
				}
				return false
			}
			ok = isErr(CondsOf(dr[0].Block()), true) && isErr(CondsOf(tp[0].Block()), false)
			// after drain the goroutine returns
			ret := false
			if _, isRet := dr[0].Block().Instrs[len(dr[0].Block().Instrs)-1].(*ssa.Return); isRet {
				ret = true
			}
			ok = ok && ret && reachableFrom(tp[0].Block(), nil)[tp[0].Block()]
		}
		r.Check(ok, "R7", "process/drain-on-cancel", pc.Pos(), "on context cancellation the loop drains the queue and returns; otherwise it keeps processing")
	}
	if dq := qp("drainQueue"); dq != nil {
		st := fieldStores(dq, "inDrainMode")
		sa := CallsIn(dq, false, "RequestWatcher).StopAll")
		ok := len(st) == 1 && len(sa) == 1 && domInstr(st[0], sa[0])
		if ok {
			b, isC := constBool(st[0].Val)
			ok = isC && b
		}
		r.Check(ok, "R7", "drainQueue/drain-mode-then-stop-all", dq.Pos(), "drain mode is set before all waiters are released")
	}
	if ne := w.Fn(pkgQProc, "RequestWatcher.notifyExpiredRequests"); ne != nil {
		ok := false
		for _, c := range CallsIn(ne, false, "builtin.append") {
			for _, rel := range Rels(c.Block()) {
				if rel.Op == ">" && isCallTo0(rel.L, "clock.Clock).Now") && strings.HasSuffix(Path(rel.R), "#2") && strings.Contains(Path(rel.R), "requestsExpireAt") {
					ok = true
				}
			}
		}
		r.Check(ok, "R7", "notifyExpiredRequests/expired-is-now-after-expireAt", ne.Pos(), "a request is collected as expired exactly when now is after its expireAt")
	}
	if nr := w.Fn(pkgQProc, "NewRequest"); nr != nil {
		for _, alt := range ReturnAlts(nr, 0) {
			ea := litField(alt.Val, "expireAt")
			st := litField(alt.Val, "state")
			ok := ea != nil && strings.HasSuffix(Path(ea), ", param:ttl)") && strings.Contains(Path(ea), "Now(") && isConstVal(st, w.constOf(pkgQProc, "requestEnqueued")) && (len(CallsIn(nr, false, "sync.WaitGroup).Add")) == 1 || c06LatchMade(w, alt.Val))
			r.Check(ok, "R7", "NewRequest/expire-and-single-wait", posOf(alt.Ret), "a new request expires at now+ttl, starts enqueued and holds exactly one wait-group count")
		}
	}
	r.Min("R1", 7)
	r.Min("R2", 4)
	r.Min("R3", 4)
	checkHeapContract(w, r, "R4", pkgLctx, "PriorityQueue")
	r.Min("R4", 12)
	r.Min("R5", 1)
	r.Min("R6", 2)
	c06NextExpiry(w, r)
	// arrival order inside one priority is decided by the enqueue timestamp: it has the clock's
	// full (nanosecond) resolution, so a burst inside one millisecond still orders
	if enq := w.Fn(pkgLctx, "memoryQueue.Enqueue"); enq != nil {
		var ts ssa.Value
		Instrs(enq, func(in ssa.Instruction) {
			if a, ok := in.(*ssa.Alloc); ok && structOf(a.Type()) == "Item" {
				if v := litField(a, "timestamp"); v != nil {
					ts = v
				}
			}
		})
		r.Check(ts != nil && isCallTo0(ts, "(time.Time).UnixNano"), "R5", "Enqueue/tie-break-timestamp-has-nanosecond-resolution", enq.Pos(), "Item.timestamp = %s (want time.Now().UnixNano())", trunc(Path(ts), 60))
	}
	c06RequestStateMachine(w, r)
	c06WatchListOwnership(w, r)
	r.Min("R7", 11)
	r.Min("R8", 6)
}

func hasShared(rels []Rel) bool {
	for _, rel := range rels {
		if strings.Contains(Path(rel.L), "maxRedisQueueSize") || strings.Contains(Path(rel.R), "maxRedisQueueSize") {
			return true
		}
	}
	return false
}

// c06NextExpiry: the TTL watcher wakes up at the earliest expiry of ALL watched
// requests (a minimum with no filter), never later than one default TTL.
var c06InitRe = regexp.MustCompile(`^\(time\.Time\)\.Add\(\(clock\.Clock\)\.Now\(param:(\w+)\.clock\), param:(\w+)\.defaultTTL\)$`)

func c06NextExpiry(w *World, r *Report) {
	// anchored by what it does, not by its name: the one place of the package that stores a
	// loop-carried value into nextExpireAt (today recalculateNextExpireAt; the same statements
	// inlined into their only caller are the same obligation)
	storedIn := func(f *ssa.Function) ssa.Value {
		var stored ssa.Value
		for _, c := range CallsIn(f, false, "atomic.Value).Store") {
			if strings.HasSuffix(Path(c.Common().Args[0]), ".nextExpireAt") {
				stored = c.Common().Args[1]
			}
		}
		return stored
	}
	f := w.Fn(pkgQProc, "RequestWatcher.recalculateNextExpireAt")
	if f == nil {
		var cands []*ssa.Function
		for _, g := range w.lunarFns {
			if g.Pkg != nil && g.Pkg.Pkg.Path() == pkgQProc && g.Parent() == nil && helperFor(g) == nil {
				if _, isPhi := peel(storedIn(g)).(*ssa.Phi); isPhi {
					cands = append(cands, g)
				}
			}
		}
		if len(cands) != 1 {
			r.Undec("R7", "recalculateNextExpireAt", token.NoPos, "function not found (%d functions store a computed minimum into nextExpireAt)", len(cands))
			return
		}
		f = cands[0]
	}
	stored := storedIn(f)
	phi, ok := peel(stored).(*ssa.Phi)
	if !ok {
		r.Undec("R7", "recalculateNextExpireAt/stored", f.Pos(), "the value stored into nextExpireAt is not a loop-carried minimum: %s", trunc(Path(stored), 80))
		return
	}
	isEntry := func(v ssa.Value) bool {
		e, ok := v.(*ssa.Extract)
		if !ok || e.Index != 2 {
			return false
		}
		n, ok := e.Tuple.(*ssa.Next)
		return ok && strings.HasSuffix(Path(n.Iter), ".requestsExpireAt)") && strings.Contains(Path(n.Iter), "range(param:")
	}
	okInit, okMin, nEntry := false, true, 0
	var extra []string
	for i, e := range phi.Edges {
		switch {
		case e == ssa.Value(phi):
		case isEntry(e):
			nEntry++
			for _, c := range CondsOf(phi.Block().Preds[i]) {
				if c.If != nil && c.If.Block().Parent() == phi.Parent() && !phi.Block().Dominates(c.If.Block()) {
					continue // decided before the loop is entered: the same for every entry
				}
				if x, isX := c.V.(*ssa.Extract); isX && x.Index == 0 {
					continue // range has a next element
				}
				rel, isRel := NormCond(c)
				if isRel && rel.Op == "<" && isEntry(rel.L) && rel.R == ssa.Value(phi) {
					continue
				}
				if isRel && rel.Op == ">" && isEntry(rel.R) && rel.L == ssa.Value(phi) {
					continue
				}
				okMin = false
				extra = append(extra, trunc(Path(c.V), 70))
			}
		default:
			p := Path(e)
			okInit = c06InitRe.MatchString(p)
		}
	}
	r.Check(okInit && okMin && nEntry == 1, "R7", "recalculateNextExpireAt/minimum-over-all-entries", phi.Pos(),
		"next wake-up = min(now+defaultTTL, every watched expiry): starts at now+defaultTTL=%v, replaced by an entry exactly when the entry is earlier (extra conditions %v)", okInit, extra)
}

// c06RequestStateMachine: the per-request state machine that licenses the
// single verdict: each transition stores the reviewed state/result pair before
// signalling, and signalling is exactly one WaitGroup.Done.
func c06RequestStateMachine(w *World, r *Report) {
	if ss := w.Fn(pkgQProc, "Request.setSignal"); ss == nil {
		r.Undec("R1", "Request.setSignal", token.NoPos, "function not found")
	} else {
		d := CallsIn(ss, false, "sync.WaitGroup).Done")
		okWG := len(d) == 1 && len(CondsOf(d[0].Block())) == 0 && alwaysRuns(d[0]) && strings.HasSuffix(Path(d[0].Common().Args[0]), "r.waitGroup")
		// the same hand-over written with a channel: one send on (or close of) the request's own channel
		okCh := len(d) == 0 && c06LatchSignal(ss) != ""
		r.Check(okWG || okCh, "R1", "setSignal/releases-the-waiter-once", ss.Pos(), "setSignal is one unconditional waitGroup.Done on the request's own wait group (or one send on / close of the request's own latch channel)")
	}
	constName := func(v ssa.Value) string {
		for _, n := range []string{"requestEnqueued", "requestProcessing", "requestProcessed", "requestSuccess", "requestTimeout"} {
			if c := w.constOf(pkgQProc, n); c != nil && isConstVal(v, c) {
				// state and result enumerations may share numeric values: disambiguate by type
				if k, ok := peel(v).(*ssa.Const); ok {
					if obj := w.ByPath[pkgQProc].Types.Scope().Lookup(n); obj != nil && types.Identical(obj.Type(), k.Type()) {
						return n
					}
				}
			}
		}
		return "?"
	}
	for _, tr := range []struct {
		fn            string
		state, result string
		signals       bool
	}{
		{"StopProcessing", "requestEnqueued", "", false},
		{"SetProcessedSuccess", "requestProcessed", "requestSuccess", true},
		{"SetProcessedTimeout", "requestProcessed", "requestTimeout", true},
	} {
		f := w.Fn(pkgQProc, "Request."+tr.fn)
		if f == nil {
			r.Undec("R1", "Request."+tr.fn, token.NoPos, "function not found")
			continue
		}
		st, rs := fieldStores(f, "state"), fieldStores(f, "result")
		sig := CallsIn(f, false, "Request).setSignal")
		ok := len(st) == 1 && constName(st[0].Val) == tr.state && len(CondsOf(st[0].Block())) == 0
		if tr.result != "" {
			ok = ok && len(rs) == 1 && constName(rs[0].Val) == tr.result && len(CondsOf(rs[0].Block())) == 0
		} else {
			ok = ok && len(rs) == 0
		}
		if tr.signals {
			ok = ok && len(sig) == 1 && len(CondsOf(sig[0].Block())) == 0 && domInstr(st[0], sig[0]) && (len(rs) == 0 || domInstr(rs[0], sig[0]))
		} else {
			ok = ok && len(sig) == 0
		}
		r.Check(ok, "R1", "transition/"+tr.fn, f.Pos(), "%s stores state=%s result=%s unconditionally%s", tr.fn, tr.state, tr.result, map[bool]string{true: " and then signals once", false: " and does not signal"}[tr.signals])
	}
	// the shared heap drops exactly the entry of the given request id
	if rm := w.Fn(pkgLctx, "memoryQueue.Remove"); rm == nil {
		r.Undec("R6", "memoryQueue.Remove", token.NoPos, "function not found")
	} else {
		hr := CallsIn(rm, false, "container/heap.Remove")
		ok := len(hr) == 1
		if ok {
			idx := hr[0].Common().Args[1]
			op, rel := FindRel(Rels(hr[0].Block()), func(v ssa.Value) bool { return strings.HasSuffix(Path(v), ".value") }, pathRe(`^param:item$`))
			ok = op == "==" && rel != nil
			if ok {
				// the compared element is the one at the removed index
				l := rel.L
				if Path(l) == "param:item" {
					l = rel.R
				}
				ok = Derives(l, func(x ssa.Value) bool { return x == idx }) || strings.Contains(Path(l), Path(idx))
			}
		}
		if !ok && len(hr) == 1 {
			// accepted idiom: i := slices.IndexFunc(queue, func(e) bool { return e.value == item }); if i < 0 { return }
			if c, isC := peel(hr[0].Common().Args[1]).(*ssa.Call); isC && isCallTo(c, "slices.IndexFunc") && len(c.Call.Args) == 2 {
				pred := false
				if mc, isMC := c.Call.Args[1].(*ssa.MakeClosure); isMC {
					if pf, isF := mc.Fn.(*ssa.Function); isF {
						alts := ReturnAlts(pf, 0)
						pred = len(alts) == 1
						for _, alt := range alts {
							rel, isRel := NormCond(Cond{V: alt.Val, Pol: true})
							l, rr := "", ""
							if isRel {
								l, rr = Path(rel.L), Path(rel.R)
							}
							isItem := func(p string) bool { return strings.TrimPrefix(p, "*") == "free:item" }
							if !isRel || rel.Op != "==" || !(strings.HasSuffix(l, ".value") && isItem(rr) || strings.HasSuffix(rr, ".value") && isItem(l)) {
								pred = false
							}
						}
					}
				}
				op, _ := FindRel(Rels(hr[0].Block()), func(v ssa.Value) bool { return v == ssa.Value(c) }, func(v ssa.Value) bool { return isIntConst(v, 0) })
				ok = pred && op == ">=" && strings.HasSuffix(Path(c.Call.Args[0]), ".queue")
			}
		}
		r.Check(ok, "R6", "memoryQueue.Remove/removes-the-entry-of-that-id", rm.Pos(), "heap.Remove(i) executes only where queue[i].value == item")
	}
}

// c06WatchListOwnership: entries leave the TTL watch list only through
// RemoveFromWatchList (called when a request has received its verdict). The
// expiry pass itself must not drop an entry: it may have lost the
// StartProcessing arbitration, and a request that goes back to "enqueued" still
// needs its TTL verdict.
func c06WatchListOwnership(w *World, r *Report) {
	n := 0
	for _, f := range w.lunarFns {
		if f.Origin() != nil || fnPkgPath(f) != pkgQProc {
			continue
		}
		Instrs(f, func(in ssa.Instruction) {
			c, ok := in.(*ssa.Call)
			if !ok {
				return
			}
			b, isB := c.Call.Value.(*ssa.Builtin)
			if !isB || b.Name() != "delete" {
				return
			}
			p := Path(c.Call.Args[0])
			if !strings.HasSuffix(p, ".requestsExpireAt") && !strings.HasSuffix(p, ".requests") {
				return
			}
			if _, sn := namedOf(fieldBaseType(c.Call.Args[0])); sn != "RequestWatcher" {
				return
			}
			n++
			id := shortFn(fnID(outermost(f)))
			r.Check(id == "(*queue.RequestWatcher).RemoveFromWatchList", "R6", "watch-list/only-RemoveFromWatchList-deletes/"+id+"/"+p[strings.LastIndex(p, ".")+1:], posOf(c), "%s is deleted from in %s", p[strings.LastIndex(p, ".")+1:], id)
		})
	}
	if n < 2 {
		r.Undec("R6", "watch-list/deleters", token.NoPos, "expected the two deletes of RemoveFromWatchList, found %d", n)
	}
}

// fieldBaseType: for a load of x.f returns the type of x.
func fieldBaseType(v ssa.Value) types.Type {
	if u, ok := v.(*ssa.UnOp); ok {
		if fa, ok := u.X.(*ssa.FieldAddr); ok {
			return fa.X.Type()
		}
	}
	return types.Typ[types.Invalid]
}

// The request's wake-up latch written with a channel instead of a WaitGroup.
// c06LatchSignal: setSignal sends once on (or closes) a channel field of the request, on every path;
// returns the field ("" if not so) and, via the suffix "!", that the send is non-blocking.
func c06LatchSignal(ss *ssa.Function) string {
	field := ""
	n := 0
	Instrs(ss, func(in ssa.Instruction) {
		switch x := in.(type) {
		case *ssa.Send:
			n++
			if alwaysRuns(x) {
				field = typedField(x.Chan)
			}
		case *ssa.Select:
			n++
			if len(x.States) == 1 && x.States[0].Dir == types.SendOnly && alwaysRuns(x) {
				field = typedField(x.States[0].Chan)
				if !x.Blocking {
					field += "!"
				}
			}
		case *ssa.Call:
			if b, isB := x.Call.Value.(*ssa.Builtin); isB && b.Name() == "close" {
				n++
				if alwaysRuns(x) {
					field = typedField(x.Call.Args[0])
				}
			}
		}
	})
	if n != 1 || !strings.HasPrefix(strings.TrimSuffix(field, "!"), "Request.") {
		return ""
	}
	return field
}

// c06LatchWait: Wait receives from a channel field of the request.
func c06LatchWait(wt *ssa.Function) string {
	field := ""
	Instrs(wt, func(in ssa.Instruction) {
		if u, isU := in.(*ssa.UnOp); isU && u.Op == token.ARROW {
			field = typedField(u.X)
		}
	})
	if !strings.HasPrefix(field, "Request.") {
		return ""
	}
	return field
}

// c06LatchMade: the constructor makes that channel; when the signal is a non-blocking send the
// channel has room for it (an unbuffered latch loses a wake-up that comes before the waiter).
func c06LatchMade(w *World, req ssa.Value) bool {
	ss, wt := w.Fn(pkgQProc, "Request.setSignal"), w.Fn(pkgQProc, "Request.Wait")
	if ss == nil || wt == nil {
		return false
	}
	sig, wait := c06LatchSignal(ss), c06LatchWait(wt)
	if sig == "" || wait == "" || strings.TrimSuffix(sig, "!") != wait {
		return false
	}
	fld := strings.TrimPrefix(wait, "Request.")
	mk, isMk := peel(litField(req, fld)).(*ssa.MakeChan)
	if !isMk {
		return false
	}
	size, isK := constInt(mk.Size)
	if strings.HasSuffix(sig, "!") {
		return isK && size >= 1
	}
	return true
}
